#!/bin/bash
# The repository's pinned baseline with the verif guard OFF (no build tags): the command of /root/.vp/BASELINE.json
# for the single Go module at /repo.
cd /repo || exit 2
export GOPROXY=off GOSUMDB=off GOTOOLCHAIN=local GOFLAGS=-mod=mod
go build ./... && go test -json -vet=off -count=1 -timeout 25m ./...
