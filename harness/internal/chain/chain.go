// Package chain builds real mitum blocks through the production path: launch.GenesisBlockGenerator,
// isaac.DefaultProposalProcessor with the five built-in operation processors wired like launch.POperationProcessorsMap,
// launch.NewBlockWriterFunc (isaacblock.Writer + LocalFSWriter) and isaacdatabase.Center over an in-memory leveldb.
package chain

import (
	"context"
	"fmt"
	"os"
	"sort"
	"sync"

	"github.com/pkg/errors"
	"github.com/spikeekips/mitum/base"
	"github.com/spikeekips/mitum/isaac"
	isaacblock "github.com/spikeekips/mitum/isaac/block"
	isaacdatabase "github.com/spikeekips/mitum/isaac/database"
	isaacoperation "github.com/spikeekips/mitum/isaac/operation"
	"github.com/spikeekips/mitum/launch"
	leveldbstorage "github.com/spikeekips/mitum/storage/leveldb"
	"github.com/spikeekips/mitum/util"
	"github.com/spikeekips/mitum/util/encoder"
	jsonenc "github.com/spikeekips/mitum/util/encoder/json"
	"github.com/spikeekips/mitum/util/fixedtree"
	"github.com/spikeekips/mitum/util/hint"
	"verif/internal/gen"
)

type Opts struct {
	NSuffrage int            // genesis suffrage = gen.Local(0..NSuffrage-1); gen.Local(0) is the block signer
	Threshold base.Threshold // default 67
	Policy    *isaac.NetworkPolicy
	Storage   *leveldbstorage.Storage // default: fresh mem storage
	Root      string                  // default: fresh temp dir
}

type ProcOpts struct {
	MaxWorkerSize    int64 // default 8
	WriterWorkerSize int64 // default = MaxWorkerSize
	// BeforeGetOperation/BeforeGetState are called inside the processor's worker goroutines (scheduling noise injectors)
	BeforeGetOperation func(index int)
	BeforeGetState     func(key string)
	// GetOperationOverride, if set and returning handled=true, replaces the lookup of the operation (fetch failures)
	GetOperationOverride func(oph, fact util.Hash) (op base.Operation, err error, handled bool)
}

type World struct {
	Encs      *encoder.Encoders
	Enc       *jsonenc.Encoder
	NetworkID base.NetworkID
	Threshold base.Threshold
	Local     base.LocalNode
	St        *leveldbstorage.Storage
	Perm      isaac.PermanentDatabase
	DB        *isaacdatabase.Center
	Root      string
	Readers   *isaac.BlockItemReaders
	Maps      []base.BlockMap // committed block maps by height
	ownRoot   bool
	mu        sync.Mutex
}

var registerOnce sync.Once

func registerExtra(encs *encoder.Encoders) {
	registerOnce.Do(func() {
		must(encs.AddDetail(encoder.DecodeDetail{Hint: base.DummyStateValueHint, Instance: base.DummyStateValue{}}))
		must(encs.AddDetail(encoder.DecodeDetail{Hint: FillerFactHint, Instance: FillerFact{}}))
		must(encs.AddDetail(encoder.DecodeDetail{Hint: FillerOperationHint, Instance: FillerOperation{}}))
	})
}

func must(err error) {
	if err != nil {
		panic(err)
	}
}

// OpenDB opens permanent database + center on st (also used for reopen).
func OpenDB(st *leveldbstorage.Storage, encs *encoder.Encoders, enc encoder.Encoder) (isaac.PermanentDatabase, *isaacdatabase.Center, error) {
	perm, err := isaacdatabase.NewLeveldbPermanent(st, encs, enc, 0)
	if err != nil {
		return nil, nil, err
	}

	db, err := isaacdatabase.NewCenter(st, encs, enc, perm, func(h base.Height) (isaac.BlockWriteDatabase, error) {
		return isaacdatabase.NewLeveldbBlockWrite(h, st, encs, enc), nil
	})
	if err != nil {
		return nil, nil, err
	}

	return perm, db, nil
}

// New creates a world and its genesis block.
func New(o Opts) (*World, error) {
	encs, enc := gen.Encoders()
	registerExtra(encs)

	w := &World{Encs: encs, Enc: enc, NetworkID: gen.NetworkID, Threshold: o.Threshold, Local: gen.Local(0), St: o.Storage, Root: o.Root}
	if w.Threshold == 0 {
		w.Threshold = 67
	}

	if o.NSuffrage < 1 {
		o.NSuffrage = 3
	}

	if w.St == nil {
		w.St = leveldbstorage.NewMemStorage()
	}

	if w.Root == "" {
		root, err := os.MkdirTemp("", "verif-chain")
		if err != nil {
			return nil, err
		}

		w.Root = root
		w.ownRoot = true
	}

	perm, db, err := OpenDB(w.St, encs, enc)
	if err != nil {
		return nil, err
	}

	w.Perm, w.DB = perm, db

	w.Readers = isaac.NewBlockItemReaders(w.Root, encs, nil)
	if err := w.Readers.Add(isaacblock.LocalFSWriterHint, isaacblock.NewDefaultItemReaderFunc(3)); err != nil {
		return nil, err
	}

	policy := isaac.DefaultNetworkPolicy()
	if o.Policy != nil {
		policy = *o.Policy
	}

	nodes := make([]base.Node, o.NSuffrage)
	for i := range nodes {
		nodes[i] = gen.Local(i)
	}

	g := launch.NewGenesisBlockGenerator(w.Local, w.NetworkID, encs, db, w.Root,
		[]base.Fact{
			isaacoperation.NewSuffrageGenesisJoinFact(nodes, w.NetworkID),
			isaacoperation.NewGenesisNetworkPolicyFact(policy),
		},
		func() (base.BlockMap, bool, error) {
			return isaac.BlockItemReadersDecode[base.BlockMap](w.Readers.Item, base.GenesisHeight, base.BlockItemMap, nil)
		},
	)

	gm, err := g.Generate()
	if err != nil {
		return nil, errors.WithMessage(err, "genesis")
	}

	w.Maps = []base.BlockMap{gm}

	return w, nil
}

func (w *World) Close() {
	if w.DB != nil {
		_ = w.DB.Close()
	}

	if w.ownRoot {
		_ = os.RemoveAll(w.Root)
	}
}

func (w *World) Last() base.BlockMap { return w.Maps[len(w.Maps)-1] }

func (w *World) NextHeight() base.Height { return w.Last().Manifest().Height() + 1 }

// Members returns the current suffrage (from the database's last suffrage proof) as local nodes, sorted by address.
func (w *World) Members() []base.LocalNode {
	proof, found, err := w.DB.LastSuffrageProof()
	if err != nil || !found {
		panic(fmt.Sprintf("no suffrage proof: %v", err))
	}

	suf, err := proof.Suffrage()
	if err != nil {
		panic(err)
	}

	var ls []base.LocalNode

	for _, n := range suf.Nodes() {
		l := gen.LocalByAddress(n.Address())
		if l == nil {
			panic("unknown suffrage node " + n.Address().String())
		}

		ls = append(ls, l)
	}

	sort.Slice(ls, func(i, j int) bool { return ls[i].Address().String() < ls[j].Address().String() })

	return ls
}

// OperationProcessors wires the five built-in processors exactly like launch.POperationProcessorsMap (no candidate limiter).
func (w *World) OperationProcessors() *hint.CompatibleSet[isaac.NewOperationProcessorInternalFunc] {
	db := w.DB
	th := w.Threshold
	set := hint.NewCompatibleSet[isaac.NewOperationProcessorInternalFunc](1 << 9)

	_ = set.Add(isaacoperation.SuffrageCandidateHint, func(height base.Height, getStatef base.GetStateFunc) (base.OperationProcessor, error) {
		policy := db.LastNetworkPolicy()
		if policy == nil {
			return nil, nil
		}

		return isaacoperation.NewSuffrageCandidateProcessor(height, getStatef, nil, nil, policy.SuffrageCandidateLifespan())
	})
	_ = set.Add(isaacoperation.SuffrageJoinHint, func(height base.Height, getStatef base.GetStateFunc) (base.OperationProcessor, error) {
		if db.LastNetworkPolicy() == nil {
			return nil, nil
		}

		return isaacoperation.NewSuffrageJoinProcessor(height, th, getStatef, nil, nil)
	})
	_ = set.Add(isaac.SuffrageExpelOperationHint, func(height base.Height, getStatef base.GetStateFunc) (base.OperationProcessor, error) {
		if db.LastNetworkPolicy() == nil {
			return nil, nil
		}

		return isaacoperation.NewSuffrageExpelProcessor(height, getStatef, nil, nil)
	})
	_ = set.Add(isaacoperation.SuffrageDisjoinHint, func(height base.Height, getStatef base.GetStateFunc) (base.OperationProcessor, error) {
		return isaacoperation.NewSuffrageDisjoinProcessor(height, getStatef, nil, nil)
	})
	_ = set.Add(isaacoperation.NetworkPolicyHint, func(height base.Height, getStatef base.GetStateFunc) (base.OperationProcessor, error) {
		return isaacoperation.NewNetworkPolicyProcessor(height, th, getStatef, nil, nil)
	})

	return set
}

// Pending is a processed-but-unsaved block.
type Pending struct {
	W        *World
	Proposal base.ProposalSignFact
	PP       *isaac.DefaultProposalProcessor
	Manifest base.Manifest
	IVP      base.INITVoteproof
	Voters   []base.LocalNode
	Expels   []base.SuffrageExpelOperation
}

// Propose builds the signed proposal listing ops (in the given order) for the next height.
func (w *World) Propose(ops []base.Operation) isaac.ProposalSignFact {
	point := base.NewPoint(w.NextHeight(), 0)

	ophs := make([][2]util.Hash, len(ops))
	for i := range ops {
		ophs[i] = [2]util.Hash{ops[i].Hash(), ops[i].Fact().Hash()}
	}

	return gen.Proposal(point, w.Local, w.Last().Manifest().Hash(), ophs)
}

// Process runs the proposal processor for proposal pr over the current last block. expels (may be nil) are carried by the
// INIT expel voteproof; they must be signed sufficiently for full validation. The block is not saved.
func (w *World) Process(pr base.ProposalSignFact, ops []base.Operation, expels []base.SuffrageExpelOperation, o ProcOpts) (*Pending, error) {
	if o.MaxWorkerSize < 1 {
		o.MaxWorkerSize = 8
	}

	if o.WriterWorkerSize < 1 {
		o.WriterWorkerSize = o.MaxWorkerSize
	}

	prev := w.Last().Manifest()
	point := pr.Point()

	opm := map[string]base.Operation{}
	opi := map[string]int{}

	for i := range ops {
		opm[ops[i].Hash().String()] = ops[i]
		opi[ops[i].Hash().String()] = i
	}

	oprs := w.OperationProcessors()

	args := isaac.NewDefaultProposalProcessorArgs()
	args.MaxWorkerSize = o.MaxWorkerSize
	args.NewWriterFunc = launch.NewBlockWriterFunc(w.Local, w.NetworkID, w.Root, w.Enc, w.Enc, w.DB, o.WriterWorkerSize, 0)
	args.GetStateFunc = func(key string) (base.State, bool, error) {
		if o.BeforeGetState != nil {
			o.BeforeGetState(key)
		}

		return w.DB.State(key)
	}
	args.GetOperationFunc = func(_ context.Context, oph, fact util.Hash) (base.Operation, error) {
		if o.BeforeGetOperation != nil {
			o.BeforeGetOperation(opi[oph.String()])
		}

		if o.GetOperationOverride != nil {
			if op, err, handled := o.GetOperationOverride(oph, fact); handled {
				return op, err
			}
		}

		op, found := opm[oph.String()]
		if !found {
			return nil, isaac.ErrOperationNotFoundInProcessor.Errorf("operation not found")
		}

		return op, nil
	}
	args.NewOperationProcessorFunc = func(height base.Height, ht hint.Hint, getStatef base.GetStateFunc) (base.OperationProcessor, error) {
		v, found := oprs.Find(ht)
		if !found {
			return nil, nil
		}

		return v(height, getStatef)
	}

	pp, err := isaac.NewDefaultProposalProcessor(pr, prev, args)
	if err != nil {
		return nil, err
	}

	members := w.Members()

	var voters []base.LocalNode

	for _, m := range members {
		expelled := false

		for _, e := range expels {
			if e.ExpelFact().Node().Equal(m.Address()) {
				expelled = true
			}
		}

		if !expelled {
			voters = append(voters, m)
		}
	}

	ifact := isaac.NewINITBallotFact(point, prev.Hash(), pr.Fact().Hash(), gen.ExpelFactHashes(expels))
	ivp := gen.FullINITVoteproof(ifact, voters, w.Threshold, expels)

	m, err := pp.Process(context.Background(), ivp)
	if err != nil {
		_ = pp.Cancel()

		return nil, err
	}

	return &Pending{W: w, Proposal: pr, PP: pp, Manifest: m, IVP: ivp, Voters: voters, Expels: expels}, nil
}

// ACCEPTVoteproof signs an ACCEPT voteproof for the processed manifest by every voter.
func (p *Pending) ACCEPTVoteproof() base.ACCEPTVoteproof {
	afact := isaac.NewACCEPTBallotFact(p.Proposal.Point(), p.Proposal.Fact().Hash(), p.Manifest.Hash(), gen.ExpelFactHashes(p.Expels))

	return gen.FullACCEPTVoteproof(afact, p.Voters, p.W.Threshold, p.Expels)
}

// Save commits the block.
func (p *Pending) Save() (base.BlockMap, error) {
	bm, err := p.PP.Save(context.Background(), p.ACCEPTVoteproof())
	if err != nil {
		return nil, err
	}

	p.W.mu.Lock()
	p.W.Maps = append(p.W.Maps, bm)
	p.W.mu.Unlock()

	return bm, nil
}

func (p *Pending) Cancel() { _ = p.PP.Cancel() }

// NextBlock = Propose + Process + Save.
func (w *World) NextBlock(ops []base.Operation, expels []base.SuffrageExpelOperation, o ProcOpts) (base.BlockMap, error) {
	p, err := w.Process(w.Propose(ops), ops, expels, o)
	if err != nil {
		return nil, err
	}

	return p.Save()
}

// ---- operation builders (real, signed, IsValid)

func Token(label string) base.Token { return base.Token(gen.H(label).Bytes()) }

func CandidateOp(label string, node base.LocalNode, signer base.LocalNode) base.Operation {
	fact := isaacoperation.NewSuffrageCandidateFact(Token(label), node.Address(), node.Publickey())
	op := isaacoperation.NewSuffrageCandidate(fact)
	must(op.NodeSign(signer.Privatekey(), gen.NetworkID, signer.Address()))

	return op
}

// JoinOp: candidate joins; start = height the candidate was registered at; signers sign in order.
func JoinOp(label string, candidate base.Address, start base.Height, signers []base.LocalNode) base.Operation {
	fact := isaacoperation.NewSuffrageJoinFact(Token(label), candidate, start)
	op := isaacoperation.NewSuffrageJoin(fact)

	for _, s := range signers {
		must(op.NodeSign(s.Privatekey(), gen.NetworkID, s.Address()))
	}

	return op
}

func DisjoinOp(label string, node base.Address, start base.Height, signer base.LocalNode) base.Operation {
	fact := isaacoperation.NewSuffrageDisjoinFact(Token(label), node, start)
	op := isaacoperation.NewSuffrageDisjoin(fact)
	must(op.NodeSign(signer.Privatekey(), gen.NetworkID, signer.Address()))

	return op
}

func PolicyOp(label string, policy base.NetworkPolicy, signers []base.LocalNode) base.Operation {
	fact := isaacoperation.NewNetworkPolicyFact(Token(label), policy)
	op := isaacoperation.NewNetworkPolicy(fact)

	for _, s := range signers {
		must(op.NodeSign(s.Privatekey(), gen.NetworkID, s.Address()))
	}

	return op
}

// BlockStates reads the states of a committed block from its local-fs items (independent of the database).
func (w *World) BlockStates(height base.Height) ([]base.State, error) {
	_, sts, _, err := isaac.BlockItemReadersDecodeItems[base.State](w.Readers.Item, height, base.BlockItemStates, nil, nil)

	return sts, err
}

// BlockOperations reads the operations of a committed block from its local-fs items.
func (w *World) BlockOperations(height base.Height) ([]base.Operation, error) {
	_, ops, _, err := isaac.BlockItemReadersDecodeItems[base.Operation](w.Readers.Item, height, base.BlockItemOperations, nil, nil)

	return ops, err
}

// OperationsTree / StatesTree read a committed block's trees from its local-fs items.
func (w *World) OperationsTree(height base.Height) (fixedtree.Tree, bool, error) {
	return isaac.BlockItemReadersDecode[fixedtree.Tree](w.Readers.Item, height, base.BlockItemOperationsTree, nil)
}

func (w *World) StatesTree(height base.Height) (fixedtree.Tree, bool, error) {
	return isaac.BlockItemReadersDecode[fixedtree.Tree](w.Readers.Item, height, base.BlockItemStatesTree, nil)
}

// OperationResults: fact hash -> (in state, reason) of a committed block.
func (w *World) OperationResults(height base.Height) (map[string][2]string, error) {
	tr, found, err := w.OperationsTree(height)
	if err != nil || !found {
		return nil, err
	}

	m := map[string][2]string{}

	_ = tr.Traverse(func(_ uint64, n fixedtree.Node) (bool, error) {
		on, ok := n.(base.OperationFixedtreeNode)
		if !ok {
			return true, nil
		}

		reason := ""
		if on.Reason() != nil {
			reason = on.Reason().Msg()
		}

		m[on.Operation().String()] = [2]string{fmt.Sprint(on.InState()), reason}

		return true, nil
	})

	return m, nil
}
