package chain

import (
	"fmt"
	"testing"

	"github.com/spikeekips/mitum/base"
	isaacblock "github.com/spikeekips/mitum/isaac/block"
	"verif/internal/gen"
)

func TestChainSmoke(t *testing.T) {
	w, err := New(Opts{NSuffrage: 3})
	if err != nil {
		t.Fatalf("%+v", err)
	}
	defer w.Close()

	n3 := gen.Local(3)
	if _, err := w.NextBlock([]base.Operation{CandidateOp("c1", n3, n3)}, nil, ProcOpts{}); err != nil {
		t.Fatalf("%+v", err)
	}

	signers := append([]base.LocalNode{n3}, w.Members()...)
	if _, err := w.NextBlock([]base.Operation{JoinOp("j1", n3.Address(), 2, signers)}, nil, ProcOpts{}); err != nil {
		t.Fatalf("%+v", err)
	}

	if len(w.Members()) != 4 {
		t.Fatalf("members %d", len(w.Members()))
	}

	var keys, vals []string
	for i := 0; i < 400; i++ {
		keys = append(keys, fmt.Sprintf("k%03d", i))
		vals = append(vals, fmt.Sprintf("v%03d", i))
	}

	if _, err := w.NextBlock([]base.Operation{NewFillerOperation("f1", keys, vals, gen.Local(9))}, nil, ProcOpts{}); err != nil {
		t.Fatalf("%+v", err)
	}

	// expel n3 via voteproof
	m := w.Members()
	var live []base.LocalNode
	for _, x := range m {
		if !x.Address().Equal(n3.Address()) {
			live = append(live, x)
		}
	}
	ex := gen.Expel(n3.Address(), w.NextHeight(), w.NextHeight()+1, live)
	if _, err := w.NextBlock(nil, []base.SuffrageExpelOperation{ex}, ProcOpts{}); err != nil {
		t.Fatalf("%+v", err)
	}
	if len(w.Members()) != 3 {
		t.Fatalf("members after expel %d", len(w.Members()))
	}

	for h := base.GenesisHeight; h <= w.Last().Manifest().Height(); h++ {
		if err := isaacblock.IsValidBlockFromLocalFS(w.Readers.Item, h, w.NetworkID, nil, nil, nil); err != nil {
			t.Fatalf("validate %d: %+v", h, err)
		}
		sts, err := w.BlockStates(h)
		ops, err2 := w.BlockOperations(h)
		t.Log(h, "states", len(sts), err, "ops", len(ops), err2)
	}

	st, found, err := w.DB.State("k399")
	t.Log(found, err, st != nil)
}
