package chain

import (
	"context"

	"github.com/spikeekips/mitum/base"
	"github.com/spikeekips/mitum/util"
	"github.com/spikeekips/mitum/util/encoder"
	"github.com/spikeekips/mitum/util/hint"
	"github.com/spikeekips/mitum/util/valuehash"
	"verif/internal/gen"
)

// FillerOperation is a harness-defined operation (own hint, no processor registered, so the proposal processor calls
// its own PreProcess/Process): it writes the given key/value pairs as states. It lets a block carry arbitrary state
// keys and sizes without touching /repo.
var (
	FillerFactHint      = hint.MustNewHint("verif-filler-fact-v0.0.1")
	FillerOperationHint = hint.MustNewHint("verif-filler-operation-v0.0.1")
)

type FillerFact struct {
	Keys   []string
	Values []string
	base.BaseFact
}

func NewFillerFact(token base.Token, keys, values []string) FillerFact {
	fact := FillerFact{BaseFact: base.NewBaseFact(FillerFactHint, token), Keys: keys, Values: values}
	fact.SetHash(fact.hash())

	return fact
}

func (fact FillerFact) hash() util.Hash {
	bs := []util.Byter{util.BytesToByter(fact.Token())}
	for i := range fact.Keys {
		bs = append(bs, util.BytesToByter([]byte(fact.Keys[i])), util.BytesToByter([]byte{0}), util.BytesToByter([]byte(fact.Values[i])), util.BytesToByter([]byte{0}))
	}

	return valuehash.NewSHA256(util.ConcatByters(bs...))
}

func (fact FillerFact) IsValid([]byte) error {
	if err := fact.BaseFact.IsValid(nil); err != nil {
		return err
	}

	if len(fact.Keys) != len(fact.Values) {
		return util.ErrInvalid.Errorf("keys and values do not match")
	}

	if !fact.Hash().Equal(fact.hash()) {
		return util.ErrInvalid.Errorf("hash does not match")
	}

	return nil
}

type fillerFactJSONMarshaler struct {
	Keys   []string `json:"keys"`
	Values []string `json:"values"`
	base.BaseFactJSONMarshaler
}

func (fact FillerFact) MarshalJSON() ([]byte, error) {
	return util.MarshalJSON(fillerFactJSONMarshaler{BaseFactJSONMarshaler: fact.BaseFact.JSONMarshaler(), Keys: fact.Keys, Values: fact.Values})
}

type fillerFactJSONUnmarshaler struct {
	Keys   []string `json:"keys"`
	Values []string `json:"values"`
	base.BaseFactJSONUnmarshaler
}

func (fact *FillerFact) DecodeJSON(b []byte, enc encoder.Encoder) error {
	var u fillerFactJSONUnmarshaler
	if err := enc.Unmarshal(b, &u); err != nil {
		return err
	}

	fact.BaseFact.SetJSONUnmarshaler(u.BaseFactJSONUnmarshaler)
	fact.Keys = u.Keys
	fact.Values = u.Values

	return nil
}

type FillerOperation struct {
	base.BaseOperation
}

// NewFillerOperation makes a signed filler operation setting keys[i] = values[i].
func NewFillerOperation(label string, keys, values []string, signer base.LocalNode) FillerOperation {
	op := FillerOperation{BaseOperation: base.NewBaseOperation(FillerOperationHint, NewFillerFact(Token(label), keys, values))}
	must(op.Sign(signer.Privatekey(), gen.NetworkID))

	return op
}

func (op FillerOperation) IsValid(networkID []byte) error {
	return op.BaseOperation.IsValid(networkID)
}

func (FillerOperation) PreProcess(ctx context.Context, _ base.GetStateFunc) (context.Context, base.OperationProcessReasonError, error) {
	return ctx, nil, nil
}

func (op FillerOperation) Process(context.Context, base.GetStateFunc) ([]base.StateMergeValue, base.OperationProcessReasonError, error) {
	fact := op.Fact().(FillerFact) //nolint:forcetypeassert //...

	if len(fact.Keys) < 1 {
		return nil, base.NewBaseOperationProcessReason("empty filler"), nil
	}

	stvs := make([]base.StateMergeValue, len(fact.Keys))
	for i := range fact.Keys {
		stvs[i] = base.NewBaseStateMergeValue(fact.Keys[i], base.NewDummyStateValue(fact.Values[i]), nil)
	}

	return stvs, nil, nil
}
