// Package ev is the evidence recorder, known-finding filter and violation reporter shared by every
// check. One Rec per TestCnn; the driver (/verif/check) merges the per-shard partial files.
package ev

import (
	"bufio"
	"encoding/binary"
	"encoding/json"
	"flag"
	"fmt"
	"hash/fnv"
	"os"
	"path/filepath"
	"sort"
	"strconv"
	"strings"
	"sync"
	"sync/atomic"
	"time"
)

// TB is the part of *testing.T / *rapid.T the recorder needs.
type TB interface {
	Helper()
	Fatalf(string, ...any)
	Logf(string, ...any)
}

type Rec struct {
	Prop   string
	Tier   string
	Seed   int64
	Shard  int
	Shards int

	mu         sync.Mutex
	evals      int64
	fps        map[uint64]struct{}
	byConstr   int64
	classes    map[string]int64
	samples    []any
	maxSamples int
	known      map[string]string
	knownHit   map[string]int64
	rule       string
	exhaustive bool
	extra      map[string]any
	assume     []string
	floor      int64
	failed     atomic.Bool
	violations int64
	start      time.Time
	journal    *os.File
	t          TB
}

func Root() string {
	if s := os.Getenv("VERIF_ROOT"); s != "" {
		return s
	}

	return "/verif"
}

func envInt(k string, d int64) int64 {
	s := os.Getenv(k)
	if s == "" {
		return d
	}

	i, err := strconv.ParseInt(s, 10, 64)
	if err != nil {
		return d
	}

	return i
}

// Start creates the recorder for property prop and configures rapid's seed from VERIF_SEED/VERIF_SHARD.
func Start(t TB, prop string) *Rec {
	r := &Rec{
		Prop:       prop,
		Tier:       os.Getenv("VERIF_TIER"),
		Seed:       envInt("VERIF_SEED", 0),
		Shard:      int(envInt("VERIF_SHARD", 0)),
		Shards:     int(envInt("VERIF_SHARDS", 1)),
		fps:        map[uint64]struct{}{},
		classes:    map[string]int64{},
		known:      map[string]string{},
		knownHit:   map[string]int64{},
		extra:      map[string]any{},
		maxSamples: 5,
		start:      time.Now(),
		t:          t,
	}

	if r.Tier == "" {
		r.Tier = "quick"
	}

	if r.Shards < 1 {
		r.Shards = 1
	}

	r.loadKnown()

	// rapid: 0 means "random", so never hand it 0.
	_ = flag.Set("rapid.seed", strconv.FormatUint(r.RapidSeed(), 10))
	_ = flag.Set("rapid.nofailfile", "false")

	if s := os.Getenv("VERIF_RAPID_FAILFILE"); s != "" {
		_ = flag.Set("rapid.failfile", s)
	}

	if p := os.Getenv("VERIF_JOURNAL"); p != "" {
		if f, err := os.Create(p); err == nil {
			r.journal = f
		}
	}

	return r
}

func (r *Rec) RapidSeed() uint64 {
	return uint64(r.Seed*2+1)*1000 + uint64(r.Shard)
}

func (r *Rec) Quick() bool    { return r.Tier != "thorough" }
func (r *Rec) Thorough() bool { return r.Tier == "thorough" }

// N picks a size by tier.
func (r *Rec) N(quick, thorough int) int {
	if r.Thorough() {
		return thorough
	}

	return quick
}

// Checks sets rapid's case count for the next rapid.Check call; the thorough total is split over shards.
func (r *Rec) Checks(quick, thorough int) int {
	n := quick
	if r.Thorough() {
		n = (thorough + r.Shards - 1) / r.Shards
	} else if r.Shards > 1 {
		n = (quick + r.Shards - 1) / r.Shards
	}

	if os.Getenv("VERIF_RAPID_FAILFILE") != "" {
		n = 1
	}

	if n < 1 {
		n = 1
	}

	_ = flag.Set("rapid.checks", strconv.Itoa(n))

	return n
}

func (r *Rec) Steps(n int) { _ = flag.Set("rapid.steps", strconv.Itoa(n)) }

func (r *Rec) ShrinkTime(d time.Duration) { _ = flag.Set("rapid.shrinktime", d.String()) }

// Mine says whether index i of an exhaustive enumeration belongs to this shard.
func (r *Rec) Mine(i int) bool { return r.Shards <= 1 || i%r.Shards == r.Shard }

func (r *Rec) Rule(s string)        { r.rule = s }
func (r *Rec) Exhaustive(b bool)    { r.exhaustive = b }
func (r *Rec) Floor(n int64)        { r.floor = n }
func (r *Rec) Assume(s ...string)   { r.assume = append(r.assume, s...) }
func (r *Rec) MaxSamples(n int)     { r.maxSamples = n }
func (r *Rec) Failed() bool         { return r.failed.Load() }
func (r *Rec) Extra(k string, v any) {
	r.mu.Lock()
	r.extra[k] = v
	r.mu.Unlock()
}

func FP(s string) uint64 {
	h := fnv.New64a()
	_, _ = h.Write([]byte(s))

	return h.Sum64()
}

// Case counts one executed case. fp is a canonical descriptor of the case; it is counted as
// distinct-nontrivial when nontrivial is true and the fingerprint was not seen before.
func (r *Rec) Case(fp string, nontrivial bool, classes ...string) {
	if r.failed.Load() {
		return // shrinking re-executions are not evidence
	}

	r.mu.Lock()
	r.evals++

	if nontrivial {
		r.fps[FP(fp)] = struct{}{}
	}

	if len(r.samples) == 0 {
		// never leave a run without a sample: the fingerprint is a descriptor of the actual case
		d := fp
		if len(d) > 600 {
			d = d[:600] + "..."
		}

		r.samples = append(r.samples, map[string]any{"case": d})
	}

	for _, c := range classes {
		r.classes[c]++
	}
	r.mu.Unlock()
}

// CaseN counts n cases of an exhaustive enumeration of which nt are non-trivial and distinct by construction.
func (r *Rec) CaseN(n, nt int64, classes ...string) {
	if r.failed.Load() {
		return
	}

	r.mu.Lock()
	r.evals += n
	r.byConstr += nt

	for _, c := range classes {
		r.classes[c] += n
	}
	r.mu.Unlock()
}

func (r *Rec) Class(c string, n int64) {
	if r.failed.Load() {
		return
	}

	r.mu.Lock()
	r.classes[c] += n
	r.mu.Unlock()
}

// Sample keeps up to maxSamples rendered cases (the first ones offered).
func (r *Rec) Sample(v any) {
	if r.failed.Load() {
		return
	}

	r.mu.Lock()
	if len(r.samples) < r.maxSamples {
		r.samples = append(r.samples, v)
	}
	r.mu.Unlock()
}

func (r *Rec) WantSample() bool {
	r.mu.Lock()
	defer r.mu.Unlock()

	return len(r.samples) < r.maxSamples && !r.failed.Load()
}

// Journal appends a line before a case is executed (for properties where a crash of the binary is
// itself the violation).
func (r *Rec) Journal(format string, a ...any) {
	if r.journal == nil {
		return
	}

	r.mu.Lock()
	fmt.Fprintf(r.journal, format+"\n", a...)
	r.mu.Unlock()
}

func (r *Rec) loadKnown() {
	f, err := os.Open(filepath.Join(Root(), "known_findings.txt"))
	if err != nil {
		return
	}
	defer f.Close()

	sc := bufio.NewScanner(f)
	for sc.Scan() {
		line := strings.TrimSpace(sc.Text())
		if !strings.HasPrefix(line, "known:") {
			continue
		}

		fields := strings.Fields(strings.TrimPrefix(line, "known:"))
		if len(fields) < 2 || fields[0] != "property="+r.Prop || !strings.HasPrefix(fields[1], "signature=") {
			continue
		}

		r.known[strings.TrimPrefix(fields[1], "signature=")] = strings.Join(fields[2:], " ")
	}
}

// IsKnown reports whether sig is a recorded finding (without counting it).
func (r *Rec) IsKnown(sig string) bool {
	_, ok := r.known[sig]

	return ok
}

// Violation reports a violation with root-cause signature sig. If sig is a recorded known finding
// it is counted, announced once, and false is returned so the search continues. Otherwise the case
// fails (t.Fatalf does not return).
func (r *Rec) Violation(t TB, sig string, format string, a ...any) bool {
	t.Helper()

	if what, ok := r.known[sig]; ok {
		r.mu.Lock()
		first := r.knownHit[sig] == 0
		r.knownHit[sig]++
		r.mu.Unlock()

		if first {
			fmt.Printf("KNOWN-FINDING: property=%s %s\n", r.Prop, what)
		}

		return false
	}

	r.failed.Store(true)
	atomic.AddInt64(&r.violations, 1)

	if !strings.Contains(fmt.Sprintf("%T", t), "rapid.") {
		// deterministic (non-rapid) part: the replay file names the failing case; replaying re-runs the enumeration
		r.SaveReplay(fmt.Sprintf("%s-%s-seed%d-%s", r.Prop, r.Tier, r.Seed, sanitize(sig)),
			map[string]any{"property": r.Prop, "signature": sig, "case": fmt.Sprintf(format, a...)})
	}

	t.Fatalf("VERIF-VIOLATION property=%s sig=%s :: %s", r.Prop, sig, fmt.Sprintf(format, a...))

	return true
}

func sanitize(s string) string {
	return strings.Map(func(c rune) rune {
		if (c >= 'a' && c <= 'z') || (c >= 'A' && c <= 'Z') || (c >= '0' && c <= '9') || c == '-' || c == '_' {
			return c
		}

		return '_'
	}, s)
}

// IsRapidUnwind reports whether a recovered value is rapid's own unwinding (Fatalf, Skip, invalid data) rather than a
// panic of the code under test. A recover() in a check must re-panic such values and route everything else through Violation.
func IsRapidUnwind(x any) bool {
	return strings.HasPrefix(fmt.Sprintf("%T", x), "rapid.")
}

// SaveReplay writes v as JSON under the replay dir and returns its path (for non-rapid checks).
func (r *Rec) SaveReplay(name string, v any) string {
	dir := os.Getenv("VERIF_REPLAY_DIR")
	if dir == "" {
		dir = filepath.Join(Root(), "replays", r.Prop)
	}

	_ = os.MkdirAll(dir, 0o755)
	p := filepath.Join(dir, name+".json")

	b, err := json.MarshalIndent(v, "", " ")
	if err != nil {
		b = []byte(fmt.Sprintf("%q", fmt.Sprint(v)))
	}

	_ = os.WriteFile(p, b, 0o644)
	fmt.Printf("VERIF-REPLAY property=%s path=%s\n", r.Prop, p)

	return p
}

type partial struct {
	Prop        string           `json:"property_id"`
	Tier        string           `json:"tier"`
	Seed        int64            `json:"seed"`
	Shard       int              `json:"shard"`
	Evals       int64            `json:"evaluations"`
	ByConstr    int64            `json:"distinct_by_construction"`
	NFps        int              `json:"n_fps"`
	Classes     map[string]int64 `json:"classes"`
	Samples     []any            `json:"samples"`
	KnownHit    map[string]int64 `json:"excluded_known"`
	Rule        string           `json:"rule"`
	Exhaustive  bool             `json:"exhaustive"`
	Extra       map[string]any   `json:"extra"`
	Assumptions []string         `json:"assumptions"`
	Violations  int64            `json:"violations"`
	WallS       float64          `json:"wall_s"`
	Floor       int64            `json:"floor"`
}

// Finish writes the partial evidence file (VERIF_EVIDENCE_OUT, plus <file>.fps with the fingerprints).
func (r *Rec) Finish() {
	if r.journal != nil {
		_ = r.journal.Close()
	}

	r.mu.Lock()
	defer r.mu.Unlock()

	out := os.Getenv("VERIF_EVIDENCE_OUT")
	if out == "" {
		out = filepath.Join(os.TempDir(), "verif-"+r.Prop+"-partial.json")
	}

	p := partial{
		Prop: r.Prop, Tier: r.Tier, Seed: r.Seed, Shard: r.Shard, Evals: r.evals, ByConstr: r.byConstr,
		NFps: len(r.fps), Classes: r.classes, Samples: r.samples, KnownHit: r.knownHit, Rule: r.rule,
		Exhaustive: r.exhaustive, Extra: r.extra, Assumptions: r.assume,
		Violations: atomic.LoadInt64(&r.violations), WallS: time.Since(r.start).Seconds(), Floor: r.floor,
	}

	b, err := json.Marshal(p)
	if err != nil {
		// a sample that cannot be rendered must not lose the run
		p.Samples = []any{fmt.Sprint(r.samples...)}
		b, _ = json.Marshal(p)
	}

	_ = os.WriteFile(out, b, 0o644)

	keys := make([]uint64, 0, len(r.fps))
	for k := range r.fps {
		keys = append(keys, k)
	}

	sort.Slice(keys, func(i, j int) bool { return keys[i] < keys[j] })

	buf := make([]byte, 8*len(keys))
	for i, k := range keys {
		binary.LittleEndian.PutUint64(buf[i*8:], k)
	}

	_ = os.WriteFile(out+".fps", buf, 0o644)

	total := int64(len(r.fps)) + r.byConstr
	if !r.failed.Load() && r.Shards <= 1 && r.floor > 0 && total < r.floor {
		fmt.Printf("VERIF-STARVED property=%s distinct_nontrivial=%d floor=%d\n", r.Prop, total, r.floor)
	}
}
