// Package gen builds real, signed mitum objects (nodes, suffrages, ballot facts, sign facts, expel operations,
// voteproofs, ballots, proposals) through the exported constructors only. Signing is cached because it dominates cost.
package gen

import (
	"fmt"
	"sort"
	"strings"
	"sync"

	"github.com/spikeekips/mitum/base"
	"github.com/spikeekips/mitum/isaac"
	"github.com/spikeekips/mitum/launch"
	"github.com/spikeekips/mitum/util"
	"github.com/spikeekips/mitum/util/encoder"
	jsonenc "github.com/spikeekips/mitum/util/encoder/json"
	"github.com/spikeekips/mitum/util/valuehash"
)

var NetworkID = base.NetworkID([]byte("verif-network"))

var (
	encOnce sync.Once
	encs    *encoder.Encoders
	enc     *jsonenc.Encoder
)

// Encoders returns the process-wide encoders with every launch hinter (plus the in-tree dummy operation) loaded.
func Encoders() (*encoder.Encoders, *jsonenc.Encoder) {
	encOnce.Do(func() {
		enc = jsonenc.NewEncoder()
		encs = encoder.NewEncoders(enc, enc)

		if err := launch.LoadHinters(encs); err != nil {
			panic(err)
		}

		_ = encs.AddDetail(encoder.DecodeDetail{Hint: isaac.DummyOperationFactHint, Instance: isaac.DummyOperationFact{}})
		_ = encs.AddDetail(encoder.DecodeDetail{Hint: isaac.DummyOperationHint, Instance: isaac.DummyOperation{}})
	})

	return encs, enc
}

var (
	nodeMu sync.Mutex
	nodes  = map[int]base.LocalNode{}
)

// Local returns the i-th deterministic node (real secp256k1 key).
func Local(i int) base.LocalNode {
	nodeMu.Lock()
	defer nodeMu.Unlock()

	if n, ok := nodes[i]; ok {
		return n
	}

	priv, err := base.NewMPrivatekeyFromSeed(fmt.Sprintf("verif-seed-for-node-%04d-xxxxxxxxxxxxxxxxxxxxxxxxxxxxxxxxxx", i))
	if err != nil {
		panic(err)
	}

	n := isaac.NewLocalNode(priv, base.NewStringAddress(fmt.Sprintf("n%02d", i)))
	nodes[i] = n

	return n
}

func Locals(n int) []base.LocalNode {
	ls := make([]base.LocalNode, n)
	for i := range ls {
		ls[i] = Local(i)
	}

	return ls
}

// LocalByAddress finds a node made by Local.
func LocalByAddress(a base.Address) base.LocalNode {
	nodeMu.Lock()
	defer nodeMu.Unlock()

	for _, n := range nodes {
		if n.Address().Equal(a) {
			return n
		}
	}

	return nil
}

func Suffrage(ls []base.LocalNode) isaac.Suffrage {
	ns := make([]base.Node, len(ls))
	for i := range ls {
		ns[i] = ls[i]
	}

	suf, err := isaac.NewSuffrage(ns)
	if err != nil {
		panic(err)
	}

	return suf
}

// H is a deterministic hash from a label.
func H(label string) util.Hash {
	return valuehash.NewSHA256([]byte(label))
}

var (
	signMu     sync.Mutex
	initSigns  = map[string]isaac.INITBallotSignFact{}
	acceptSign = map[string]isaac.ACCEPTBallotSignFact{}
	expelOps   = map[string]isaac.SuffrageExpelOperation{}
)

// SignINIT signs an INIT ballot fact (any of INIT / suffrage-confirm / empty-proposal) by node; cached per (node, fact).
func SignINIT(fact base.INITBallotFact, node base.LocalNode) isaac.INITBallotSignFact {
	k := node.Address().String() + "/" + fact.Hash().String() + "/" + fmt.Sprintf("%T", fact)

	signMu.Lock()
	if sf, ok := initSigns[k]; ok {
		signMu.Unlock()

		return sf
	}
	signMu.Unlock()

	sf := isaac.NewINITBallotSignFact(fact)
	if err := sf.NodeSign(node.Privatekey(), NetworkID, node.Address()); err != nil {
		panic(err)
	}

	signMu.Lock()
	initSigns[k] = sf
	signMu.Unlock()

	return sf
}

func SignACCEPT(fact base.ACCEPTBallotFact, node base.LocalNode) isaac.ACCEPTBallotSignFact {
	k := node.Address().String() + "/" + fact.Hash().String() + "/" + fmt.Sprintf("%T", fact)

	signMu.Lock()
	if sf, ok := acceptSign[k]; ok {
		signMu.Unlock()

		return sf
	}
	signMu.Unlock()

	sf := isaac.NewACCEPTBallotSignFact(fact)
	if err := sf.NodeSign(node.Privatekey(), NetworkID, node.Address()); err != nil {
		panic(err)
	}

	signMu.Lock()
	acceptSign[k] = sf
	signMu.Unlock()

	return sf
}

// Expel builds an expel operation for target valid in [start,end], signed by signers (in the given order); cached.
func Expel(target base.Address, start, end base.Height, signers []base.LocalNode) isaac.SuffrageExpelOperation {
	ks := make([]string, len(signers))
	for i := range signers {
		ks[i] = signers[i].Address().String()
	}

	k := fmt.Sprintf("%s/%d/%d/%s", target, start, end, strings.Join(ks, ","))

	signMu.Lock()
	if op, ok := expelOps[k]; ok {
		signMu.Unlock()

		return op
	}
	signMu.Unlock()

	fact := isaac.NewSuffrageExpelFact(target, start, end, "verif")
	op := isaac.NewSuffrageExpelOperation(fact)

	for _, s := range signers {
		if err := op.NodeSign(s.Privatekey(), NetworkID, s.Address()); err != nil {
			panic(err)
		}
	}

	signMu.Lock()
	expelOps[k] = op
	signMu.Unlock()

	return op
}

func ExpelFactHashes(ops []base.SuffrageExpelOperation) []util.Hash {
	if len(ops) < 1 {
		return nil
	}

	// the voteproof sorts its expels (isaac.sortExpels: by fact hash string); ballot facts must list them in the same order
	sorted := make([]base.SuffrageExpelOperation, len(ops))
	copy(sorted, ops)
	sort.SliceStable(sorted, func(i, j int) bool {
		return strings.Compare(sorted[i].Fact().Hash().String(), sorted[j].Fact().Hash().String()) < 0
	})

	hs := make([]util.Hash, len(sorted))
	for i := range sorted {
		hs[i] = sorted[i].Fact().Hash()
	}

	return hs
}


// INITVoteproof assembles a finished INIT voteproof; with expels it is an INITExpelVoteproof. majority==nil => draw.
func INITVoteproof(
	point base.Point, majority base.BallotFact, sfs []base.BallotSignFact, th base.Threshold, expels []base.SuffrageExpelOperation,
) base.INITVoteproof {
	if len(expels) > 0 {
		vp := isaac.NewINITExpelVoteproof(point)
		_ = vp.SetMajority(majority).SetSignFacts(sfs).SetThreshold(th)
		_ = vp.SetExpels(append([]base.SuffrageExpelOperation(nil), expels...))
		_ = vp.Finish()

		return vp
	}

	vp := isaac.NewINITVoteproof(point)
	_ = vp.SetMajority(majority).SetSignFacts(sfs).SetThreshold(th).Finish()

	return vp
}

func ACCEPTVoteproof(
	point base.Point, majority base.BallotFact, sfs []base.BallotSignFact, th base.Threshold, expels []base.SuffrageExpelOperation,
) base.ACCEPTVoteproof {
	if len(expels) > 0 {
		vp := isaac.NewACCEPTExpelVoteproof(point)
		_ = vp.SetMajority(majority).SetSignFacts(sfs).SetThreshold(th)
		_ = vp.SetExpels(append([]base.SuffrageExpelOperation(nil), expels...))
		_ = vp.Finish()

		return vp
	}

	vp := isaac.NewACCEPTVoteproof(point)
	_ = vp.SetMajority(majority).SetSignFacts(sfs).SetThreshold(th).Finish()

	return vp
}

// INITStuckVoteproof / ACCEPTStuckVoteproof: no majority, threshold 100, expels mandatory.
func INITStuckVoteproof(point base.Point, sfs []base.BallotSignFact, expels []base.SuffrageExpelOperation) base.INITVoteproof {
	vp := isaac.NewINITStuckVoteproof(point)
	_ = vp.SetSignFacts(sfs)
	_ = vp.SetExpels(append([]base.SuffrageExpelOperation(nil), expels...))
	_ = vp.Finish()

	return vp
}

func ACCEPTStuckVoteproof(point base.Point, sfs []base.BallotSignFact, expels []base.SuffrageExpelOperation) base.ACCEPTVoteproof {
	vp := isaac.NewACCEPTStuckVoteproof(point)
	_ = vp.SetSignFacts(sfs)
	_ = vp.SetExpels(append([]base.SuffrageExpelOperation(nil), expels...))
	_ = vp.Finish()

	return vp
}

// FullINITVoteproof: every node of voters signs fact; majority = fact.
func FullINITVoteproof(fact base.INITBallotFact, voters []base.LocalNode, th base.Threshold, expels []base.SuffrageExpelOperation) base.INITVoteproof {
	sfs := make([]base.BallotSignFact, len(voters))
	for i := range voters {
		sfs[i] = SignINIT(fact, voters[i])
	}

	return INITVoteproof(fact.Point().Point, fact, sfs, th, expels)
}

func FullACCEPTVoteproof(fact base.ACCEPTBallotFact, voters []base.LocalNode, th base.Threshold, expels []base.SuffrageExpelOperation) base.ACCEPTVoteproof {
	sfs := make([]base.BallotSignFact, len(voters))
	for i := range voters {
		sfs[i] = SignACCEPT(fact, voters[i])
	}

	return ACCEPTVoteproof(fact.Point().Point, fact, sfs, th, expels)
}

// Proposal builds a signed proposal.
func Proposal(point base.Point, proposer base.LocalNode, prev util.Hash, ops [][2]util.Hash) isaac.ProposalSignFact {
	pr := isaac.NewProposalSignFact(isaac.NewProposalFact(point, proposer.Address(), prev, ops))
	if err := pr.Sign(proposer.Privatekey(), NetworkID); err != nil {
		panic(err)
	}

	return pr
}

// Addrs renders a node list for samples/fingerprints.
func Addrs[T base.Node](ns []T) string {
	ss := make([]string, len(ns))
	for i := range ns {
		ss[i] = ns[i].Address().String()
	}

	return strings.Join(ss, ",")
}
