package p_agree

import (
	"encoding/json"
	"fmt"
	"math/bits"
	"sort"
	"strings"
	"sync"
	"testing"

	"github.com/spikeekips/mitum/base"
	"github.com/spikeekips/mitum/isaac"
	"github.com/spikeekips/mitum/util"
	"github.com/spikeekips/mitum/util/encoder"
	"pgregory.net/rapid"
	"verif/internal/ev"
	"verif/internal/gen"
)

// A candidate voteproof for one stage point, described with bitmasks over suffrage nodes 0..n-1 (foreign node = index n).
type c03Cand struct {
	N         int
	Stage     base.Stage
	Maj       int    // 0: fact X is the declared majority, 1: fact Y
	VoteMaj   uint   // nodes signing the declared majority fact
	VoteOther uint   // nodes signing the other fact (minority votes inside this voteproof)
	Expelled  uint   // expelled nodes
	Signers   []uint // per expelled node (ascending node index): who signed its expel operation
	ListFacts bool   // the majority fact lists the expel facts
	Tweak     string // "", "dup-voter", "foreign-voter", "foreign-signer", "borrowed-key"
	KeyOf     int    // borrowed-key: index of the single node whose key signs every sign fact (each still claims its voter's address)
	// replayed from another point: votes honestly cast for stage point c03others[Pt-1] presented inside a voteproof for c03Point
	Pt    int  // 0: every fact is a fact of c03Point; k>0: the other point is c03others[k-1]
	From  uint // voters whose sign fact is the one they signed for the other point (same X/Y choice, same expel listing)
	MajAt bool // the declared majority fact is the fact of the other point
	// stuck voteproof (isaac.INITStuckVoteproof / ACCEPTStuckVoteproof: threshold 100 by type, expels mandatory, votes never tallied).
	// VoteMaj still means "signs fact Maj" and VoteOther "signs the other fact"; Stuck says which majority fact the voteproof carries:
	// "" not a stuck voteproof, "nil" none (the honest form, the type's own Finish()), "maj" fact Maj, "other" the other fact,
	// "unvoted" a third fact Z of this stage point that nobody signed
	Stuck string
	// forged votes: the voters in Forged (subset of VoteMaj|VoteOther) did NOT sign the sign fact that carries their name. The sign
	// fact names the node and carries the node's own publickey, but the signature is not a signature of that key over that fact:
	// Forge "spliced": the node's genuine signature over the OTHER fact of this stage point (X<->Y, no expel listing) moved onto the
	// claimed fact; Forge "other-key": a signature over the claimed fact made with another key (the lowest genuine voter of this
	// voteproof, the foreign node when every vote is forged) while the signer field still says the node's key. Both are made on the
	// decoded JSON of a real sign fact and decoded again with the real encoder (what a peer can put on the wire).
	Forged uint
	Forge  string
}

func (c c03Cand) String() string {
	ss := make([]string, len(c.Signers))
	for i := range c.Signers {
		ss[i] = fmt.Sprintf("%b", c.Signers[i])
	}

	replay := ""
	if c.Pt != 0 {
		replay = fmt.Sprintf(" replayed-from=%s voters=%0*b majority-of-other-point=%v", c03others[c.Pt-1].Name, c.N, c.From, c.MajAt)
	}

	stuck := ""
	if c.Stuck != "" {
		stuck = " STUCK-voteproof carrying-majority=" + c.stuckMajorityName()
	}

	forged := ""
	if c.Forged != 0 {
		forged = fmt.Sprintf(" FORGED-signatures(%s) in-the-name-of=%0*b", c.Forge, c.N, c.Forged)
	}

	return fmt.Sprintf("n=%d %s maj=%c votes=%0*b other=%0*b expelled=%0*b signers=[%s] listed=%v tweak=%q keyof=%d%s%s%s",
		c.N, c.Stage, "XY"[c.Maj], c.N, c.VoteMaj, c.N, c.VoteOther, c.N, c.Expelled, strings.Join(ss, ","), c.ListFacts, c.Tweak, c.KeyOf, replay, stuck, forged)
}

// stuckMajority is the fact a stuck candidate carries as majority: -1 none, 0 X, 1 Y, 2 Z (signed by nobody).
func (c c03Cand) stuckMajority() int {
	switch c.Stuck {
	case "maj":
		return c.Maj
	case "other":
		return 1 - c.Maj
	case "unvoted":
		return 2
	default:
		return -1
	}
}

func (c c03Cand) stuckMajorityName() string {
	if k := c.stuckMajority(); k >= 0 {
		return "XYZ"[k : k+1]
	}

	return "nil"
}


var c03Point = base.RawPoint(33, 1)

// The neighbouring stage points whose honestly signed votes an adversary (or a confused peer) can re-pack into a voteproof for c03Point.
var c03others = []struct {
	Name      string
	Kind      string // which coordinate differs (signature suffix)
	Point     base.Point
	FlipStage bool
}{
	{"round-1", "round", base.RawPoint(33, 0), false},
	{"round+1", "round", base.RawPoint(33, 2), false},
	{"height-1", "height", base.RawPoint(32, 1), false},
	{"height+1", "height", base.RawPoint(34, 1), false},
	{"other-stage", "stage", base.RawPoint(33, 1), true},
}

func c03nodes(mask uint, n int) []base.LocalNode {
	var ls []base.LocalNode
	for i := 0; i <= n; i++ { // index n = foreign node (not in the suffrage)
		if mask&(1<<uint(i)) != 0 {
			ls = append(ls, gen.Local(i))
		}
	}

	return ls
}

// c03factAt is the ballot fact "which" (0: X, 1: Y) of stage point pt (0: c03Point at stage, k>0: c03others[k-1]).
func c03factAt(stage base.Stage, pt, which int, efs []util.Hash) base.BallotFact {
	point, at := c03Point, ""

	if pt != 0 {
		o := c03others[pt-1]
		point, at = o.Point, "@"+o.Name

		if o.FlipStage {
			if stage == base.StageINIT {
				stage = base.StageACCEPT
			} else {
				stage = base.StageINIT
			}
		}
	}

	label := "XYZ"[which:which+1] + at

	if stage == base.StageINIT {
		return isaac.NewINITBallotFact(point, gen.H("prev"+at), gen.H("proposal-"+label), efs)
	}

	return isaac.NewACCEPTBallotFact(point, gen.H("proposal"+at), gen.H("newblock-"+label), efs)
}

var (
	c03forgedMu sync.Mutex
	c03forged   = map[string]base.BallotSignFact{}
)

// c03forge returns a sign fact over `claimed` that names node idx and carries that node's publickey, with a signature the node never
// made over that fact. It is produced the way a remote peer would: the JSON of a real sign fact is edited and decoded again by the
// real encoder, so the result is an ordinary isaac.INITBallotSignFact / ACCEPTBallotSignFact.
//   - "spliced": the sign of the node's genuine sign fact over `source` (another fact the node really signed) replaces the sign of `claimed`
//   - "other-key": `claimed` is signed with the key of node keyidx under the address of node idx; the signer field is then replaced by
//     the publickey of node idx
func c03forge(how string, claimed, source base.BallotFact, idx, keyidx int) base.BallotSignFact {
	ck := fmt.Sprintf("%s|%T|%s|%d|%d", how, claimed, claimed.Hash(), idx, keyidx)
	if how == "spliced" {
		ck += "|" + source.Hash().String()
	}

	c03forgedMu.Lock()
	defer c03forgedMu.Unlock()

	if sf, ok := c03forged[ck]; ok {
		return sf
	}

	must := func(err error) {
		if err != nil {
			panic(fmt.Sprintf("c03forge(%s): %+v", how, err))
		}
	}

	node := gen.Local(idx)

	signWith := func(f base.BallotFact, priv base.Privatekey) base.BallotSignFact {
		switch ft := f.(type) {
		case base.INITBallotFact:
			sf := isaac.NewINITBallotSignFact(ft)
			must(sf.NodeSign(priv, gen.NetworkID, node.Address()))

			return sf
		case base.ACCEPTBallotFact:
			sf := isaac.NewACCEPTBallotSignFact(ft)
			must(sf.NodeSign(priv, gen.NetworkID, node.Address()))

			return sf
		default:
			panic(fmt.Sprintf("c03forge: unknown fact %T", f))
		}
	}

	asMap := func(v any) map[string]json.RawMessage {
		b, err := util.MarshalJSON(v)
		must(err)

		var m map[string]json.RawMessage
		must(json.Unmarshal(b, &m))

		return m
	}

	var doc map[string]json.RawMessage

	switch how {
	case "spliced":
		// the node's genuine sign fact over `source`; its fact is replaced by `claimed`
		doc = asMap(signWith(source, node.Privatekey()))

		b, err := util.MarshalJSON(claimed)
		must(err)

		doc["fact"] = b
	case "other-key":
		doc = asMap(signWith(claimed, gen.Local(keyidx).Privatekey()))

		var sign map[string]json.RawMessage
		must(json.Unmarshal(doc["sign"], &sign))

		b, err := util.MarshalJSON(node.Publickey())
		must(err)

		sign["signer"] = b

		b, err = json.Marshal(sign)
		must(err)

		doc["sign"] = b
	default:
		panic("c03forge: unknown method " + how)
	}

	b, err := json.Marshal(doc)
	must(err)

	_, enc := gen.Encoders()

	var sf base.BallotSignFact
	must(encoder.Decode(enc, b, &sf))

	// harness self-check: the decoded object says what the forger wants it to say
	if !sf.Node().Equal(node.Address()) || !sf.Signer().Equal(node.Publickey()) || !sf.Fact().Hash().Equal(claimed.Hash()) {
		panic(fmt.Sprintf("c03forge(%s): decoded sign fact names %v/%v over %v", how, sf.Node(), sf.Signer(), sf.Fact().Hash()))
	}

	c03forged[ck] = sf

	return sf
}

// c03build assembles the real voteproof described by c.
func c03build(c c03Cand, th base.Threshold) base.Voteproof {
	var expels []base.SuffrageExpelOperation

	j := 0

	for i := 0; i < c.N; i++ {
		if c.Expelled&(1<<uint(i)) == 0 {
			continue
		}

		signers := c03nodes(c.Signers[j], c.N)
		j++

		if len(signers) < 1 {
			return nil // an expel operation without any signature cannot even be constructed validly
		}

		expels = append(expels, gen.Expel(gen.Local(i).Address(), c03Point.Height(), c03Point.Height()+1, signers))
	}

	var majefs []util.Hash
	if c.ListFacts {
		majefs = gen.ExpelFactHashes(expels)
	}

	majpt := 0
	if c.MajAt {
		majpt = c.Pt
	}

	// the fact a voter signs: its X/Y choice (the declared majority's side lists the expels exactly as the majority does) at the
	// point its vote was cast for
	var facts [2][2]base.BallotFact

	factOf := func(pt, which int) base.BallotFact {
		slot := 0
		if pt != 0 {
			slot = 1
		}

		if facts[slot][which] == nil {
			var efs []util.Hash
			if which == c.Maj {
				efs = majefs
			}

			facts[slot][which] = c03factAt(c.Stage, pt, which, efs)
		}

		return facts[slot][which]
	}

	voted := func(idx, which int) base.BallotFact {
		if c.Pt != 0 && c.From&(1<<uint(idx)) != 0 {
			return factOf(c.Pt, which)
		}

		return factOf(0, which)
	}

	maj := factOf(majpt, c.Maj)

	var sfs []base.BallotSignFact

	sign := func(f base.BallotFact, node base.LocalNode) base.BallotSignFact {
		isinit := false
		if _, ok := f.(base.INITBallotFact); ok {
			isinit = true
		}

		if c.Tweak == "borrowed-key" && !node.Address().Equal(gen.Local(c.KeyOf).Address()) {
			// a sign fact that names `node` but is signed with another member's key (valid signature of that key)
			key := gen.Local(c.KeyOf)

			if isinit {
				sf := isaac.NewINITBallotSignFact(f.(base.INITBallotFact)) //nolint:forcetypeassert //...
				if err := sf.NodeSign(key.Privatekey(), gen.NetworkID, node.Address()); err != nil {
					panic(err)
				}

				return sf
			}

			sf := isaac.NewACCEPTBallotSignFact(f.(base.ACCEPTBallotFact)) //nolint:forcetypeassert //...
			if err := sf.NodeSign(key.Privatekey(), gen.NetworkID, node.Address()); err != nil {
				panic(err)
			}

			return sf
		}

		if isinit {
			return gen.SignINIT(f.(base.INITBallotFact), node) //nolint:forcetypeassert //...
		}

		return gen.SignACCEPT(f.(base.ACCEPTBallotFact), node) //nolint:forcetypeassert //...
	}

	// the key behind "other-key" forgeries: the lowest genuine voter of this voteproof, the foreign node when every vote is forged
	forgeKey := c.N

	for i := 0; i < c.N; i++ {
		if (c.VoteMaj|c.VoteOther)&^c.Forged&(1<<uint(i)) != 0 {
			forgeKey = i

			break
		}
	}

	vote := func(i, which int) base.BallotSignFact {
		if c.Forged&(1<<uint(i)) != 0 {
			// the sign fact claims voted(i, which); what the node really signed (spliced) is the other fact of this stage point
			return c03forge(c.Forge, voted(i, which), c03factAt(c.Stage, 0, 1-which, nil), i, forgeKey)
		}

		return sign(voted(i, which), gen.Local(i))
	}

	for i := 0; i <= c.N; i++ { // index n = foreign node (not in the suffrage)
		if c.VoteMaj&(1<<uint(i)) != 0 {
			sfs = append(sfs, vote(i, c.Maj))
		}
	}

	for i := 0; i <= c.N; i++ {
		if c.VoteOther&(1<<uint(i)) != 0 {
			sfs = append(sfs, vote(i, 1-c.Maj))
		}
	}

	if c.Tweak == "dup-voter" && len(sfs) > 0 {
		sfs = append(sfs, sfs[0])
	}

	if len(sfs) < 1 {
		return nil
	}

	if c.Stuck != "" {
		// the carried fact is exactly the fact the voters of that side signed (same expel listing); Z lists nothing
		var smaj base.BallotFact

		switch k := c.stuckMajority(); {
		case k == 2:
			smaj = c03factAt(c.Stage, 0, 2, nil)
		case k >= 0:
			smaj = factOf(0, k)
		}

		return c03buildStuck(c, smaj, sfs, expels)
	}

	if c.Stage == base.StageINIT {
		return gen.INITVoteproof(c03Point, maj, sfs, th, expels)
	}

	return gen.ACCEPTVoteproof(c03Point, maj, sfs, th, expels)
}

// c03buildStuck assembles a stuck voteproof for c03Point from the sign facts and expels of c. The honest form is what the type's own
// Finish() gives (no majority, threshold 100); the other forms carry a majority fact and are finished the way every other voteproof
// type is (SetMajority, SetThreshold, Finish of the embedded voteproof) - anybody who can encode a voteproof can send these.
func c03buildStuck(c c03Cand, maj base.BallotFact, sfs []base.BallotSignFact, expels []base.SuffrageExpelOperation) base.Voteproof {
	if maj == nil {
		if c.Stage == base.StageINIT {
			return gen.INITStuckVoteproof(c03Point, sfs, expels)
		}

		return gen.ACCEPTStuckVoteproof(c03Point, sfs, expels)
	}

	expels = append([]base.SuffrageExpelOperation(nil), expels...)

	if c.Stage == base.StageINIT {
		vp := isaac.NewINITStuckVoteproof(c03Point)
		_ = vp.SetSignFacts(sfs)
		_ = vp.SetExpels(expels)
		_ = vp.SetMajority(maj).SetThreshold(base.MaxThreshold).Finish()

		return vp
	}

	vp := isaac.NewACCEPTStuckVoteproof(c03Point)
	_ = vp.SetSignFacts(sfs)
	_ = vp.SetExpels(expels)
	_ = vp.SetMajority(maj).SetThreshold(base.MaxThreshold).Finish()

	return vp
}

// c03accepted is exactly what ballotbox and syncer apply to a voteproof received from others.
func c03accepted(vp base.Voteproof, suf base.Suffrage) bool {
	if vp == nil {
		return false
	}

	if err := vp.IsValid(gen.NetworkID); err != nil {
		return false
	}

	return isaac.IsValidVoteproofWithSuffrage(vp, suf) == nil
}

func c03reqExact(n int, t10 int) int { return (n*t10 + 999) / 1000 }

// signer-set classes for an expel of node e given expelled set E: sizes the validator distinguishes, canonical members.
func c03signerClasses(n, e int, expelled uint, req int) []uint {
	k := bits.OnesCount(expelled)
	sizes := map[int]bool{1: true, req - 1: true, req: true, n - k - 1: true, n - k: true, n - 1: true}

	var ordered []int
	for s := range sizes {
		if s >= 1 && s <= n-1 {
			ordered = append(ordered, s)
		}
	}

	sort.Ints(ordered)

	seen := map[uint]bool{}

	var out []uint

	for _, s := range ordered {
		for _, preferLive := range []bool{true, false} {
			var m uint

			cnt := 0

			pick := func(live bool) {
				for i := 0; i < n && cnt < s; i++ {
					if i == e || m&(1<<uint(i)) != 0 {
						continue
					}

					if (expelled&(1<<uint(i)) == 0) == live {
						m |= 1 << uint(i)
						cnt++
					}
				}
			}

			pick(preferLive)
			pick(!preferLive)

			if cnt == s && !seen[m] {
				seen[m] = true
				out = append(out, m)
			}
		}
	}

	return out
}

type c03Accepted struct {
	c  c03Cand
	id string
}

func TestC03(t *testing.T) {
	r := ev.Start(t, "C03")
	defer r.Finish()
	r.Rule("one stage point (INIT and ACCEPT), two facts X,Y, suffrage n; candidates = every assignment of nodes to {absent, votes the declared majority, expelled} " +
		"x canonical expel-signer sets of every size class the validator distinguishes {1,req-1,req,n-k-1,n-k,n-1} (live-first and expelled-first) " +
		"x {majority fact lists the expel facts or not}, every plain assignment to {absent, votes majority, votes the other fact}, x tweaks {duplicate voter, foreign voter, foreign expel signer, one member signing the other voters' sign facts with its own key}; real signed voteproofs, accepted = vp.IsValid && isaac.IsValidVoteproofWithSuffrage; " +
		"plus the family 'replayed from another point': the votes the nodes cast for a neighbouring stage point (round-1, round+1, height-1, height+1, other stage) packaged as a voteproof for this point " +
		"(every assignment node -> {absent, vote for this point, vote for the other point} x majority fact of this or of the other point; with expels signed by all others: whole vote set replayed / one replayed vote); " +
		"plus the family 'stuck': stuck voteproofs (INITStuckVoteproof / ACCEPTStuckVoteproof) for this point, every assignment node -> {absent, signs X, signs Y, expelled} with k>=1 expelled and every expel signed by all other nodes, " +
		"x {the sign facts of X list the expel facts or not} x carried majority {none = the type's own Finish(), X, Y, a third fact Z nobody signed}; they join the same pool, so each is paired with every accepted plain, expel, tweaked, replayed and stuck voteproof; a voteproof without majority is never one side of a conflict; " +
		"plus the family 'forged-signature': votes in the names of suffrage nodes that never signed them - the sign fact names the node and carries the node's own publickey, but the signature is the node's genuine signature over the other fact of this stage point spliced onto the claimed fact, or a signature made with another key (the lowest genuine voter of the voteproof, a foreign key when every vote is forged); edited on the JSON of a real sign fact and decoded again by the real encoder. " +
		"Plain: every voter set x every non-empty subset of forged voters (one genuine vote first / in the middle / last, several genuine votes, all forged) x both majorities; with minority votes: one whole side forged, everybody but the lowest / highest voter forged; with expels (genuinely signed by all others, listed or not): all voters forged, all but the lowest / middle / highest. A forged vote is not a signature of the named node: the node does not count as signing the claimed fact (spliced: it signed the other fact, which is what its signature covers). " +
		"plus rapid-drawn voteproofs with minority votes, arbitrary signer sets, arbitrary replayed voter subsets, stuck voteproofs with arbitrary vote splits and signer sets, and arbitrary forged voter subsets in any of them. Every pair of accepted voteproofs for the point with different majority facts is judged: equivocators = nodes signing two different facts for one and the same stage point in the two. " +
		"non-trivial = distinct pair of accepted voteproofs with different majorities (the pair reached the predicate)")
	r.Floor(20)
	r.Assume("both voteproofs carry the network threshold t (a voteproof's own threshold field is not varied; a stuck voteproof carries 100 as its type demands)",
		"expel operations may carry the signature of any suffrage node (statement)",
		"f = n - ceil(n*t/100) computed with exact integer arithmetic",
		"a node that signs one fact per stage point is honest: its vote for another round/height/stage is not a second vote for this stage point",
		"a stuck voteproof carries threshold 100 (fixed by its type), so its bytes do not depend on the network threshold t: its validation verdict is computed once per (n, stage) and reused for every t; t enters the judgement of its pairs through f only",
		"a majority-carrying stuck voteproof is finished like every other voteproof type (SetMajority, SetThreshold(100), Finish of the embedded voteproof): any peer can encode and send one",
		"'sign' in the statement means a signature made with the node's private key over that fact: a sign fact that merely names a node and its publickey (forged) is not a vote of that node and does not make it an equivocator; anybody can put such bytes on the wire")

	type cfg struct {
		n   int
		t10 int
	}

	var cfgs []cfg

	maxN := r.N(5, 7)
	ths := []int{670, 1000}

	if r.Thorough() {
		ths = []int{670, 700, 750, 800, 900, 1000}
	}

	for n := 1; n <= maxN; n++ {
		for _, t10 := range ths {
			cfgs = append(cfgs, cfg{n, t10})
		}
	}

	// larger (n,t) first so shards are balanced
	sort.SliceStable(cfgs, func(i, j int) bool { return cfgs[i].n > cfgs[j].n })

	// A stuck candidate does not depend on the network threshold (its type fixes its threshold field to 100), so the very same
	// voteproof and suffrage would be validated again for every t: the verdict of the validator is remembered per candidate.
	stuckVerdict := map[string]bool{}

	for ci, cf := range cfgs {
		if !r.Mine(ci) {
			continue
		}

		n, t10 := cf.n, cf.t10
		th := base.Threshold(float64(t10) / 10)
		req := c03reqExact(n, t10)
		f := n - req
		suf := gen.Suffrage(gen.Locals(n))
		_ = gen.Local(n) // foreign node

		for _, stage := range []base.Stage{base.StageINIT, base.StageACCEPT} {
			if stage == base.StageACCEPT && r.Quick() && n > 4 {
				continue
			}

			var acc []c03Cand

			var evaluated int64

			try := func(c c03Cand) {
				evaluated++

				if c03accepted(c03build(c, th), suf) {
					acc = append(acc, c)
				}
			}

			// every assignment node -> {absent(0), votes majority(1), expelled(2)}
			total := 1
			for i := 0; i < n; i++ {
				total *= 3
			}

			for a := 0; a < total; a++ {
				var votes, expelled uint

				x := a
				for i := 0; i < n; i++ {
					switch x % 3 {
					case 1:
						votes |= 1 << uint(i)
					case 2:
						expelled |= 1 << uint(i)
					}

					x /= 3
				}

				if votes == 0 {
					continue
				}

				for maj := 0; maj < 2; maj++ {
					base0 := c03Cand{N: n, Stage: stage, Maj: maj, VoteMaj: votes, Expelled: expelled}

					if expelled == 0 {
						try(base0)

						for _, tw := range []string{"dup-voter", "foreign-voter"} {
							c := base0
							c.Tweak = tw

							if tw == "foreign-voter" {
								c.VoteMaj |= 1 << uint(n)
							}

							try(c)
						}

						// one member signs the votes of the others with its own key
						for k := 0; k < n; k++ {
							if votes&(1<<uint(k)) == 0 || votes == 1<<uint(k) {
								continue
							}

							c := base0
							c.Tweak = "borrowed-key"
							c.KeyOf = k
							try(c)
						}

						continue
					}

					// canonical signer classes: the same class index for every expelled node
					var perNode [][]uint

					maxc := 0

					for e := 0; e < n; e++ {
						if expelled&(1<<uint(e)) != 0 {
							cl := c03signerClasses(n, e, expelled, req)
							perNode = append(perNode, cl)

							if len(cl) > maxc {
								maxc = len(cl)
							}
						}
					}

					for ci := 0; ci < maxc; ci++ {
						c := base0
						c.Signers = make([]uint, len(perNode))
						ok := true

						for j := range perNode {
							if len(perNode[j]) == 0 {
								ok = false

								break
							}

							c.Signers[j] = perNode[j][min(ci, len(perNode[j])-1)]
						}

						if !ok {
							continue
						}

						for _, listed := range []bool{true, false} {
							c.ListFacts = listed
							try(c)
						}

						// foreign signer on top of an otherwise sufficient set
						cf := c
						cf.ListFacts = true
						cf.Tweak = "foreign-signer"
						cf.Signers = append([]uint(nil), c.Signers...)
						cf.Signers[0] |= 1 << uint(n)
						try(cf)
					}
				}
			}

			// plain voteproofs with minority votes: node -> {absent, votes declared majority, votes the other fact}
			for a := 0; a < total; a++ {
				var votes, other uint

				x := a
				for i := 0; i < n; i++ {
					switch x % 3 {
					case 1:
						votes |= 1 << uint(i)
					case 2:
						other |= 1 << uint(i)
					}

					x /= 3
				}

				if votes == 0 || other == 0 {
					continue
				}

				for maj := 0; maj < 2; maj++ {
					try(c03Cand{N: n, Stage: stage, Maj: maj, VoteMaj: votes, VoteOther: other})
				}
			}

			// forged signatures: votes in the names of suffrage nodes that never signed them (see c03Cand.Forged), made by splicing
			// the node's genuine signature over the other fact of this stage point onto the claimed fact, or with another key.
			// plain: every voter set x every non-empty subset of forged voters (so a single genuine vote comes first, in the middle
			// and last in the sign fact list, several genuine votes surround forged ones, and every vote is forged).
			var nforged int64

			tryForged := func(c c03Cand) {
				for _, how := range []string{"spliced", "other-key"} {
					c.Tweak, c.Forge = "forged-signature", how
					before := len(acc)
					try(c)
					nforged += int64(len(acc) - before)
				}
			}

			for votes := uint(1); votes < 1<<uint(n); votes++ {
				for forged := votes; forged != 0; forged = (forged - 1) & votes {
					for maj := 0; maj < 2; maj++ {
						tryForged(c03Cand{N: n, Stage: stage, Maj: maj, VoteMaj: votes, Forged: forged})
					}
				}
			}

			// forged minority votes and forged majority votes next to genuine minority votes: node -> {absent, votes declared majority,
			// votes the other fact}; forged = one whole side, or everybody but the lowest / the highest voter
			for a := 0; a < total; a++ {
				var votes, other uint

				x := a
				for i := 0; i < n; i++ {
					switch x % 3 {
					case 1:
						votes |= 1 << uint(i)
					case 2:
						other |= 1 << uint(i)
					}

					x /= 3
				}

				if votes == 0 || other == 0 {
					continue
				}

				all := votes | other
				seen := map[uint]bool{}

				for _, forged := range []uint{votes, other, all &^ (all & -all), all &^ (1 << uint(bits.Len(all)-1))} {
					if forged == 0 || seen[forged] {
						continue
					}

					seen[forged] = true

					tryForged(c03Cand{N: n, Stage: stage, VoteMaj: votes, VoteOther: other, Forged: forged})
				}
			}

			// with expels: node -> {absent, votes, expelled}, every expel genuinely signed by all other nodes, expel facts listed or
			// not; forged = every voter, every voter but the lowest / a middle / the highest one
			for a := 0; a < total; a++ {
				var votes, expelled uint

				x := a
				for i := 0; i < n; i++ {
					switch x % 3 {
					case 1:
						votes |= 1 << uint(i)
					case 2:
						expelled |= 1 << uint(i)
					}

					x /= 3
				}

				if votes == 0 || expelled == 0 {
					continue
				}

				c := c03Cand{N: n, Stage: stage, VoteMaj: votes, Expelled: expelled}

				for e := 0; e < n; e++ {
					if expelled&(1<<uint(e)) != 0 {
						c.Signers = append(c.Signers, (uint(1)<<uint(n)-1)&^(1<<uint(e)))
					}
				}

				var voters []int
				for i := 0; i < n; i++ {
					if votes&(1<<uint(i)) != 0 {
						voters = append(voters, i)
					}
				}

				seen := map[uint]bool{}

				for _, genuine := range []int{-1, voters[0], voters[len(voters)/2], voters[len(voters)-1]} {
					c.Forged = votes
					if genuine >= 0 {
						c.Forged &^= 1 << uint(genuine)
					}

					if c.Forged == 0 || seen[c.Forged] {
						continue
					}

					seen[c.Forged] = true

					for _, listed := range []bool{true, false} {
						c.ListFacts = listed
						tryForged(c)
					}
				}
			}

			// replayed from another point: the votes the nodes honestly cast for a neighbouring stage point (round+-1, height+-1,
			// other stage), packaged as a voteproof for this point. X<->Y symmetry: the replayed side is always X (Maj=0); the
			// candidates above supply both majorities of this point as partners.
			for pt := 1; pt <= len(c03others); pt++ {
				// plain: node -> {absent, its vote for this point, its vote for the other point}; majority of either point
				for a := 0; a < total; a++ {
					var votes, from uint

					x := a
					for i := 0; i < n; i++ {
						switch x % 3 {
						case 1:
							votes |= 1 << uint(i)
						case 2:
							votes |= 1 << uint(i)
							from |= 1 << uint(i)
						}

						x /= 3
					}

					if from == 0 {
						continue
					}

					for _, majAt := range []bool{true, false} {
						try(c03Cand{N: n, Stage: stage, VoteMaj: votes, Pt: pt, From: from, MajAt: majAt})
					}
				}

				// with expels: node -> {absent, votes, expelled}, every expel signed by all other nodes, expel facts listed;
				// the whole vote set replayed, and one replayed vote among votes for this point
				for a := 0; a < total; a++ {
					var votes, expelled uint

					x := a
					for i := 0; i < n; i++ {
						switch x % 3 {
						case 1:
							votes |= 1 << uint(i)
						case 2:
							expelled |= 1 << uint(i)
						}

						x /= 3
					}

					if votes == 0 || expelled == 0 {
						continue
					}

					c := c03Cand{N: n, Stage: stage, VoteMaj: votes, Expelled: expelled, ListFacts: true, Pt: pt}

					for e := 0; e < n; e++ {
						if expelled&(1<<uint(e)) != 0 {
							c.Signers = append(c.Signers, (uint(1)<<uint(n)-1)&^(1<<uint(e)))
						}
					}

					c.From, c.MajAt = votes, true
					try(c)

					c.From, c.MajAt = votes&-votes, false
					try(c)
				}
			}

			// stuck voteproofs: node -> {absent, signs X, signs Y, expelled} with k>=1 expelled, every expel signed by all other
			// nodes, the sign facts of X list the expel facts or not, carrying no majority / X / Y / a fact Z nobody signed.
			// X<->Y symmetry: only X may list the expels; the families above supply both majorities as partners.
			var nstuck int64

			total4 := 1 << uint(2*n)

			for a := 0; a < total4; a++ {
				var vx, vy, expelled uint

				for i := 0; i < n; i++ {
					switch (a >> uint(2*i)) & 3 {
					case 1:
						vx |= 1 << uint(i)
					case 2:
						vy |= 1 << uint(i)
					case 3:
						expelled |= 1 << uint(i)
					}
				}

				if expelled == 0 || vx|vy == 0 {
					continue
				}

				c := c03Cand{N: n, Stage: stage, VoteMaj: vx, VoteOther: vy, Expelled: expelled}

				for e := 0; e < n; e++ {
					if expelled&(1<<uint(e)) != 0 {
						c.Signers = append(c.Signers, (uint(1)<<uint(n)-1)&^(1<<uint(e)))
					}
				}

				for _, listed := range []bool{false, true} {
					if listed && vx == 0 {
						continue // no sign fact of X: nothing signed lists anything; X is then one more fact nobody signed
					}

					for _, stuck := range []string{"nil", "maj", "other", "unvoted"} {
						c.ListFacts, c.Stuck = listed, stuck
						evaluated++

						key := c.String()

						ok, found := stuckVerdict[key]
						if !found {
							ok = c03accepted(c03build(c, th), suf)
							stuckVerdict[key] = ok
						}

						if ok {
							acc = append(acc, c)
							nstuck++
						}
					}
				}
			}

			c03pairs(t, r, n, t10, f, req, acc)
			r.CaseN(evaluated, 0, fmt.Sprintf("cands:n=%d", n))
			r.Class(fmt.Sprintf("accepted-stuck:n=%d,t=%d,%s", n, t10, stage), nstuck)
			r.Class(fmt.Sprintf("accepted-forged:n=%d,t=%d,%s", n, t10, stage), nforged)
			r.Class(fmt.Sprintf("accepted:n=%d,t=%d,%s", n, t10, stage), int64(len(acc)))
		}
	}

	r.Exhaustive(true)

	// ---- rapid: arbitrary vote splits (minority votes inside a voteproof) and arbitrary expel signer sets
	r.Checks(150, 6000)
	rapid.Check(t, func(rt *rapid.T) {
		n := rapid.IntRange(2, r.N(5, 7)).Draw(rt, "n")
		t10 := rapid.SampledFrom([]int{670, 670, 700, 750, 800, 900, 1000}).Draw(rt, "t10")
		th := base.Threshold(float64(t10) / 10)
		req := c03reqExact(n, t10)
		f := n - req
		suf := gen.Suffrage(gen.Locals(n))
		stage := rapid.SampledFrom([]base.Stage{base.StageINIT, base.StageACCEPT}).Draw(rt, "stage")

		var acc []c03Cand

		for maj := 0; maj < 2; maj++ {
			k := rapid.IntRange(1, 4).Draw(rt, "cands")
			for ; k > 0; k-- {
				c := c03Cand{N: n, Stage: stage, Maj: maj, ListFacts: rapid.Bool().Draw(rt, "listed")}
				c.Stuck = rapid.SampledFrom([]string{"", "", "", "", "nil", "maj", "other", "unvoted"}).Draw(rt, "stuck")

				// biased towards acceptance: most nodes vote the majority (a stuck voteproof: votes split, somebody expelled)
				roles := []int{1, 1, 1, 1, 0, 2, 3}
				if c.Stuck != "" {
					roles = []int{1, 1, 2, 2, 0, 3, 3}
				}

				for i := 0; i < n; i++ {
					switch rapid.SampledFrom(roles).Draw(rt, "role") {
					case 1:
						c.VoteMaj |= 1 << uint(i)
					case 2:
						c.VoteOther |= 1 << uint(i)
					case 3:
						c.Expelled |= 1 << uint(i)
					}
				}

				for e := 0; e < n; e++ {
					if c.Expelled&(1<<uint(e)) != 0 {
						m := uint(rapid.IntRange(1, 1<<uint(n)-1).Draw(rt, "signers")) &^ (1 << uint(e))
						c.Signers = append(c.Signers, m)
					}
				}

				// forged signatures in the names of some voters (any kind of voteproof: plain, minority votes, expels, stuck)
				if how := rapid.SampledFrom([]string{"", "", "spliced", "other-key"}).Draw(rt, "forge"); how != "" {
					voters := c.VoteMaj | c.VoteOther
					forged := voters

					switch rapid.SampledFrom([]string{"all-but-one", "all-but-one", "all", "mask"}).Draw(rt, "forged-voters") {
					case "all-but-one":
						// the genuine vote is the k-th vote of the voteproof (first / in the middle / last)
						k := rapid.IntRange(0, n-1).Draw(rt, "genuine-position")
						if cnt := bits.OnesCount(voters); cnt > 0 {
							k %= cnt

							for i := 0; i < n; i++ {
								if voters&(1<<uint(i)) == 0 {
									continue
								}

								if k == 0 {
									forged &^= 1 << uint(i)

									break
								}

								k--
							}
						}
					case "mask":
						forged &= uint(rapid.IntRange(1, 1<<uint(n)-1).Draw(rt, "forged-mask"))
					}

					if forged != 0 {
						c.Tweak, c.Forge, c.Forged = "forged-signature", how, forged
					}
				}

				// some or all votes (and possibly the majority) replayed from a neighbouring stage point (stuck and forged candidates
				// are not combined with the replayed family)
				if c.Stuck != "" || c.Forged != 0 {
					c.Pt = 0
				} else if c.Pt = rapid.SampledFrom([]int{0, 0, 0, 1, 2, 3, 4, 5}).Draw(rt, "replayed-from"); c.Pt != 0 {
					c.From = c.VoteMaj | c.VoteOther
					if !rapid.Bool().Draw(rt, "replay-all") {
						c.From &= uint(rapid.IntRange(1, 1<<uint(n)-1).Draw(rt, "replayed-voters"))
					}

					c.MajAt = rapid.Bool().Draw(rt, "majority-of-other-point")

					if c.From == 0 && !c.MajAt {
						c.Pt = 0
					}
				}

				if c.VoteMaj == 0 && (c.Stuck == "" || c.VoteOther == 0) {
					continue
				}

				if c03accepted(c03build(c, th), suf) {
					acc = append(acc, c)
				}
			}
		}

		c03pairs(rt, r, n, t10, f, req, acc)
		r.Case(fmt.Sprintf("rapid|%v", acc), false, "rapid")
	})
}

// c03signedFact says which fact node i signed inside c: ok=false when it signed nothing there. A fact is identified by the point
// it was signed for (0: c03Point, k: c03others[k-1]), the X/Y choice and, when it lists expel facts, the set of expelled nodes.
func c03signedFact(c c03Cand, i int) (pt, which int, listed uint, ok bool) {
	bit := uint(1) << uint(i)

	switch {
	case c.Tweak == "borrowed-key":
		// only the key's owner signed anything (every sign fact carries its signature)
		if i != c.KeyOf || c.VoteMaj == 0 {
			return 0, 0, 0, false
		}

		return 0, c.Maj, 0, true
	case c.Forged&bit != 0:
		// the sign fact in the name of node i is not a signature of node i over the fact it claims. "other-key": node i signed
		// nothing in there. "spliced": the signature inside is the node's genuine signature over the OTHER fact of this stage point
		// (no expel listing), which is what the node signed.
		if c.Forge != "spliced" {
			return 0, 0, 0, false
		}

		if c.VoteMaj&bit != 0 {
			return 0, 1 - c.Maj, 0, true
		}

		return 0, c.Maj, 0, true
	case c.VoteMaj&bit != 0:
		which = c.Maj

		if c.ListFacts {
			listed = c.Expelled
		}
	case c.VoteOther&bit != 0:
		which = 1 - c.Maj
	default:
		return 0, 0, 0, false
	}

	if c.Pt != 0 && c.From&bit != 0 {
		pt = c.Pt
	}

	return pt, which, listed, true
}

// c03majority identifies the declared majority fact by (point it belongs to, X/Y[/Z]); -1: the voteproof carries no majority.
func c03majority(c c03Cand) int {
	if c.Stuck != "" {
		switch k := c.stuckMajority(); {
		case k < 0:
			return -1 // carries no majority: cannot conflict with anything
		case k == 2:
			return 2 * (len(c03others) + 1) // fact Z of this stage point
		default:
			return k
		}
	}

	if c.MajAt {
		return c.Pt*2 + c.Maj
	}

	return c.Maj
}

// c03pairs judges every pair of accepted voteproofs (all are voteproofs for c03Point) with different majorities.
func c03pairs(t ev.TB, r *ev.Rec, n, t10, f, req int, acc []c03Cand) {
	groups := make([][]c03Cand, 2*(len(c03others)+1)+1)
	for _, c := range acc {
		if k := c03majority(c); k >= 0 {
			groups[k] = append(groups[k], c)
		}
	}

	for ka := range groups {
		for kb := ka + 1; kb < len(groups); kb++ {
			for _, a := range groups[ka] {
				for _, b := range groups[kb] {
					c03pair(t, r, n, t10, f, req, a, b)
				}
			}
		}
	}
}

func c03pair(t ev.TB, r *ev.Rec, n, t10, f, req int, a, b c03Cand) {
	// A node equivocates if it signed two different facts for one and the same stage point in the two voteproofs (suffrage
	// nodes only: a foreign signer is not a suffrage node). A vote cast for another stage point is not a second vote for this one.
	neq := 0

	for i := 0; i < n; i++ {
		pa, wa, la, oka := c03signedFact(a, i)
		pb, wb, lb, okb := c03signedFact(b, i)

		if oka && okb && pa == pb && (wa != wb || la != lb) {
			neq++
		}
	}

	fp := "pair|" + a.String() + "|" + b.String()
	r.Case(fp, true, fmt.Sprintf("pairs:n=%d", n))

	if r.WantSample() && (a.Expelled != 0 || b.Expelled != 0) {
		r.Sample(map[string]any{"n": n, "threshold": float64(t10) / 10, "f": f, "vp_A": a.String(), "vp_B": b.String(), "equivocators": neq})
	}

	if neq > f {
		return // more equivocators than the fault bound: outside the statement
	}

	sig := "conflict-plain"
	ka, kb := bits.OnesCount(a.Expelled), bits.OnesCount(b.Expelled)

	switch {
	case a.Forged != 0 || b.Forged != 0:
		sig = "conflict-forged-signature"
	case a.Stuck != "" || b.Stuck != "":
		sig = "conflict-stuck-with-majority"
	case a.Pt != 0:
		sig = "conflict-replayed-" + c03others[a.Pt-1].Kind
	case b.Pt != 0:
		sig = "conflict-replayed-" + c03others[b.Pt-1].Kind
	case a.Tweak != "" || b.Tweak != "":
		sig = "conflict-" + a.Tweak + b.Tweak
	case ka > n-req || kb > n-req:
		sig = "expel-k-gt-n-minus-required"
	case ka > 0 || kb > 0:
		sig = "conflict-expel"
	}

	r.Violation(t, sig, "n=%d t=%.1f f=%d required=%d: two accepted voteproofs for %v carry different majorities with only %d equivocator(s)\n  A: %s\n  B: %s",
		n, float64(t10)/10, f, req, c03Point, neq, a.String(), b.String())
}
