package p_agree

import (
	"fmt"
	"math/bits"
	"sort"
	"strings"
	"testing"

	"github.com/spikeekips/mitum/base"
	"github.com/spikeekips/mitum/isaac"
	"github.com/spikeekips/mitum/util"
	"pgregory.net/rapid"
	"verif/internal/ev"
	"verif/internal/gen"
)

// A candidate voteproof for one stage point, described with bitmasks over suffrage nodes 0..n-1 (foreign node = index n).
type c03Cand struct {
	N         int
	Stage     base.Stage
	Maj       int    // 0: fact X is the declared majority, 1: fact Y
	VoteMaj   uint   // nodes signing the declared majority fact
	VoteOther uint   // nodes signing the other fact (minority votes inside this voteproof)
	Expelled  uint   // expelled nodes
	Signers   []uint // per expelled node (ascending node index): who signed its expel operation
	ListFacts bool   // the majority fact lists the expel facts
	Tweak     string // "", "dup-voter", "foreign-voter", "foreign-signer", "borrowed-key"
	KeyOf     int    // borrowed-key: index of the single node whose key signs every sign fact (each still claims its voter's address)
}

func (c c03Cand) String() string {
	ss := make([]string, len(c.Signers))
	for i := range c.Signers {
		ss[i] = fmt.Sprintf("%b", c.Signers[i])
	}

	return fmt.Sprintf("n=%d %s maj=%c votes=%0*b other=%0*b expelled=%0*b signers=[%s] listed=%v tweak=%q keyof=%d",
		c.N, c.Stage, "XY"[c.Maj], c.N, c.VoteMaj, c.N, c.VoteOther, c.N, c.Expelled, strings.Join(ss, ","), c.ListFacts, c.Tweak, c.KeyOf)
}

var c03Point = base.RawPoint(33, 1)

func c03nodes(mask uint, n int) []base.LocalNode {
	var ls []base.LocalNode
	for i := 0; i <= n; i++ { // index n = foreign node (not in the suffrage)
		if mask&(1<<uint(i)) != 0 {
			ls = append(ls, gen.Local(i))
		}
	}

	return ls
}

func c03facts(c c03Cand, expelfacts []util.Hash) (maj, other base.BallotFact) {
	mk := func(which int, withExpels bool) base.BallotFact {
		var efs []util.Hash
		if withExpels {
			efs = expelfacts
		}

		label := "XY"[which : which+1]

		if c.Stage == base.StageINIT {
			return isaac.NewINITBallotFact(c03Point, gen.H("prev"), gen.H("proposal-"+label), efs)
		}

		return isaac.NewACCEPTBallotFact(c03Point, gen.H("proposal"), gen.H("newblock-"+label), efs)
	}

	return mk(c.Maj, c.ListFacts), mk(1-c.Maj, false)
}

// c03build assembles the real voteproof described by c.
func c03build(c c03Cand, th base.Threshold) base.Voteproof {
	var expels []base.SuffrageExpelOperation

	j := 0

	for i := 0; i < c.N; i++ {
		if c.Expelled&(1<<uint(i)) == 0 {
			continue
		}

		signers := c03nodes(c.Signers[j], c.N)
		j++

		if len(signers) < 1 {
			return nil // an expel operation without any signature cannot even be constructed validly
		}

		expels = append(expels, gen.Expel(gen.Local(i).Address(), c03Point.Height(), c03Point.Height()+1, signers))
	}

	maj, other := c03facts(c, gen.ExpelFactHashes(expels))

	var sfs []base.BallotSignFact

	sign := func(f base.BallotFact, node base.LocalNode) base.BallotSignFact {
		if c.Tweak == "borrowed-key" && !node.Address().Equal(gen.Local(c.KeyOf).Address()) {
			// a sign fact that names `node` but is signed with another member's key (valid signature of that key)
			key := gen.Local(c.KeyOf)

			if c.Stage == base.StageINIT {
				sf := isaac.NewINITBallotSignFact(f.(base.INITBallotFact)) //nolint:forcetypeassert //...
				if err := sf.NodeSign(key.Privatekey(), gen.NetworkID, node.Address()); err != nil {
					panic(err)
				}

				return sf
			}

			sf := isaac.NewACCEPTBallotSignFact(f.(base.ACCEPTBallotFact)) //nolint:forcetypeassert //...
			if err := sf.NodeSign(key.Privatekey(), gen.NetworkID, node.Address()); err != nil {
				panic(err)
			}

			return sf
		}

		if c.Stage == base.StageINIT {
			return gen.SignINIT(f.(base.INITBallotFact), node) //nolint:forcetypeassert //...
		}

		return gen.SignACCEPT(f.(base.ACCEPTBallotFact), node) //nolint:forcetypeassert //...
	}

	for _, node := range c03nodes(c.VoteMaj, c.N) {
		sfs = append(sfs, sign(maj, node))
	}

	for _, node := range c03nodes(c.VoteOther, c.N) {
		sfs = append(sfs, sign(other, node))
	}

	if c.Tweak == "dup-voter" && len(sfs) > 0 {
		sfs = append(sfs, sfs[0])
	}

	if len(sfs) < 1 {
		return nil
	}

	if c.Stage == base.StageINIT {
		return gen.INITVoteproof(c03Point, maj, sfs, th, expels)
	}

	return gen.ACCEPTVoteproof(c03Point, maj, sfs, th, expels)
}

// c03accepted is exactly what ballotbox and syncer apply to a voteproof received from others.
func c03accepted(vp base.Voteproof, suf base.Suffrage) bool {
	if vp == nil {
		return false
	}

	if err := vp.IsValid(gen.NetworkID); err != nil {
		return false
	}

	return isaac.IsValidVoteproofWithSuffrage(vp, suf) == nil
}

func c03reqExact(n int, t10 int) int { return (n*t10 + 999) / 1000 }

// signer-set classes for an expel of node e given expelled set E: sizes the validator distinguishes, canonical members.
func c03signerClasses(n, e int, expelled uint, req int) []uint {
	k := bits.OnesCount(expelled)
	sizes := map[int]bool{1: true, req - 1: true, req: true, n - k - 1: true, n - k: true, n - 1: true}

	var ordered []int
	for s := range sizes {
		if s >= 1 && s <= n-1 {
			ordered = append(ordered, s)
		}
	}

	sort.Ints(ordered)

	seen := map[uint]bool{}

	var out []uint

	for _, s := range ordered {
		for _, preferLive := range []bool{true, false} {
			var m uint

			cnt := 0

			pick := func(live bool) {
				for i := 0; i < n && cnt < s; i++ {
					if i == e || m&(1<<uint(i)) != 0 {
						continue
					}

					if (expelled&(1<<uint(i)) == 0) == live {
						m |= 1 << uint(i)
						cnt++
					}
				}
			}

			pick(preferLive)
			pick(!preferLive)

			if cnt == s && !seen[m] {
				seen[m] = true
				out = append(out, m)
			}
		}
	}

	return out
}

type c03Accepted struct {
	c  c03Cand
	id string
}

func TestC03(t *testing.T) {
	r := ev.Start(t, "C03")
	defer r.Finish()
	r.Rule("one stage point (INIT and ACCEPT), two facts X,Y, suffrage n; candidates = every assignment of nodes to {absent, votes the declared majority, expelled} " +
		"x canonical expel-signer sets of every size class the validator distinguishes {1,req-1,req,n-k-1,n-k,n-1} (live-first and expelled-first) " +
		"x {majority fact lists the expel facts or not}, every plain assignment to {absent, votes majority, votes the other fact}, x tweaks {duplicate voter, foreign voter, foreign expel signer, one member signing the other voters' sign facts with its own key}; real signed voteproofs, accepted = vp.IsValid && isaac.IsValidVoteproofWithSuffrage; " +
		"plus rapid-drawn voteproofs with minority votes and arbitrary signer sets. Every pair (accepted for X, accepted for Y) is judged: equivocators = nodes signing different facts in the two. " +
		"non-trivial = distinct pair of accepted voteproofs with different majorities (the pair reached the predicate)")
	r.Floor(20)
	r.Assume("both voteproofs carry the network threshold t (a voteproof's own threshold field is not varied)",
		"expel operations may carry the signature of any suffrage node (statement)",
		"f = n - ceil(n*t/100) computed with exact integer arithmetic")

	type cfg struct {
		n   int
		t10 int
	}

	var cfgs []cfg

	maxN := r.N(5, 7)
	ths := []int{670, 1000}

	if r.Thorough() {
		ths = []int{670, 700, 750, 800, 900, 1000}
	}

	for n := 1; n <= maxN; n++ {
		for _, t10 := range ths {
			cfgs = append(cfgs, cfg{n, t10})
		}
	}

	// larger (n,t) first so shards are balanced
	sort.SliceStable(cfgs, func(i, j int) bool { return cfgs[i].n > cfgs[j].n })

	for ci, cf := range cfgs {
		if !r.Mine(ci) {
			continue
		}

		n, t10 := cf.n, cf.t10
		th := base.Threshold(float64(t10) / 10)
		req := c03reqExact(n, t10)
		f := n - req
		suf := gen.Suffrage(gen.Locals(n))
		_ = gen.Local(n) // foreign node

		for _, stage := range []base.Stage{base.StageINIT, base.StageACCEPT} {
			if stage == base.StageACCEPT && r.Quick() && n > 4 {
				continue
			}

			var acc [2][]c03Cand

			var evaluated int64

			try := func(c c03Cand) {
				evaluated++

				if c03accepted(c03build(c, th), suf) {
					acc[c.Maj] = append(acc[c.Maj], c)
				}
			}

			// every assignment node -> {absent(0), votes majority(1), expelled(2)}
			total := 1
			for i := 0; i < n; i++ {
				total *= 3
			}

			for a := 0; a < total; a++ {
				var votes, expelled uint

				x := a
				for i := 0; i < n; i++ {
					switch x % 3 {
					case 1:
						votes |= 1 << uint(i)
					case 2:
						expelled |= 1 << uint(i)
					}

					x /= 3
				}

				if votes == 0 {
					continue
				}

				for maj := 0; maj < 2; maj++ {
					base0 := c03Cand{N: n, Stage: stage, Maj: maj, VoteMaj: votes, Expelled: expelled}

					if expelled == 0 {
						try(base0)

						for _, tw := range []string{"dup-voter", "foreign-voter"} {
							c := base0
							c.Tweak = tw

							if tw == "foreign-voter" {
								c.VoteMaj |= 1 << uint(n)
							}

							try(c)
						}

						// one member signs the votes of the others with its own key
						for k := 0; k < n; k++ {
							if votes&(1<<uint(k)) == 0 || votes == 1<<uint(k) {
								continue
							}

							c := base0
							c.Tweak = "borrowed-key"
							c.KeyOf = k
							try(c)
						}

						continue
					}

					// canonical signer classes: the same class index for every expelled node
					var perNode [][]uint

					maxc := 0

					for e := 0; e < n; e++ {
						if expelled&(1<<uint(e)) != 0 {
							cl := c03signerClasses(n, e, expelled, req)
							perNode = append(perNode, cl)

							if len(cl) > maxc {
								maxc = len(cl)
							}
						}
					}

					for ci := 0; ci < maxc; ci++ {
						c := base0
						c.Signers = make([]uint, len(perNode))
						ok := true

						for j := range perNode {
							if len(perNode[j]) == 0 {
								ok = false

								break
							}

							c.Signers[j] = perNode[j][min(ci, len(perNode[j])-1)]
						}

						if !ok {
							continue
						}

						for _, listed := range []bool{true, false} {
							c.ListFacts = listed
							try(c)
						}

						// foreign signer on top of an otherwise sufficient set
						cf := c
						cf.ListFacts = true
						cf.Tweak = "foreign-signer"
						cf.Signers = append([]uint(nil), c.Signers...)
						cf.Signers[0] |= 1 << uint(n)
						try(cf)
					}
				}
			}

			// plain voteproofs with minority votes: node -> {absent, votes declared majority, votes the other fact}
			for a := 0; a < total; a++ {
				var votes, other uint

				x := a
				for i := 0; i < n; i++ {
					switch x % 3 {
					case 1:
						votes |= 1 << uint(i)
					case 2:
						other |= 1 << uint(i)
					}

					x /= 3
				}

				if votes == 0 || other == 0 {
					continue
				}

				for maj := 0; maj < 2; maj++ {
					try(c03Cand{N: n, Stage: stage, Maj: maj, VoteMaj: votes, VoteOther: other})
				}
			}

			c03pairs(t, r, n, t10, f, req, acc[0], acc[1])
			r.CaseN(evaluated, 0, fmt.Sprintf("cands:n=%d", n))
			r.Class(fmt.Sprintf("accepted:n=%d,t=%d,%s", n, t10, stage), int64(len(acc[0])+len(acc[1])))
		}
	}

	r.Exhaustive(true)

	// ---- rapid: arbitrary vote splits (minority votes inside a voteproof) and arbitrary expel signer sets
	r.Checks(150, 6000)
	rapid.Check(t, func(rt *rapid.T) {
		n := rapid.IntRange(2, r.N(5, 7)).Draw(rt, "n")
		t10 := rapid.SampledFrom([]int{670, 670, 700, 750, 800, 900, 1000}).Draw(rt, "t10")
		th := base.Threshold(float64(t10) / 10)
		req := c03reqExact(n, t10)
		f := n - req
		suf := gen.Suffrage(gen.Locals(n))
		stage := rapid.SampledFrom([]base.Stage{base.StageINIT, base.StageACCEPT}).Draw(rt, "stage")

		var acc [2][]c03Cand

		for maj := 0; maj < 2; maj++ {
			k := rapid.IntRange(1, 4).Draw(rt, "cands")
			for ; k > 0; k-- {
				c := c03Cand{N: n, Stage: stage, Maj: maj, ListFacts: rapid.Bool().Draw(rt, "listed")}
				// biased towards acceptance: most nodes vote the majority
				for i := 0; i < n; i++ {
					switch rapid.SampledFrom([]int{1, 1, 1, 1, 0, 2, 3}).Draw(rt, "role") {
					case 1:
						c.VoteMaj |= 1 << uint(i)
					case 2:
						c.VoteOther |= 1 << uint(i)
					case 3:
						c.Expelled |= 1 << uint(i)
					}
				}

				for e := 0; e < n; e++ {
					if c.Expelled&(1<<uint(e)) != 0 {
						m := uint(rapid.IntRange(1, 1<<uint(n)-1).Draw(rt, "signers")) &^ (1 << uint(e))
						c.Signers = append(c.Signers, m)
					}
				}

				if c.VoteMaj == 0 {
					continue
				}

				if c03accepted(c03build(c, th), suf) {
					acc[maj] = append(acc[maj], c)
				}
			}
		}

		c03pairs(rt, r, n, t10, f, req, acc[0], acc[1])
		r.Case(fmt.Sprintf("rapid|%v|%v", acc[0], acc[1]), false, "rapid")
	})
}

// c03pairs judges every pair of accepted voteproofs with different majorities.
func c03pairs(t ev.TB, r *ev.Rec, n, t10, f, req int, accX, accY []c03Cand) {
	for _, a := range accX {
		for _, b := range accY {
			// a declares X; b declares Y. A node equivocates if it signed different facts in the two voteproofs.
			// in a: VoteMaj -> X, VoteOther -> Y.   in b: VoteMaj -> Y, VoteOther -> X.
			all := uint(1)<<uint(n) - 1 // suffrage nodes only: a foreign signer is not a suffrage node
			// who really signed: with a borrowed key only the key's owner signed anything
			signed := func(c c03Cand, m uint) uint {
				if c.Tweak == "borrowed-key" && m != 0 {
					return 1 << uint(c.KeyOf)
				}

				return m
			}
			eq := ((signed(a, a.VoteMaj) & signed(b, b.VoteMaj)) | (signed(a, a.VoteOther) & signed(b, b.VoteOther))) & all
			neq := bits.OnesCount(eq)

			fp := "pair|" + a.String() + "|" + b.String()
			r.Case(fp, true, fmt.Sprintf("pairs:n=%d", n))

			if r.WantSample() && (a.Expelled != 0 || b.Expelled != 0) {
				r.Sample(map[string]any{"n": n, "threshold": float64(t10) / 10, "f": f, "vp_X": a.String(), "vp_Y": b.String(), "equivocators": neq})
			}

			if neq > f {
				continue // more equivocators than the fault bound: outside the statement
			}

			sig := "conflict-plain"
			ka, kb := bits.OnesCount(a.Expelled), bits.OnesCount(b.Expelled)

			switch {
			case a.Tweak != "" || b.Tweak != "":
				sig = "conflict-" + a.Tweak + b.Tweak
			case ka > n-req || kb > n-req:
				sig = "expel-k-gt-n-minus-required"
			case ka > 0 || kb > 0:
				sig = "conflict-expel"
			}

			r.Violation(t, sig, "n=%d t=%.1f f=%d required=%d: two accepted voteproofs for %v carry different majorities with only %d equivocator(s)\n  X: %s\n  Y: %s",
				n, float64(t10)/10, f, req, c03Point, neq, a.String(), b.String())
		}
	}
}
