package p_base

import (
	"fmt"
	"sort"
	"testing"
	"time"

	"github.com/spikeekips/mitum/base"
	"pgregory.net/rapid"
	"verif/internal/ev"
)

// C01: three-way tally (MAJORITY / DRAW / NOT YET) of base.FindMajority, base.FindVoteResult and
// base.Threshold.VoteResult against an exact integer model written from the statement.

const (
	c01Majority = "MAJORITY"
	c01Draw     = "DRAW"
	c01NotYet   = "NOT YET"
)

// c01Model is the oracle. req is the exact required count (C02's oracle, clamped to n like the statement's "required
// count" can never exceed the suffrage size). winners = indices whose count reaches req.
func c01Model(n, req uint64, counts []uint) (res string, winners []int, sum, top, missing uint64) {
	for i, c := range counts {
		sum += uint64(c)

		if uint64(c) > top {
			top = uint64(c)
		}

		if uint64(c) >= req {
			winners = append(winners, i)
		}
	}

	if n > sum {
		missing = n - sum
	}

	switch {
	case len(winners) > 0:
		return c01Majority, winners, sum, top, missing
	case top+missing < req:
		return c01Draw, nil, sum, top, missing
	default:
		return c01NotYet, nil, sum, top, missing
	}
}

func c01Req(n uint64, t10 int) uint64 {
	req := c02Exact(n, uint64(t10))
	if req > n {
		req = n
	}

	return req
}

func c01NoPanic(t ev.TB, r *ev.Rec, api string, what func() string, f func()) {
	defer func() {
		if x := recover(); x != nil {
			if r.Failed() {
				panic(x)
			}

			r.Violation(t, "panic", "%s %s panicked: %v", api, what(), x)
		}
	}()

	f()
}

// splitmix64: a local generator seeded by a rapid-drawn value (all randomness comes from rapid draws).
type c01Rng uint64

func (s *c01Rng) next() uint64 {
	*s += 0x9e3779b97f4a7c15
	z := uint64(*s)
	z = (z ^ (z >> 30)) * 0xbf58476d1ce4e5b9
	z = (z ^ (z >> 27)) * 0x94d049bb133111eb

	return z ^ (z >> 31)
}

func c01Key(i int) string { return fmt.Sprintf("fact-%c%d", 'A'+rune(i%26), i) }

// c01Votes renders the count vector as the []string the ballot box hands to VoteResult (one entry per vote), shuffled.
func c01Votes(counts []uint, seed uint64) []string {
	var total int
	for _, c := range counts {
		total += int(c)
	}

	s := make([]string, 0, total)

	for i, c := range counts {
		k := c01Key(i)
		for j := uint(0); j < c; j++ {
			s = append(s, k)
		}
	}

	rng := c01Rng(seed)
	for i := len(s) - 1; i > 0; i-- {
		j := int(rng.next() % uint64(i+1))
		s[i], s[j] = s[j], s[i]
	}

	return s
}

func c01ResultOfIndex(idx int) string {
	switch {
	case idx == -1:
		return c01NotYet
	case idx == -2:
		return c01Draw
	case idx >= 0:
		return c01Majority
	default:
		return fmt.Sprintf("index %d", idx)
	}
}

// c01Sig names the root cause of a wrong three-way answer.
func c01Sig(want, got string, n, sum, top uint64) string {
	switch {
	case want == c01Draw && got == c01NotYet && sum > n+top:
		// n - sum + top wraps around in unsigned arithmetic
		return "draw-underflow-votes-over-quorum"
	case want == c01Draw && got == c01NotYet:
		return "draw-missed"
	case want == c01NotYet && got == c01Draw:
		return "draw-false"
	case want == c01Majority:
		return "majority-missed"
	case got == c01Majority:
		return "majority-false"
	default:
		return "wrong-result"
	}
}

type c01Stats struct {
	ambiguousNondet int64
}

// c01Judge runs the three entry points on one (n, t, count vector) and compares with the model.
// order: the order in which counts are handed to FindMajority; votes: the shuffled string form.
func c01Judge(t ev.TB, r *ev.Rec, n uint64, t10 int, th base.Threshold, counts []uint, votes []string, st *c01Stats) (want string, nwinners int, sum, top, missing uint64) {
	req := c01Req(n, t10)
	want, winners, sum, top, missing := c01Model(n, req, counts)
	desc := func() string {
		return fmt.Sprintf("n=%d t=%s required=%d counts=%v (votes=%d, missing=%d)", n, th.String(), req, counts, sum, missing)
	}

	// A. FindMajority with the exact required count
	c01NoPanic(t, r, "FindMajority", desc, func() {
		set := append([]uint(nil), counts...)
		idx := base.FindMajority(uint(n), uint(req), set...)
		got := c01ResultOfIndex(idx)

		switch {
		case got != want:
			r.Violation(t, c01Sig(want, got, n, sum, top), "FindMajority(%d, %d, %v) = %d (%s), model says %s; %s", n, req, counts, idx, got, want, desc())
		case want == c01Majority && (idx >= len(counts) || uint64(counts[idx]) < req):
			r.Violation(t, "majority-wrong-fact", "FindMajority(%d, %d, %v) = %d, which has fewer than %d votes; %s", n, req, counts, idx, req, desc())
		}
	})

	if len(votes) == 0 && len(counts) > 0 {
		return want, len(winners), sum, top, missing
	}

	checkKey := func(api string, res base.VoteResult, key string) bool {
		got := string(res)
		if got != want {
			return false
		}

		if want != c01Majority {
			return true
		}

		for _, w := range winners {
			if c01Key(w) == key {
				return true
			}
		}

		r.Violation(t, "majority-wrong-fact", "%s reports MAJORITY for %q, which does not have %d votes; %s", api, key, req, desc())

		return true
	}

	// B. FindVoteResult with the exact required count
	c01NoPanic(t, r, "FindVoteResult", desc, func() {
		res, key := base.FindVoteResult(uint(n), uint(req), votes)
		if !checkKey("FindVoteResult", res, key) {
			r.Violation(t, c01Sig(want, string(res), n, sum, top), "FindVoteResult(%d, %d, votes) = %s %q, model says %s; %s", n, req, res, key, want, desc())
		}

		if len(winners) > 1 && st != nil {
			// two facts reach the required count (only possible with more votes than the quorum): the statement's two
			// clauses disagree on which one is "the" majority, so the key is not judged; record whether it is stable.
			for i := 0; i < 6; i++ {
				_, k2 := base.FindVoteResult(uint(n), uint(req), votes)
				if k2 != key {
					st.ambiguousNondet++

					break
				}
			}
		}
	})

	// C. Threshold.VoteResult (derives the required count itself)
	c01NoPanic(t, r, "Threshold.VoteResult", desc, func() {
		res, key := th.VoteResult(uint(n), votes)
		if !checkKey("Threshold.VoteResult", res, key) {
			sig := c01Sig(want, string(res), n, sum, top)
			codeReq := uint64(th.Threshold(uint(n)))

			if codeReq != req {
				// the tally is right for the required count it was given (or wrong only by the separate unsigned wrap with
				// more votes than nodes): the count is what is wrong (C02's root cause)
				w2, _, _, _, _ := c01Model(n, codeReq, counts)
				if w2 == string(res) || (w2 == c01Draw && string(res) == c01NotYet && sum > n+top) {
					sig = "required-count-wrong"
				}
			}

			r.Violation(t, sig, "Threshold(%s).VoteResult(%d, votes) = %s %q, model says %s (code requires %d votes, exact ceil is %d); %s",
				th.String(), n, res, key, want, codeReq, req, desc())
		}
	})

	return want, len(winners), sum, top, missing
}

func c01Nontrivial(counts []uint, n, req, sum, top, missing uint64) bool {
	if sum > n {
		return true
	}

	if len(counts) < 2 {
		return false
	}

	near := func(a, b uint64) bool { return a+1 >= b && a <= b+1 }

	return near(top, req) || near(top+missing, req)
}

// c01Partitions calls f with every non-increasing vector of positive counts with at most maxParts parts and total <= maxTotal
// (including the empty vector).
func c01Partitions(maxParts int, maxTotal uint, f func([]uint)) {
	cur := make([]uint, 0, maxParts)

	var rec func(left uint, maxPart uint)
	rec = func(left uint, maxPart uint) {
		f(cur)

		if len(cur) == maxParts {
			return
		}

		for p := uint(1); p <= maxPart && p <= left; p++ {
			cur = append(cur, p)
			rec(left-p, p)
			cur = cur[:len(cur)-1]
		}
	}

	rec(maxTotal, maxTotal)
}

type c01Gen struct {
	N      uint64
	T10    int
	Counts []uint
	Kind   string
}

func c01GenCase() *rapid.Generator[c01Gen] {
	return rapid.Custom(func(t *rapid.T) c01Gen {
		var n uint64

		switch rapid.IntRange(0, 9).Draw(t, "nClass") {
		case 0, 1, 2:
			n = uint64(rapid.IntRange(1, 30).Draw(t, "nSmall"))
		case 3, 4, 5, 6:
			n = uint64(rapid.IntRange(31, 1000).Draw(t, "nMid"))
		case 7:
			n = uint64(100 * rapid.IntRange(1, 100).Draw(t, "nHundreds"))
		default:
			n = uint64(rapid.IntRange(1001, 10000).Draw(t, "nBig"))
		}

		var t10 int

		switch rapid.IntRange(0, 4).Draw(t, "tClass") {
		case 0:
			t10 = rapid.SampledFrom([]int{510, 550, 560, 600, 667, 670, 700, 750, 800, 900, 999, 1000}).Draw(t, "tRound")
		case 1:
			t10 = 10 * rapid.IntRange(51, 100).Draw(t, "tWhole")
		default:
			t10 = rapid.IntRange(510, 1000).Draw(t, "t10")
		}

		req := c01Req(n, t10)
		k := rapid.IntRange(1, 6).Draw(t, "facts")
		kind := rapid.SampledFrom([]string{"majority-edge", "majority-edge", "draw-edge", "draw-edge", "over-quorum", "over-quorum", "uniform", "tie"}).Draw(t, "kind")
		counts := make([]uint, 0, k)

		clamp := func(v int64) uint {
			if v < 1 {
				return 1
			}

			return uint(v)
		}

		// spread distributes total over m facts, each at most capv (if capv > 0), drawn.
		spread := func(total int64, m int, capv int64) {
			for i := 0; i < m && total > 0; i++ {
				hi := total
				if capv > 0 && hi > capv {
					hi = capv
				}

				var c int64
				if i == m-1 {
					c = hi
				} else {
					c = int64(rapid.Int64Range(1, hi).Draw(t, "part"))
				}

				counts = append(counts, uint(c))
				total -= c
			}
		}

		switch kind {
		case "majority-edge":
			top := clamp(int64(req) + int64(rapid.IntRange(-2, 1).Draw(t, "dTop")))
			counts = append(counts, top)
			rest := int64(n) - int64(top) + int64(rapid.IntRange(-3, 3).Draw(t, "dRest"))
			spread(rest, k-1, 0)
		case "draw-edge":
			// top + missing lands within +-2 of the required count
			top := clamp(int64(rapid.Int64Range(1, int64(req)).Draw(t, "top")) - 1)
			miss := int64(req) - int64(top) + int64(rapid.IntRange(-2, 1).Draw(t, "dMiss"))
			if miss < 0 {
				miss = 0
			}

			counts = append(counts, top)
			spread(int64(n)-miss-int64(top), max(k-1, 1), int64(top))
		case "over-quorum":
			// nobody reaches the required count, but more votes than nodes
			each := clamp(int64(req) - int64(rapid.IntRange(1, 3).Draw(t, "below")))
			m := rapid.IntRange(2, 6).Draw(t, "overFacts")
			for i := 0; i < m; i++ {
				c := each
				if rapid.Bool().Draw(t, "lower") {
					c = clamp(int64(rapid.Int64Range(1, int64(each)).Draw(t, "c")))
				}

				counts = append(counts, c)
			}
		case "tie":
			c := clamp(int64(rapid.Int64Range(1, int64(n)).Draw(t, "tieCount")))
			if rapid.Bool().Draw(t, "tieAtReq") {
				c = clamp(int64(req) + int64(rapid.IntRange(-1, 0).Draw(t, "dTie")))
			}

			for i := 0; i < max(k, 2); i++ {
				counts = append(counts, c)
			}
		default:
			for i := 0; i < k; i++ {
				counts = append(counts, uint(rapid.Uint64Range(1, n).Draw(t, "count")))
			}
		}

		// hand the vector over in a drawn order
		perm := rapid.Permutation(counts).Draw(t, "order")

		return c01Gen{N: n, T10: t10, Counts: perm, Kind: kind}
	})
}

func TestC01(t *testing.T) {
	r := ev.Start(t, "C01")
	defer r.Finish()

	exN := r.N(12, 32)
	const exParts, exOver = 5, 3

	r.Rule(fmt.Sprintf("A (exhaustive): every quorum n=1..%d x every threshold 51.0..100.0 step 0.1 x every vote multiset over <=%d facts with 0..n+%d votes; "+
		"B (rapid): n in 1..10000 (small/mid/multiples of 100/big), thresholds (round values, whole percents, any tenth), 1..6 facts, count vectors from scenarios "+
		"{top count within -2..+1 of the required count, top+missing within -2..+1 of it, more votes than nodes with nobody reaching it, ties, uniform}, handed over in a drawn order / shuffled vote list. "+
		"FindMajority and FindVoteResult get the exact required count, Threshold.VoteResult derives its own; all compared with an integer model of the statement. "+
		"non-trivial: more votes than n, or >=2 facts with the top count within +-1 of the required count or top+missing within +-1 of it; "+
		"distinct by (n, t, sorted counts); the exhaustive part is distinct by construction", exN, exParts, exOver))
	r.Floor(2000)
	r.Assume("required count = min(n, ceil(n*t/100)) computed exactly (C02's oracle); thresholds are the float64 nearest to their one-decimal text",
		"every vote names a fact (no zero-count entries), as CountBallotSignFacts produces them",
		"when two facts both reach the required count (possible only with more votes than n) the statement does not single one out: any of them is accepted as the reported majority",
		"a wrong answer of Threshold.VoteResult that is exactly the model's answer for the count Threshold.Threshold returned is attributed to the required-count defect (signature required-count-wrong)")

	ths := make([]base.Threshold, c02MaxT10+1)
	for t10 := c02MinT10; t10 <= c02MaxT10; t10++ {
		ths[t10] = c02Threshold(t, nil, t10)
	}

	st := &c01Stats{}

	// ---- A. exhaustive small quorums
	t.Run("exhaustive", func(t *testing.T) {
		var idx int
		var evals, nt int64
		classes := map[string]int64{}
		samples := 0

		for n := uint64(1); n <= uint64(exN); n++ {
			c01Partitions(exParts, uint(n)+exOver, func(counts []uint) {
				idx++
				if !r.Mine(idx) {
					return
				}

				desc := append([]uint(nil), counts...)
				asc := append([]uint(nil), counts...)
				sort.Slice(asc, func(i, j int) bool { return asc[i] < asc[j] })
				votes := c01Votes(asc, uint64(idx))

				for t10 := c02MinT10; t10 <= c02MaxT10; t10++ {
					// all three entry points on the non-decreasing vector, FindMajority again on the non-increasing one
					want, nw, sum, top, missing := c01Judge(t, r, n, t10, ths[t10], asc, votes, st)
					c01Judge(t, r, n, t10, ths[t10], desc, nil, nil)

					evals++
					classes["want:"+want]++

					if sum > n {
						classes["over-quorum"]++
					}

					if nw > 1 {
						classes["two-reach-required"]++
					}

					req := c01Req(n, t10)
					if c01Nontrivial(asc, n, req, sum, top, missing) {
						nt++

						if samples < 2 && r.WantSample() && (evals%100003 == 0) {
							samples++
							r.Sample(map[string]any{"part": "exhaustive", "n": n, "t": ths[t10].String(), "required": req, "counts": desc, "model": want})
						}
					}
				}
			})
		}

		r.CaseN(evals, nt, "part:exhaustive")

		for k, v := range classes {
			r.Class("ex:"+k, v)
		}
	})

	if r.Failed() {
		return
	}

	// ---- B. random larger quorums
	r.Checks(40000, 6000000)
	r.ShrinkTime(20 * time.Second)
	rapid.Check(t, func(rt *rapid.T) {
		g := c01GenCase().Draw(rt, "case")
		seed := rapid.Uint64().Draw(rt, "shuffle")
		votes := c01Votes(g.Counts, seed)

		want, nw, sum, top, missing := c01Judge(rt, r, g.N, g.T10, ths[g.T10], g.Counts, votes, st)

		// the same multiset in another order must give the same verdict (and, with a single winner, the same fact)
		rev := make([]uint, len(g.Counts))
		for i := range g.Counts {
			rev[len(g.Counts)-1-i] = g.Counts[i]
		}

		c01Judge(rt, r, g.N, g.T10, ths[g.T10], rev, c01Votes(rev, seed^0x5bd1e995), nil)

		req := c01Req(g.N, g.T10)
		sorted := append([]uint(nil), g.Counts...)
		sort.Slice(sorted, func(i, j int) bool { return sorted[i] > sorted[j] })
		nontrivial := c01Nontrivial(g.Counts, g.N, req, sum, top, missing)

		classes := []string{"part:random", "want:" + want, "kind:" + g.Kind}
		if sum > g.N {
			classes = append(classes, "over-quorum")
		}

		if nw > 1 {
			classes = append(classes, "two-reach-required")
		}

		if top == req || top+1 == req {
			classes = append(classes, "top-at-edge")
		}

		if want != c01Majority && (top+missing == req || top+missing+1 == req) {
			classes = append(classes, "draw-at-edge")
		}

		r.Case(fmt.Sprintf("%d|%d|%v", g.N, g.T10, sorted), nontrivial, classes...)

		if nontrivial && r.WantSample() {
			r.Sample(map[string]any{"part": "random", "kind": g.Kind, "n": g.N, "t": ths[g.T10].String(), "required": req, "counts": g.Counts, "model": want})
		}
	})

	r.Extra("two_reach_required_key_unstable", st.ambiguousNondet)
}
