package p_base

import (
	"fmt"
	"strconv"
	"testing"

	"github.com/spikeekips/mitum/base"
	"verif/internal/ev"
)

// C02: Threshold.Threshold(n) == ceil(n*t/100), exactly, on the whole grid n in 1..100000 x t in 51.0..100.0 step 0.1.

const (
	c02MaxN   = 100000
	c02MinT10 = 510
	c02MaxT10 = 1000
)

// c02Exact is the oracle: least integer >= n*t10/1000, in integers (no float anywhere).
func c02Exact(n uint64, t10 uint64) uint64 {
	return (n*t10 + 999) / 1000
}

// c02Threshold builds the Threshold value of t10 tenths the way a node gets it: parsed from its one-decimal text form
// (Threshold.UnmarshalText / a config or JSON number), which is also the nearest float64 to the decimal.
func c02Threshold(t ev.TB, r *ev.Rec, t10 int) base.Threshold {
	s := fmt.Sprintf("%d.%d", t10/10, t10%10)

	var th base.Threshold
	if err := th.UnmarshalText([]byte(s)); err != nil {
		t.Fatalf("threshold %q does not parse: %v", s, err)
	}

	f, err := strconv.ParseFloat(s, 64)
	if err != nil || f != float64(t10)/10 {
		t.Fatalf("threshold %q: literal %v, division %v disagree", s, f, float64(t10)/10)
	}

	// the threshold a node computes with is the one it decoded from text: a decoder that lands on another tenth changes
	// the required count for the threshold as written ("rounding must never change the count")
	if r == nil { // C01 only needs the values; the decoder is judged by C02
		if th.Float64() != f || th.String() != s {
			t.Fatalf("threshold %q decodes as %v / prints as %q", s, th.Float64(), th.String())
		}

		return th
	}

	if th.Float64() != f {
		r.Violation(t, "decoded-threshold-differs", "threshold %q decodes as %v: the count is computed for another threshold than the one written", s, th.Float64())
	}

	if th.String() != s {
		r.Violation(t, "decoded-threshold-differs", "threshold %q prints as %q after decoding", s, th.String())
	}

	if err := th.IsValid(nil); err != nil {
		t.Fatalf("threshold %q is not valid: %v", s, err)
	}

	return th
}

type c02Bad struct {
	N     uint64 `json:"n"`
	T     string `json:"t"`
	Code  uint64 `json:"code"`
	Exact uint64 `json:"exact"`
}

func TestC02(t *testing.T) {
	r := ev.Start(t, "C02")
	defer r.Finish()
	r.Rule("full grid n=1..100000 x t=51.0..100.0 step 0.1 (491 thresholds parsed from their decimal text), plain nested loops, contiguous blocks of rows n per shard; " +
		"oracle (n*t10+999)/1000 in uint64. non-trivial: grid points whose exact product n*t/100 is an integer (n*t10 mod 1000 == 0), " +
		"the only points where a float product a hair above the integer changes the ceiling; distinct by construction (each grid point visited once)")
	r.Floor(100000)
	r.Assume("a threshold is the float64 nearest to its one-decimal text (what UnmarshalText/ParseFloat and Go literals give)",
		"only Threshold.Threshold is judged; NumberOfFaultyNodes is not part of the statement")

	ths := make([]base.Threshold, c02MaxT10+1)
	for t10 := c02MinT10; t10 <= c02MaxT10; t10++ {
		ths[t10] = c02Threshold(t, r, t10)
	}

	var evals, nontrivial, over, under int64
	var first []c02Bad
	badThresholds := map[int]int64{}
	sampled := 0

	// contiguous row blocks per shard (every row costs the same), so that the first shard reports the globally smallest n
	per := uint64((c02MaxN + r.Shards - 1) / r.Shards)
	lo, hi := uint64(r.Shard)*per+1, uint64(r.Shard+1)*per
	if hi > c02MaxN {
		hi = c02MaxN
	}

	for n := lo; n <= hi; n++ {
		for t10 := c02MinT10; t10 <= c02MaxT10; t10++ {
			want := c02Exact(n, uint64(t10))
			got := uint64(ths[t10].Threshold(uint(n)))
			evals++

			exactProduct := (n*uint64(t10))%1000 == 0
			if exactProduct {
				nontrivial++

				if sampled < 5 && n > 1 && (n*7+uint64(t10))%9973 == 0 {
					sampled++
					r.Sample(map[string]any{"n": n, "t": ths[t10].String(), "required_exact": want, "required_code": got, "product_is_integer": true})
				}
			}

			if got == want {
				continue
			}

			if got > want {
				over++
			} else {
				under++
			}

			badThresholds[t10]++

			if len(first) < 8 {
				first = append(first, c02Bad{N: n, T: ths[t10].String(), Code: got, Exact: want})
			}
		}
	}

	r.CaseN(evals, nontrivial, "grid")
	r.Class("exact-product", nontrivial)
	r.Class("inexact-product", evals-nontrivial)
	r.Class("mismatch-over", over)
	r.Class("mismatch-under", under)
	r.Extra("mismatches", over+under)
	r.Exhaustive(over+under == 0 || r.IsKnown(c02Sig(over, under)))

	if over+under > 0 {
		b := first[0]
		r.Violation(t, c02Sig(over, under),
			"Threshold(%s).Threshold(%d) = %d, exact ceil(n*t/100) = %d; %d of %d grid points of this shard differ (%d over, %d under, %d distinct thresholds); first: %+v",
			b.T, b.N, b.Code, b.Exact, over+under, evals, over, under, len(badThresholds), first)
	}
}

func c02Sig(over, under int64) string {
	switch {
	case under > 0:
		return "required-count-under"
	default:
		return "required-count-over"
	}
}
