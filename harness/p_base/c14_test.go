package p_base

import (
	"context"
	"errors"
	"fmt"
	"sort"
	"sync"
	"sync/atomic"
	"testing"
	"time"

	"github.com/spikeekips/mitum/base"
	"github.com/spikeekips/mitum/util"
	"github.com/spikeekips/mitum/util/valuehash"
	"pgregory.net/rapid"
	"verif/internal/ev"
)

// C14: base.BatchIsValidMaps accepts exactly the linked chains, for every batch limit and arrival order.

func c14Hash(h int64, variant int) util.Hash {
	return valuehash.NewSHA256([]byte(fmt.Sprintf("c14-manifest-%d-%d", h, variant)))
}

// c14Map builds a block map of the given height; hash variant 0 is "the" chain's manifest of that height.
func c14Map(h int64, hashVariant int, previous util.Hash) base.BlockMap {
	m := base.NewDummyManifest(base.Height(h), c14Hash(h, hashVariant))
	if previous != nil {
		m.SetPrevious(previous)
	}

	return base.DummyBlockMap{M: m}
}

func c14ChainMap(h int64) base.BlockMap {
	if h <= 0 {
		return c14Map(h, 0, nil) // genesis has no previous
	}

	return c14Map(h, 0, c14Hash(h-1, 0))
}

type c14Delivery struct {
	m   base.BlockMap
	err error
}

type c14Plan struct {
	PrevHeight int64 // -1: from genesis (no previous map)
	Count      int
	Limit      int64
	Kind       string
	I, J       int    // break positions (request indexes), -1 if unused
	Order      string // inorder | reverse | drawn | free
	Perm       []int  // arrival order of request indexes inside every batch (position -> offset), for "drawn"

	deliver []c14Delivery
}

// GoString keeps rapid's draw log readable.
func (p *c14Plan) GoString() string {
	return fmt.Sprintf("c14Plan{prev=%d count=%d limit=%d fault=%s i=%d j=%d order=%s perm=%v}", p.PrevHeight, p.Count, p.Limit, p.Kind, p.I, p.J, p.Order, p.Perm)
}

func (p *c14Plan) height(i int) int64 { return p.PrevHeight + 1 + int64(i) }
func (p *c14Plan) to() int64          { return p.PrevHeight + int64(p.Count) }
func (p *c14Plan) batches() int       { return (p.Count + int(p.Limit) - 1) / int(p.Limit) }

func (p *c14Plan) posClass(i int) string {
	if i < 0 {
		return "none"
	}

	off := i % int(p.Limit)

	switch {
	case i == 0:
		return "first"
	case off == 0:
		return "batch-first"
	case i == p.Count-1:
		return "last"
	case off == int(p.Limit)-1:
		return "batch-last"
	default:
		return "interior"
	}
}

// c14Verdict is the oracle, computed from what the fetch function is going to deliver.
type c14Verdict struct {
	fetchErr     bool
	heightsMatch bool // every delivered map has the height it was requested for
	linked       bool // (heightsMatch) every map points to the hash of the map before it, the first one to the given previous map
	brokenAt     int  // first request index whose link is broken
	coverLinked  bool // (!heightsMatch) the delivered maps are exactly one per height and linked
}

func c14Oracle(p *c14Plan, prev base.BlockMap) c14Verdict {
	v := c14Verdict{heightsMatch: true, linked: true, brokenAt: -1}

	for i := range p.deliver {
		d := p.deliver[i]

		switch {
		case d.err != nil:
			v.fetchErr = true
		case int64(d.m.Manifest().Height()) != p.height(i):
			v.heightsMatch = false
		}
	}

	if v.fetchErr {
		return v
	}

	// arrange by delivered height
	byHeight := map[int64][]base.BlockMap{}
	for i := range p.deliver {
		h := int64(p.deliver[i].m.Manifest().Height())
		byHeight[h] = append(byHeight[h], p.deliver[i].m)
	}

	cover := len(byHeight) == p.Count
	for h := p.PrevHeight + 1; h <= p.to() && cover; h++ {
		cover = len(byHeight[h]) == 1
	}

	if !cover {
		v.linked = false
		v.coverLinked = false

		return v
	}

	linked := true

	for i := 0; i < p.Count; i++ {
		h := p.height(i)
		m := byHeight[h][0]

		var before util.Hash

		switch {
		case i > 0:
			before = byHeight[h-1][0].Manifest().Hash()
		case prev != nil:
			before = prev.Manifest().Hash()
		default:
			continue // genesis: nothing before it
		}

		if m.Manifest().Previous() == nil || !m.Manifest().Previous().Equal(before) {
			linked = false

			if v.brokenAt < 0 {
				v.brokenAt = i
			}
		}
	}

	v.linked = linked
	v.coverLinked = linked

	return v
}

// c14Run executes one plan against the real code with a gated fetch function.
type c14Run struct {
	sync.Mutex
	p         *c14Plan
	seq       []int           // global arrival order of request indexes (batch after batch)
	gates     []chan struct{} // per request index
	next      int             // next position in seq to release
	callbacks []base.BlockMap
	requests  map[int64]int
	badReq    []int64
	grace     atomic.Int64
}

const c14Grace = 3 * time.Second

func c14NewRun(p *c14Plan) *c14Run {
	run := &c14Run{p: p, requests: map[int64]int{}}
	run.gates = make([]chan struct{}, p.Count)

	for i := range run.gates {
		run.gates[i] = make(chan struct{})
	}

	lim := int(p.Limit)

	for start := 0; start < p.Count; start += lim {
		size := min(lim, p.Count-start)
		offs := make([]int, 0, size)

		switch p.Order {
		case "reverse":
			for k := size - 1; k >= 0; k-- {
				offs = append(offs, k)
			}
		case "drawn":
			// Perm is a permutation of 0..limit-1: keep the entries that exist in this batch
			for _, k := range p.Perm {
				if k < size {
					offs = append(offs, k)
				}
			}
		default:
			for k := 0; k < size; k++ {
				offs = append(offs, k)
			}
		}

		for _, k := range offs {
			run.seq = append(run.seq, start+k)
		}
	}

	if p.Order == "free" {
		for i := range run.gates {
			close(run.gates[i])
		}
	} else {
		run.release()
	}

	return run
}

// release opens the gate of the next request in the arrival order (callers hold no lock).
func (run *c14Run) release() {
	run.Lock()
	defer run.Unlock()

	if run.next < len(run.seq) {
		close(run.gates[run.seq[run.next]])
		run.next++
	}
}

func (run *c14Run) fetch(ctx context.Context, height base.Height) (base.BlockMap, error) {
	i := int(int64(height) - run.p.PrevHeight - 1)

	run.Lock()
	run.requests[int64(height)]++
	if i < 0 || i >= run.p.Count {
		run.badReq = append(run.badReq, int64(height))
	}
	run.Unlock()

	if i < 0 || i >= run.p.Count {
		return nil, fmt.Errorf("height %d was never part of the range", height)
	}

	tm := time.NewTimer(c14Grace)
	defer tm.Stop()

	select {
	case <-run.gates[i]:
	case <-ctx.Done():
		return nil, context.Cause(ctx)
	case <-tm.C:
		// the code under test does not run the batch concurrently (any more): go on, the oracle does not depend on the order
		run.grace.Add(1)
	}

	d := run.p.deliver[i]
	if d.err != nil {
		return nil, d.err
	}

	return d.m, nil
}

func (run *c14Run) callback(m base.BlockMap) error {
	run.Lock()
	run.callbacks = append(run.callbacks, m)
	run.Unlock()

	if run.p.Order != "free" {
		run.release() // the released map has been validated: let the next one arrive
	}

	return nil
}

func c14Key(m base.BlockMap) string {
	return fmt.Sprintf("%d/%s", m.Manifest().Height(), m.Manifest().Hash())
}

var errC14Fetch = errors.New("c14: source failed to deliver the block map")

func c14GenPlan() *rapid.Generator[*c14Plan] {
	return rapid.Custom(func(t *rapid.T) *c14Plan {
		p := &c14Plan{I: -1, J: -1}

		switch rapid.IntRange(0, 3).Draw(t, "limitClass") {
		case 0:
			p.Limit = int64(rapid.IntRange(1, 4).Draw(t, "limitSmall"))
		case 1:
			p.Limit = int64(rapid.IntRange(5, 16).Draw(t, "limitMid"))
		default:
			p.Limit = int64(rapid.IntRange(1, 50).Draw(t, "limit"))
		}

		lim := int(p.Limit)

		switch rapid.IntRange(0, 5).Draw(t, "countClass") {
		case 0:
			p.Count = rapid.IntRange(1, 12).Draw(t, "countSmall")
		case 1:
			p.Count = lim * rapid.IntRange(1, max(1, min(6, 200/lim))).Draw(t, "countMultiple")
		case 2:
			p.Count = lim*rapid.IntRange(1, max(1, min(5, 199/lim))).Draw(t, "countMultiple1") + rapid.SampledFrom([]int{-1, 1}).Draw(t, "pm")
		case 3:
			p.Count = rapid.IntRange(lim+1, min(200, 4*lim+3)).Draw(t, "countFewBatches")
		default:
			p.Count = rapid.IntRange(1, 200).Draw(t, "count")
		}

		if p.Count < 1 {
			p.Count = 1
		}

		if p.Count > 200 {
			p.Count = 200
		}

		if rapid.IntRange(0, 9).Draw(t, "fromGenesis") < 3 {
			p.PrevHeight = -1
		} else {
			p.PrevHeight = int64(rapid.IntRange(0, 40).Draw(t, "prevHeight"))
		}

		p.Order = rapid.SampledFrom([]string{"inorder", "reverse", "drawn", "drawn", "drawn", "free"}).Draw(t, "order")
		if p.Order == "drawn" {
			idx := make([]int, lim)
			for i := range idx {
				idx[i] = i
			}

			p.Perm = rapid.Permutation(idx).Draw(t, "perm")
		}

		p.Kind = rapid.SampledFrom([]string{
			"none", "none", "badprev", "badprev", "badprev", "althash", "fetcherr",
			"dup", "dup", "dup", "swap", "swap", "foreign", "foreign",
		}).Draw(t, "kind")

		drawPos := func(label string) int {
			nb := p.batches()

			switch rapid.IntRange(0, 5).Draw(t, label+"Class") {
			case 0:
				return 0
			case 1:
				return p.Count - 1
			case 2: // first of a later batch
				if nb > 1 {
					return lim * rapid.IntRange(1, nb-1).Draw(t, label+"Batch")
				}
			case 3: // last of a full batch
				if nb > 1 {
					return lim*rapid.IntRange(1, nb-1).Draw(t, label+"BatchEnd") - 1
				}
			}

			return rapid.IntRange(0, p.Count-1).Draw(t, label)
		}

		p.deliver = make([]c14Delivery, p.Count)
		for i := range p.deliver {
			p.deliver[i] = c14Delivery{m: c14ChainMap(p.height(i))}
		}

		if p.Kind != "none" {
			p.I = drawPos("i")
		}

		// a second position: neighbour, same batch, or anywhere
		drawOther := func() int {
			if p.Count < 2 {
				return -1
			}

			var j int

			switch rapid.IntRange(0, 3).Draw(t, "jClass") {
			case 0:
				j = p.I + 1
			case 1:
				j = p.I - 1
			case 2:
				start := (p.I / lim) * lim
				j = rapid.IntRange(start, min(start+lim, p.Count)-1).Draw(t, "jSameBatch")
			default:
				j = rapid.IntRange(0, p.Count-1).Draw(t, "j")
			}

			if j < 0 {
				j = p.I + 1
			}

			if j >= p.Count {
				j = p.I - 1
			}

			if j == p.I {
				j = (p.I + 1) % p.Count
			}

			return j
		}

		h := p.height(max(p.I, 0))

		switch p.Kind {
		case "badprev":
			// right height, right own hash, but it points to something that is not the map before it
			p.deliver[p.I].m = c14Map(h, 0, c14Hash(h-1, 7))
		case "althash":
			// points to the map before it, but it is another manifest: the next map does not point to it
			if h <= 0 {
				p.deliver[p.I].m = c14Map(h, 3, nil)
			} else {
				p.deliver[p.I].m = c14Map(h, 3, c14Hash(h-1, 0))
			}
		case "fetcherr":
			p.deliver[p.I] = c14Delivery{err: errC14Fetch}
		case "dup":
			if p.J = drawOther(); p.J < 0 {
				p.Kind = "none"
				p.I = -1

				break
			}

			p.deliver[p.I].m = p.deliver[p.J].m // the source answers the request for I with the map of J
		case "swap":
			if p.J = drawOther(); p.J < 0 {
				p.Kind = "none"
				p.I = -1

				break
			}

			p.deliver[p.I].m, p.deliver[p.J].m = p.deliver[p.J].m, p.deliver[p.I].m
		case "foreign":
			// a well-formed map of another height (inside or outside the range) that no honest node holds
			var fh int64

			switch rapid.IntRange(0, 4).Draw(t, "foreignClass") {
			case 0:
				fh = h + 1
			case 1:
				fh = h - 1
			case 2:
				fh = p.to() + int64(rapid.IntRange(1, 3).Draw(t, "beyond"))
			case 3:
				fh = p.PrevHeight - int64(rapid.IntRange(0, 2).Draw(t, "before"))
			default:
				fh = p.height(rapid.IntRange(0, p.Count-1).Draw(t, "foreignAt"))
			}

			if fh < 0 {
				fh = h + 1
			}

			if fh == h {
				fh = h + 1
			}

			if fh == 0 {
				p.deliver[p.I].m = c14Map(fh, 5, nil)
			} else {
				p.deliver[p.I].m = c14Map(fh, 5, c14Hash(fh-1, 0))
			}
		}

		return p
	})
}

func TestC14(t *testing.T) {
	r := ev.Start(t, "C14")
	defer r.Finish()
	r.Rule("chains of 1..200 block maps (base.DummyBlockMap over linked DummyManifests) after a previous map at height 0..40 or from genesis, batch limit 1..50 " +
		"(counts: small, multiples of the limit, multiple+-1, a few batches, any), one drawn fault {none, wrong previous hash, other manifest hash, fetch error, " +
		"duplicate of another height, swapped pair, well-formed map of a foreign height} at {first, last, first/last of a batch, anywhere}; arrival order inside every batch " +
		"{in order, reverse, drawn permutation} enforced by gating the fetch function (next map is released when the previous one was validated), or free-running. " +
		"non-trivial: at least 2 batches and (a fault is present or the count is a multiple of the limit); distinct by (previous height, count, limit, fault, positions, order)")
	r.Floor(1000)
	r.Assume("the fetch function returns a non-nil valid-looking map or an error (launch's syncerBlockMapFunc decodes and IsValid()s the map; a non-genesis manifest has a previous hash); it does NOT compare the map's height with the requested one, so maps of another height are in the input domain",
		"if every delivered map has the requested height the verdict is judged two-sided; with maps of other heights only the safety side is judged (success implies exactly one map per height, linked)",
		"genesis has nothing before it: its previous hash is not judged")

	var graceTotal atomic.Int64

	r.Checks(8000, 400000)
	r.ShrinkTime(30 * time.Second)
	rapid.Check(t, func(rt *rapid.T) {
		p := c14GenPlan().Draw(rt, "plan")

		var prev base.BlockMap
		if p.PrevHeight >= 0 {
			prev = c14ChainMap(p.PrevHeight)
		}

		want := c14Oracle(p, prev)
		run := c14NewRun(p)
		desc := fmt.Sprintf("prev=%d count=%d limit=%d fault=%s i=%d(%s) j=%d order=%s", p.PrevHeight, p.Count, p.Limit, p.Kind, p.I, p.posClass(p.I), p.J, p.Order)

		var err error

		func() {
			defer func() {
				if x := recover(); x != nil {
					if r.Failed() {
						panic(x)
					}

					r.Violation(rt, "panic", "BatchIsValidMaps panicked: %v; %s", x, desc)
				}
			}()

			err = base.BatchIsValidMaps(context.Background(), prev, base.Height(p.to()), p.Limit, run.fetch, run.callback)
		}()

		graceTotal.Add(run.grace.Load())

		run.Lock()
		callbacks := append([]base.BlockMap(nil), run.callbacks...)
		badReq := append([]int64(nil), run.badReq...)
		requests := map[int64]int{}
		for k, v := range run.requests {
			requests[k] = v
		}
		run.Unlock()

		if len(badReq) > 0 {
			r.Violation(rt, "wrong-height-requested", "heights %v were requested, the range is %d..%d; %s", badReq, p.PrevHeight+1, p.to(), desc)
		}

		expect := "onesided"

		switch {
		case want.fetchErr:
			expect = "error"

			if err == nil {
				r.Violation(rt, "fetch-error-swallowed", "the source failed for height %d but validation succeeded; %s", p.height(p.I), desc)
			}
		case want.heightsMatch && want.linked:
			expect = "ok"

			if err != nil {
				r.Violation(rt, "valid-chain-rejected", "a linked chain was rejected: %v; %s", err, desc)
			}
		case want.heightsMatch:
			expect = "error"

			if err == nil {
				sig := "broken-link-accepted"

				switch p.posClass(want.brokenAt) {
				case "first":
					sig = "broken-link-accepted-first"
				case "batch-first":
					sig = "broken-link-accepted-batch-edge"
				}

				r.Violation(rt, sig, "the map of height %d (request #%d, %s) does not point to the hash of the map before it, validation succeeded; %s",
					p.height(want.brokenAt), want.brokenAt, p.posClass(want.brokenAt), desc)
			}
		default:
			if err == nil && !want.coverLinked {
				hs := make([]int64, 0, p.Count)
				for i := range p.deliver {
					hs = append(hs, int64(p.deliver[i].m.Manifest().Height()))
				}

				if len(hs) > 24 {
					hs = hs[:24]
				}

				r.Violation(rt, "height-mismatch-accepted",
					"request #%d (height %d) was answered with a map of height %d; the delivered maps are not one linked map per height %d..%d, validation succeeded; delivered heights %v; %s",
					p.I, p.height(p.I), p.deliver[p.I].m.Manifest().Height(), p.PrevHeight+1, p.to(), hs, desc)
			}
		}

		if err == nil {
			// the callback ran once per delivered map, and every height was requested exactly once
			a := make([]string, 0, len(callbacks))
			for _, m := range callbacks {
				a = append(a, c14Key(m))
			}

			b := make([]string, 0, p.Count)
			for i := range p.deliver {
				if p.deliver[i].m != nil {
					b = append(b, c14Key(p.deliver[i].m))
				}
			}

			sort.Strings(a)
			sort.Strings(b)

			same := len(a) == len(b)
			for i := 0; same && i < len(a); i++ {
				same = a[i] == b[i]
			}

			if !same {
				r.Violation(rt, "callback-mismatch", "validation succeeded with %d callbacks for %d delivered maps; %s", len(a), len(b), desc)
			}

			for i := 0; i < p.Count; i++ {
				if requests[p.height(i)] != 1 {
					r.Violation(rt, "request-count", "validation succeeded but height %d was requested %d times; %s", p.height(i), requests[p.height(i)], desc)
				}
			}
		}

		res := "nil"
		if err != nil {
			res = "error"
		}

		nb := p.batches()
		nontrivial := nb >= 2 && (p.Kind != "none" || p.Count%int(p.Limit) == 0)
		bclass := "batches:1"
		if nb >= 2 {
			bclass = "batches:2+"
		}

		r.Case(fmt.Sprintf("%d|%d|%d|%s|%d|%d|%s%v", p.PrevHeight, p.Count, p.Limit, p.Kind, p.I, p.J, p.Order, p.Perm), nontrivial,
			"fault:"+p.Kind, "order:"+p.Order, "pos:"+p.posClass(p.I), "expect:"+expect, "result:"+res, bclass, "fault-result:"+p.Kind+"/"+res)

		if nontrivial && r.WantSample() {
			r.Sample(map[string]any{"previous_height": p.PrevHeight, "count": p.Count, "limit": p.Limit, "fault": p.Kind, "at": p.I, "other": p.J,
				"position": p.posClass(p.I), "order": p.Order, "oracle": expect, "result": res})
		}
	})

	r.Extra("gate_grace_fired", graceTotal.Load())
}
