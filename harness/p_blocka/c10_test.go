package p_blocka

import (
	"bytes"
	"context"
	"fmt"
	"runtime"
	"sort"
	"strings"
	"sync"
	"sync/atomic"
	"testing"
	"time"

	"github.com/pkg/errors"
	"github.com/spikeekips/mitum/base"
	"github.com/spikeekips/mitum/isaac"
	isaacblock "github.com/spikeekips/mitum/isaac/block"
	"github.com/spikeekips/mitum/util"
	"github.com/spikeekips/mitum/util/hint"
	"pgregory.net/rapid"
	"verif/internal/chain"
	"verif/internal/ev"
	"verif/internal/gen"
)

// C10: the same proposal over the same prior state gives the same manifest, whatever the worker count and schedule.
//
// Metamorphic oracle: one proposal is processed R times by the real DefaultProposalProcessor on fresh writers with
// different worker sizes, GOMAXPROCS and injected delays; all R manifests must agree in hash, operations-tree root,
// states-tree root and suffrage hash (or all runs must fail alike).
//
// "The same prior state" is taken literally for the last 2..4 runs of every proposal: they are processed over one set of
// in-memory prior state objects (a GetStateFunc that hands out the same base.State for a key every time, as the state
// cache of the permanent database does when a height is processed again in the next round). Besides the manifests being
// equal, the canonical bytes of every prior state handed out must be unchanged after each run: a processing that
// rewrites its own input is not a function of (proposal, operations, prior state).
func TestC10(t *testing.T) {
	r := ev.Start(t, "C10")
	defer r.Finish()
	defer baCloseWorlds()

	r.Rule("prior chains: genesis suffrage 1..7, threshold {51,60,66.7,67,75,100}, candidate lifespan 1..3, 12 block scripts " +
		"(no/active/expired/boundary/replaced candidates, joined and departed members); proposal: 0..40 operations mixing join, " +
		"disjoin, candidate, network-policy, harness filler (unknown hint, disjoint keys) and listed expel operations, valid and " +
		"invalid (wrong start, foreign/alias-key/too few signers, duplicates for one node, two keys for one address, several policy " +
		"operations), fetch outcomes {ok, not found, invalid, known, nil}, plus 0..n-required expels in the INIT voteproof; each proposal is " +
		"processed R=6 (thorough 8) times (2-3 proposals per prior chain) with MaxWorkerSize and writer workers in {1,2,3,8,64}, GOMAXPROCS in {1,4,16} and delay patterns " +
		"{none, reverse-merge, yield, even-late, drawn}; the first R-k runs read freshly decoded prior states, the last k=2..4 runs (drawn) share ONE set of " +
		"in-memory prior state objects (re-processing of a height over a state cache), whose canonical bytes are compared before/after every run; " +
		"2 of 3 proposals also carry directed valid operations that drop a candidate that is not the last of the prior candidates list " +
		"(join of an active one / re-registration of an expired one) and a disjoin of a member that is not the last of the prior suffrage; " +
		"3 deterministic re-processing cases (active4, mixed, expired2) with exactly these operations. non-trivial: >=2 operations merged a value into the same suffrage/candidates state " +
		"key and >=2 distinct worker sizes with at least one >1 were used; distinct by (scenario, operation list, expels)")
	r.Floor(int64(r.N(20, 300)))
	r.MaxSamples(6)
	r.Assume("every operation in a proposal satisfies IsValid (pool admission) and proposals carry unique operation and fact hashes (ProposalFact.IsValid)",
		"INIT voteproofs carry only expels that pass isaac.IsValidVoteproofWithSuffrage, at most n-required of them",
		"harness filler operations write disjoint keys (last-writer-wins on one key by two operations is outside the statement)",
		"sleep/yield injection only perturbs the schedule; no timing enters the verdict",
		"a node may hand the very same in-memory base.State objects to several processings of one height (isaacdatabase permanent state cache, "+
			"proposal re-processed in a later round): prior states are inputs, a processing must leave their encoded form untouched")

	runs := r.N(6, 8)
	perWorld := r.N(2, 3) // proposals per prior chain (building the chain costs as much as a few runs)

	// ---- A. the suspected case of DESIGN section 9, deterministically: several candidate operations with different keys
	// for the address of an expired candidate (plus joins/disjoins of distinct nodes), merged in opposite orders
	t.Run("suspect", func(t *testing.T) {
		for i, sc := range []baScenario{
			{N: 3, Th: 67, Life: 1, Script: "expired2"},
			{N: 4, Th: 67, Life: 2, Script: "mixed"},
			{N: 2, Th: 100, Life: 1, Script: "replaced"},
		} {
			if !r.Mine(i) {
				continue
			}

			w, err := baGetWorld(sc)
			if err != nil {
				t.Fatalf("harness: build prior chain %s: %+v", sc, err)
			}

			c10Suspect(t, r, w, sc)
		}
	})

	// ---- B. re-processing over shared prior state objects, deterministically: a join and an expired re-registration that
	// drop candidates which are not the last of the list, a disjoin (and a voteproof expel) of members that are not last
	t.Run("reprocess", func(t *testing.T) {
		for i, sc := range []baScenario{
			{N: 3, Th: 67, Life: 2, Script: "active4"},
			{N: 4, Th: 67, Life: 2, Script: "mixed"},
			{N: 3, Th: 67, Life: 1, Script: "expired2"},
		} {
			if !r.Mine(i) {
				continue
			}

			w, err := baGetWorld(sc)
			if err != nil {
				t.Fatalf("harness: build prior chain %s: %+v", sc, err)
			}

			c10Reprocess(t, r, w, sc)
		}
	})

	if r.Failed() {
		return // a violation is already on record; nothing to add by searching on
	}

	r.Checks(32, 700)
	r.ShrinkTime(60 * time.Second)

	caseNo := 0

	rapid.Check(t, func(rt *rapid.T) {
		sc := baGenScenario(rt)

		w, err := baGetWorld(sc)
		if err != nil {
			rt.Fatalf("harness: build prior chain %s: %+v", sc, err)
		}

		for k := 0; k < perWorld; k++ {
			caseNo++
			c10Proposal(rt, r, w, sc, runs, fmt.Sprintf("c10-%d", caseNo))
		}
	})
}

func c10Proposal(rt *rapid.T, r *ev.Rec, w *baWorld, sc baScenario, runs int, salt string) {
	{
		ops := baGenOps(rt, w, baGenCfg{MaxOps: 40}, salt)
		ops = c10GenDirected(rt, w, ops, salt)
		expels, expeldesc := baGenExpels(rt, w)

		if err := baCheckOpsValid(w, ops); err != nil {
			rt.Fatalf("harness: %+v", err)
		}

		pr, err := baProposal(w, ops)
		if err != nil {
			rt.Fatalf("harness: proposal: %+v", err)
		}

		fetchError := -1
		if len(ops) > 0 && rapid.IntRange(0, 29).Draw(rt, "fetcherror") == 28 {
			fetchError = rapid.IntRange(0, len(ops)-1).Draw(rt, "fetcherrorat")
		}

		results := make([]baResult, runs)
		optss := make([]baRunOpts, runs)
		workerSizes := map[int64]bool{}
		parallel := false

		// the last nshared runs are processed over one set of in-memory prior state objects
		nshared := min(rapid.IntRange(2, 4).Draw(rt, "sharedruns"), runs-1)
		prior := c10NewPrior(w)

		for i := 0; i < runs; i++ {
			o := baGenRunOpts(rt, len(ops)+len(expels))
			o.FetchError = fetchError

			if i == 0 {
				// one plain sequential run in every case
				o.Workers, o.WriterWorkers, o.Noise = 1, 1, baNoise{Name: "none"}
			}

			optss[i] = o
			workerSizes[o.Workers] = true

			if o.Workers > 1 {
				parallel = true
			}

			var res baResult
			var herr error

			if i < runs-nshared {
				res, herr = baProcess(w, pr, ops, expels, o)
			} else {
				res, herr = c10ProcessOver(w, pr, ops, expels, o, prior.get)
			}

			if herr != nil {
				rt.Fatalf("harness: run %d (%s): %+v", i, o, herr)
			}

			results[i] = res

			if i >= runs-nshared {
				// ---- oracle: the processing left its input (the prior states it was handed) as it was
				if ms, herr := prior.mutated(); herr != nil {
					rt.Fatalf("harness: %+v", herr)
				} else if len(ms) > 0 {
					r.Violation(rt, "prior-state-mutated", "processing a proposal changed the prior state objects it read (%s, height %d): run %d (%s), %d-th run over the same in-memory prior states\n %s\n operations: %s\n voteproof expels: %v",
						sc, w.H, i, o, i-(runs-nshared)+1, strings.Join(ms, "\n "), strings.Join(baDescs(ops), " | "), expeldesc)
					prior = c10NewPrior(w) // known finding: go on with intact objects
				}
			}
		}

		// ---- oracle: every run agrees with run 0
		base0 := results[0]

		for i := 1; i < runs; i++ {
			a, b := base0, results[i]

			switch {
			case a.Err == nil && b.Err == nil:
				var diffs []string
				if !a.Manifest.Hash().Equal(b.Manifest.Hash()) {
					diffs = append(diffs, "hash")
				}

				if !hashEq(a.Manifest.OperationsTree(), b.Manifest.OperationsTree()) {
					diffs = append(diffs, "operations-tree")
				}

				if !hashEq(a.Manifest.StatesTree(), b.Manifest.StatesTree()) {
					diffs = append(diffs, "states-tree")
				}

				if !hashEq(a.Manifest.Suffrage(), b.Manifest.Suffrage()) {
					diffs = append(diffs, "suffrage")
				}

				if len(diffs) > 0 {
					sig := "manifest-differs-" + c10Cause(a, b, diffs)
					r.Violation(rt, sig, "same proposal, same prior state (%s, height %d), different manifests (%s differ)\n run 0 (%s): %s\n run %d (%s): %s\n operations: %s\n voteproof expels: %v\n %s",
						sc, w.H, strings.Join(diffs, ","), optss[0], a.manifestSig(), i, optss[i], b.manifestSig(),
						strings.Join(baDescs(ops), " | "), expeldesc, c10StateDiff(a, b))
				}
			case (a.Err == nil) != (b.Err == nil):
				r.Violation(rt, "error-in-some-runs", "same proposal, same prior state (%s): run 0 (%s) -> %v ; run %d (%s) -> %v\n operations: %s",
					sc, optss[0], errOrManifest(a), i, optss[i], errOrManifest(b), strings.Join(baDescs(ops), " | "))
			case a.ErrClass != b.ErrClass:
				r.Violation(rt, "error-class-differs", "same proposal, same prior state (%s): run 0 fails with %v, run %d with %v", sc, a.Err, i, b.Err)
			}
		}

		// ---- classification
		maxSame := 0

		for i := range results {
			for _, k := range []string{isaac.SuffrageStateKey, isaac.SuffrageCandidateStateKey} {
				if n := results[i].MergeOps[k]; n > maxSame {
					maxSame = n
				}
			}
		}

		nontrivial := maxSame >= 2 && parallel && len(workerSizes) >= 2

		classes := []string{"script:" + sc.Script}

		kinds := map[string]int{}
		for i := range ops {
			kinds[ops[i].Kind]++
		}

		for k := range kinds {
			classes = append(classes, "has:"+k)
		}

		if len(expels) > 0 {
			classes = append(classes, "has:voteproof-expels")
		}

		switch {
		case base0.Err != nil:
			classes = append(classes, "outcome:error-"+base0.ErrClass)
		case base0.Manifest.StatesTree() == nil:
			classes = append(classes, "outcome:no-new-state")
		default:
			classes = append(classes, "outcome:new-states")

			if _, ok := base0.NewStates[isaac.SuffrageStateKey]; ok {
				classes = append(classes, "new:suffrage")
			}

			if _, ok := base0.NewStates[isaac.SuffrageCandidateStateKey]; ok {
				classes = append(classes, "new:candidates")
			}

			if _, ok := base0.NewStates[isaac.NetworkPolicyStateKey]; ok {
				classes = append(classes, "new:policy")
			}

			if len(base0.NewStates) > 3 {
				classes = append(classes, "new:many-keys")
			}
		}

		switch {
		case maxSame >= 4:
			classes = append(classes, "samekey:>=4")
		case maxSame >= 2:
			classes = append(classes, "samekey:2-3")
		default:
			classes = append(classes, "samekey:<2")
		}

		if base0.Err == nil {
			classes = append(classes, c10DropClasses(w, base0)...)
		}

		classes = append(classes, fmt.Sprintf("sharedruns:%d", nshared))

		// the class the design suspected: two candidate operations with different keys for an expired candidate's address
		if c10ExpiredTwoKeys(w, ops) {
			classes = append(classes, "suspect:expired-candidate-two-keys")
		}

		fp := sc.String() + "#" + strings.Join(baDescs(ops), "|") + "#" + strings.Join(expeldesc, ",")
		defer r.Case(fp, nontrivial, classes...)

		if nontrivial && r.WantSample() {
			var os []string
			for i := range optss {
				os = append(os, optss[i].String())
			}

			r.Sample(map[string]any{"prior": w.Desc(), "operations": baDescs(ops), "voteproof_expels": expeldesc, "runs": os,
				"manifest": base0.manifestSig(), "ops_merged_into_one_key": maxSame})
		}
	}
}

func hashEq(a, b util.Hash) bool {
	if a == nil || b == nil {
		return a == nil && b == nil
	}

	return a.Equal(b)
}

func errOrManifest(r baResult) string {
	if r.Err != nil {
		return "error: " + r.Err.Error()
	}

	return r.manifestSig()
}

// c10Cause names the part of the block that differs (root-cause signature).
func c10Cause(a, b baResult, diffs []string) string {
	keys := map[string]bool{}
	for k := range a.NewStates {
		keys[k] = true
	}

	for k := range b.NewStates {
		keys[k] = true
	}

	var differ []string

	for k := range keys {
		x, y := a.NewStates[k], b.NewStates[k]
		if x == nil || y == nil || !x.Hash().Equal(y.Hash()) {
			differ = append(differ, k)
		}
	}

	sort.Strings(differ)

	switch {
	case len(differ) > 0:
		k := differ[0]
		if strings.HasPrefix(k, "fill-") {
			k = "filler"
		}

		return "state-" + k
	case len(diffs) > 0 && diffs[len(diffs)-1] == "states-tree" || len(diffs) > 1 && diffs[1] == "states-tree":
		return "states-tree-order"
	default:
		return strings.Join(diffs[1:], "+")
	}
}

func c10StateDiff(a, b baResult) string {
	var sb strings.Builder

	for _, k := range []string{isaac.SuffrageStateKey, isaac.SuffrageCandidateStateKey, isaac.NetworkPolicyStateKey} {
		x, y := a.NewStates[k], b.NewStates[k]
		if x == nil && y == nil {
			continue
		}

		if x != nil && y != nil && x.Hash().Equal(y.Hash()) {
			continue
		}

		fmt.Fprintf(&sb, "state %q: run 0 = %s ; other run = %s\n ", k, c10RenderState(x), c10RenderState(y))
	}

	return sb.String()
}

func c10RenderState(st base.State) string {
	if st == nil {
		return "<none>"
	}

	switch v := st.Value().(type) {
	case base.SuffrageNodesStateValue:
		var ns []string
		for _, n := range v.Nodes() {
			ns = append(ns, fmt.Sprintf("%s/%s@%d", n.Address(), n.Publickey().String()[:8], n.Start()))
		}

		return fmt.Sprintf("suffrage(height=%d)[%s] ops=%d", v.Height(), strings.Join(ns, ","), len(st.Operations()))
	case base.SuffrageCandidatesStateValue:
		var ns []string
		for _, n := range v.Nodes() {
			ns = append(ns, fmt.Sprintf("%s/%s[%d..%d]", n.Address(), n.Publickey().String()[:8], n.Start(), n.Deadline()))
		}

		return fmt.Sprintf("candidates[%s] ops=%d", strings.Join(ns, ","), len(st.Operations()))
	default:
		return fmt.Sprintf("%T hash=%s ops=%d", v, st.Hash(), len(st.Operations()))
	}
}

func c10ExpiredTwoKeys(w *baWorld, ops []baOp) bool {
	keys := map[string]map[string]bool{}

	for i := range ops {
		if ops[i].Kind != "candidate" || ops[i].Fetch != "ok" {
			continue
		}

		c, found := w.cand(ops[i].Target)
		if !found || c.Deadline >= w.H {
			continue
		}

		if keys[ops[i].Target] == nil {
			keys[ops[i].Target] = map[string]bool{}
		}

		keys[ops[i].Target][ops[i].Key] = true
	}

	for _, ks := range keys {
		if len(ks) >= 2 {
			return true
		}
	}

	return false
}

// c10Suspect: two (three) candidate operations for one expired candidate's address with different keys.
func c10Suspect(t *testing.T, r *ev.Rec, w *baWorld, sc baScenario) {
	_, expired := w.activeCands()
	if len(expired) < 1 {
		t.Fatalf("harness: scenario %s has no expired candidate", sc)
	}

	x := expired[0].Node
	salt := "c10-suspect-" + sc.String()

	mk := func(i int, n base.LocalNode, class string) baOp {
		return baOp{Kind: "candidate", Op: chain.CandidateOp(fmt.Sprintf("%s-%d", salt, i), n, n), Fetch: "ok", Target: n.Address().String(),
			Key: n.Publickey().String(), Desc: fmt.Sprintf("candidate(%s:%s)", n.Address(), class)}
	}

	fresh := baFresh()
	ops := []baOp{
		mk(0, fresh[1], "fresh"),
		mk(1, baAlias(x), "expired,aliaskey"),
		mk(2, x, "expired"),
		mk(3, fresh[0], "fresh"),
		mk(4, baAlias(fresh[0]), "fresh,aliaskey"),
	}

	if err := baCheckOpsValid(w, ops); err != nil {
		t.Fatalf("harness: %+v", err)
	}

	pr, err := baProposal(w, ops)
	if err != nil {
		t.Fatalf("harness: %+v", err)
	}

	n := len(ops)
	rev := make([]int, n)
	fwd := make([]int, n)

	for i := range rev {
		rev[i] = 2 + (n-i)*6
		fwd[i] = 2 + i*6
	}

	optss := []baRunOpts{
		{Workers: 1, WriterWorkers: 1, Noise: baNoise{Name: "none"}, FetchError: -1},
		{Workers: 64, WriterWorkers: 64, Procs: 16, Noise: baNoise{Name: "reverse", Merge: rev}, FetchError: -1},
		{Workers: 64, WriterWorkers: 1, Procs: 4, Noise: baNoise{Name: "forward", Merge: fwd}, FetchError: -1},
		{Workers: 8, WriterWorkers: 8, Procs: 1, Noise: baNoise{Name: "reverse", Merge: rev, Result: fwd}, FetchError: -1},
		{Workers: 2, WriterWorkers: 3, Procs: 16, Noise: baNoise{Name: "yield", Merge: []int{1, 1, 1, 1, 1}, State: 1}, FetchError: -1},
		{Workers: 3, WriterWorkers: 64, Procs: 4, Noise: baNoise{Name: "reverse", Merge: rev}, FetchError: -1},
	}

	var first baResult

	for i, o := range optss {
		res, herr := baProcess(w, pr, ops, nil, o)
		if herr != nil {
			t.Fatalf("harness: %+v", herr)
		}

		if res.Err != nil {
			t.Fatalf("harness: processing failed: %+v", res.Err)
		}

		if i == 0 {
			first = res

			continue
		}

		if !first.Manifest.Hash().Equal(res.Manifest.Hash()) {
			r.Violation(t, "manifest-differs-"+c10Cause(first, res, []string{"hash", "states-tree"}),
				"same proposal, same prior state (%s, height %d), different manifests\n run 0 (%s): %s\n run %d (%s): %s\n operations: %s\n %s",
				sc, w.H, optss[0], first.manifestSig(), i, o, res.manifestSig(), strings.Join(baDescs(ops), " | "), c10StateDiff(first, res))
		}
	}

	var verdicts []string
	for i := range ops {
		verdicts = append(verdicts, fmt.Sprintf("%s -> instate=%v %s", ops[i].Desc, first.InState[ops[i].fact()], first.Reason[ops[i].fact()]))
	}

	r.Sample(map[string]any{"kind": "suspected expired-candidate duplicate", "prior": w.Desc(), "operations_and_results": verdicts,
		"candidates_after": c10RenderState(first.NewStates[isaac.SuffrageCandidateStateKey]), "runs": len(optss)})
	r.Case("suspect#"+sc.String(), true, "suspect:deterministic-case", "script:"+sc.Script)
}

// ---------------------------------------------------------------------------------------------------------------------
// one set of in-memory prior state objects, handed out again and again

type c10PriorEntry struct {
	st     base.State
	found  bool
	enc    []byte // canonical (JSON) bytes when first handed out
	vhash  []byte // Value().HashBytes() when first handed out
	render string
}

// c10Prior is a GetStateFunc over the world's database that decodes every key once and then hands out the same
// base.State object (what the state cache of the permanent database does); it remembers the encoded form of each.
type c10Prior struct {
	mu      sync.Mutex
	w       *baWorld
	entries map[string]*c10PriorEntry
}

func c10NewPrior(w *baWorld) *c10Prior {
	return &c10Prior{w: w, entries: map[string]*c10PriorEntry{}}
}

func c10EncodeState(w *baWorld, st base.State) (enc, vhash []byte, _ error) {
	b, err := w.W.Enc.Marshal(st)
	if err != nil {
		return nil, nil, errors.WithMessagef(err, "encode prior state %q", st.Key())
	}

	if st.Value() != nil {
		vhash = st.Value().HashBytes()
	}

	return b, vhash, nil
}

func (p *c10Prior) get(key string) (base.State, bool, error) {
	p.mu.Lock()
	defer p.mu.Unlock()

	if e, ok := p.entries[key]; ok {
		return e.st, e.found, nil
	}

	st, found, err := p.w.W.DB.State(key)
	if err != nil {
		return nil, false, err
	}

	e := &c10PriorEntry{st: st, found: found}

	if found {
		if e.enc, e.vhash, err = c10EncodeState(p.w, st); err != nil {
			return nil, false, err
		}

		e.render = c10RenderState(st)
	}

	p.entries[key] = e

	return e.st, e.found, nil
}

// mutated lists (sorted by key) the prior states whose encoded form is no longer what it was when first handed out.
// Call it only while no processing runs.
func (p *c10Prior) mutated() ([]string, error) {
	p.mu.Lock()
	defer p.mu.Unlock()

	keys := make([]string, 0, len(p.entries))
	for k := range p.entries {
		keys = append(keys, k)
	}

	sort.Strings(keys)

	var out []string

	for _, k := range keys {
		e := p.entries[k]
		if !e.found {
			continue
		}

		enc, vhash, err := c10EncodeState(p.w, e.st)
		if err != nil {
			return nil, err
		}

		if bytes.Equal(enc, e.enc) && bytes.Equal(vhash, e.vhash) {
			continue
		}

		out = append(out, fmt.Sprintf("prior state %q (hash %s, height %d): handed out as %s ; after the run it reads %s",
			k, e.st.Hash(), e.st.Height(), e.render, c10RenderState(e.st)))
	}

	return out, nil
}

// c10ProcessOver is baProcess with the prior state taken from getState instead of a fresh database read: the real
// DefaultProposalProcessor, operation processors, isaacblock.Writer over the local-fs writer and the center's
// block-write database; the writer is cancelled afterwards, the world is unchanged.
func c10ProcessOver(w *baWorld, pr base.ProposalSignFact, ops []baOp, expels []base.SuffrageExpelOperation, o baRunOpts, getState base.GetStateFunc) (res baResult, harnessErr error) {
	cw := w.W
	prev := cw.Last().Manifest()
	point := pr.Point()

	if o.Procs > 0 {
		defer runtime.GOMAXPROCS(runtime.GOMAXPROCS(o.Procs))
	}

	if o.WriterWorkers < 1 {
		o.WriterWorkers = o.Workers
	}

	opm := map[string]int{}
	for i := range ops {
		opm[ops[i].Op.Hash().String()] = i
	}

	oprs := cw.OperationProcessors()

	var rw *baRecWriter
	var rdb *baRecDB
	var rfs *baRecFS
	var realWriter *isaacblock.Writer

	args := isaac.NewDefaultProposalProcessorArgs()
	args.MaxWorkerSize = o.Workers
	args.NewWriterFunc = func(proposal base.ProposalSignFact, getStateFunc base.GetStateFunc) (isaac.BlockWriter, error) {
		dbw, err := cw.DB.NewBlockWriteDatabase(proposal.Point().Height())
		if err != nil {
			return nil, err
		}

		fsw, err := isaacblock.NewLocalFSWriter(cw.Root, proposal.Point().Height(), cw.Enc, cw.Enc, cw.Local, cw.NetworkID)
		if err != nil {
			return nil, err
		}

		rdb = &baRecDB{BlockWriteDatabase: dbw, states: map[string]base.State{}}
		rfs = &baRecFS{FSWriter: fsw}
		realWriter = isaacblock.NewWriter(proposal, getStateFunc, rdb, cw.DB.MergeBlockWriteDatabase, rfs, o.WriterWorkers)
		rw = &baRecWriter{BlockWriter: realWriter, noise: o.Noise, instate: map[string]bool{}, reason: map[string]string{}, mergeops: map[string]int{}}

		return rw, nil
	}
	args.GetStateFunc = func(key string) (base.State, bool, error) {
		baDelay(o.Noise.State)

		return getState(key)
	}
	args.GetOperationFunc = func(_ context.Context, oph, fact util.Hash) (base.Operation, error) {
		i, found := opm[oph.String()]
		if !found {
			return nil, isaac.ErrOperationNotFoundInProcessor.Errorf("operation not found")
		}

		baDelay(baAt(o.Noise.Fetch, uint64(i)))

		if i == o.FetchError {
			return nil, errBaFetch
		}

		switch ops[i].Fetch {
		case "notfound":
			return nil, isaac.ErrOperationNotFoundInProcessor.Errorf("operation not found")
		case "invalid":
			return nil, isaac.ErrInvalidOperationInProcessor.Errorf("verif says invalid")
		case "processed":
			return nil, isaac.ErrOperationAlreadyProcessedInProcessor.Errorf("known")
		case "nilop":
			return nil, nil
		case "utilinvalid":
			return nil, util.ErrInvalid.Errorf("verif says not valid")
		}

		return ops[i].Op, nil
	}
	args.NewOperationProcessorFunc = func(height base.Height, ht hint.Hint, getStatef base.GetStateFunc) (base.OperationProcessor, error) {
		v, found := oprs.Find(ht)
		if !found {
			return nil, nil
		}

		return v(height, getStatef)
	}

	pp, err := isaac.NewDefaultProposalProcessor(pr, prev, args)
	if err != nil {
		return res, err
	}

	var voters []base.LocalNode

	for _, m := range w.Members {
		out := false

		for _, e := range expels {
			if e.ExpelFact().Node().Equal(m.Node.Address()) {
				out = true
			}
		}

		if !out {
			voters = append(voters, m.Node)
		}
	}

	ifact := isaac.NewINITBallotFact(point, prev.Hash(), pr.Fact().Hash(), gen.ExpelFactHashes(expels))
	ivp := gen.FullINITVoteproof(ifact, voters, cw.Threshold, expels)

	if len(expels) > 0 {
		// input-domain guard: the processor only ever sees voteproofs that passed full validation
		if err := ivp.IsValid(cw.NetworkID); err != nil {
			return res, errors.WithMessage(err, "generated INIT voteproof is not valid")
		}

		nodes := make([]base.Node, len(w.Members))
		for i := range w.Members {
			nodes[i] = w.Members[i].Node
		}

		suf, err := isaac.NewSuffrage(nodes)
		if err != nil {
			return res, err
		}

		if err := isaac.IsValidVoteproofWithSuffrage(ivp, suf); err != nil {
			return res, errors.WithMessage(err, "generated INIT voteproof is not valid with the suffrage")
		}
	}

	m, perr := pp.Process(context.Background(), ivp)
	_ = pp.Cancel()

	if perr != nil {
		res.Err = perr
		res.ErrClass = baErrClass(perr)

		return res, nil
	}

	res.Manifest = m

	// wait (progress counters, no verdict from time) until every job the writer queued has run, then cancel it
	wantStates := func() int64 {
		if m.StatesTree() == nil {
			return 0
		}

		if n := atomic.LoadInt64(&rfs.total); n > 0 {
			return n
		}

		return 1 << 40 // not announced yet
	}

	deadline := time.Now().Add(60 * time.Second)

	for {
		done := atomic.LoadInt64(&rdb.nops) >= atomic.LoadInt64(&rw.nresults) &&
			atomic.LoadInt64(&rfs.nops) >= atomic.LoadInt64(&rw.nstates) &&
			atomic.LoadInt64(&rdb.nsts) >= wantStates() &&
			atomic.LoadInt64(&rfs.nmanifest) >= 1
		if done {
			break
		}

		if time.Now().After(deadline) {
			return res, errors.Errorf("block writer did not become quiet: ops %d/%d fsops %d/%d states %d/%d manifest %d",
				rdb.nops, rw.nresults, rfs.nops, rw.nstates, rdb.nsts, wantStates(), rfs.nmanifest)
		}

		time.Sleep(50 * time.Microsecond)
	}

	rw.mu.Lock()
	res.InState = rw.instate
	res.Reason = rw.reason
	res.MergeOps = rw.mergeops
	rw.mu.Unlock()

	rdb.mu.Lock()
	res.NewStates = rdb.states
	rdb.mu.Unlock()

	if err := realWriter.Cancel(); err != nil {
		return res, errors.WithMessage(err, "cancel writer")
	}

	return res, nil
}

// ---------------------------------------------------------------------------------------------------------------------
// directed operations: entries that are not the last of the prior lists leave them

func c10MemberNodes(w *baWorld) []base.LocalNode {
	ns := make([]base.LocalNode, len(w.Members))
	for i := range w.Members {
		ns[i] = w.Members[i].Node
	}

	return ns
}

// c10DropCandidateOp: a valid operation that takes entry i of the prior candidates list out of it: the join of an
// unexpired candidate (signed by the candidate and every member) or the re-registration of an expired one.
func c10DropCandidateOp(w *baWorld, i int, token string) baOp {
	c := w.Cands[i]
	addr := c.Node.Address()

	if c.Deadline >= w.H {
		signers := append([]base.LocalNode{c.Node}, c10MemberNodes(w)...)

		o := baOp{Kind: "join", Op: chain.JoinOp(token, addr, c.Start, signers), Fetch: "ok", Target: addr.String(), Start: c.Start,
			Desc: fmt.Sprintf("join(%s:active,candidate#%d/%d,members=%d/%d)", addr, i, len(w.Cands), len(w.Members), len(w.Members))}

		for _, s := range signers {
			o.Signers = append(o.Signers, baIdentOf(s))
		}

		return o
	}

	return baOp{Kind: "candidate", Op: chain.CandidateOp(token, c.Node, c.Node), Fetch: "ok", Target: addr.String(), Key: c.Node.Publickey().String(),
		Signers: []baIdent{baIdentOf(c.Node)}, Desc: fmt.Sprintf("candidate(%s:expired,candidate#%d/%d)", addr, i, len(w.Cands))}
}

// c10DisjoinMemberOp: a valid disjoin of entry i of the prior suffrage.
func c10DisjoinMemberOp(w *baWorld, i int, token string) baOp {
	m := w.Members[i]

	return baOp{Kind: "disjoin", Op: chain.DisjoinOp(token, m.Node.Address(), m.Start, m.Node), Fetch: "ok", Target: m.Node.Address().String(), Start: m.Start,
		Signers: []baIdent{baIdentOf(m.Node)}, Desc: fmt.Sprintf("disjoin(%s:member#%d/%d)", m.Node.Address(), i, len(w.Members))}
}

func c10InsertOp(ops []baOp, at int, o baOp) []baOp {
	out := make([]baOp, 0, len(ops)+1)
	out = append(out, ops[:at]...)
	out = append(out, o)

	return append(out, ops[at:]...)
}

// c10GenDirected adds (2 of 3 proposals each) a valid drop of a candidate that is not the last of the prior list and a
// valid disjoin of a member that is not the last of the prior suffrage, at drawn positions.
func c10GenDirected(t *rapid.T, w *baWorld, ops []baOp, salt string) []baOp {
	if len(w.Cands) >= 2 && rapid.IntRange(0, 2).Draw(t, "dropcandidate") != 2 {
		i := rapid.IntRange(0, len(w.Cands)-2).Draw(t, "dropcandidateat")
		ops = c10InsertOp(ops, rapid.IntRange(0, len(ops)).Draw(t, "dropcandidatepos"), c10DropCandidateOp(w, i, salt+"-directed-candidate"))
	}

	if len(w.Members) >= 2 && rapid.IntRange(0, 2).Draw(t, "dropmember") != 2 {
		i := rapid.IntRange(0, len(w.Members)-2).Draw(t, "dropmemberat")
		ops = c10InsertOp(ops, rapid.IntRange(0, len(ops)).Draw(t, "dropmemberpos"), c10DisjoinMemberOp(w, i, salt+"-directed-member"))
	}

	return ops
}

// c10DropClasses: which entries of the prior lists are gone in the block's new states (coverage classes).
func c10DropClasses(w *baWorld, res baResult) []string {
	var classes []string

	if st := res.NewStates[isaac.SuffrageCandidateStateKey]; st != nil {
		if v, ok := st.Value().(base.SuffrageCandidatesStateValue); ok {
			nonlast, last := false, false

			for i, c := range w.Cands {
				kept := false

				for _, n := range v.Nodes() {
					if n.Address().Equal(c.Node.Address()) && n.Start() == c.Start {
						kept = true
					}
				}

				switch {
				case kept:
				case i < len(w.Cands)-1:
					nonlast = true
				default:
					last = true
				}
			}

			if nonlast {
				classes = append(classes, "drops:candidate-not-last")
			}

			if last {
				classes = append(classes, "drops:candidate-last")
			}
		}
	}

	if st := res.NewStates[isaac.SuffrageStateKey]; st != nil {
		if v, ok := st.Value().(base.SuffrageNodesStateValue); ok {
			nonlast, last := false, false

			for i, m := range w.Members {
				kept := false

				for _, n := range v.Nodes() {
					if n.Address().Equal(m.Node.Address()) {
						kept = true
					}
				}

				switch {
				case kept:
				case i < len(w.Members)-1:
					nonlast = true
				default:
					last = true
				}
			}

			if nonlast {
				classes = append(classes, "drops:member-not-last")
			}

			if last {
				classes = append(classes, "drops:member-last")
			}
		}
	}

	return classes
}

// c10Reprocess: one proposal that drops candidates and members which are not the last of their prior lists, processed
// four times over the same in-memory prior state objects.
func c10Reprocess(t *testing.T, r *ev.Rec, w *baWorld, sc baScenario) {
	salt := "c10-reprocess-" + sc.String()

	var ops []baOp

	// every candidate but the last leaves the list (join when unexpired, re-registration when expired)
	for i := 0; i < len(w.Cands)-1; i++ {
		ops = append(ops, c10DropCandidateOp(w, i, fmt.Sprintf("%s-c%d", salt, i)))
	}

	if len(ops) < 1 {
		t.Fatalf("harness: scenario %s has fewer than 2 candidates", sc)
	}

	fresh := baFresh()
	ops = append(ops, baOp{Kind: "candidate", Op: chain.CandidateOp(salt+"-fresh", fresh[0], fresh[0]), Fetch: "ok", Target: fresh[0].Address().String(),
		Key: fresh[0].Publickey().String(), Desc: fmt.Sprintf("candidate(%s:fresh)", fresh[0].Address())})

	// a member in the middle of the suffrage leaves; another one is expelled by the voteproof when the threshold allows
	var expels []base.SuffrageExpelOperation
	var expeldesc []string

	n := len(w.Members)
	disjoin := n - 2

	if n-w.Required >= 1 && n >= 4 {
		x := w.Members[1]

		var live []base.LocalNode

		for i, m := range w.Members {
			if i != 1 {
				live = append(live, m.Node)
			}
		}

		expels = append(expels, gen.Expel(x.Node.Address(), max(base.GenesisHeight+1, w.H-1), w.H+2, live))
		expeldesc = append(expeldesc, x.Node.Address().String())
	}

	if disjoin >= 0 {
		ops = c10InsertOp(ops, 1, c10DisjoinMemberOp(w, disjoin, salt+"-d"))
	}

	if err := baCheckOpsValid(w, ops); err != nil {
		t.Fatalf("harness: %+v", err)
	}

	pr, err := baProposal(w, ops)
	if err != nil {
		t.Fatalf("harness: %+v", err)
	}

	optss := []baRunOpts{
		{Workers: 1, WriterWorkers: 1, Noise: baNoise{Name: "none"}, FetchError: -1},
		{Workers: 64, WriterWorkers: 64, Procs: 16, Noise: baNoise{Name: "none"}, FetchError: -1},
		{Workers: 1, WriterWorkers: 1, Noise: baNoise{Name: "none"}, FetchError: -1},
		{Workers: 3, WriterWorkers: 8, Procs: 4, Noise: baNoise{Name: "yield", Merge: []int{1, 1, 1, 1, 1, 1}, State: 1}, FetchError: -1},
	}

	prior := c10NewPrior(w)

	var first baResult

	for i, o := range optss {
		res, herr := c10ProcessOver(w, pr, ops, expels, o, prior.get)
		if herr != nil {
			t.Fatalf("harness: %+v", herr)
		}

		if res.Err != nil {
			t.Fatalf("harness: processing failed: %+v", res.Err)
		}

		switch ms, herr := prior.mutated(); {
		case herr != nil:
			t.Fatalf("harness: %+v", herr)
		case len(ms) > 0:
			r.Violation(t, "prior-state-mutated", "processing a proposal changed the prior state objects it read (%s, height %d): run %d (%s) over the same in-memory prior states\n %s\n operations: %s\n voteproof expels: %v",
				sc, w.H, i, o, strings.Join(ms, "\n "), strings.Join(baDescs(ops), " | "), expeldesc)
			prior = c10NewPrior(w)
		}

		if i == 0 {
			first = res

			continue
		}

		var diffs []string
		if !first.Manifest.Hash().Equal(res.Manifest.Hash()) {
			diffs = append(diffs, "hash")
		}

		if !hashEq(first.Manifest.OperationsTree(), res.Manifest.OperationsTree()) {
			diffs = append(diffs, "operations-tree")
		}

		if !hashEq(first.Manifest.StatesTree(), res.Manifest.StatesTree()) {
			diffs = append(diffs, "states-tree")
		}

		if !hashEq(first.Manifest.Suffrage(), res.Manifest.Suffrage()) {
			diffs = append(diffs, "suffrage")
		}

		if len(diffs) > 0 {
			r.Violation(t, "manifest-differs-"+c10Cause(first, res, diffs),
				"same proposal, same in-memory prior state objects (%s, height %d), different manifests (%s differ)\n run 0 (%s): %s\n run %d (%s): %s\n operations: %s\n voteproof expels: %v\n %s",
				sc, w.H, strings.Join(diffs, ","), optss[0], first.manifestSig(), i, o, res.manifestSig(), strings.Join(baDescs(ops), " | "), expeldesc, c10StateDiff(first, res))
		}
	}

	classes := append([]string{"reprocess:deterministic-case", "script:" + sc.Script}, c10DropClasses(w, first)...)

	// harness self-check (no verdict): the case is the class it claims to be
	if !strings.Contains(strings.Join(classes, " "), "drops:candidate-not-last") {
		t.Fatalf("harness: re-processing case %s dropped no candidate that is not the last: %s", sc, c10RenderState(first.NewStates[isaac.SuffrageCandidateStateKey]))
	}

	var verdicts []string
	for i := range ops {
		verdicts = append(verdicts, fmt.Sprintf("%s -> instate=%v %s", ops[i].Desc, first.InState[ops[i].fact()], first.Reason[ops[i].fact()]))
	}

	r.Sample(map[string]any{"kind": "re-processing over shared prior state objects", "prior": w.Desc(), "operations_and_results": verdicts,
		"voteproof_expels": expeldesc, "candidates_after": c10RenderState(first.NewStates[isaac.SuffrageCandidateStateKey]),
		"suffrage_after": c10RenderState(first.NewStates[isaac.SuffrageStateKey]), "runs": len(optss)})
	r.Case("reprocess#"+sc.String(), true, classes...)
}
