package p_blocka

import (
	"fmt"
	"sort"
	"strings"
	"testing"
	"time"

	"github.com/spikeekips/mitum/base"
	"github.com/spikeekips/mitum/isaac"
	"github.com/spikeekips/mitum/util"
	"pgregory.net/rapid"
	"verif/internal/chain"
	"verif/internal/ev"
)

// C10: the same proposal over the same prior state gives the same manifest, whatever the worker count and schedule.
//
// Metamorphic oracle: one proposal is processed R times by the real DefaultProposalProcessor on fresh writers with
// different worker sizes, GOMAXPROCS and injected delays; all R manifests must agree in hash, operations-tree root,
// states-tree root and suffrage hash (or all runs must fail alike).
func TestC10(t *testing.T) {
	r := ev.Start(t, "C10")
	defer r.Finish()
	defer baCloseWorlds()

	r.Rule("prior chains: genesis suffrage 1..7, threshold {51,60,66.7,67,75,100}, candidate lifespan 1..3, 12 block scripts " +
		"(no/active/expired/boundary/replaced candidates, joined and departed members); proposal: 0..40 operations mixing join, " +
		"disjoin, candidate, network-policy, harness filler (unknown hint, disjoint keys) and listed expel operations, valid and " +
		"invalid (wrong start, foreign/alias-key/too few signers, duplicates for one node, two keys for one address, several policy " +
		"operations), fetch outcomes {ok, not found, invalid, known, nil}, plus 0..n-required expels in the INIT voteproof; each proposal is " +
		"processed R=6 (thorough 8) times (2-3 proposals per prior chain) with MaxWorkerSize and writer workers in {1,2,3,8,64}, GOMAXPROCS in {1,4,16} and delay patterns " +
		"{none, reverse-merge, yield, even-late, drawn}. non-trivial: >=2 operations merged a value into the same suffrage/candidates state " +
		"key and >=2 distinct worker sizes with at least one >1 were used; distinct by (scenario, operation list, expels)")
	r.Floor(int64(r.N(20, 300)))
	r.MaxSamples(6)
	r.Assume("every operation in a proposal satisfies IsValid (pool admission) and proposals carry unique operation and fact hashes (ProposalFact.IsValid)",
		"INIT voteproofs carry only expels that pass isaac.IsValidVoteproofWithSuffrage, at most n-required of them",
		"harness filler operations write disjoint keys (last-writer-wins on one key by two operations is outside the statement)",
		"sleep/yield injection only perturbs the schedule; no timing enters the verdict")

	runs := r.N(6, 8)
	perWorld := r.N(2, 3) // proposals per prior chain (building the chain costs as much as a few runs)

	// ---- A. the suspected case of DESIGN section 9, deterministically: several candidate operations with different keys
	// for the address of an expired candidate (plus joins/disjoins of distinct nodes), merged in opposite orders
	t.Run("suspect", func(t *testing.T) {
		for i, sc := range []baScenario{
			{N: 3, Th: 67, Life: 1, Script: "expired2"},
			{N: 4, Th: 67, Life: 2, Script: "mixed"},
			{N: 2, Th: 100, Life: 1, Script: "replaced"},
		} {
			if !r.Mine(i) {
				continue
			}

			w, err := baGetWorld(sc)
			if err != nil {
				t.Fatalf("harness: build prior chain %s: %+v", sc, err)
			}

			c10Suspect(t, r, w, sc)
		}
	})

	r.Checks(32, 700)
	r.ShrinkTime(60 * time.Second)

	caseNo := 0

	rapid.Check(t, func(rt *rapid.T) {
		sc := baGenScenario(rt)

		w, err := baGetWorld(sc)
		if err != nil {
			rt.Fatalf("harness: build prior chain %s: %+v", sc, err)
		}

		for k := 0; k < perWorld; k++ {
			caseNo++
			c10Proposal(rt, r, w, sc, runs, fmt.Sprintf("c10-%d", caseNo))
		}
	})
}

func c10Proposal(rt *rapid.T, r *ev.Rec, w *baWorld, sc baScenario, runs int, salt string) {
	{
		ops := baGenOps(rt, w, baGenCfg{MaxOps: 40}, salt)
		expels, expeldesc := baGenExpels(rt, w)

		if err := baCheckOpsValid(w, ops); err != nil {
			rt.Fatalf("harness: %+v", err)
		}

		pr, err := baProposal(w, ops)
		if err != nil {
			rt.Fatalf("harness: proposal: %+v", err)
		}

		fetchError := -1
		if len(ops) > 0 && rapid.IntRange(0, 29).Draw(rt, "fetcherror") == 28 {
			fetchError = rapid.IntRange(0, len(ops)-1).Draw(rt, "fetcherrorat")
		}

		results := make([]baResult, runs)
		optss := make([]baRunOpts, runs)
		workerSizes := map[int64]bool{}
		parallel := false

		for i := 0; i < runs; i++ {
			o := baGenRunOpts(rt, len(ops)+len(expels))
			o.FetchError = fetchError

			if i == 0 {
				// one plain sequential run in every case
				o.Workers, o.WriterWorkers, o.Noise = 1, 1, baNoise{Name: "none"}
			}

			optss[i] = o
			workerSizes[o.Workers] = true

			if o.Workers > 1 {
				parallel = true
			}

			res, herr := baProcess(w, pr, ops, expels, o)
			if herr != nil {
				rt.Fatalf("harness: run %d (%s): %+v", i, o, herr)
			}

			results[i] = res
		}

		// ---- oracle: every run agrees with run 0
		base0 := results[0]

		for i := 1; i < runs; i++ {
			a, b := base0, results[i]

			switch {
			case a.Err == nil && b.Err == nil:
				var diffs []string
				if !a.Manifest.Hash().Equal(b.Manifest.Hash()) {
					diffs = append(diffs, "hash")
				}

				if !hashEq(a.Manifest.OperationsTree(), b.Manifest.OperationsTree()) {
					diffs = append(diffs, "operations-tree")
				}

				if !hashEq(a.Manifest.StatesTree(), b.Manifest.StatesTree()) {
					diffs = append(diffs, "states-tree")
				}

				if !hashEq(a.Manifest.Suffrage(), b.Manifest.Suffrage()) {
					diffs = append(diffs, "suffrage")
				}

				if len(diffs) > 0 {
					sig := "manifest-differs-" + c10Cause(a, b, diffs)
					r.Violation(rt, sig, "same proposal, same prior state (%s, height %d), different manifests (%s differ)\n run 0 (%s): %s\n run %d (%s): %s\n operations: %s\n voteproof expels: %v\n %s",
						sc, w.H, strings.Join(diffs, ","), optss[0], a.manifestSig(), i, optss[i], b.manifestSig(),
						strings.Join(baDescs(ops), " | "), expeldesc, c10StateDiff(a, b))
				}
			case (a.Err == nil) != (b.Err == nil):
				r.Violation(rt, "error-in-some-runs", "same proposal, same prior state (%s): run 0 (%s) -> %v ; run %d (%s) -> %v\n operations: %s",
					sc, optss[0], errOrManifest(a), i, optss[i], errOrManifest(b), strings.Join(baDescs(ops), " | "))
			case a.ErrClass != b.ErrClass:
				r.Violation(rt, "error-class-differs", "same proposal, same prior state (%s): run 0 fails with %v, run %d with %v", sc, a.Err, i, b.Err)
			}
		}

		// ---- classification
		maxSame := 0

		for i := range results {
			for _, k := range []string{isaac.SuffrageStateKey, isaac.SuffrageCandidateStateKey} {
				if n := results[i].MergeOps[k]; n > maxSame {
					maxSame = n
				}
			}
		}

		nontrivial := maxSame >= 2 && parallel && len(workerSizes) >= 2

		classes := []string{"script:" + sc.Script}

		kinds := map[string]int{}
		for i := range ops {
			kinds[ops[i].Kind]++
		}

		for k := range kinds {
			classes = append(classes, "has:"+k)
		}

		if len(expels) > 0 {
			classes = append(classes, "has:voteproof-expels")
		}

		switch {
		case base0.Err != nil:
			classes = append(classes, "outcome:error-"+base0.ErrClass)
		case base0.Manifest.StatesTree() == nil:
			classes = append(classes, "outcome:no-new-state")
		default:
			classes = append(classes, "outcome:new-states")

			if _, ok := base0.NewStates[isaac.SuffrageStateKey]; ok {
				classes = append(classes, "new:suffrage")
			}

			if _, ok := base0.NewStates[isaac.SuffrageCandidateStateKey]; ok {
				classes = append(classes, "new:candidates")
			}

			if _, ok := base0.NewStates[isaac.NetworkPolicyStateKey]; ok {
				classes = append(classes, "new:policy")
			}

			if len(base0.NewStates) > 3 {
				classes = append(classes, "new:many-keys")
			}
		}

		switch {
		case maxSame >= 4:
			classes = append(classes, "samekey:>=4")
		case maxSame >= 2:
			classes = append(classes, "samekey:2-3")
		default:
			classes = append(classes, "samekey:<2")
		}

		// the class the design suspected: two candidate operations with different keys for an expired candidate's address
		if c10ExpiredTwoKeys(w, ops) {
			classes = append(classes, "suspect:expired-candidate-two-keys")
		}

		fp := sc.String() + "#" + strings.Join(baDescs(ops), "|") + "#" + strings.Join(expeldesc, ",")
		defer r.Case(fp, nontrivial, classes...)

		if nontrivial && r.WantSample() {
			var os []string
			for i := range optss {
				os = append(os, optss[i].String())
			}

			r.Sample(map[string]any{"prior": w.Desc(), "operations": baDescs(ops), "voteproof_expels": expeldesc, "runs": os,
				"manifest": base0.manifestSig(), "ops_merged_into_one_key": maxSame})
		}
	}
}

func hashEq(a, b util.Hash) bool {
	if a == nil || b == nil {
		return a == nil && b == nil
	}

	return a.Equal(b)
}

func errOrManifest(r baResult) string {
	if r.Err != nil {
		return "error: " + r.Err.Error()
	}

	return r.manifestSig()
}

// c10Cause names the part of the block that differs (root-cause signature).
func c10Cause(a, b baResult, diffs []string) string {
	keys := map[string]bool{}
	for k := range a.NewStates {
		keys[k] = true
	}

	for k := range b.NewStates {
		keys[k] = true
	}

	var differ []string

	for k := range keys {
		x, y := a.NewStates[k], b.NewStates[k]
		if x == nil || y == nil || !x.Hash().Equal(y.Hash()) {
			differ = append(differ, k)
		}
	}

	sort.Strings(differ)

	switch {
	case len(differ) > 0:
		k := differ[0]
		if strings.HasPrefix(k, "fill-") {
			k = "filler"
		}

		return "state-" + k
	case len(diffs) > 0 && diffs[len(diffs)-1] == "states-tree" || len(diffs) > 1 && diffs[1] == "states-tree":
		return "states-tree-order"
	default:
		return strings.Join(diffs[1:], "+")
	}
}

func c10StateDiff(a, b baResult) string {
	var sb strings.Builder

	for _, k := range []string{isaac.SuffrageStateKey, isaac.SuffrageCandidateStateKey, isaac.NetworkPolicyStateKey} {
		x, y := a.NewStates[k], b.NewStates[k]
		if x == nil && y == nil {
			continue
		}

		if x != nil && y != nil && x.Hash().Equal(y.Hash()) {
			continue
		}

		fmt.Fprintf(&sb, "state %q: run 0 = %s ; other run = %s\n ", k, c10RenderState(x), c10RenderState(y))
	}

	return sb.String()
}

func c10RenderState(st base.State) string {
	if st == nil {
		return "<none>"
	}

	switch v := st.Value().(type) {
	case base.SuffrageNodesStateValue:
		var ns []string
		for _, n := range v.Nodes() {
			ns = append(ns, fmt.Sprintf("%s/%s@%d", n.Address(), n.Publickey().String()[:8], n.Start()))
		}

		return fmt.Sprintf("suffrage(height=%d)[%s] ops=%d", v.Height(), strings.Join(ns, ","), len(st.Operations()))
	case base.SuffrageCandidatesStateValue:
		var ns []string
		for _, n := range v.Nodes() {
			ns = append(ns, fmt.Sprintf("%s/%s[%d..%d]", n.Address(), n.Publickey().String()[:8], n.Start(), n.Deadline()))
		}

		return fmt.Sprintf("candidates[%s] ops=%d", strings.Join(ns, ","), len(st.Operations()))
	default:
		return fmt.Sprintf("%T hash=%s ops=%d", v, st.Hash(), len(st.Operations()))
	}
}

func c10ExpiredTwoKeys(w *baWorld, ops []baOp) bool {
	keys := map[string]map[string]bool{}

	for i := range ops {
		if ops[i].Kind != "candidate" || ops[i].Fetch != "ok" {
			continue
		}

		c, found := w.cand(ops[i].Target)
		if !found || c.Deadline >= w.H {
			continue
		}

		if keys[ops[i].Target] == nil {
			keys[ops[i].Target] = map[string]bool{}
		}

		keys[ops[i].Target][ops[i].Key] = true
	}

	for _, ks := range keys {
		if len(ks) >= 2 {
			return true
		}
	}

	return false
}

// c10Suspect: two (three) candidate operations for one expired candidate's address with different keys.
func c10Suspect(t *testing.T, r *ev.Rec, w *baWorld, sc baScenario) {
	_, expired := w.activeCands()
	if len(expired) < 1 {
		t.Fatalf("harness: scenario %s has no expired candidate", sc)
	}

	x := expired[0].Node
	salt := "c10-suspect-" + sc.String()

	mk := func(i int, n base.LocalNode, class string) baOp {
		return baOp{Kind: "candidate", Op: chain.CandidateOp(fmt.Sprintf("%s-%d", salt, i), n, n), Fetch: "ok", Target: n.Address().String(),
			Key: n.Publickey().String(), Desc: fmt.Sprintf("candidate(%s:%s)", n.Address(), class)}
	}

	fresh := baFresh()
	ops := []baOp{
		mk(0, fresh[1], "fresh"),
		mk(1, baAlias(x), "expired,aliaskey"),
		mk(2, x, "expired"),
		mk(3, fresh[0], "fresh"),
		mk(4, baAlias(fresh[0]), "fresh,aliaskey"),
	}

	if err := baCheckOpsValid(w, ops); err != nil {
		t.Fatalf("harness: %+v", err)
	}

	pr, err := baProposal(w, ops)
	if err != nil {
		t.Fatalf("harness: %+v", err)
	}

	n := len(ops)
	rev := make([]int, n)
	fwd := make([]int, n)

	for i := range rev {
		rev[i] = 2 + (n-i)*6
		fwd[i] = 2 + i*6
	}

	optss := []baRunOpts{
		{Workers: 1, WriterWorkers: 1, Noise: baNoise{Name: "none"}, FetchError: -1},
		{Workers: 64, WriterWorkers: 64, Procs: 16, Noise: baNoise{Name: "reverse", Merge: rev}, FetchError: -1},
		{Workers: 64, WriterWorkers: 1, Procs: 4, Noise: baNoise{Name: "forward", Merge: fwd}, FetchError: -1},
		{Workers: 8, WriterWorkers: 8, Procs: 1, Noise: baNoise{Name: "reverse", Merge: rev, Result: fwd}, FetchError: -1},
		{Workers: 2, WriterWorkers: 3, Procs: 16, Noise: baNoise{Name: "yield", Merge: []int{1, 1, 1, 1, 1}, State: 1}, FetchError: -1},
		{Workers: 3, WriterWorkers: 64, Procs: 4, Noise: baNoise{Name: "reverse", Merge: rev}, FetchError: -1},
	}

	var first baResult

	for i, o := range optss {
		res, herr := baProcess(w, pr, ops, nil, o)
		if herr != nil {
			t.Fatalf("harness: %+v", herr)
		}

		if res.Err != nil {
			t.Fatalf("harness: processing failed: %+v", res.Err)
		}

		if i == 0 {
			first = res

			continue
		}

		if !first.Manifest.Hash().Equal(res.Manifest.Hash()) {
			r.Violation(t, "manifest-differs-"+c10Cause(first, res, []string{"hash", "states-tree"}),
				"same proposal, same prior state (%s, height %d), different manifests\n run 0 (%s): %s\n run %d (%s): %s\n operations: %s\n %s",
				sc, w.H, optss[0], first.manifestSig(), i, o, res.manifestSig(), strings.Join(baDescs(ops), " | "), c10StateDiff(first, res))
		}
	}

	var verdicts []string
	for i := range ops {
		verdicts = append(verdicts, fmt.Sprintf("%s -> instate=%v %s", ops[i].Desc, first.InState[ops[i].fact()], first.Reason[ops[i].fact()]))
	}

	r.Sample(map[string]any{"kind": "suspected expired-candidate duplicate", "prior": w.Desc(), "operations_and_results": verdicts,
		"candidates_after": c10RenderState(first.NewStates[isaac.SuffrageCandidateStateKey]), "runs": len(optss)})
	r.Case("suspect#"+sc.String(), true, "suspect:deterministic-case", "script:"+sc.Script)
}
