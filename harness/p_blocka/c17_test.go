package p_blocka

import (
	"fmt"
	"sort"
	"strings"
	"testing"
	"time"

	"github.com/spikeekips/mitum/base"
	"github.com/spikeekips/mitum/isaac"
	"pgregory.net/rapid"
	"verif/internal/ev"
)

// C17: a block of suffrage operations leaves a well-formed suffrage.
//
// Oracle = the rules of the statement, evaluated on what the harness itself put into the operations (who signed with
// which key) and on the prior state read from the database:
//   - a new suffrage state has unique addresses and height = previous height + 1;
//   - every node that is in the new suffrage but not in the old one is justified by a join operation of the block whose
//     candidate is in the candidates state with deadline >= block height, that carries a signature by the registered
//     candidate key, and signatures by >= ceil(n*threshold/100) distinct current members (address and key);
//   - every node that left is justified by a disjoin operation signed with that member's own key, or by an expel operation
//     in the INIT voteproof; a disjoin accepted "in state" names a current member;
//   - the resulting suffrage is the same for every order of the proposal's operation list.
func TestC17(t *testing.T) {
	r := ev.Start(t, "C17")
	defer r.Finish()
	defer baCloseWorlds()

	r.Rule("prior chains as in C10 (suffrage 1..7, threshold {51,60,66.7,67,75,100}, candidate lifespan 1..3, 12 scripts with active/expired/boundary/" +
		"replaced candidates, joined and departed members); block: 0..14 operations, mostly join/disjoin (targets: active, expired, non-candidate, member; " +
		"self signature with the registered or a foreign key; 0/required-1/required/all member signatures, members signing with a foreign key, " +
		"non-member signers; wrong start; several operations for one node), candidate, policy, filler and listed expels, plus 0..n-required expels in the " +
		"INIT voteproof (some with a future start); the block is processed in the drawn order and in 3 drawn permutations, worker sizes {1,2,3,8,64}. " +
		"non-trivial: at least one accepted and one rejected suffrage operation (join/disjoin/voteproof expel) in the block; distinct by (scenario, operation list, expels)")
	r.Floor(int64(r.N(20, 300)))
	r.Assume("every operation satisfies IsValid (pool admission): signatures verify, one signature per address, a join carries a signature under the candidate's address, a disjoin exactly one under the node's address",
		"INIT voteproofs carry only expels that pass isaac.IsValidVoteproofWithSuffrage (members, signed by the remaining members, at most n-required)",
		"'unexpired' = deadline >= height of the block; 'threshold of members' = k*100 >= threshold*n in exact arithmetic",
		"the statement is read one-sided for join/leave (what may happen), two-sided for order independence; a wrong start height is not part of the statement")

	perWorld := r.N(2, 3)

	r.Checks(45, 1100)
	r.ShrinkTime(60 * time.Second)

	caseNo := 0

	rapid.Check(t, func(rt *rapid.T) {
		sc := baGenScenario(rt)

		w, err := baGetWorld(sc)
		if err != nil {
			rt.Fatalf("harness: build prior chain %s: %+v", sc, err)
		}

		for k := 0; k < perWorld; k++ {
			caseNo++
			c17Block(rt, r, w, sc, fmt.Sprintf("c17-%d", caseNo))
		}
	})
}

const c17Orders = 4

func c17Block(rt *rapid.T, r *ev.Rec, w *baWorld, sc baScenario, salt string) {
	ops := baGenOps(rt, w, baGenCfg{MaxOps: 14, SuffrageMix: true}, salt)
	expels, expeldesc := baGenExpels(rt, w)

	if err := baCheckOpsValid(w, ops); err != nil {
		rt.Fatalf("harness: %+v", err)
	}

	idx := make([]int, len(ops))
	for i := range idx {
		idx[i] = i
	}

	orders := [][]int{idx}
	for i := 1; i < c17Orders; i++ {
		orders = append(orders, rapid.Permutation(idx).Draw(rt, "order"))
	}

	var results []baResult
	var sufsigs []string

	for oi, order := range orders {
		oops := make([]baOp, len(ops))
		for i, j := range order {
			oops[i] = ops[j]
		}

		pr, err := baProposal(w, oops)
		if err != nil {
			rt.Fatalf("harness: proposal: %+v", err)
		}

		o := baRunOpts{
			Workers:    rapid.SampledFrom([]int64{1, 2, 3, 8, 64}).Draw(rt, "workers"),
			Noise:      baNoise{Name: "none"},
			FetchError: -1,
		}

		if rapid.Bool().Draw(rt, "noise") {
			o.Noise = baGenNoise(rt, len(ops)+len(expels))
		}

		res, herr := baProcess(w, pr, oops, expels, o)
		if herr != nil {
			rt.Fatalf("harness: order %d (%s): %+v", oi, o, herr)
		}

		results = append(results, res)

		if res.Err != nil {
			// e.g. every listed operation was ignored (not found / already known): the real processor fails with "empty nodes"
			sufsigs = append(sufsigs, "processing-failed")

			continue
		}

		c17CheckResult(rt, r, w, oops, expels, res, fmt.Sprintf("order %d %v (%s)", oi, order, o))

		sufsigs = append(sufsigs, c17SuffrageSig(w, res))
	}

	for i := 1; i < len(results); i++ {
		if sufsigs[i] != sufsigs[0] {
			sig := "order-dependent-suffrage"
			if results[i].Err != nil || results[0].Err != nil {
				sig = "order-dependent-failure"
			}

			r.Violation(rt, sig, "prior %v: the same operations in two orders give different suffrages\n order %v -> %s\n order %v -> %s\n operations (order 0): %s\n voteproof expels: %v",
				w.Desc(), orders[0], sufsigs[0], orders[i], sufsigs[i], strings.Join(baDescs(ops), " | "), expeldesc)
		}
	}

	// ---- classification (order 0)
	res := results[0]

	if res.Err != nil {
		r.Case(sc.String()+"#"+strings.Join(baDescs(ops), "|")+"#"+strings.Join(expeldesc, ","), false, "script:"+sc.Script, "outcome:processing-failed")

		return
	}
	accepted, rejected := 0, 0
	classes := []string{"script:" + sc.Script}

	seen := map[string]bool{}
	add := func(c string) {
		if !seen[c] {
			seen[c] = true
			classes = append(classes, c)
		}
	}

	for i := range ops {
		if ops[i].Kind != "join" && ops[i].Kind != "disjoin" {
			continue
		}

		in, known := res.InState[ops[i].fact()]

		switch {
		case !known:
			add("op:ignored-" + ops[i].Fetch)
		case in:
			accepted++
			add("accepted:" + ops[i].Kind)
		default:
			rejected++

			if ops[i].Fetch != "ok" {
				add("rejected:" + ops[i].Kind + "-fetch-invalid")

				continue
			}

			if ops[i].Kind == "join" {
				ok, reason := c17JoinEligible(w, ops[i])
				if ok {
					reason = "eligible(duplicate-or-wrong-start)"
				}

				add("rejected:join-" + reason)
			} else {
				add("rejected:disjoin-" + c17DisjoinClass(w, ops[i]))
			}
		}
	}

	for i := range expels {
		if res.InState[expels[i].Fact().Hash().String()] {
			accepted++
			add("accepted:voteproof-expel")
		} else {
			rejected++
			add("rejected:voteproof-expel")
		}
	}

	if _, ok := res.NewStates[isaac.SuffrageStateKey]; ok {
		add("new-suffrage")

		if v := res.NewStates[isaac.SuffrageStateKey].Value().(base.SuffrageNodesStateValue); len(v.Nodes()) < 1 { //nolint:forcetypeassert //...
			add("note:empty-suffrage") // unique and height+1 hold vacuously; reported, not judged
		}
	} else {
		add("no-new-suffrage")
	}

	if len(expels) > 0 {
		add("has:voteproof-expels")
	}

	if c17SameNodeConflict(ops, expels) {
		add("has:several-operations-for-one-node")
	}

	nontrivial := accepted > 0 && rejected > 0

	fp := sc.String() + "#" + strings.Join(baDescs(ops), "|") + "#" + strings.Join(expeldesc, ",")
	defer r.Case(fp, nontrivial, classes...)

	if nontrivial && r.WantSample() {
		var verdicts []string
		for i := range ops {
			in, known := res.InState[ops[i].fact()]
			verdicts = append(verdicts, fmt.Sprintf("%s -> known=%v instate=%v %s", ops[i].Desc, known, in, res.Reason[ops[i].fact()]))
		}

		r.Sample(map[string]any{"prior": w.Desc(), "operations_and_results": verdicts, "voteproof_expels": expeldesc, "orders": orders,
			"suffrage_after": sufsigs[0]})
	}
}

func c17MemberSigns(w *baWorld, o baOp) int {
	got := map[string]bool{}

	for _, s := range o.Signers {
		if m, found := w.member(s.Addr); found && m.Node.Publickey().String() == s.Pub {
			got[s.Addr] = true
		}
	}

	return len(got)
}

// c17JoinEligible: the statement's conditions for a join, from the prior state and from who signed the operation.
func c17JoinEligible(w *baWorld, o baOp) (bool, string) {
	c, found := w.cand(o.Target)

	switch {
	case !found:
		return false, "not-a-candidate"
	case c.Deadline < w.H:
		return false, "expired-candidate"
	}

	self := false

	for _, s := range o.Signers {
		if s.Addr == o.Target && s.Pub == c.Node.Publickey().String() {
			self = true
		}
	}

	if !self {
		return false, "not-signed-by-candidate-key"
	}

	if k := c17MemberSigns(w, o); k < w.Required {
		return false, "below-threshold"
	}

	return true, ""
}

func c17DisjoinClass(w *baWorld, o baOp) string {
	m, found := w.member(o.Target)

	switch {
	case !found:
		return "nonmember"
	case m.Node.Publickey().String() != o.Signers[0].Pub:
		return "foreign-key"
	case m.Start != o.Start:
		return "wrong-start"
	default:
		return "eligible(duplicate-or-expelled)"
	}
}

func c17SameNodeConflict(ops []baOp, expels []base.SuffrageExpelOperation) bool {
	n := map[string]int{}

	for i := range ops {
		if ops[i].Fetch == "ok" && (ops[i].Kind == "join" || ops[i].Kind == "disjoin") {
			n[ops[i].Target]++
		}
	}

	for i := range expels {
		n[expels[i].ExpelFact().Node().String()]++
	}

	for _, c := range n {
		if c > 1 {
			return true
		}
	}

	return false
}

func c17SuffrageSig(w *baWorld, res baResult) string {
	st, ok := res.NewStates[isaac.SuffrageStateKey]
	if !ok {
		return "unchanged"
	}

	v := st.Value().(base.SuffrageNodesStateValue) //nolint:forcetypeassert //...

	var ns []string
	for _, n := range v.Nodes() {
		ns = append(ns, n.Address().String()+"/"+n.Publickey().String())
	}

	sort.Strings(ns)

	return fmt.Sprintf("height=%d members=[%s]", v.Height(), strings.Join(ns, " "))
}

func c17CheckResult(rt *rapid.T, r *ev.Rec, w *baWorld, ops []baOp, expels []base.SuffrageExpelOperation, res baResult, how string) {
	ctx := func() string {
		var vs []string
		for i := range ops {
			in, known := res.InState[ops[i].fact()]
			vs = append(vs, fmt.Sprintf("%s{signers=%s}->known=%v,instate=%v,%q", ops[i].Desc, c17Signers(ops[i]), known, in, res.Reason[ops[i].fact()]))
		}

		var es []string
		for i := range expels {
			es = append(es, fmt.Sprintf("%s->instate=%v", expels[i].ExpelFact().Node(), res.InState[expels[i].Fact().Hash().String()]))
		}

		return fmt.Sprintf("\n prior: %v\n %s\n operations: %s\n voteproof expels: %v\n suffrage after: %s",
			w.Desc(), how, strings.Join(vs, "\n   "), es, c17SuffrageSig(w, res))
	}

	// ---- operations accepted into the state
	for i := range ops {
		if !res.InState[ops[i].fact()] {
			continue
		}

		switch ops[i].Kind {
		case "join":
			if ok, reason := c17JoinEligible(w, ops[i]); !ok {
				r.Violation(rt, "join-accepted-"+reason, "join of %s accepted in state although %s%s", ops[i].Target, reason, ctx())
			}
		case "disjoin":
			m, found := w.member(ops[i].Target)

			switch {
			case !found:
				r.Violation(rt, "disjoin-accepted-nonmember", "disjoin of %s accepted in state although it is not a current member%s", ops[i].Target, ctx())
			case m.Node.Publickey().String() != ops[i].Signers[0].Pub:
				r.Violation(rt, "disjoin-accepted-foreign-key", "disjoin of member %s accepted in state although it is not signed with the member's key%s", ops[i].Target, ctx())
			}
		}
	}

	st, ok := res.NewStates[isaac.SuffrageStateKey]
	if !ok {
		if !hashEq(res.Manifest.Suffrage(), w.prevSuf) {
			rt.Fatalf("harness: manifest names a new suffrage state but none was written%s", ctx())
		}

		// accepted suffrage operations must have produced a new suffrage
		for i := range ops {
			if res.InState[ops[i].fact()] && (ops[i].Kind == "join" || ops[i].Kind == "disjoin") {
				r.Violation(rt, "accepted-without-new-suffrage", "%s is in state but the block has no new suffrage state%s", ops[i].Desc, ctx())
			}
		}

		return
	}

	if !st.Hash().Equal(res.Manifest.Suffrage()) {
		rt.Fatalf("harness: recorded suffrage state %s is not the one in the manifest %s%s", st.Hash(), res.Manifest.Suffrage(), ctx())
	}

	v := st.Value().(base.SuffrageNodesStateValue) //nolint:forcetypeassert //...

	// ---- height + 1
	if v.Height() != w.SufH+1 {
		r.Violation(rt, "suffrage-height", "suffrage height %d after the block, previous %d%s", v.Height(), w.SufH, ctx())
	}

	// ---- unique members
	after := map[string]base.Node{}

	for _, n := range v.Nodes() {
		if _, dup := after[n.Address().String()]; dup {
			r.Violation(rt, "duplicate-member", "%s is twice in the new suffrage%s", n.Address(), ctx())
		}

		after[n.Address().String()] = n
	}

	// ---- who joined
	for a, n := range after {
		if _, was := w.member(a); was {
			continue
		}

		best := "no-join-operation"
		justified := false

		for i := range ops {
			if ops[i].Kind != "join" || ops[i].Fetch != "ok" || ops[i].Target != a {
				continue
			}

			ok, reason := c17JoinEligible(w, ops[i])
			if ok {
				justified = true

				break
			}

			best = reason
		}

		if !justified {
			r.Violation(rt, "joined-"+best, "%s joined the suffrage without an eligible join operation (%s)%s", a, best, ctx())

			continue
		}

		if c, _ := w.cand(a); c.Node.Publickey().String() != n.Publickey().String() {
			r.Violation(rt, "joined-with-unregistered-key", "%s joined with key %s, the candidate registered %s%s", a, n.Publickey(), c.Node.Publickey(), ctx())
		}
	}

	// ---- who left
	for _, m := range w.Members {
		a := m.Node.Address().String()
		if _, still := after[a]; still {
			continue
		}

		justified := false

		for i := range ops {
			if ops[i].Kind == "disjoin" && ops[i].Fetch == "ok" && ops[i].Target == a && ops[i].Signers[0].Pub == m.Node.Publickey().String() {
				justified = true
			}
		}

		for i := range expels {
			if expels[i].ExpelFact().Node().String() == a {
				justified = true
			}
		}

		if !justified {
			r.Violation(rt, "removed-without-own-disjoin-or-expel", "member %s is gone, but the block has neither a disjoin signed with its key nor a voteproof expel for it%s", a, ctx())
		}
	}
}

func c17Signers(o baOp) string {
	var ss []string
	for _, s := range o.Signers {
		ss = append(ss, s.Addr+"/"+s.Pub[:6])
	}

	return strings.Join(ss, ",")
}

var _ = time.Second
