// Package p_blocka: checks C10 (block production is deterministic) and C17 (suffrage changes preserve suffrage
// well-formedness). Shared helpers are prefixed ba; per-property helpers c10/c17.
package p_blocka

import (
	"context"
	"fmt"
	"runtime"
	"sort"
	"strings"
	"sync"
	"sync/atomic"
	"time"

	"github.com/pkg/errors"
	"github.com/spikeekips/mitum/base"
	"github.com/spikeekips/mitum/isaac"
	isaacblock "github.com/spikeekips/mitum/isaac/block"
	"github.com/spikeekips/mitum/util"
	"github.com/spikeekips/mitum/util/hint"
	"pgregory.net/rapid"
	"verif/internal/chain"
	"verif/internal/gen"
)

// ---------------------------------------------------------------------------------------------------------------------
// identities

type baIdent struct {
	Addr string
	Pub  string
}

func baIdentOf(n base.Node) baIdent {
	return baIdent{Addr: n.Address().String(), Pub: n.Publickey().String()}
}

var (
	baAliasMu sync.Mutex
	baAliases = map[string]base.LocalNode{}
)

// baAlias: same address as n, different key (someone else claiming the address).
func baAlias(n base.Node) base.LocalNode {
	baAliasMu.Lock()
	defer baAliasMu.Unlock()

	k := n.Address().String()
	if a, ok := baAliases[k]; ok {
		return a
	}

	priv, err := base.NewMPrivatekeyFromSeed(fmt.Sprintf("verif-alias-key-for-address-%s-xxxxxxxxxxxxxxxxxxxxxxxxxxxxxxxxxxxx", k))
	if err != nil {
		panic(err)
	}

	a := isaac.NewLocalNode(priv, n.Address())
	baAliases[k] = a

	return a
}

const (
	baCandBase  = 10 // gen.Local(10..) become candidates in the prior chain
	baFreshBase = 30 // gen.Local(30..) never appear in the prior chain
	baNFresh    = 3
)

// ---------------------------------------------------------------------------------------------------------------------
// prior chains (the "same prior state")

type baScenario struct {
	N      int
	Th     base.Threshold
	Life   base.Height // suffrage candidate lifespan of the network policy
	Script string      // name from baScripts
}

func (s baScenario) String() string {
	return fmt.Sprintf("n%d/th%s/life%d/%s", s.N, s.Th.String(), s.Life, s.Script)
}

// scripts: block-by-block recipe after genesis. "c<k>": k new candidates register, "e": empty block, "E": life+1 empty
// blocks (everything registered before expires), "B": life-1 empty blocks after a candidate block (deadline == next
// height: boundary), "j": the first unexpired candidate joins, "d": the last joined member leaves, "r": the first
// expired candidate registers again, "f": a block with a filler operation.
var baScripts = map[string][]string{
	"none":           {},
	"fresh-chain":    {"f"},
	"active2":        {"c2"},
	"active4":        {"c4"},
	"expired2":       {"c2", "E"},
	"boundary2":      {"c2", "B"},
	"mixed":          {"c2", "E", "c2"},
	"joined":         {"c3", "j"},
	"joined2":        {"c4", "j", "j"},
	"left":           {"c2", "j", "d"},
	"replaced":       {"c2", "E", "r"},
	"joined-expired": {"c3", "j", "E"},
}

var baScriptNames = func() []string {
	var ns []string
	for k := range baScripts {
		ns = append(ns, k)
	}

	sort.Strings(ns)

	return ns
}()

type baMember struct {
	Node  base.LocalNode
	Start base.Height
}

type baCand struct {
	Node     base.LocalNode // identity holding the registered key
	Start    base.Height
	Deadline base.Height
}

type baWorld struct {
	Sc       baScenario
	W        *chain.World
	H        base.Height // height of the block under test
	SufH     base.Height // height of the current suffrage state value
	Members  []baMember  // order of the state value
	Cands    []baCand    // every entry of the candidates state (expired ones too), order of the state value
	Policy   base.NetworkPolicy
	Required int // exact ceil(n*th/100)
	prevSuf  util.Hash
}

func (w *baWorld) member(addr string) (baMember, bool) {
	for _, m := range w.Members {
		if m.Node.Address().String() == addr {
			return m, true
		}
	}

	return baMember{}, false
}

func (w *baWorld) cand(addr string) (baCand, bool) {
	// the last entry wins (the state never holds two, but do not assume it)
	for i := len(w.Cands) - 1; i >= 0; i-- {
		if w.Cands[i].Node.Address().String() == addr {
			return w.Cands[i], true
		}
	}

	return baCand{}, false
}

func (w *baWorld) activeCands() (a, x []baCand) {
	for _, c := range w.Cands {
		if c.Deadline >= w.H {
			a = append(a, c)
		} else {
			x = append(x, c)
		}
	}

	return a, x
}

func (w *baWorld) Desc() map[string]any {
	var ms, cs []string
	for _, m := range w.Members {
		ms = append(ms, fmt.Sprintf("%s@%d", m.Node.Address(), m.Start))
	}

	for _, c := range w.Cands {
		cs = append(cs, fmt.Sprintf("%s[%d..%d]", c.Node.Address(), c.Start, c.Deadline))
	}

	return map[string]any{"scenario": w.Sc.String(), "height": w.H.Int64(), "members": ms, "candidates": cs, "required_signs": w.Required}
}

// baRequired: smallest k with k/n*100 >= th, exact integer arithmetic (th has at most 2 decimals).
func baRequired(n int, th base.Threshold) int {
	t100 := int64(th.Float64()*100 + 0.5)
	for k := 0; k <= n; k++ {
		if int64(k)*10000 >= t100*int64(n) {
			return k
		}
	}

	return n + 1
}

var (
	baWorldMu    sync.Mutex
	baWorldCache = map[string]*baWorld{}
)

func baCloseWorlds() {
	baWorldMu.Lock()
	defer baWorldMu.Unlock()

	for k, w := range baWorldCache {
		w.W.Close()
		delete(baWorldCache, k)
	}
}

// baGetWorld builds (or returns the cached) prior chain for sc. The content depends only on sc. The threshold is a
// node-local parameter (isaac params), not chain state: one built chain serves every threshold (prior blocks are signed
// by the whole suffrage), the world's threshold is set per case.
func baGetWorld(sc baScenario) (*baWorld, error) {
	baWorldMu.Lock()
	defer baWorldMu.Unlock()

	key := fmt.Sprintf("n%d/life%d/%s", sc.N, sc.Life, sc.Script)

	w, ok := baWorldCache[key]
	if !ok {
		i, err := baBuildWorld(sc)
		if err != nil {
			return nil, err
		}

		w = i
		baWorldCache[key] = w
	}

	w.Sc = sc
	w.W.Threshold = sc.Th
	w.Required = baRequired(len(w.Members), sc.Th)

	return w, nil
}

func baBuildWorld(sc baScenario) (*baWorld, error) {
	policy := isaac.DefaultNetworkPolicy()
	policy.SetSuffrageCandidateLifespan(sc.Life)

	w, err := chain.New(chain.Opts{NSuffrage: sc.N, Threshold: sc.Th, Policy: &policy})
	if err != nil {
		return nil, errors.WithMessage(err, "new world")
	}

	ok := false

	defer func() {
		if !ok {
			w.Close()
		}
	}()

	bw := &baWorld{Sc: sc, W: w}
	nextcand := 0
	var joined []base.Address
	lbl := 0
	label := func(k string) string { lbl++; return fmt.Sprintf("prior-%s-%s-%d", sc.String(), k, lbl) }

	block := func(ops []base.Operation) error {
		_, err := w.NextBlock(ops, nil, chain.ProcOpts{MaxWorkerSize: 4})

		return err
	}

	var steps []string

	for _, s := range baScripts[sc.Script] {
		switch s {
		case "E":
			for i := 0; i < int(sc.Life)+1; i++ {
				steps = append(steps, "e")
			}
		case "B":
			for i := 0; i < int(sc.Life)-1; i++ {
				steps = append(steps, "e")
			}
		default:
			steps = append(steps, s)
		}
	}

	for _, s := range steps {
		if err := bw.load(); err != nil {
			return nil, err
		}

		switch {
		case s == "e":
			if err := block(nil); err != nil {
				return nil, errors.WithMessage(err, "empty block")
			}
		case s == "f":
			if err := block([]base.Operation{chain.NewFillerOperation(label("f"), []string{"prior-a", "prior-b"}, []string{"1", "2"}, gen.Local(baFreshBase))}); err != nil {
				return nil, errors.WithMessage(err, "filler block")
			}
		case strings.HasPrefix(s, "c"):
			k := int(s[1] - '0')
			var ops []base.Operation

			for i := 0; i < k; i++ {
				n := gen.Local(baCandBase + nextcand)
				nextcand++
				ops = append(ops, chain.CandidateOp(label("c"), n, n))
			}

			if err := block(ops); err != nil {
				return nil, errors.WithMessage(err, "candidate block")
			}
		case s == "r":
			_, x := bw.activeCands()
			if len(x) < 1 {
				return nil, errors.Errorf("script %q: no expired candidate to register again", sc.Script)
			}

			if err := block([]base.Operation{chain.CandidateOp(label("r"), x[0].Node, x[0].Node)}); err != nil {
				return nil, errors.WithMessage(err, "re-candidate block")
			}
		case s == "j":
			a, _ := bw.activeCands()
			if len(a) < 1 {
				return nil, errors.Errorf("script %q: no unexpired candidate to join", sc.Script)
			}

			signers := []base.LocalNode{a[0].Node}
			for _, m := range bw.Members {
				signers = append(signers, m.Node)
			}

			if err := block([]base.Operation{chain.JoinOp(label("j"), a[0].Node.Address(), a[0].Start, signers)}); err != nil {
				return nil, errors.WithMessage(err, "join block")
			}

			joined = append(joined, a[0].Node.Address())
		case s == "d":
			if len(joined) < 1 {
				return nil, errors.Errorf("script %q: nobody joined", sc.Script)
			}

			a := joined[len(joined)-1]
			joined = joined[:len(joined)-1]

			m, found := bw.member(a.String())
			if !found {
				return nil, errors.Errorf("script %q: %s did not join", sc.Script, a)
			}

			if err := block([]base.Operation{chain.DisjoinOp(label("d"), a, m.Start, m.Node)}); err != nil {
				return nil, errors.WithMessage(err, "disjoin block")
			}
		default:
			return nil, errors.Errorf("unknown step %q", s)
		}
	}

	if err := bw.load(); err != nil {
		return nil, err
	}

	// the prior chain must be what the script says (harness self-check, not part of any verdict)
	wantMembers := sc.N + len(joined)
	if len(bw.Members) != wantMembers {
		return nil, errors.Errorf("scenario %s: %d members, expected %d", sc, len(bw.Members), wantMembers)
	}

	ok = true

	return bw, nil
}

// load reads the prior state (the input of the block under test) from the database.
func (w *baWorld) load() error {
	w.H = w.W.NextHeight()
	w.Members = nil
	w.Cands = nil
	w.prevSuf = w.W.Last().Manifest().Suffrage()

	switch st, found, err := w.W.DB.State(isaac.SuffrageStateKey); {
	case err != nil:
		return err
	case !found:
		return errors.Errorf("no suffrage state")
	default:
		v := st.Value().(base.SuffrageNodesStateValue) //nolint:forcetypeassert //...
		w.SufH = v.Height()

		for _, n := range v.Nodes() {
			l := gen.LocalByAddress(n.Address())
			if l == nil || !l.Publickey().Equal(n.Publickey()) {
				return errors.Errorf("prior suffrage holds a node the harness did not make: %s", n.Address())
			}

			w.Members = append(w.Members, baMember{Node: l, Start: n.Start()})
		}
	}

	switch st, found, err := w.W.DB.State(isaac.SuffrageCandidateStateKey); {
	case err != nil:
		return err
	case !found:
	default:
		v := st.Value().(base.SuffrageCandidatesStateValue) //nolint:forcetypeassert //...

		for _, n := range v.Nodes() {
			l := gen.LocalByAddress(n.Address())
			if l == nil || !l.Publickey().Equal(n.Publickey()) {
				return errors.Errorf("prior candidates hold a node the harness did not make: %s", n.Address())
			}

			w.Cands = append(w.Cands, baCand{Node: l, Start: n.Start(), Deadline: n.Deadline()})
		}
	}

	w.Policy = w.W.DB.LastNetworkPolicy()
	if w.Policy == nil {
		return errors.Errorf("no network policy")
	}

	w.Required = baRequired(len(w.Members), w.W.Threshold)

	return nil
}

// baUniform draws 0..n-1 without rapid's preference for small values (which would starve the later scripts and the
// larger suffrages): the biased draw is scattered by a multiplicative hash. 0 still shrinks to 0.
func baUniform(t *rapid.T, label string, n int) int {
	x := uint64(rapid.IntRange(0, 1<<20).Draw(t, label))

	return int(((x * 0x9E3779B97F4A7C15) >> 33) % uint64(n))
}

func baGenScenario(t *rapid.T) baScenario {
	return baScenario{
		N:      1 + baUniform(t, "n-1", 7),
		Th:     rapid.SampledFrom([]base.Threshold{67, 67, 51, 60, 75, 100, 66.7}).Draw(t, "threshold"),
		Life:   base.Height(rapid.IntRange(1, 3).Draw(t, "lifespan")),
		Script: baScriptNames[baUniform(t, "script", len(baScriptNames))],
	}
}

// ---------------------------------------------------------------------------------------------------------------------
// operations of the block under test

type baOp struct {
	Kind    string // candidate | join | disjoin | policy | filler | expel-listed
	Desc    string
	Op      base.Operation
	Fetch   string // how GetOperationFunc answers: ok | notfound | invalid | processed | nilop | utilinvalid
	Target  string // address the operation is about (candidate/join/disjoin)
	Key     string // candidate: registered key
	Start   base.Height
	Signers []baIdent // who signed (address, key), in signing order
}

func (o baOp) fact() string { return o.Op.Fact().Hash().String() }

type baGenCfg struct {
	MaxOps      int
	SuffrageMix bool // C17: mostly suffrage operations
}

func baPick[T any](t *rapid.T, label string, xs []T) (T, bool) {
	var zero T
	if len(xs) < 1 {
		return zero, false
	}

	return xs[rapid.IntRange(0, len(xs)-1).Draw(t, label)], true
}

func baSubset[T any](t *rapid.T, label string, xs []T, k int) []T {
	if k > len(xs) {
		k = len(xs)
	}

	idx := make([]int, len(xs))
	for i := range idx {
		idx[i] = i
	}

	perm := rapid.Permutation(idx).Draw(t, label)

	out := make([]T, k)
	for i := range out {
		out[i] = xs[perm[i]]
	}

	return out
}

func baFresh() []base.LocalNode {
	ls := make([]base.LocalNode, baNFresh)
	for i := range ls {
		ls[i] = gen.Local(baFreshBase + 1 + i)
	}

	return ls
}

// baSignCount draws how many members sign: mostly around the exact requirement.
func baSignCount(t *rapid.T, n, required int) int {
	switch rapid.IntRange(0, 9).Draw(t, "signclass") {
	case 9:
		return 0
	case 0, 1:
		return max(0, required-1)
	case 2, 3, 4, 5:
		return min(n, required)
	case 6, 7:
		return n
	default:
		return rapid.IntRange(0, n).Draw(t, "signk")
	}
}

func baGenOps(t *rapid.T, w *baWorld, cfg baGenCfg, salt string) []baOp {
	nops := rapid.IntRange(0, cfg.MaxOps).Draw(t, "nops")
	if rapid.IntRange(0, 3).Draw(t, "small") == 3 {
		nops = min(nops, 4)
	}

	active, expired := w.activeCands()
	fresh := baFresh()

	var kinds []string
	if cfg.SuffrageMix {
		kinds = []string{"join", "join", "join", "join", "disjoin", "disjoin", "disjoin", "candidate", "policy", "filler", "expel-listed"}
	} else {
		kinds = []string{"join", "join", "join", "disjoin", "disjoin", "candidate", "candidate", "candidate", "policy", "filler", "filler", "expel-listed"}
	}

	if len(active) < 1 {
		// joins cannot succeed: keep a few, favour the rest
		kinds = append(kinds, "candidate", "candidate", "disjoin", "disjoin")
	}

	ops := make([]baOp, 0, nops)

	for i := 0; i < nops; i++ {
		kind := rapid.SampledFrom(kinds).Draw(t, "kind")
		token := fmt.Sprintf("%s-op%d", salt, i)

		var o baOp

		switch kind {
		case "join":
			o = baGenJoin(t, w, token, active, expired, fresh)
		case "disjoin":
			o = baGenDisjoin(t, w, token, active, fresh)
		case "candidate":
			o = baGenCandidate(t, w, token, active, expired, fresh)
		case "policy":
			o = baGenPolicy(t, w, token)
		case "filler":
			k := rapid.IntRange(1, 24).Draw(t, "fillkeys")
			keys := make([]string, k)
			vals := make([]string, k)

			for j := range keys {
				keys[j] = fmt.Sprintf("fill-%02d-%02d", i, j) // disjoint from every other operation of the block
				vals[j] = fmt.Sprintf("v%d", rapid.IntRange(0, 3).Draw(t, "fillval"))
			}

			o = baOp{Kind: "filler", Desc: fmt.Sprintf("filler(%d keys)", k), Op: chain.NewFillerOperation(token, keys, vals, gen.Local(baFreshBase))}
		case "expel-listed":
			// an expel operation listed in the proposal: the processor ignores it (expels travel in the voteproof)
			m, _ := baPick(t, "expeltarget", w.Members)
			var signers []base.LocalNode

			for _, x := range w.Members {
				if !x.Node.Address().Equal(m.Node.Address()) {
					signers = append(signers, x.Node)
				}
			}

			if len(signers) < 1 {
				signers = []base.LocalNode{fresh[0]}
			}

			o = baOp{Kind: "expel-listed", Desc: "expel-listed(" + m.Node.Address().String() + ")", Op: gen.Expel(m.Node.Address(), max(base.GenesisHeight+1, w.H-1), w.H+1+base.Height(i), signers), Target: m.Node.Address().String()}
		}

		switch rapid.IntRange(0, 39).Draw(t, "fetch") { // rapid favours small values: the rare answers sit high
		case 36:
			o.Fetch = "notfound"
		case 37:
			o.Fetch = "invalid"
		case 38:
			o.Fetch = "processed"
		case 39:
			if rapid.Bool().Draw(t, "nilop") {
				o.Fetch = "nilop"
			} else {
				o.Fetch = "utilinvalid"
			}
		default:
			o.Fetch = "ok"
		}

		if o.Fetch != "ok" {
			o.Desc += "!" + o.Fetch
		}

		ops = append(ops, o)
	}

	return ops
}

func baGenJoin(t *rapid.T, w *baWorld, token string, active, expired []baCand, fresh []base.LocalNode) baOp {
	var target base.LocalNode
	var start base.Height
	class := ""

	for target == nil {
		switch rapid.IntRange(0, 9).Draw(t, "jointarget") {
		case 0, 1, 2, 3, 4, 5:
			if c, ok := baPick(t, "active", active); ok {
				target, start, class = c.Node, c.Start, "active"
			} else if c, ok := baPick(t, "expired", expired); ok {
				target, start, class = c.Node, c.Start, "expired"
			} else {
				target, start, class = fresh[rapid.IntRange(0, len(fresh)-1).Draw(t, "fresh")], w.H, "noncandidate"
			}
		case 6, 7:
			if c, ok := baPick(t, "expired", expired); ok {
				target, start, class = c.Node, c.Start, "expired"
			}
		case 8:
			target, start, class = fresh[rapid.IntRange(0, len(fresh)-1).Draw(t, "fresh")], w.H, "noncandidate"
		default:
			m, _ := baPick(t, "member", w.Members)
			target, start, class = m.Node, m.Start, "member"
		}
	}

	if rapid.IntRange(0, 11).Draw(t, "wrongstart") == 10 {
		start++
		class += ",wrongstart"
	}

	self := target
	if rapid.IntRange(0, 9).Draw(t, "selfalias") == 8 {
		self = baAlias(target)
		class += ",aliaskey"
	}

	var others []baMember

	for _, m := range w.Members {
		if !m.Node.Address().Equal(target.Address()) {
			others = append(others, m)
		}
	}

	k := baSignCount(t, len(others), w.Required)
	good := baSubset(t, "signers", others, k)

	signers := make([]base.LocalNode, 0, k+4)
	for _, m := range good {
		signers = append(signers, m.Node)
	}

	// members signing with a key that is not theirs
	nbad := 0
	if rapid.IntRange(0, 5).Draw(t, "badkey") == 4 {
		for _, m := range others {
			isgood := false

			for _, g := range good {
				if g.Node.Address().Equal(m.Node.Address()) {
					isgood = true
				}
			}

			if !isgood && nbad < 2 {
				signers = append(signers, baAlias(m.Node))
				nbad++
			}
		}
	}

	nforeign := 0
	if rapid.IntRange(0, 4).Draw(t, "foreign") == 3 {
		for _, f := range fresh {
			if !f.Address().Equal(target.Address()) && nforeign < 2 {
				signers = append(signers, f)
				nforeign++
			}
		}
	}

	// the candidate signs first, last, or in the middle
	pos := rapid.IntRange(0, len(signers)).Draw(t, "selfpos")
	signers = append(signers[:pos], append([]base.LocalNode{self}, signers[pos:]...)...)

	o := baOp{
		Kind:   "join",
		Op:     chain.JoinOp(token, target.Address(), start, signers),
		Target: target.Address().String(),
		Start:  start,
		Desc:   fmt.Sprintf("join(%s:%s,members=%d/%d,badkey=%d,foreign=%d,selfpos=%d)", target.Address(), class, k, len(w.Members), nbad, nforeign, pos),
	}

	for _, s := range signers {
		o.Signers = append(o.Signers, baIdentOf(s))
	}

	return o
}

func baGenDisjoin(t *rapid.T, w *baWorld, token string, active []baCand, fresh []base.LocalNode) baOp {
	var target base.LocalNode
	var start base.Height
	class := ""

	switch rapid.IntRange(0, 7).Draw(t, "disjointarget") {
	case 0:
		target, start, class = fresh[rapid.IntRange(0, len(fresh)-1).Draw(t, "fresh")], base.GenesisHeight, "nonmember"
	case 1:
		if c, ok := baPick(t, "active", active); ok {
			target, start, class = c.Node, c.Start, "candidate"
		}
	}

	if target == nil {
		m, _ := baPick(t, "member", w.Members)
		target, start, class = m.Node, m.Start, "member"
	}

	if rapid.IntRange(0, 11).Draw(t, "wrongstart") == 10 {
		start++
		class += ",wrongstart"
	}

	signer := target
	if rapid.IntRange(0, 4).Draw(t, "signalias") == 3 {
		signer = baAlias(target)
		class += ",aliaskey"
	}

	return baOp{
		Kind:    "disjoin",
		Op:      chain.DisjoinOp(token, target.Address(), start, signer),
		Target:  target.Address().String(),
		Start:   start,
		Signers: []baIdent{baIdentOf(signer)},
		Desc:    fmt.Sprintf("disjoin(%s:%s)", target.Address(), class),
	}
}

func baGenCandidate(t *rapid.T, w *baWorld, token string, active, expired []baCand, fresh []base.LocalNode) baOp {
	var target base.LocalNode
	class := ""

	switch rapid.IntRange(0, 9).Draw(t, "candtarget") {
	case 0, 1, 2:
		if c, ok := baPick(t, "expired", expired); ok {
			target, class = c.Node, "expired"
		}
	case 3, 4:
		if c, ok := baPick(t, "active", active); ok {
			target, class = c.Node, "active"
		}
	case 5:
		m, _ := baPick(t, "member", w.Members)
		target, class = m.Node, "member"
	}

	if target == nil {
		target, class = fresh[rapid.IntRange(0, len(fresh)-1).Draw(t, "fresh")], "fresh"
	}

	if rapid.IntRange(0, 3).Draw(t, "candalias") == 2 {
		target = baAlias(target)
		class += ",aliaskey"
	}

	return baOp{
		Kind:    "candidate",
		Op:      chain.CandidateOp(token, target, target),
		Target:  target.Address().String(),
		Key:     target.Publickey().String(),
		Signers: []baIdent{baIdentOf(target)},
		Desc:    fmt.Sprintf("candidate(%s:%s)", target.Address(), class),
	}
}

func baGenPolicy(t *rapid.T, w *baWorld, token string) baOp {
	np := isaac.DefaultNetworkPolicy()
	np.SetSuffrageCandidateLifespan(w.Sc.Life)

	class := "same"

	switch rapid.IntRange(0, 3).Draw(t, "policy") {
	case 0:
	case 1:
		np.SetMaxOperationsInProposal(77)
		class = "maxops77"
	case 2:
		np.SetMaxOperationsInProposal(99)
		class = "maxops99"
	default:
		np.SetSuffrageCandidateLifespan(w.Sc.Life + 5)
		class = "life+5"
	}

	k := baSignCount(t, len(w.Members), w.Required)
	good := baSubset(t, "signers", w.Members, k)

	var signers []base.LocalNode
	for _, m := range good {
		signers = append(signers, m.Node)
	}

	if len(signers) < 1 {
		signers = []base.LocalNode{gen.Local(baFreshBase + 1)}
	}

	o := baOp{Kind: "policy", Op: chain.PolicyOp(token, np, signers), Desc: fmt.Sprintf("policy(%s,members=%d/%d)", class, k, len(w.Members))}
	for _, s := range signers {
		o.Signers = append(o.Signers, baIdentOf(s))
	}

	return o
}

// baGenExpels draws expel operations for the INIT voteproof: only sets a fully validated voteproof can carry
// (targets are members, signed by every remaining member, at most n-required of them, not expired).
func baGenExpels(t *rapid.T, w *baWorld) (expels []base.SuffrageExpelOperation, desc []string) {
	n := len(w.Members)

	f := n - w.Required
	if f < 1 || rapid.IntRange(0, 2).Draw(t, "withexpels") != 0 {
		return nil, nil
	}

	k := rapid.IntRange(1, f).Draw(t, "nexpels")

	// gen.Local(0) proposes and signs the block: it stays
	targets := baSubset(t, "expeltargets", w.Members[1:], k)

	var live []base.LocalNode

	for _, m := range w.Members {
		out := false

		for _, x := range targets {
			if x.Node.Address().Equal(m.Node.Address()) {
				out = true
			}
		}

		if !out {
			live = append(live, m.Node)
		}
	}

	for i, x := range targets {
		start := max(base.GenesisHeight+1, w.H-base.Height(rapid.IntRange(0, 1).Draw(t, "expelstart")))
		class := ""

		if rapid.IntRange(0, 9).Draw(t, "expelfuture") == 8 {
			start = w.H + 1 // still accepted by voteproof validation; the processor refuses it
			class = ":future"
		}

		expels = append(expels, gen.Expel(x.Node.Address(), start, w.H+2+base.Height(i), live))
		desc = append(desc, x.Node.Address().String()+class)
	}

	return expels, desc
}

func baDescs(ops []baOp) []string {
	ds := make([]string, len(ops))
	for i := range ops {
		ds[i] = ops[i].Desc
	}

	return ds
}

// ---------------------------------------------------------------------------------------------------------------------
// running the real proposal processor once, without saving

type baNoise struct {
	Name string
	// delay classes per operation index: 0 none, 1 yield, >=2 sleep that many x 40us
	Fetch  []int
	Merge  []int
	Result []int
	State  int
}

func baDelay(c int) {
	switch {
	case c <= 0:
	case c == 1:
		runtime.Gosched()
	default:
		time.Sleep(time.Duration(c) * 40 * time.Microsecond)
	}
}

func baAt(cs []int, i uint64) int {
	if int(i) < len(cs) {
		return cs[i]
	}

	return 0
}

func baGenNoise(t *rapid.T, nops int) baNoise {
	mk := func(f func(i int) int) []int {
		cs := make([]int, nops)
		for i := range cs {
			cs[i] = f(i)
		}

		return cs
	}

	zero := func(int) int { return 0 }

	switch rapid.IntRange(0, 5).Draw(t, "noise") {
	case 0:
		return baNoise{Name: "none"}
	case 1:
		// later operations merge first
		return baNoise{Name: "reverse", Fetch: mk(zero), Merge: mk(func(i int) int { return 2 + (nops-i)*3 }), Result: mk(zero)}
	case 2:
		return baNoise{Name: "yield", Fetch: mk(func(int) int { return 1 }), Merge: mk(func(int) int { return 1 }), Result: mk(func(int) int { return 1 }), State: 1}
	case 3:
		// even operations late
		return baNoise{Name: "evenlate", Fetch: mk(zero), Merge: mk(func(i int) int { return (1 - i%2) * 12 }), Result: mk(func(i int) int { return (i % 2) * 5 })}
	default:
		d := rapid.SliceOfN(rapid.SampledFrom([]int{0, 0, 1, 2, 5, 12, 25}), 3*nops+1, 3*nops+1).Draw(t, "delays")

		return baNoise{Name: "drawn", Fetch: d[:nops], Merge: d[nops : 2*nops], Result: d[2*nops : 3*nops], State: d[3*nops]}
	}
}

type baRunOpts struct {
	Workers       int64
	WriterWorkers int64
	Procs         int // GOMAXPROCS, 0 = leave
	Noise         baNoise
	FetchError    int // >=0: GetOperationFunc fails hard for that index
}

func (o baRunOpts) String() string {
	return fmt.Sprintf("workers=%d/%d procs=%d noise=%s", o.Workers, o.WriterWorkers, o.Procs, o.Noise.Name)
}

func baGenRunOpts(t *rapid.T, nops int) baRunOpts {
	ws := []int64{1, 2, 3, 8, 64}

	return baRunOpts{
		Workers:       rapid.SampledFrom(ws).Draw(t, "workers"),
		WriterWorkers: rapid.SampledFrom(ws).Draw(t, "writerworkers"),
		Procs:         rapid.SampledFrom([]int{1, 4, 16}).Draw(t, "procs"),
		Noise:         baGenNoise(t, nops),
		FetchError:    -1,
	}
}

type baResult struct {
	Err       error
	ErrClass  string
	Manifest  base.Manifest
	InState   map[string]bool   // fact hash -> in state, as handed to the block writer
	Reason    map[string]string // fact hash -> reason
	NewStates map[string]base.State
	MergeOps  map[string]int // state key -> number of operations that merged a value into it
}

func (r baResult) manifestSig() string {
	if r.Err != nil {
		return "error:" + r.ErrClass
	}

	return fmt.Sprintf("hash=%v ops=%v states=%v suffrage=%v", r.Manifest.Hash(), r.Manifest.OperationsTree(), r.Manifest.StatesTree(), r.Manifest.Suffrage())
}

// recording wrappers: they delegate everything to the production objects

type baRecWriter struct {
	isaac.BlockWriter
	noise    baNoise
	mu       sync.Mutex
	instate  map[string]bool
	reason   map[string]string
	mergeops map[string]int
	nresults int64 // SetProcessResult calls carrying an operation hash
	nstates  int64 // successful SetStates calls
}

func (w *baRecWriter) SetProcessResult(ctx context.Context, index uint64, oph, facthash util.Hash, instate bool, reason base.OperationProcessReasonError) error {
	baDelay(baAt(w.noise.Result, index))

	w.mu.Lock()
	w.instate[facthash.String()] = instate
	if reason != nil {
		w.reason[facthash.String()] = reason.Msg()
	}
	w.mu.Unlock()

	err := w.BlockWriter.SetProcessResult(ctx, index, oph, facthash, instate, reason)
	if err == nil && oph != nil {
		atomic.AddInt64(&w.nresults, 1)
	}

	return err
}

func (w *baRecWriter) SetStates(ctx context.Context, index uint64, values []base.StateMergeValue, op base.Operation) error {
	baDelay(baAt(w.noise.Merge, index))

	w.mu.Lock()
	seen := map[string]bool{}
	for i := range values {
		if !seen[values[i].Key()] {
			seen[values[i].Key()] = true
			w.mergeops[values[i].Key()]++
		}
	}
	w.mu.Unlock()

	err := w.BlockWriter.SetStates(ctx, index, values, op)
	if err == nil {
		atomic.AddInt64(&w.nstates, 1)
	}

	return err
}

type baRecDB struct {
	isaac.BlockWriteDatabase
	mu     sync.Mutex
	states map[string]base.State
	nops   int64
	nsts   int64
}

func (db *baRecDB) SetStates(sts []base.State) error {
	err := db.BlockWriteDatabase.SetStates(sts)

	db.mu.Lock()
	for i := range sts {
		db.states[sts[i].Key()] = sts[i]
	}
	db.mu.Unlock()

	atomic.AddInt64(&db.nsts, int64(len(sts)))

	return err
}

func (db *baRecDB) SetOperations(ops []util.Hash) error {
	err := db.BlockWriteDatabase.SetOperations(ops)
	atomic.AddInt64(&db.nops, int64(len(ops)))

	return err
}

type baRecFS struct {
	isaacblock.FSWriter
	nops      int64
	total     int64 // number of new states, as announced to the file writer
	nmanifest int64
}

func (f *baRecFS) SetOperation(ctx context.Context, total, index uint64, op base.Operation) error {
	err := f.FSWriter.SetOperation(ctx, total, index, op)
	atomic.AddInt64(&f.nops, 1)

	return err
}

func (f *baRecFS) SetState(ctx context.Context, total, index uint64, st base.State) error {
	atomic.StoreInt64(&f.total, int64(total))

	return f.FSWriter.SetState(ctx, total, index, st)
}

func (f *baRecFS) SetManifest(ctx context.Context, m base.Manifest) error {
	err := f.FSWriter.SetManifest(ctx, m)
	atomic.AddInt64(&f.nmanifest, 1)

	return err
}

var errBaFetch = errors.New("verif: remote fetch failed")

// baProcess runs isaac.DefaultProposalProcessor.Process for proposal pr over world w (wired like chain.Process /
// launch: real operation processors, isaacblock.Writer over LocalFSWriter and the center's block-write database) and
// cancels the writer afterwards: the world is unchanged. harnessErr reports harness trouble (never a verdict).
func baProcess(w *baWorld, pr base.ProposalSignFact, ops []baOp, expels []base.SuffrageExpelOperation, o baRunOpts) (res baResult, harnessErr error) {
	cw := w.W
	prev := cw.Last().Manifest()
	point := pr.Point()

	if o.Procs > 0 {
		defer runtime.GOMAXPROCS(runtime.GOMAXPROCS(o.Procs))
	}

	if o.WriterWorkers < 1 {
		o.WriterWorkers = o.Workers
	}

	opm := map[string]int{}
	for i := range ops {
		opm[ops[i].Op.Hash().String()] = i
	}

	oprs := cw.OperationProcessors()

	var rw *baRecWriter
	var rdb *baRecDB
	var rfs *baRecFS
	var realWriter *isaacblock.Writer

	args := isaac.NewDefaultProposalProcessorArgs()
	args.MaxWorkerSize = o.Workers
	args.NewWriterFunc = func(proposal base.ProposalSignFact, getStateFunc base.GetStateFunc) (isaac.BlockWriter, error) {
		// = launch.NewBlockWriterFunc, with recorders around the database and the file writer
		dbw, err := cw.DB.NewBlockWriteDatabase(proposal.Point().Height())
		if err != nil {
			return nil, err
		}

		fsw, err := isaacblock.NewLocalFSWriter(cw.Root, proposal.Point().Height(), cw.Enc, cw.Enc, cw.Local, cw.NetworkID)
		if err != nil {
			return nil, err
		}

		rdb = &baRecDB{BlockWriteDatabase: dbw, states: map[string]base.State{}}
		rfs = &baRecFS{FSWriter: fsw}
		realWriter = isaacblock.NewWriter(proposal, getStateFunc, rdb, cw.DB.MergeBlockWriteDatabase, rfs, o.WriterWorkers)
		rw = &baRecWriter{BlockWriter: realWriter, noise: o.Noise, instate: map[string]bool{}, reason: map[string]string{}, mergeops: map[string]int{}}

		return rw, nil
	}
	args.GetStateFunc = func(key string) (base.State, bool, error) {
		baDelay(o.Noise.State)

		return cw.DB.State(key)
	}
	args.GetOperationFunc = func(_ context.Context, oph, fact util.Hash) (base.Operation, error) {
		i, found := opm[oph.String()]
		if !found {
			return nil, isaac.ErrOperationNotFoundInProcessor.Errorf("operation not found")
		}

		baDelay(baAt(o.Noise.Fetch, uint64(i)))

		if i == o.FetchError {
			return nil, errBaFetch
		}

		switch ops[i].Fetch {
		case "notfound":
			return nil, isaac.ErrOperationNotFoundInProcessor.Errorf("operation not found")
		case "invalid":
			return nil, isaac.ErrInvalidOperationInProcessor.Errorf("verif says invalid")
		case "processed":
			return nil, isaac.ErrOperationAlreadyProcessedInProcessor.Errorf("known")
		case "nilop":
			return nil, nil
		case "utilinvalid":
			return nil, util.ErrInvalid.Errorf("verif says not valid")
		}

		return ops[i].Op, nil
	}
	args.NewOperationProcessorFunc = func(height base.Height, ht hint.Hint, getStatef base.GetStateFunc) (base.OperationProcessor, error) {
		v, found := oprs.Find(ht)
		if !found {
			return nil, nil
		}

		return v(height, getStatef)
	}

	pp, err := isaac.NewDefaultProposalProcessor(pr, prev, args)
	if err != nil {
		return res, err
	}

	var voters []base.LocalNode

	for _, m := range w.Members {
		out := false

		for _, e := range expels {
			if e.ExpelFact().Node().Equal(m.Node.Address()) {
				out = true
			}
		}

		if !out {
			voters = append(voters, m.Node)
		}
	}

	ifact := isaac.NewINITBallotFact(point, prev.Hash(), pr.Fact().Hash(), gen.ExpelFactHashes(expels))
	ivp := gen.FullINITVoteproof(ifact, voters, cw.Threshold, expels)

	if len(expels) > 0 {
		// input-domain guard: the processor only ever sees voteproofs that passed full validation
		if err := ivp.IsValid(cw.NetworkID); err != nil {
			return res, errors.WithMessage(err, "generated INIT voteproof is not valid")
		}

		nodes := make([]base.Node, len(w.Members))
		for i := range w.Members {
			nodes[i] = w.Members[i].Node
		}

		suf, err := isaac.NewSuffrage(nodes)
		if err != nil {
			return res, err
		}

		if err := isaac.IsValidVoteproofWithSuffrage(ivp, suf); err != nil {
			return res, errors.WithMessage(err, "generated INIT voteproof is not valid with the suffrage")
		}
	}

	m, perr := pp.Process(context.Background(), ivp)
	_ = pp.Cancel()

	if perr != nil {
		res.Err = perr
		res.ErrClass = baErrClass(perr)

		// the writer (if any) is left alone: jobs may still be running inside it
		return res, nil
	}

	res.Manifest = m

	// wait until every job the writer queued has run, then cancel it (removes its temp files and temp database)
	wantStates := func() int64 {
		if m.StatesTree() == nil {
			return 0
		}

		if n := atomic.LoadInt64(&rfs.total); n > 0 {
			return n
		}

		return 1 << 40 // not announced yet
	}

	deadline := time.Now().Add(60 * time.Second)

	for {
		done := atomic.LoadInt64(&rdb.nops) >= atomic.LoadInt64(&rw.nresults) &&
			atomic.LoadInt64(&rfs.nops) >= atomic.LoadInt64(&rw.nstates) &&
			atomic.LoadInt64(&rdb.nsts) >= wantStates() &&
			atomic.LoadInt64(&rfs.nmanifest) >= 1
		if done {
			break
		}

		if time.Now().After(deadline) {
			return res, errors.Errorf("block writer did not become quiet: ops %d/%d fsops %d/%d states %d/%d manifest %d",
				rdb.nops, rw.nresults, rfs.nops, rw.nstates, rdb.nsts, wantStates(), rfs.nmanifest)
		}

		time.Sleep(50 * time.Microsecond)
	}

	rw.mu.Lock()
	res.InState = rw.instate
	res.Reason = rw.reason
	res.MergeOps = rw.mergeops
	rw.mu.Unlock()

	rdb.mu.Lock()
	res.NewStates = rdb.states
	rdb.mu.Unlock()

	if err := realWriter.Cancel(); err != nil {
		return res, errors.WithMessage(err, "cancel writer")
	}

	return res, nil
}

// baErrClass: Process failed. Which of several concurrent causes is reported first (the failing fetch or the
// cancellation it triggers in its siblings) is not part of the statement, so there is a single class.
func baErrClass(error) string { return "failed" }

// baProposal builds the signed proposal listing ops in the given order.
func baProposal(w *baWorld, ops []baOp) (base.ProposalSignFact, error) {
	bops := make([]base.Operation, len(ops))
	for i := range ops {
		bops[i] = ops[i].Op
	}

	pr := w.W.Propose(bops)
	if err := pr.IsValid(w.W.NetworkID); err != nil {
		return nil, err
	}

	return pr, nil
}

// baCheckOpsValid: every generated operation is one the pool admits (input-domain guard).
func baCheckOpsValid(w *baWorld, ops []baOp) error {
	seenop := map[string]bool{}
	seenfact := map[string]bool{}

	for i := range ops {
		if err := ops[i].Op.IsValid(w.W.NetworkID); err != nil {
			return errors.WithMessagef(err, "generated operation %s is not valid", ops[i].Desc)
		}

		if seenop[ops[i].Op.Hash().String()] || seenfact[ops[i].fact()] {
			return errors.Errorf("duplicate operation generated: %s", ops[i].Desc)
		}

		seenop[ops[i].Op.Hash().String()] = true
		seenfact[ops[i].fact()] = true
	}

	return nil
}
