package p_blockb

import (
	"bytes"
	"context"
	"fmt"
	"sort"
	"strings"
	"sync"
	"testing"
	"time"

	"github.com/spikeekips/mitum/base"
	"github.com/spikeekips/mitum/isaac"
	isaacblock "github.com/spikeekips/mitum/isaac/block"
	"github.com/spikeekips/mitum/util"
	"github.com/spikeekips/mitum/util/fixedtree"
	"github.com/spikeekips/mitum/util/valuehash"
	"pgregory.net/rapid"
	"verif/internal/chain"
	"verif/internal/ev"
	"verif/internal/gen"
)

// ---- independent oracle pieces

// c13RefPath verifies a fixed-tree proof path strictly, written from the format (shares no code with util/fixedtree):
// nodes = [children of the key node (2)] [key node + its pair node] [parent + pair] ... [root]. The key node must be
// hashed with its own key over the pair beneath it (over nothing when the list shows no pair beneath it, i.e. the key node
// sits in the first pair), every level above must contain a node hashed over the pair beneath, and the last node is the
// root. Returns the root hash the path leads to.
func c13RefPath(nodes []fixedtree.Node, key string) (root []byte, ok bool) {
	n := len(nodes)
	if n < 1 || n%2 != 1 {
		return nil, false
	}

	hb := func(x fixedtree.Node) []byte {
		if x == nil || x.IsEmpty() || x.Hash() == nil {
			return nil
		}

		return x.Hash().Bytes()
	}

	h := func(self fixedtree.Node, l, r fixedtree.Node) []byte {
		b := append([]byte(self.Key()), hb(l)...)
		b = append(b, hb(r)...)

		return valuehash.NewSHA256(b).Bytes()
	}

	k := -1

	for i := range nodes {
		if nodes[i] != nil && !nodes[i].IsEmpty() && nodes[i].Key() == key {
			k = i

			break
		}
	}

	if k < 0 {
		return nil, false
	}

	p := k - k%2 // start of the pair the key node is in

	// a key node in the first pair of the list shows no children level: it then has to be hashed as a node without children
	var kl, kr fixedtree.Node
	if p >= 2 {
		kl, kr = nodes[p-2], nodes[p-1]
	}

	if !bytes.Equal(hb(nodes[k]), h(nodes[k], kl, kr)) {
		return nil, false
	}

	for p+2 < n {
		q := p + 2
		okLevel := false

		for _, c := range []int{q, q + 1} {
			if c >= n || nodes[c] == nil || nodes[c].IsEmpty() {
				continue
			}

			var right fixedtree.Node
			if p+1 < n {
				right = nodes[p+1]
			}

			if bytes.Equal(hb(nodes[c]), h(nodes[c], nodes[p], right)) {
				okLevel = true
			}
		}

		if !okLevel {
			return nil, false
		}

		p = q
	}

	if p != n-1 {
		return nil, false
	}

	return hb(nodes[n-1]), true
}

func c13SufHeight(st base.State) (base.Height, bool) {
	if st == nil || st.Value() == nil {
		return base.NilHeight, false
	}

	v, ok := st.Value().(base.SuffrageNodesStateValue)
	if !ok {
		return base.NilHeight, false
	}

	return v.Height(), true
}

// c13Follows: "directly follows the previous suffrage state" (not judged at genesis).
func c13Follows(st, prev base.State) bool {
	if st == nil || prev == nil {
		return false
	}

	sh, ok1 := c13SufHeight(st)
	ph, ok2 := c13SufHeight(prev)

	return ok1 && ok2 && st.Previous() != nil && st.Previous().Equal(prev.Hash()) && sh == ph+1 && prev.Height() < st.Height()
}

// ---- chains

type c13Suf struct {
	BlockHeight base.Height
	Map         base.BlockMap
	State       base.State
	Tree        fixedtree.Tree
	Proof       base.SuffrageProof
	NStates     int
}

type c13Chain struct {
	W     *chain.World
	Sufs  []c13Suf                   // by suffrage height
	Truth map[string]map[string]bool // states-tree root -> keys (real and forged trees whose pre-image is known)
	Empty []base.BlockMap            // genuine signed maps of the chain's blocks without a states tree (no new state at all)
	Desc  string
}

func c13Filler(rt *rapid.T, w *chain.World, label string) []base.Operation {
	k := rapid.IntRange(0, 11).Draw(rt, "fillerKeys")
	if k < 1 {
		return nil
	}

	h := w.NextHeight()
	keys := make([]string, k)
	vals := make([]string, k)

	for i := range keys {
		keys[i] = fmt.Sprintf("c13-%d-%02d", h, i)
		vals[i] = fmt.Sprintf("v%d-%d", h, i)
	}

	return []base.Operation{chain.NewFillerOperation(fmt.Sprintf("c13-%s-%d-%d", label, h, k), keys, vals, gen.Local(9))}
}

func c13NodeStart(w *chain.World, addr base.Address) (base.Height, bool) {
	proof, found, err := w.DB.LastSuffrageProof()
	if err != nil || !found {
		return 0, false
	}

	v, err := base.LoadSuffrageNodesStateValue(proof.State())
	if err != nil {
		return 0, false
	}

	for _, n := range v.Nodes() {
		if n.Address().Equal(addr) {
			return n.Start(), true
		}
	}

	return 0, false
}

func c13Build(rt *rapid.T) *c13Chain {
	n0 := rapid.IntRange(1, 3).Draw(rt, "genesisNodes")

	w, err := chain.New(chain.Opts{NSuffrage: n0})
	if err != nil {
		rt.Fatalf("chain: %+v", err)
	}

	c := &c13Chain{W: w, Truth: map[string]map[string]bool{}}
	desc := []string{fmt.Sprintf("g%d", n0)}
	events := rapid.SliceOfN(rapid.SampledFrom([]string{"join", "join", "disjoin"}), 1, 3).Draw(rt, "events")
	next := 10

	block := func(label string, ops []base.Operation) {
		ops = append(ops, c13Filler(rt, w, label)...)

		if _, err := w.NextBlock(ops, nil, chain.ProcOpts{}); err != nil {
			w.Close()
			rt.Fatalf("block %s: %+v", label, err)
		}

		desc = append(desc, fmt.Sprintf("%s%d", label, len(ops)))
	}

	// a block without any operation: no new state, so its manifest has no states tree
	empty := func() {
		if _, err := w.NextBlock(nil, nil, chain.ProcOpts{}); err != nil {
			w.Close()
			rt.Fatalf("empty block: %+v", err)
		}

		desc = append(desc, "e")
	}

	gap := func(label string) {
		switch rapid.SampledFrom([]string{"none", "filler", "empty", "empty"}).Draw(rt, label) {
		case "filler":
			block("f", nil)
		case "empty":
			empty()
		}
	}

	for _, evn := range events {
		gap("gap")

		members := w.Members()

		var leaving base.LocalNode

		if evn == "disjoin" {
			var cands []base.LocalNode

			for _, m := range members {
				if !m.Address().Equal(w.Local.Address()) {
					cands = append(cands, m)
				}
			}

			if len(cands) > 0 {
				leaving = cands[rapid.IntRange(0, len(cands)-1).Draw(rt, "leaving")]
			}
		}

		switch {
		case leaving != nil:
			start, ok := c13NodeStart(w, leaving.Address())
			if !ok {
				w.Close()
				rt.Fatalf("start of %s not found", leaving.Address())
			}

			block("d", []base.Operation{chain.DisjoinOp(fmt.Sprintf("c13-dis-%d", w.NextHeight()), leaving.Address(), start, leaving)})

			if len(w.Members()) != len(members)-1 {
				w.Close()
				rt.Fatalf("disjoin of %s did not happen", leaving.Address())
			}
		default:
			cand := gen.Local(next)
			next++

			candHeight := w.NextHeight()
			block("c", []base.Operation{chain.CandidateOp(fmt.Sprintf("c13-cand-%d", candHeight), cand, cand)})

			gap("gap2")

			block("j", []base.Operation{chain.JoinOp(fmt.Sprintf("c13-join-%d", w.NextHeight()), cand.Address(), candHeight+1,
				append([]base.LocalNode{cand}, members...))})

			if len(w.Members()) != len(members)+1 {
				w.Close()
				rt.Fatalf("join of %s did not happen", cand.Address())
			}
		}
	}

	gap("tail")

	c.Desc = strings.Join(desc, ",")

	// the genuine blocks that commit to no state: no states tree in the signed manifest and no state in the block files
	for _, m := range w.Maps {
		if m.Manifest().StatesTree() != nil {
			continue
		}

		h := m.Manifest().Height()

		if _, has := m.Item(base.BlockItemStates); has {
			sts, err := w.BlockStates(h)
			if err != nil || len(sts) > 0 {
				w.Close()
				rt.Fatalf("harness: block %d has no states tree in its manifest but %d states in its files (%v)", h, len(sts), err)
			}
		}

		if _, has := m.Item(base.BlockItemStatesTree); has {
			w.Close()
			rt.Fatalf("harness: block %d has no states tree in its manifest but a states tree item", h)
		}

		c.Empty = append(c.Empty, m)
	}

	// collect the real proofs and the ground truth of every real states tree
	for sh := base.GenesisHeight; ; sh++ {
		proof, found, err := w.DB.SuffrageProof(sh)
		if err != nil {
			w.Close()
			rt.Fatalf("suffrage proof %d: %+v", sh, err)
		}

		// (the Center may answer a height above the last one with a lower proof; that is C19's subject)
		if !found || proof.SuffrageHeight() != sh {
			break
		}

		h := proof.Map().Manifest().Height()

		tr, found, err := w.StatesTree(h)
		if err != nil || !found {
			w.Close()
			rt.Fatalf("states tree of %d: %v %+v", h, found, err)
		}

		sts, err := w.BlockStates(h)
		if err != nil {
			w.Close()
			rt.Fatalf("states of %d: %+v", h, err)
		}

		keys := bbTreeKeys(tr)
		root := proof.Map().Manifest().StatesTree()

		if root == nil || !bytes.Equal(bbRefRoot(keys), root.Bytes()) || !root.Equal(w.Maps[h].Manifest().StatesTree()) {
			w.Close()
			rt.Fatalf("harness: reference root of block %d differs from the manifest", h)
		}

		set := map[string]bool{}
		for _, k := range keys {
			set[k] = true
		}

		inBlock := false

		for _, st := range sts {
			if !set[st.Hash().String()] {
				w.Close()
				rt.Fatalf("harness: state %s of block %d is not a tree key", st.Key(), h)
			}

			if st.Hash().Equal(proof.State().Hash()) {
				inBlock = true
			}
		}

		if !inBlock || len(sts) != len(keys) {
			w.Close()
			rt.Fatalf("harness: suffrage state of proof %d is not among the states of block %d", sh, h)
		}

		c.Truth[root.String()] = set
		c.Sufs = append(c.Sufs, c13Suf{BlockHeight: h, Map: proof.Map(), State: proof.State(), Tree: tr, Proof: proof, NStates: len(sts)})
	}

	if len(c.Sufs) < 2 {
		w.Close()
		rt.Fatalf("harness: chain %s has %d suffrage states", c.Desc, len(c.Sufs))
	}

	return c
}

// ---- forging tools (everything through exported constructors)

func c13FakeState(h base.Height, sufHeight base.Height, previous util.Hash, label string, nNodes int) base.State {
	nodes := make([]base.SuffrageNodeStateValue, nNodes)
	for i := range nodes {
		l := gen.Local(40 + i) // the attacker's nodes
		nodes[i] = isaac.NewSuffrageNodeStateValue(isaac.NewNode(l.Publickey(), l.Address()), h+1)
	}

	return base.NewBaseState(h, isaac.SuffrageStateKey, isaac.NewSuffrageNodesStateValue(sufHeight, nodes), previous, []util.Hash{gen.H("c13-op-" + label)})
}

// c13Tree builds a self-consistent states tree with the production writer; key at position pos, the rest junk.
func c13Tree(size, pos int, key string, label string) (fixedtree.Tree, []string, error) {
	w, err := fixedtree.NewWriter(base.StateFixedtreeHint, uint64(size))
	if err != nil {
		return fixedtree.Tree{}, nil, err
	}

	keys := make([]string, size)

	for i := 0; i < size; i++ {
		keys[i] = gen.H(fmt.Sprintf("c13-junk-%s-%d", label, i)).String()
		if i == pos {
			keys[i] = key
		}

		if err := w.Add(uint64(i), fixedtree.NewBaseNode(keys[i])); err != nil {
			return fixedtree.Tree{}, nil, err
		}
	}

	if err := w.Write(func(uint64, fixedtree.Node) error { return nil }); err != nil {
		return fixedtree.Tree{}, nil, err
	}

	tr, err := w.Tree()

	return tr, keys, err
}

// c13ForgedMap: a block map the attacker signs himself around a manifest of his choice (BlockMap.IsValid passes).
func c13ForgedMap(real base.Manifest, statesTree util.Hash, label string) (base.BlockMap, error) {
	m := isaacblock.NewBlockMap()
	m.SetManifest(isaac.NewManifest(real.Height(), real.Previous(), real.Proposal(), real.OperationsTree(), statesTree, real.Suffrage(), real.ProposedAt()))

	types := []base.BlockItemType{base.BlockItemProposal, base.BlockItemVoteproofs, base.BlockItemStates, base.BlockItemStatesTree}
	if real.OperationsTree() != nil {
		types = append(types, base.BlockItemOperations, base.BlockItemOperationsTree)
	}

	for _, t := range types {
		if err := m.SetItem(isaacblock.NewBlockMapItem(t, gen.H("c13-checksum-"+label+t.String()).String())); err != nil {
			return nil, err
		}
	}

	attacker := gen.Local(40)
	if err := m.Sign(attacker.Address(), attacker.Privatekey(), gen.NetworkID); err != nil {
		return nil, err
	}

	return m, nil
}

// c13MapWithoutStatesTree: a block map signed by the attacker around the real manifest with the states tree taken out (and,
// when emptyBlock is set, the operations tree too: the shape of a block without operations). Items as the block writer sets
// them for such a block; BlockMap.IsValid passes.
func c13MapWithoutStatesTree(real base.Manifest, emptyBlock bool, label string) (base.BlockMap, error) {
	opsTree := real.OperationsTree()
	if emptyBlock {
		opsTree = nil
	}

	m := isaacblock.NewBlockMap()
	m.SetManifest(isaac.NewManifest(real.Height(), real.Previous(), real.Proposal(), opsTree, nil, real.Suffrage(), real.ProposedAt()))

	types := []base.BlockItemType{base.BlockItemProposal, base.BlockItemVoteproofs}
	if opsTree != nil {
		types = append(types, base.BlockItemOperations, base.BlockItemOperationsTree)
	}

	for _, t := range types {
		if err := m.SetItem(isaacblock.NewBlockMapItem(t, gen.H("c13-checksum-"+label+t.String()).String())); err != nil {
			return nil, err
		}
	}

	attacker := gen.Local(40)
	if err := m.Sign(attacker.Address(), attacker.Privatekey(), gen.NetworkID); err != nil {
		return nil, err
	}

	return m, nil
}

type c13Forgery struct {
	Kind   string
	Target int // suffrage height
	Proof  base.SuffrageProof
	Prev   base.State
	Detail string
	Sub    string // sub-class for the coverage histogram
}

var c13Kinds = []string{
	"valid", "fake-state-own-tree", "real-state-own-tree", "fake-state-real-path", "foreign-block-proof", "rekey-node", "rekey-node",
	"grafted-root", "appended-root", "wrong-previous", "forged-block-height-gap", "forged-block-previous-hash", "forged-block-previous-not-older",
	"forged-block-consistent", "genesis-with-previous", "map-without-states-tree", "map-without-states-tree",
	"noncanonical-own-path", "noncanonical-own-path", "noncanonical-own-path", "noncanonical-mutated-list", "noncanonical-mutated-list",
}

// c13Node: a tree node hashed the way the format says (key, then the hashes of the two nodes beneath; nothing for an absent/empty one).
func c13Node(key string, l, r fixedtree.Node) fixedtree.Node {
	b := []byte(key)

	for _, c := range []fixedtree.Node{l, r} {
		if c != nil && !c.IsEmpty() && c.Hash() != nil {
			b = append(b, c.Hash().Bytes()...)
		}
	}

	return fixedtree.NewBaseNode(key).SetHash(valuehash.NewSHA256(b))
}

func c13Forge(rt *rapid.T, c *c13Chain, idx int) (f c13Forgery) {
	f.Kind = rapid.SampledFrom(c13Kinds).Draw(rt, "kind")
	f.Target = rapid.IntRange(0, len(c.Sufs)-1).Draw(rt, "target")

	if f.Kind == "genesis-with-previous" {
		f.Target = 0
	} else if f.Kind != "valid" && f.Kind != "fake-state-own-tree" && f.Kind != "real-state-own-tree" && f.Kind != "rekey-node" &&
		!strings.HasPrefix(f.Kind, "noncanonical-") && f.Target == 0 {
		f.Target = rapid.IntRange(1, len(c.Sufs)-1).Draw(rt, "target1")
	}

	if f.Kind == "map-without-states-tree" && rapid.Bool().Draw(rt, "targetLast") {
		f.Target = len(c.Sufs) - 1 // nothing follows the last proof, so the history builder has only Prove to stop it
	}

	real := c.Sufs[f.Target]
	h := real.BlockHeight
	label := fmt.Sprintf("%s-%d", c.Desc, idx)

	var realPrev base.State
	var prevHash util.Hash

	if f.Target > 0 {
		realPrev = c.Sufs[f.Target-1].State
		prevHash = realPrev.Hash()
	}

	f.Prev = realPrev
	must := func(err error) {
		if err != nil {
			rt.Fatalf("forge %s: %+v", f.Kind, err)
		}
	}

	ownTree := func(key string) (fixedtree.Tree, fixedtree.Proof) {
		size := rapid.IntRange(1, 12).Draw(rt, "treeSize")
		pos := rapid.IntRange(0, size-1).Draw(rt, "treePos")

		tr, keys, err := c13Tree(size, pos, key, label)
		must(err)

		if !bytes.Equal(bbRefRoot(keys), tr.Root().Bytes()) {
			rt.Fatalf("harness: reference root differs from the writer's root")
		}

		set := map[string]bool{}
		for _, k := range keys {
			set[k] = true
		}

		c.Truth[tr.Root().String()] = set

		p, err := tr.Proof(key)
		must(err)

		f.Detail += fmt.Sprintf(" tree=%d@%d", size, pos)

		return tr, p
	}

	nFake := rapid.IntRange(1, 3).Draw(rt, "fakeNodes")

	switch f.Kind {
	case "valid":
		f.Proof = real.Proof
	case "fake-state-own-tree":
		// the attacker's suffrage, correctly linked to the real previous state, in a tree of his own; the real signed map
		st := c13FakeState(h, base.Height(f.Target), prevHash, label, nFake)
		_, p := ownTree(st.Hash().String())
		f.Proof = isaacblock.NewSuffrageProof(real.Map, st, p)
	case "real-state-own-tree":
		// the real state, but a path through a tree that is not the block's
		_, p := ownTree(real.State.Hash().String())
		f.Proof = isaacblock.NewSuffrageProof(real.Map, real.State, p)
	case "fake-state-real-path":
		st := c13FakeState(h, base.Height(f.Target), prevHash, label, nFake)
		f.Proof = isaacblock.NewSuffrageProof(real.Map, st, real.Proof.Proof())
	case "foreign-block-proof":
		// state and path of another real block under this block's map
		other := rapid.IntRange(0, len(c.Sufs)-2).Draw(rt, "other")
		if other >= f.Target {
			other++
		}

		f.Proof = isaacblock.NewSuffrageProof(real.Map, c.Sufs[other].State, c.Sufs[other].Proof.Proof())
		f.Detail += fmt.Sprintf(" other=%d", other)
	case "rekey-node":
		// the real path under the real root, one node (not the state's own) renamed to the attacker's state hash
		st := c13FakeState(h, base.Height(f.Target), prevHash, label, nFake)
		nodes := append([]fixedtree.Node(nil), real.Proof.Proof().Nodes()...)

		var cand []int

		for i := range nodes {
			if nodes[i] != nil && !nodes[i].IsEmpty() && nodes[i].Key() != real.State.Hash().String() {
				cand = append(cand, i)
			}
		}

		if len(cand) < 1 { // single-state block: nothing to rename; fall back to the own-tree forgery
			f.Kind = "fake-state-own-tree"
			_, p := ownTree(st.Hash().String())
			f.Proof = isaacblock.NewSuffrageProof(real.Map, st, p)

			break
		}

		i := cand[rapid.IntRange(0, len(cand)-1).Draw(rt, "rekeyAt")]
		nodes[i] = fixedtree.NewBaseNode(st.Hash().String()).SetHash(nodes[i].Hash())
		f.Proof = isaacblock.NewSuffrageProof(real.Map, st, fixedtree.NewProof(nodes))
		f.Detail += fmt.Sprintf(" rekey@%d/%d", i, len(nodes))
	case "grafted-root":
		// own tree, its root node given the hash of the real root
		st := c13FakeState(h, base.Height(f.Target), prevHash, label, nFake)
		_, p := ownTree(st.Hash().String())
		nodes := append([]fixedtree.Node(nil), p.Nodes()...)
		nodes[len(nodes)-1] = nodes[len(nodes)-1].SetHash(real.Map.Manifest().StatesTree())
		f.Proof = isaacblock.NewSuffrageProof(real.Map, st, fixedtree.NewProof(nodes))
	case "appended-root":
		// own self-consistent path, then one more node that only carries the real states-tree root: the path never hashes up to it
		st := c13FakeState(h, base.Height(f.Target), prevHash, label, nFake)
		_, p := ownTree(st.Hash().String())
		nodes := append([]fixedtree.Node(nil), p.Nodes()...)
		nodes = append(nodes, fixedtree.NewBaseNode("c13-appended-"+label).SetHash(real.Map.Manifest().StatesTree()))
		f.Proof = isaacblock.NewSuffrageProof(real.Map, st, fixedtree.NewProof(nodes))
	case "wrong-previous":
		f.Proof = real.Proof

		var choices []base.State

		for i := range c.Sufs {
			if i != f.Target-1 {
				choices = append(choices, c.Sufs[i].State)
			}
		}

		// a fabricated previous with the right suffrage height and block height but another content
		choices = append(choices, c13FakeState(realPrev.Height(), base.Height(f.Target-1), realPrev.Previous(), label+"p", nFake))
		choices = append(choices, nil) // no previous at all for a non-genesis proof
		i := rapid.IntRange(0, len(choices)-1).Draw(rt, "prevChoice")
		f.Prev = choices[i]
		f.Detail += fmt.Sprintf(" prev=%d/%d", i, len(choices))
	case "forged-block-height-gap", "forged-block-previous-hash", "forged-block-previous-not-older", "forged-block-consistent":
		// a block the attacker made up completely (own manifest, own tree, own signature): it commits to the state, so only
		// the link to the previous suffrage state can stop it
		sufHeight := base.Height(f.Target)
		ph := prevHash

		switch f.Kind {
		case "forged-block-height-gap":
			sufHeight = base.Height(f.Target - 1 + rapid.SampledFrom([]int{0, 2, 3}).Draw(rt, "gap"))
		case "forged-block-previous-hash":
			ph = gen.H("c13-otherprev-" + label)
		case "forged-block-previous-not-older":
			// previous state of a block at or above this one
			up := rapid.IntRange(0, 2).Draw(rt, "up")
			f.Prev = c13FakeState(h+base.Height(up), base.Height(f.Target-1), realPrev.Previous(), label+"p", nFake)
			ph = f.Prev.Hash()
		}

		st := c13FakeState(h, sufHeight, ph, label, nFake)
		tr, p := ownTree(st.Hash().String())
		m, err := c13ForgedMap(real.Map.Manifest(), tr.Root(), label)
		must(err)

		f.Proof = isaacblock.NewSuffrageProof(m, st, p)
		f.Detail += fmt.Sprintf(" sufheight=%d", sufHeight)
	case "map-without-states-tree":
		// a signed block map whose manifest has no states tree (a block without any new state commits to no state), carrying
		// a suffrage state that correctly follows the real previous suffrage state. The map is the genuine one of an empty
		// block of the chain above the previous suffrage block (the forger needs no key for that), or the attacker's own
		// signature around the real manifest with the states tree taken out.
		var empties []base.BlockMap

		for _, m := range c.Empty {
			if m.Manifest().Height() > realPrev.Height() {
				empties = append(empties, m)
			}
		}

		sources := []string{"resigned-no-states-tree", "resigned-empty-block"}
		if len(empties) > 0 {
			sources = append(sources, "real-empty-block", "real-empty-block", "real-empty-block")
		}

		source := rapid.SampledFrom(sources).Draw(rt, "mapSource")

		var m base.BlockMap

		switch source {
		case "real-empty-block":
			m = empties[rapid.IntRange(0, len(empties)-1).Draw(rt, "emptyBlock")]
		default:
			var err error

			m, err = c13MapWithoutStatesTree(real.Map.Manifest(), source == "resigned-empty-block", label)
			must(err)
		}

		if m.Manifest().StatesTree() != nil {
			rt.Fatalf("harness: the %s map of block %d has a states tree", source, m.Manifest().Height())
		}

		mh := m.Manifest().Height()
		f.Detail += fmt.Sprintf(" map=%s@%d", source, mh)
		f.Sub = "map-without-states-tree:" + source

		payloads := []string{"fake-state-own-tree", "fake-state-own-tree"}
		if mh == h {
			payloads = append(payloads, "real-state-real-path", "real-state-own-tree")
		}

		switch payload := rapid.SampledFrom(payloads).Draw(rt, "payload"); payload {
		case "real-state-real-path":
			// the genuine state and path of this height; only the block that is claimed to commit to it has no tree
			f.Proof = isaacblock.NewSuffrageProof(m, real.State, real.Proof.Proof())
			f.Detail += " " + payload
		case "real-state-own-tree":
			_, p := ownTree(real.State.Hash().String())
			f.Proof = isaacblock.NewSuffrageProof(m, real.State, p)
			f.Detail += " " + payload
		default:
			st := c13FakeState(mh, base.Height(f.Target), prevHash, label, nFake)
			_, p := ownTree(st.Hash().String())
			f.Proof = isaacblock.NewSuffrageProof(m, st, p)
			f.Detail += " " + payload
		}
	case "genesis-with-previous":
		f.Proof = real.Proof
		f.Prev = c.Sufs[rapid.IntRange(0, len(c.Sufs)-1).Draw(rt, "gprev")].State
	case "noncanonical-own-path":
		// A node list no honest extractor makes: the attacker's state (correctly linked to the real previous state) in a self-made,
		// self-consistent path of 0..3 further levels, the key node in the FIRST pair of the list (no children level shown) or
		// with a children pair beneath it, hung under the top 0..all real pairs of the block's real proof (the self-made top node
		// takes one slot of the lowest kept real pair, the other slot keeps its real node) and the real root node (or, for
		// contrast, a self-made root hashed over the last pair). Nothing of it is hashed into the real root.
		st := c13FakeState(h, base.Height(f.Target), prevHash, label, nFake)
		key := st.Hash().String()
		rn := real.Proof.Proof().Nodes()
		m := (len(rn) - 1) / 2

		junk := func(what string, lv int) string { return gen.H(fmt.Sprintf("c13-nc-%s-%s-%d", label, what, lv)).String() }
		filler := func(what string, lv int) fixedtree.Node {
			if rapid.Bool().Draw(rt, "fillerEmpty") {
				return fixedtree.EmptyBaseNode()
			}

			return c13Node(junk(what, lv), nil, nil)
		}

		kept := rapid.IntRange(0, m).Draw(rt, "keptRealPairs")
		if rapid.Bool().Draw(rt, "keptFew") {
			kept = rapid.IntRange(0, 1).Draw(rt, "keptRealPairs01")
		}

		levels := rapid.IntRange(0, 3).Draw(rt, "ownLevels")
		children := rapid.SampledFrom([]string{"none", "none", "empty", "junk"}).Draw(rt, "children")
		rootMode := rapid.SampledFrom([]string{"real", "real", "real", "own"}).Draw(rt, "rootMode")

		var list []fixedtree.Node

		var cl, cr fixedtree.Node

		switch children {
		case "empty":
			cl, cr = fixedtree.EmptyBaseNode(), fixedtree.EmptyBaseNode()
			list = append(list, cl, cr)
		case "junk":
			cl, cr = c13Node(junk("child", 0), nil, nil), filler("child", 1)
			list = append(list, cl, cr)
		}

		cur := c13Node(key, cl, cr)
		slots := ""

		var pair [2]fixedtree.Node

		for lv := 0; lv <= levels; lv++ {
			slot := rapid.IntRange(0, 1).Draw(rt, "slot")
			slots += fmt.Sprintf("%d", slot)

			pair[slot] = cur

			switch {
			case lv == levels && kept > 0:
				pair[1-slot] = rn[2*(m-kept)+1-slot]
			default:
				pair[1-slot] = filler("pair", lv)
			}

			list = append(list, pair[0], pair[1])
			cur = c13Node(junk("parent", lv), pair[0], pair[1])
		}

		for j := m - kept + 1; j < m; j++ {
			list = append(list, rn[2*j], rn[2*j+1])
			pair = [2]fixedtree.Node{rn[2*j], rn[2*j+1]}
		}

		switch rootMode {
		case "own":
			list = append(list, c13Node(junk("root", 0), pair[0], pair[1]))
		default:
			list = append(list, rn[2*m])
		}

		f.Proof = isaacblock.NewSuffrageProof(real.Map, st, fixedtree.NewProof(list))
		f.Detail += fmt.Sprintf(" children=%s levels=%d slots=%s kept=%d/%d root=%s n=%d", children, levels, slots, kept, m, rootMode, len(list))
		f.Sub = "noncanonical:key-in-first-pair"

		if children != "none" {
			f.Sub = "noncanonical:key-above-children"
		}
	case "noncanonical-mutated-list":
		// The real node list of the block's proof, restructured: pairs dropped / inserted / swapped / flipped / duplicated, slots
		// emptied, the key's pair moved to the front; proved for the real state, or for the attacker's state whose key node is
		// written into a drawn slot (as a node without children, hashed over the pair beneath the slot, or with the slot's hash).
		nodes := append([]fixedtree.Node(nil), real.Proof.Proof().Nodes()...)
		st := real.State
		who := "real"

		junk := func(what string, i int) fixedtree.Node {
			return c13Node(gen.H(fmt.Sprintf("c13-ml-%s-%s-%d", label, what, i)).String(), nil, nil)
		}

		if rapid.IntRange(0, 2).Draw(rt, "attackerState") > 0 {
			st = c13FakeState(h, base.Height(f.Target), prevHash, label, nFake)
			key := st.Hash().String()
			at := rapid.IntRange(0, len(nodes)-2).Draw(rt, "keyAt")
			form := rapid.SampledFrom([]string{"leaf", "leaf", "over-beneath", "slot-hash"}).Draw(rt, "keyForm")

			if form == "slot-hash" && nodes[at].IsEmpty() {
				form = "leaf"
			}

			switch form {
			case "leaf":
				nodes[at] = c13Node(key, nil, nil)
			case "over-beneath":
				var l, rr fixedtree.Node
				if p := at - at%2; p >= 2 {
					l, rr = nodes[p-2], nodes[p-1]
				}

				nodes[at] = c13Node(key, l, rr)
			default:
				nodes[at] = fixedtree.NewBaseNode(key).SetHash(nodes[at].Hash())
			}

			who = fmt.Sprintf("attacker:%s@%d", form, at)
		}

		key := st.Hash().String()
		nops := rapid.IntRange(1, 3).Draw(rt, "listOps")
		ops := ""

		for i := 0; i < nops; i++ {
			np := (len(nodes) - 1) / 2 // pairs below the last node

			op := rapid.SampledFrom([]string{"drop-first-pair", "drop-first-pair", "key-pair-first", "key-pair-first", "drop-pair", "prepend-pair", "insert-pair",
				"swap-pairs", "flip-pair", "empty-slot", "dup-pair"}).Draw(rt, "listOp")

			if np < 1 && op != "prepend-pair" {
				op = "prepend-pair"
			}

			newPair := func() []fixedtree.Node {
				if rapid.Bool().Draw(rt, "newPairEmpty") {
					return []fixedtree.Node{fixedtree.EmptyBaseNode(), fixedtree.EmptyBaseNode()}
				}

				return []fixedtree.Node{junk("a", i), junk("b", i)}
			}

			insertAt := func(a int, pr []fixedtree.Node) {
				out := append([]fixedtree.Node(nil), nodes[:2*a]...)
				out = append(out, pr...)
				nodes = append(out, nodes[2*a:]...)
			}

			switch op {
			case "drop-first-pair":
				nodes = append([]fixedtree.Node(nil), nodes[2:]...)
			case "key-pair-first":
				// everything below the key's pair goes away
				k := -1

				for j := range nodes {
					if !nodes[j].IsEmpty() && nodes[j].Key() == key {
						k = j

						break
					}
				}

				if k >= 0 && k < len(nodes)-1 {
					nodes = append([]fixedtree.Node(nil), nodes[k-k%2:]...)
				}
			case "drop-pair":
				a := rapid.IntRange(0, np-1).Draw(rt, "pairA")
				out := append([]fixedtree.Node(nil), nodes[:2*a]...)
				nodes = append(out, nodes[2*a+2:]...)
				op += fmt.Sprintf("%d", a)
			case "prepend-pair":
				insertAt(0, newPair())
			case "insert-pair":
				a := rapid.IntRange(0, np).Draw(rt, "pairA")
				insertAt(a, newPair())
				op += fmt.Sprintf("%d", a)
			case "swap-pairs":
				a := rapid.IntRange(0, np-1).Draw(rt, "pairA")
				b := rapid.IntRange(0, np-1).Draw(rt, "pairB")
				nodes[2*a], nodes[2*a+1], nodes[2*b], nodes[2*b+1] = nodes[2*b], nodes[2*b+1], nodes[2*a], nodes[2*a+1]
				op += fmt.Sprintf("%d-%d", a, b)
			case "flip-pair":
				a := rapid.IntRange(0, np-1).Draw(rt, "pairA")
				nodes[2*a], nodes[2*a+1] = nodes[2*a+1], nodes[2*a]
				op += fmt.Sprintf("%d", a)
			case "empty-slot":
				a := rapid.IntRange(0, len(nodes)-2).Draw(rt, "slotA")
				nodes[a] = fixedtree.EmptyBaseNode()
				op += fmt.Sprintf("%d", a)
			case "dup-pair":
				a := rapid.IntRange(0, np-1).Draw(rt, "pairA")
				insertAt(a, []fixedtree.Node{nodes[2*a], nodes[2*a+1]})
				op += fmt.Sprintf("%d", a)
			}

			ops += "+" + op
		}

		f.Proof = isaacblock.NewSuffrageProof(real.Map, st, fixedtree.NewProof(nodes))
		f.Detail += fmt.Sprintf(" state=%s ops=%s n=%d", who, ops, len(nodes))
		f.Sub = "noncanonical:mutated-" + strings.SplitN(who, ":", 2)[0]
	default:
		rt.Fatalf("unknown kind %s", f.Kind)
	}

	return f
}

// c13Wire sends the proof through the JSON encoder like a proof received from a remote node.
func c13Wire(p base.SuffrageProof) (base.SuffrageProof, error) {
	_, enc := gen.Encoders()

	b, err := enc.Marshal(p)
	if err != nil {
		return nil, err
	}

	var out base.SuffrageProof

	hinter, err := enc.Decode(b)
	if err != nil {
		return nil, err
	}

	if err := util.SetInterfaceValue(hinter, &out); err != nil {
		return nil, err
	}

	return out, nil
}

func TestC13(t *testing.T) {
	r := ev.Start(t, "C13")
	defer r.Finish()
	r.Rule("chains from the production path: 1..3 genesis nodes, 1..3 suffrage events (candidate+join / disjoin) with optional gap blocks (filler or empty: no operation, no states tree) and 0..11 filler states per block, " +
		"so suffrage states sit in trees of 1..14 states; 24 proofs per chain: the real proofs from the database and forgeries {attacker state in an own self-consistent tree under the real signed map, " +
		"real state with a foreign path, attacker state on the real path, proof of another block, one proof node renamed to the attacker's state hash, own tree with the real root hash grafted on or appended as an extra node, " +
		"wrong/fabricated previous state, fully attacker-made blocks (own manifest+tree+signature) whose state skips a suffrage height / names another previous / has a previous that is not older / is consistent, genesis with a previous, " +
		"a signed map WITHOUT a states tree (the genuine map of an empty block of the chain above the previous suffrage block, or the real manifest re-signed with the states tree / both trees taken out) carrying an attacker state in an own tree that correctly follows the real previous state, or the real state with its real / a foreign path, " +
		"NON-CANONICAL node lists: the attacker's state in a self-made self-consistent path of 1..4 levels with the key node in the FIRST pair of the list (no children level) or above a children pair, hung under the top 0..all real pairs of the real proof and the real root node (or an own root), " +
		"and the real node list restructured (pairs dropped / inserted / swapped / flipped / duplicated, slots emptied, the key's pair moved to the front; shorter and longer lists) for the real state or with the attacker's key written into a drawn slot}; " +
		"every proof also goes through the JSON encoder. accepted := IsValid(networkID)==nil && Prove(previous)==nil. " +
		"non-trivial: a forged proof that passes IsValid (so only Prove decides); distinct by (chain, kind, target, parameters)")
	r.Floor(int64(r.N(150, 1500)))
	r.Assume("oracle: accepted => the state's hash is a key of the tree whose root is the carried manifest's states-tree root (pre-images known to the harness: real trees read from block files, forged trees built by the harness; SHA3-256 assumed collision resistant) "+
		"(a block whose manifest has no states tree commits to no state) and an independent strict path verifier leads from the state's key to that root, and (unless genesis) previous.hash == state.previous, suffrage height == previous+1, previous block height < state block height",
		"one-sided: rejecting is never a violation, except that an untampered proof with its true previous state must be accepted for the run to count (otherwise inconclusive)",
		"a panic on a nil previous state at a non-genesis height counts as rejected here (crash-freedom of the sync path is C18)")

	r.Checks(40, 1000)
	r.ShrinkTime(30 * time.Second)

	rapid.Check(t, func(rt *rapid.T) {
		c := c13Build(rt)
		defer c.W.Close()

		for i := 0; i < 24; i++ {
			f := c13Forge(rt, c, i)
			c13Judge(rt, r, c, f)
		}
	})
}

func c13Judge(rt *rapid.T, r *ev.Rec, c *c13Chain, f c13Forgery) {
	proof := f.Proof

	wired, err := c13Wire(proof)
	if err != nil {
		rt.Fatalf("harness: %s proof does not survive the encoder: %+v", f.Kind, err)
	}

	type verdict struct {
		validErr, proveErr error
		panicked           any
	}

	run := func(p base.SuffrageProof) (v verdict) {
		if v.validErr = p.IsValid(gen.NetworkID); v.validErr != nil {
			return v
		}

		func() {
			defer func() {
				if x := recover(); x != nil {
					if r.Failed() {
						panic(x)
					}

					v.panicked = x
				}
			}()

			v.proveErr = p.Prove(f.Prev)
		}()

		return v
	}

	v := run(proof)
	vw := run(wired)

	accepted := func(v verdict) bool { return v.validErr == nil && v.proveErr == nil && v.panicked == nil }

	if accepted(v) != accepted(vw) {
		r.Violation(rt, "wire-changes-verdict", "chain %s %s target %d%s: accepted=%v in memory but %v after JSON round trip (%v / %v)",
			c.Desc, f.Kind, f.Target, f.Detail, accepted(v), accepted(vw), vw.validErr, vw.proveErr)
	}

	// ---- oracle, from the statement
	m := proof.Map().Manifest()
	st := proof.State()
	root := m.StatesTree()

	committed := false
	if root != nil {
		committed = c.Truth[root.String()][st.Hash().String()]
	}

	pathRoot, pathOK := c13RefPath(proof.Proof().Nodes(), st.Hash().String())
	leads := pathOK && root != nil && bytes.Equal(pathRoot, root.Bytes())
	genesis := m.Height() == base.GenesisHeight
	follows := genesis || c13Follows(st, f.Prev)

	desc := fmt.Sprintf("chain %s, %s at suffrage height %d (block %d, %d states)%s", c.Desc, f.Kind, f.Target, c.Sufs[f.Target].BlockHeight, c.Sufs[f.Target].NStates, f.Detail)

	if f.Kind == "valid" {
		if !committed || !leads || !follows {
			rt.Fatalf("harness: oracle rejects a real proof: committed=%v leads=%v follows=%v (%s)", committed, leads, follows, desc)
		}

		if !accepted(v) {
			rt.Fatalf("inconclusive: an untampered proof with its true previous state is rejected: %v / %v / %v (%s)", v.validErr, v.proveErr, v.panicked, desc)
		}
	}

	if accepted(v) {
		nodes := proof.Proof().Nodes()
		last := nodes[len(nodes)-1]

		switch {
		case !committed || !leads:
			sig := "proved-key-not-hashed-into-path"
			what := "the path reaches the block's root but the state's hash is not what is hashed into it"

			switch {
			case root == nil:
				sig = "proved-under-block-without-states-tree"
				what = fmt.Sprintf("the manifest of the carried block (height %d) has no states tree, so the block commits to no state", m.Height())
			case last == nil || !last.Hash().Equal(root):
				sig = "proof-root-not-bound-to-manifest"
				what = fmt.Sprintf("the proof's root %s is not the states-tree root %s of the block it carries", last.Hash(), root)
			}

			r.Violation(rt, sig, "%s: accepted (IsValid and Prove return nil) although the suffrage state %s is not committed in the block's states tree (in tree: %v, path leads to root: %v): %s",
				desc, st.Hash(), committed, leads, what)
		case !follows:
			sh, _ := c13SufHeight(st)
			ph, _ := c13SufHeight(f.Prev)

			if f.Prev == nil {
				r.Violation(rt, "previous-linkage", "%s: accepted without any previous state although the block is not genesis", desc)
			}

			r.Violation(rt, "previous-linkage", "%s: accepted although the state does not directly follow the given previous state (state.previous=%s previous.hash=%s, suffrage heights %d after %d, block heights %d after %d)",
				desc, st.Previous(), f.Prev.Hash(), sh, ph, st.Height(), f.Prev.Height())
		}
	}

	// ---- the same proof delivered through the suffrage history builder (the consumer of proofs from remote nodes): a proof the
	// statement rejects must not be accepted there either, whatever order the proofs of a batch arrive in
	if builderClass := c13ThroughBuilder(rt, r, c, f, committed && leads && follows, desc); builderClass != "" {
		defer func() { r.Class(builderClass, 1) }()
	}

	nontrivial := f.Kind != "valid" && v.validErr == nil
	classes := []string{"kind:" + f.Kind}

	switch {
	case accepted(v):
		classes = append(classes, "verdict:accepted")
	case v.validErr != nil:
		classes = append(classes, "verdict:rejected-by-isvalid")
	case v.panicked != nil:
		classes = append(classes, "verdict:panic-in-prove")
	default:
		classes = append(classes, "verdict:rejected-by-prove")
	}

	if f.Target == 0 {
		classes = append(classes, "target:genesis")
	}

	if f.Sub != "" {
		classes = append(classes, f.Sub)
	}

	r.Case(fmt.Sprintf("%s|%s|%d|%s", c.Desc, f.Kind, f.Target, f.Detail), nontrivial, classes...)

	if nontrivial && r.WantSample() {
		r.Sample(map[string]any{"chain": c.Desc, "kind": f.Kind, "suffrage_height": f.Target, "block_height": c.Sufs[f.Target].BlockHeight.Int64(),
			"states_in_block": c.Sufs[f.Target].NStates, "detail": strings.TrimSpace(f.Detail), "accepted": accepted(v),
			"prove_error": bbErrStr(v.proveErr), "oracle": map[string]bool{"committed": committed, "path_leads_to_root": leads, "follows_previous": follows}})
	}
}

// c13ThroughBuilder serves the real proofs of the chain, with the proof of suffrage height f.Target replaced by f.Proof, to a real
// isaac.SuffrageStateBuilder (no local state, one batch). All by-height requests are held until they have all arrived (or a
// grace period passed) and are then answered one after another in a drawn order, so "the last proof is handled before its
// predecessor" and every other order is reached. Only forgeries given with the true previous state are used.
func c13ThroughBuilder(rt *rapid.T, r *ev.Rec, c *c13Chain, f c13Forgery, acceptable bool, desc string) string {
	n := len(c.Sufs)
	if n < 2 || f.Proof == nil || f.Proof.IsValid(gen.NetworkID) != nil {
		return ""
	}

	sh, ok := c13SufHeight(f.Proof.State())
	if !ok || int(sh.Int64()) != f.Target {
		return "" // the builder rejects a proof of another suffrage height by construction; not this property
	}

	var truePrev base.State
	if f.Target > 0 {
		truePrev = c.Sufs[f.Target-1].State
	}

	switch {
	case f.Prev == nil && truePrev != nil, f.Prev != nil && truePrev == nil:
		return ""
	case f.Prev != nil && !f.Prev.Hash().Equal(truePrev.Hash()):
		return ""
	}

	order := rapid.SampledFrom([]string{"ascending", "descending", "drawn"}).Draw(rt, "builderOrder")
	prio := make([]int, n)

	for i := range prio {
		switch order {
		case "ascending":
			prio[i] = i
		case "descending":
			prio[i] = n - i
		default:
			prio[i] = rapid.IntRange(0, 1000).Draw(rt, "prio")
		}
	}

	proofOf := func(h int) base.SuffrageProof {
		if h == f.Target {
			return f.Proof
		}

		return c.Sufs[h].Proof
	}

	var mu sync.Mutex

	waiting := map[int]chan struct{}{}
	released := false

	release := func() {
		mu.Lock()
		if released {
			mu.Unlock()

			return
		}

		released = true

		hs := make([]int, 0, len(waiting))
		for h := range waiting {
			hs = append(hs, h)
		}

		sort.SliceStable(hs, func(a, b int) bool { return prio[hs[a]] < prio[hs[b]] })

		chs := make([]chan struct{}, len(hs))
		for i, h := range hs {
			chs[i] = waiting[h]
		}
		mu.Unlock()

		for _, ch := range chs {
			close(ch)
			time.Sleep(300 * time.Microsecond) // lets the released answer be proven before the next one (affects order coverage only)
		}
	}

	b := isaac.NewSuffrageStateBuilder(gen.NetworkID,
		func(context.Context) (base.Height, base.SuffrageProof, bool, error) {
			return c.Sufs[n-1].BlockHeight, proofOf(n - 1), true, nil
		},
		func(_ context.Context, h base.Height) (base.SuffrageProof, bool, error) {
			i := int(h.Int64())
			if i < 0 || i >= n {
				return nil, false, nil
			}

			ch := make(chan struct{})

			mu.Lock()
			late := released
			if !late {
				waiting[i] = ch
			}
			all := len(waiting) == n
			mu.Unlock()

			switch {
			case late:
			case all:
				go release()
				<-ch
			default:
				select {
				case <-ch:
				case <-time.After(50 * time.Millisecond):
					go release()
					<-ch
				}
			}

			return proofOf(i), true, nil
		},
		func(context.Context) (base.State, bool, error) { return nil, false, nil },
	)

	var berr error

	var proofs []base.SuffrageProof

	func() {
		defer func() {
			if x := recover(); x != nil {
				if ev.IsRapidUnwind(x) {
					panic(x)
				}

				berr = fmt.Errorf("panic: %v", x)
			}
		}()

		_, proofs, _, berr = b.Build(context.Background(), nil)
	}()

	switch {
	case acceptable && berr != nil && f.Kind == "valid":
		rt.Fatalf("inconclusive: the builder rejects the untampered chain (%s order): %v", order, berr)
	case !acceptable && berr == nil && len(proofs) > 0:
		r.Violation(rt, "builder-accepts-unbound-proof", "%s: the suffrage history builder accepted the chain containing this proof (answers released in %s order %v) although the statement rejects the proof",
			desc, order, prio)
	}

	if acceptable {
		return "builder:acceptable-" + order
	}

	return "builder:forged-" + order
}
