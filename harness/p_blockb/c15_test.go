package p_blockb

import (
	"context"
	"fmt"
	"sync"
	"testing"

	"github.com/spikeekips/mitum/base"
	"github.com/spikeekips/mitum/isaac"
	isaacblock "github.com/spikeekips/mitum/isaac/block"
	"verif/internal/chain"
	"verif/internal/ev"
	"verif/internal/gen"
)

// ---- source chain (built once per process through the production path)

const (
	c15MaxCount = 40
	c15MaxFrom  = 3
	c15Top      = c15MaxFrom + c15MaxCount - 1 // highest source height
)

type c15Src struct {
	W      *chain.World
	Blocks []bbBlock // by height, read back from the source's local fs
	// model: for every height h, the value every key must have when the chain is cut at h
	KeysAt []map[string]base.State
}

var (
	c15Once   sync.Once
	c15Source *c15Src
	c15SrcErr error
)

func c15GetSource() (*c15Src, error) {
	c15Once.Do(func() {
		c15Source, c15SrcErr = c15Build()
	})

	return c15Source, c15SrcErr
}

func c15Build() (*c15Src, error) {
	w, err := chain.New(chain.Opts{NSuffrage: 3})
	if err != nil {
		return nil, err
	}

	bbOnExit(w.Close)

	cand := gen.Local(5)

	for h := base.Height(1); h <= c15Top; h++ {
		var ops []base.Operation

		// every block: two keys of its own and one key shared by all blocks (so "last version wins" is observable)
		ops = append(ops, chain.NewFillerOperation(fmt.Sprintf("c15-f%d", h),
			[]string{fmt.Sprintf("c15-a-%03d", h), fmt.Sprintf("c15-b-%03d", h), "c15-shared"},
			[]string{fmt.Sprintf("va%d", h), fmt.Sprintf("vb%d", h), fmt.Sprintf("vs%d", h)}, gen.Local(9)))

		switch h {
		case 2: // a suffrage candidate ...
			ops = append(ops, chain.CandidateOp("c15-cand", cand, cand))
		case 4: // ... joins: blocks 0 and 4 carry a suffrage state (importer builds a suffrage proof for them)
			ops = append(ops, chain.JoinOp("c15-join", cand.Address(), 3, append([]base.LocalNode{cand}, w.Members()...)))
		}

		if _, err := w.NextBlock(ops, nil, chain.ProcOpts{}); err != nil {
			return nil, fmt.Errorf("source block %d: %w", h, err)
		}
	}

	if len(w.Members()) != 4 {
		return nil, fmt.Errorf("source chain: join did not happen (members %d)", len(w.Members()))
	}

	s := &c15Src{W: w}
	cur := map[string]base.State{}

	for h := base.GenesisHeight; h <= c15Top; h++ {
		b, err := bbReadBlock(w.Readers, h)
		if err != nil {
			return nil, err
		}

		if err := isaacblock.IsValidBlockFromLocalFS(w.Readers.Item, h, w.NetworkID, nil, nil, nil); err != nil {
			return nil, fmt.Errorf("source block %d does not validate: %w", h, err)
		}

		s.Blocks = append(s.Blocks, b)

		next := make(map[string]base.State, len(cur)+len(b.States))
		for k, v := range cur {
			next[k] = v
		}

		for _, st := range b.States {
			next[st.Key()] = st
		}

		s.KeysAt = append(s.KeysAt, next)
		cur = next
	}

	return s, nil
}

type c15Case struct {
	From, Count, Limit int
	Lvps               bool // pass a setLastVoteproofsFunc (like the syncer) or nil (like launch.ImportBlocks)
}

func (c c15Case) To() int { return c.From + c.Count - 1 }

type c15Outcome struct {
	Err        error
	MergeCalls int
	// LastMergeSaw is the Center's last block height when the merge callback was last called
	LastMergeSaw base.Height
	LvpsCalled   bool
	LvpsFound    bool
	LvpsHeight   base.Height
}

// c15Run prepares a destination that already holds 0..From-1 (imported block by block, not through ImportBlocks) and
// runs the real ImportBlocks wired like launch.ImportBlocks.
func c15Run(s *c15Src, c c15Case) (*bbDest, c15Outcome, error) {
	d, err := bbNewDest()
	if err != nil {
		return nil, c15Outcome{}, err
	}

	for h := 0; h < c.From; h++ {
		if stored, step, err := bbImportOne(d, s.W.Readers, s.Blocks[h].Map); !stored {
			d.Close()

			return nil, c15Outcome{}, fmt.Errorf("prefix block %d: %s: %w", h, step, err)
		}
	}

	if c.From > 0 {
		if err := d.DB.MergeAllPermanent(); err != nil {
			d.Close()

			return nil, c15Outcome{}, err
		}
	}

	var out c15Outcome

	var lvpsf func([2]base.Voteproof, bool) error
	if c.Lvps {
		lvpsf = func(vps [2]base.Voteproof, found bool) error {
			out.LvpsCalled = true
			out.LvpsFound = found

			if !found { // launch.setLastVoteproofsfFromBlockReaderFunc
				return fmt.Errorf("last voteproofs not found")
			}

			out.LvpsHeight = vps[1].Point().Height()

			return nil
		}
	}

	out.Err = isaacblock.ImportBlocks(
		context.Background(),
		base.Height(c.From), base.Height(c.To()),
		int64(c.Limit),
		d.Readers, // launch passes the destination's readers
		bbMapFunc(s.W.Readers),
		bbItemFunc(s.W.Readers),
		d.newImporter,
		lvpsf,
		func(context.Context) error {
			out.MergeCalls++
			out.LastMergeSaw = base.NilHeight

			if m, found, _ := d.DB.LastBlockMap(); found {
				out.LastMergeSaw = m.Manifest().Height()
			}

			return d.DB.MergeAllPermanent()
		},
	)

	return d, out, nil
}

// c15Check is the oracle: success => every block From..To is stored and merged.
func c15Check(t ev.TB, r *ev.Rec, s *c15Src, c c15Case, d *bbDest, out c15Outcome) {
	if out.Err != nil {
		return // no success reported: the statement says nothing (counted by the caller)
	}

	to := base.Height(c.To())
	desc := fmt.Sprintf("import %d..%d (count %d) batch limit %d lvps=%v", c.From, c.To(), c.Count, c.Limit, c.Lvps)
	// root-cause signature: blocks of a full last batch that are missing while everything before them is there
	sig := "missing-block"

	if c.Count%c.Limit == 0 {
		firstMissing := -1

		for h := c.From; h <= c.To(); h++ {
			if _, found, _ := d.DB.BlockMap(base.Height(h)); !found {
				firstMissing = h

				break
			}
		}

		if firstMissing == c.To()-c.Limit+1 {
			sig = "last-full-batch-unsaved"
		}
	}

	switch m, found, err := d.DB.LastBlockMap(); {
	case err != nil:
		t.Fatalf("LastBlockMap: %v", err)
	case !found:
		r.Violation(t, sig, "%s: ImportBlocks returned nil but the database has no last block map (want height %d)", desc, to)
	case m.Manifest().Height() != to:
		r.Violation(t, sig, "%s: ImportBlocks returned nil but the last stored height is %d, want %d", desc, m.Manifest().Height(), to)
	}

	for h := c.From; h <= c.To(); h++ {
		b := s.Blocks[h]

		switch m, found, err := d.DB.BlockMap(base.Height(h)); {
		case err != nil:
			t.Fatalf("BlockMap: %v", err)
		case !found:
			r.Violation(t, sig, "%s: success but block map of height %d is not in the database", desc, h)
		default:
			if err := base.IsEqualBlockMap(b.Map, m); err != nil {
				r.Violation(t, "stored-block-differs", "%s: stored block map of height %d differs from the source: %v", desc, h, err)
			}
		}

		// local fs of the destination
		switch m, found, err := isaac.BlockItemReadersDecode[base.BlockMap](d.Readers.Item, base.Height(h), base.BlockItemMap, nil); {
		case err != nil:
			r.Violation(t, sig, "%s: success but the block files of height %d are unreadable: %v", desc, h, err)
		case !found:
			r.Violation(t, sig, "%s: success but the block files of height %d are not in the local fs", desc, h)
		default:
			if err := base.IsEqualBlockMap(b.Map, m); err != nil {
				r.Violation(t, "stored-block-differs", "%s: stored block files of height %d differ from the source: %v", desc, h, err)
			}
		}

		for _, op := range b.Ops {
			if found, err := d.DB.ExistsKnownOperation(op.Hash()); err != nil || !found {
				r.Violation(t, sig, "%s: success but operation %s of height %d is not known to the database (err %v)", desc, op.Hash(), h, err)
			}
		}

		for _, st := range b.States {
			for _, oph := range st.Operations() {
				if found, err := d.DB.ExistsInStateOperation(oph); err != nil || !found {
					r.Violation(t, sig, "%s: success but in-state operation %s of height %d is missing (err %v)", desc, oph, h, err)
				}
			}
		}
	}

	// every key has the version of the chain cut at To
	for k, want := range s.KeysAt[c.To()] {
		switch got, found, err := d.DB.State(k); {
		case err != nil:
			t.Fatalf("State: %v", err)
		case !found:
			r.Violation(t, sig, "%s: success but state %q (height %d) is not in the database", desc, k, want.Height())
		case !base.IsEqualState(want, got):
			r.Violation(t, sig, "%s: success but state %q has height %d, want the version of height %d", desc, k, got.Height(), want.Height())
		}
	}

	// merged: the merge callback (launch: Center.MergeAllPermanent) ran after the last block became visible in the Center
	if out.MergeCalls < 1 || out.LastMergeSaw != to {
		r.Violation(t, "not-merged", "%s: success but the last of %d merge callbacks ran when the Center's last height was %d, want %d",
			desc, out.MergeCalls, out.LastMergeSaw, to)
	}

	if c.Lvps && (!out.LvpsCalled || !out.LvpsFound || out.LvpsHeight != to) {
		r.Violation(t, "last-voteproofs", "%s: success but last voteproofs callback called=%v found=%v height=%d", desc, out.LvpsCalled, out.LvpsFound, out.LvpsHeight)
	}

	// the suffrage proof the importer built for the last suffrage block must be there
	wantSuf := base.Height(0)
	if c.To() >= 4 {
		wantSuf = 1
	}

	switch proof, found, err := d.DB.LastSuffrageProof(); {
	case err != nil:
		t.Fatalf("LastSuffrageProof: %v", err)
	case !found:
		r.Violation(t, sig, "%s: success but no suffrage proof in the database", desc)
	case proof.SuffrageHeight() != wantSuf:
		r.Violation(t, sig, "%s: success but last suffrage height is %d, want %d", desc, proof.SuffrageHeight(), wantSuf)
	}
}

func TestC15(t *testing.T) {
	r := ev.Start(t, "C15")
	defer r.Finish()
	r.Rule("source chain of 43 production-path blocks (filler states incl. one key rewritten by every block, candidate at 2, join at 4); " +
		"deterministic enumeration of (count 1..40, batch limit 1..40) pairs — thorough: all 1600 pairs, quick: every pair with count a multiple of limit and count<=12 or count==24, " +
		"(16,16) (33,33) (40,40), plus a seed-rotated sample of the rest; import start From in 0..3 (prefix imported block by block) and " +
		"setLastVoteproofsFunc nil (launch.ImportBlocks) or set (syncer) derived from (count, limit, seed); real ImportBlocks + BlockImporter + Center over a fresh mem leveldb. " +
		"non-trivial: count%limit==0 or count>limit; distinct by (from,count,limit,lvps)")
	r.Floor(40)
	r.Assume("success = ImportBlocks returns nil; stored = block map/operations/states readable from the destination Center and block files from its local fs; merged = visible through the Center and the merge callback (Center.MergeAllPermanent as in launch) ran after block B became visible",
		"an error return is never judged (with a setLastVoteproofsFunc that fails on not-found, as the syncer's does, a lost last batch surfaces as an error)")

	s, err := c15GetSource()
	if err != nil {
		t.Fatalf("source chain: %+v", err)
	}

	seed := int(r.Seed)
	idx := 0
	nErr := 0
	firstErr := ""

	var cases []c15Case

	for count := 1; count <= c15MaxCount; count++ {
		for limit := 1; limit <= c15MaxCount; limit++ {
			multiple := count%limit == 0

			if !r.Thorough() {
				pick := (multiple && (count <= 12 || count == 24)) || (count == limit && (count == 16 || count == 33 || count == 40)) ||
					(count*41+limit+seed)%67 == 0
				if !pick {
					continue
				}
			}

			idx++
			if !r.Mine(idx) {
				continue
			}

			c := c15Case{Count: count, Limit: limit}
			c.From = (count*7 + limit*3 + seed) % (c15MaxFrom + 1)
			if (count+limit+seed)%3 == 0 {
				c.From = 0
			}

			// the nil variant is the one that can report success wrongly; keep it the majority
			c.Lvps = (count+2*limit+seed)%4 == 0

			cases = append(cases, c)
		}
	}

	// the imports are independent: run up to 4 at a time, judge them in enumeration order on the test goroutine
	type result struct {
		d   *bbDest
		out c15Outcome
		err error
	}

	results := make([]chan result, len(cases))
	sem := make(chan struct{}, 4)
	stop := make(chan struct{})

	for i := range cases {
		results[i] = make(chan result, 1)
	}

	go func() {
		for i := range cases {
			select {
			case sem <- struct{}{}:
			case <-stop:
				return
			}

			go func(i int) {
				defer func() { <-sem }()

				d, out, err := c15Run(s, cases[i])
				results[i] <- result{d: d, out: out, err: err}
			}(i)
		}
	}()

	defer func() { // also on a violation (Goexit): stop launching, wait for the imports in flight, remove their directories
		close(stop)

		for i := 0; i < cap(sem); i++ {
			sem <- struct{}{}
		}

		for i := range results {
			select {
			case res := <-results[i]:
				if res.d != nil {
					res.d.Close()
				}
			default:
			}
		}
	}()

	for i, c := range cases {
		res := <-results[i]
		if res.err != nil {
			t.Fatalf("prepare %+v: %+v", c, res.err)
		}

		d, out := res.d, res.out
		count, limit := c.Count, c.Limit
		multiple := count%limit == 0

		func() {
			defer d.Close()

			c15Check(t, r, s, c, d, out)
		}()

		nontrivial := multiple || count > limit
		classes := []string{fmt.Sprintf("from:%d", c.From), fmt.Sprintf("lvps:%v", c.Lvps)}

		switch {
		case multiple && count > limit:
			classes = append(classes, "shape:multiple-batches-last-full")
		case multiple:
			classes = append(classes, "shape:one-full-batch")
		case count > limit:
			classes = append(classes, "shape:multiple-batches-last-partial")
		default:
			classes = append(classes, "shape:one-partial-batch")
		}

		if out.Err != nil {
			nErr++
			classes = append(classes, "result:error")

			if firstErr == "" {
				firstErr = fmt.Sprintf("%+v: %s", c, bbErrStr(out.Err))
			}
		} else {
			classes = append(classes, "result:success")
		}

		r.Case(fmt.Sprintf("%d|%d|%d|%v", c.From, c.Count, c.Limit, c.Lvps), nontrivial, classes...)

		if nontrivial && multiple && r.WantSample() {
			r.Sample(map[string]any{"from": c.From, "to": c.To(), "count": c.Count, "batch_limit": c.Limit, "set_last_voteproofs": c.Lvps,
				"result_error": bbErrStr(out.Err), "merge_callback_calls": out.MergeCalls})
		}
	}

	// the source chain is valid, so every import must go through; an import that fails says nothing about the statement
	// and a run made of failures would be vacuous (on the unfixed tree the setLastVoteproofs variant fails for multiples)
	r.Extra("imports_returning_error", nErr)

	if nErr*2 > len(cases) && !r.Failed() {
		t.Fatalf("more than half of the imports of a valid chain failed (%d of %d), cannot decide; first: %s", nErr, len(cases), firstErr)
	}

	r.Exhaustive(r.Thorough())
}
