package p_blockb

import (
	"compress/gzip"
	"context"
	"crypto/sha256"
	"encoding/hex"
	"errors"
	"fmt"
	"io"
	"os"
	"path/filepath"
	"sort"
	"strings"
	"sync"
	"sync/atomic"
	"testing"

	"github.com/spikeekips/mitum/base"
	"github.com/spikeekips/mitum/isaac"
	isaacblock "github.com/spikeekips/mitum/isaac/block"
	leveldbstorage "github.com/spikeekips/mitum/storage/leveldb"
	"github.com/spikeekips/mitum/util"
	"verif/internal/chain"
	"verif/internal/ev"
	"verif/internal/gen"
)

// ---- source chain (built once per process through the production path)

const (
	c15MaxCount = 40
	c15MaxFrom  = 3
	c15Top      = c15MaxFrom + c15MaxCount - 1 // highest source height
)

type c15Src struct {
	W      *chain.World
	Blocks []bbBlock // by height, read back from the source's local fs
	// model: for every height h, the value every key must have when the chain is cut at h
	KeysAt []map[string]base.State
	// by height: item types of the block map (in the map's order) and the checksum the signed block map records for each
	Items [][]base.BlockItemType
	Sums  []map[base.BlockItemType]string
}

var (
	c15Once   sync.Once
	c15Source *c15Src
	c15SrcErr error
)

func c15GetSource() (*c15Src, error) {
	c15Once.Do(func() {
		c15Source, c15SrcErr = c15Build()
	})

	return c15Source, c15SrcErr
}

func c15Build() (*c15Src, error) {
	w, err := chain.New(chain.Opts{NSuffrage: 3})
	if err != nil {
		return nil, err
	}

	bbOnExit(w.Close)

	cand := gen.Local(5)

	for h := base.Height(1); h <= c15Top; h++ {
		var ops []base.Operation

		// every block: two keys of its own and one key shared by all blocks (so "last version wins" is observable)
		ops = append(ops, chain.NewFillerOperation(fmt.Sprintf("c15-f%d", h),
			[]string{fmt.Sprintf("c15-a-%03d", h), fmt.Sprintf("c15-b-%03d", h), "c15-shared"},
			[]string{fmt.Sprintf("va%d", h), fmt.Sprintf("vb%d", h), fmt.Sprintf("vs%d", h)}, gen.Local(9)))

		switch h {
		case 2: // a suffrage candidate ...
			ops = append(ops, chain.CandidateOp("c15-cand", cand, cand))
		case 4: // ... joins: blocks 0 and 4 carry a suffrage state (importer builds a suffrage proof for them)
			ops = append(ops, chain.JoinOp("c15-join", cand.Address(), 3, append([]base.LocalNode{cand}, w.Members()...)))
		}

		if _, err := w.NextBlock(ops, nil, chain.ProcOpts{}); err != nil {
			return nil, fmt.Errorf("source block %d: %w", h, err)
		}
	}

	if len(w.Members()) != 4 {
		return nil, fmt.Errorf("source chain: join did not happen (members %d)", len(w.Members()))
	}

	s := &c15Src{W: w}
	cur := map[string]base.State{}

	for h := base.GenesisHeight; h <= c15Top; h++ {
		b, err := bbReadBlock(w.Readers, h)
		if err != nil {
			return nil, err
		}

		if err := isaacblock.IsValidBlockFromLocalFS(w.Readers.Item, h, w.NetworkID, nil, nil, nil); err != nil {
			return nil, fmt.Errorf("source block %d does not validate: %w", h, err)
		}

		s.Blocks = append(s.Blocks, b)

		// the content checksums of the block map are the reference for "the files of this block"; c15ItemSum must
		// reproduce them from the source's own files, otherwise the file comparison of the oracle would be meaningless
		var types []base.BlockItemType

		sums := map[base.BlockItemType]string{}

		b.Map.Items(func(item base.BlockMapItem) bool {
			types = append(types, item.Type())
			sums[item.Type()] = item.Checksum()

			return true
		})

		for _, it := range types {
			switch sum, found, err := c15ItemSum(w.Readers, h, it); {
			case err != nil, !found:
				return nil, fmt.Errorf("source block %d item %s: found=%v %w", h, it, found, err)
			case sum != sums[it]:
				return nil, fmt.Errorf("source block %d item %s: checksum of the file content %s, block map says %s", h, it, sum, sums[it])
			}
		}

		s.Items = append(s.Items, types)
		s.Sums = append(s.Sums, sums)

		next := make(map[string]base.State, len(cur)+len(b.States))
		for k, v := range cur {
			next[k] = v
		}

		for _, st := range b.States {
			next[st.Key()] = st
		}

		s.KeysAt = append(s.KeysAt, next)
		cur = next
	}

	return s, nil
}

// Imports in which one block cannot be stored/merged (the statement is "success only if EVERY block ... stored and merged").
const (
	c15FaultNone = ""
	// every write to the destination leveldb storage fails (fault controller H3) while the merge step of block FaultAt
	// (the func returned by BlockImporter.Save: Center.MergeBlockWriteDatabase) runs
	c15FaultMerge = "storage-merge"
	// the same while BlockImporter.Save of block FaultAt runs (after the other Saves of its batch have returned, a legal schedule)
	c15FaultSave = "storage-save"
	// the destination already holds 0..Prefix-1 with Prefix > From (import command with --from-height below the last
	// block: it only asks for block From-1 to exist): the Center refuses block From, its height is not last+1
	c15FaultReimport = "reimport"
	// the destination holds 0..Prefix-1 with 1 <= Prefix < From: the Center refuses block From
	c15FaultGap = "gap"
)

type c15Case struct {
	From, Count, Limit int
	Lvps               bool // pass a setLastVoteproofsFunc (like the syncer) or nil (like launch.ImportBlocks)
	Prefix             int  // the destination holds 0..Prefix-1 before ImportBlocks (== From unless reimport/gap)
	Fault              string
	FaultAt            int // height of the block that cannot be stored/merged (reimport/gap: From)
	// what is already under the destination's local-fs root (besides the files of 0..Prefix-1) before ImportBlocks
	Left     []c15Left
	LeftTemp bool
}

func (c c15Case) To() int { return c.From + c.Count - 1 }

// Top is the last height the destination must have after a successful import.
func (c c15Case) Top() int {
	if c.Prefix-1 > c.To() {
		return c.Prefix - 1
	}

	return c.To()
}

// FaultBatchSize is the number of importers in the batch that holds block FaultAt.
func (c c15Case) FaultBatchSize() int {
	first := (c.FaultAt - c.From) / c.Limit * c.Limit // index of the first block of that batch
	if n := c.Count - first; n < c.Limit {
		return n
	}

	return c.Limit
}

func (c c15Case) String() string {
	s := fmt.Sprintf("import %d..%d (count %d) batch limit %d lvps=%v", c.From, c.To(), c.Count, c.Limit, c.Lvps)

	switch c.Fault {
	case c15FaultNone:
	case c15FaultMerge, c15FaultSave:
		s += fmt.Sprintf(" fault=%s at block %d (batch of %d)", c.Fault, c.FaultAt, c.FaultBatchSize())
	default:
		s += fmt.Sprintf(" fault=%s destination holds 0..%d (block %d in a batch of %d)", c.Fault, c.Prefix-1, c.FaultAt, c.FaultBatchSize())
	}

	if len(c.Left) > 0 || c.LeftTemp {
		s += fmt.Sprintf(" left-overs under the local-fs root before the import (height:kind): %s", c15LeftString(c.Left, c.LeftTemp))
	}

	return s
}

// BatchSizeOf is the number of importers in the batch that holds the block of height h.
func (c c15Case) BatchSizeOf(h int) int {
	return c15Case{From: c.From, Count: c.Count, Limit: c.Limit, FaultAt: h}.FaultBatchSize()
}

type c15Outcome struct {
	Err        error
	MergeCalls int
	// LastMergeSaw is the Center's last block height when the merge callback was last called
	LastMergeSaw base.Height
	LvpsCalled   bool
	LvpsFound    bool
	LvpsHeight   base.Height
	// observed at the merge func handed to every BlockImporter (wired like launch): result of the last run per height
	MergeOK  map[int]bool
	MergeErr map[int]string
	Fired    int64 // writes refused by the fault controller
	// after an error return: blocks of the range visible in the Center whose block files are gone (informational)
	VisibleWithoutFiles int
}

// ---- left-overs: what an earlier, interrupted import (or a roll back of the database without its files) left under the
// local-fs root of the destination before ImportBlocks runs. LocalFSImporter moves the files of a block into
// <root>/<height directory> and writes <root>/<parent>/<height>.json in Save, before the block write database is merged;
// a process that dies in between leaves exactly that behind, and the next import of the range finds it.

const (
	// the block's own height directory and <height>.json, as a completed LocalFSImporter.Save leaves them
	c15LeftReal = "own-files"
	// the files of another block under this height (the database was rolled back, the files of the abandoned block stayed)
	c15LeftForeign = "other-block-files"
	// height directory with the first half of one item file and a stray file, no <height>.json
	c15LeftPartial = "partial-files"
	// height directory with a stray file and a <height>.json that does not decode
	c15LeftJunkJSON = "junk-and-junk-json"
	// empty height directory
	c15LeftEmpty = "empty-directory"
	// only <height>.json (of the block itself), no height directory
	c15LeftJSONOnly = "json-only"
)

var c15LeftKinds = []string{c15LeftReal, c15LeftPartial, c15LeftForeign, c15LeftEmpty, c15LeftJunkJSON, c15LeftJSONOnly}

type c15Left struct {
	Height int
	Kind   string
}

func c15LeftString(ls []c15Left, temp bool) string {
	var sl []string
	for _, l := range ls {
		sl = append(sl, fmt.Sprintf("%d:%s", l.Height, l.Kind))
	}

	if temp {
		sl = append(sl, "temp")
	}

	return strings.Join(sl, ",")
}

func c15CopyFile(src, dst string, half bool) error {
	b, err := os.ReadFile(src)
	if err != nil {
		return err
	}

	if half {
		b = b[:len(b)/2]
	}

	if err := os.MkdirAll(filepath.Dir(dst), 0o700); err != nil {
		return err
	}

	return os.WriteFile(dst, b, 0o600)
}

func c15DirFiles(dir string) ([]string, error) {
	es, err := os.ReadDir(dir)
	if err != nil {
		return nil, err
	}

	var names []string

	for _, e := range es {
		if !e.IsDir() {
			names = append(names, e.Name())
		}
	}

	sort.Strings(names)

	if len(names) < 1 {
		return nil, fmt.Errorf("no files in %s", dir)
	}

	return names, nil
}

func c15CopyHeightDir(srcroot string, srch int, dstroot string, dsth int) error {
	sd := filepath.Join(srcroot, isaac.BlockHeightDirectory(base.Height(srch)))
	dd := filepath.Join(dstroot, isaac.BlockHeightDirectory(base.Height(dsth)))

	names, err := c15DirFiles(sd)
	if err != nil {
		return err
	}

	for _, n := range names {
		if err := c15CopyFile(filepath.Join(sd, n), filepath.Join(dd, n), false); err != nil {
			return err
		}
	}

	return nil
}

// c15Plant writes the left-overs of the case under the destination root.
func c15Plant(s *c15Src, d *bbDest, c c15Case) error {
	srcroot := s.W.Root
	junk := []byte("c15: left over by an interrupted import\n")

	for _, l := range c.Left {
		h := base.Height(l.Height)
		dir := filepath.Join(d.Root, isaac.BlockHeightDirectory(h))
		jsonf := isaac.BlockItemFilesPath(d.Root, h)

		if _, err := os.Stat(dir); err == nil {
			return fmt.Errorf("left-over %d: height directory already there", l.Height)
		}

		var err error

		switch l.Kind {
		case c15LeftReal:
			if err = c15CopyHeightDir(srcroot, l.Height, d.Root, l.Height); err == nil {
				err = c15CopyFile(isaac.BlockItemFilesPath(srcroot, h), jsonf, false)
			}
		case c15LeftForeign:
			other := l.Height + 1
			if other > c15Top {
				other = l.Height - 1
			}

			if err = c15CopyHeightDir(srcroot, other, d.Root, l.Height); err == nil {
				err = c15CopyFile(isaac.BlockItemFilesPath(srcroot, base.Height(other)), jsonf, false)
			}
		case c15LeftPartial:
			sd := filepath.Join(srcroot, isaac.BlockHeightDirectory(h))

			var names []string

			if names, err = c15DirFiles(sd); err == nil {
				n := names[l.Height%len(names)]
				if err = c15CopyFile(filepath.Join(sd, n), filepath.Join(dir, n), true); err == nil {
					err = os.WriteFile(filepath.Join(dir, "left-over"), junk, 0o600)
				}
			}
		case c15LeftJunkJSON:
			if err = os.MkdirAll(dir, 0o700); err == nil {
				if err = os.WriteFile(filepath.Join(dir, "left-over"), junk, 0o600); err == nil {
					err = os.WriteFile(jsonf, junk, 0o600)
				}
			}
		case c15LeftEmpty:
			err = os.MkdirAll(dir, 0o700)
		case c15LeftJSONOnly:
			err = c15CopyFile(isaac.BlockItemFilesPath(srcroot, h), jsonf, false)
		default:
			err = fmt.Errorf("unknown kind %q", l.Kind)
		}

		if err != nil {
			return fmt.Errorf("left-over %d %s: %w", l.Height, l.Kind, err)
		}
	}

	if c.LeftTemp { // the temp directory of an importer that never reached Save
		td := filepath.Join(d.Root, isaacblock.BlockTempDirectoryPrefix, fmt.Sprintf("%d-c15leftover", c.From))
		if err := os.MkdirAll(td, 0o700); err != nil {
			return err
		}

		if err := os.WriteFile(filepath.Join(td, "left-over"), junk, 0o600); err != nil {
			return err
		}
	}

	return nil
}

// c15ItemSum is the hex SHA-256 of the (decompressed) content of the file of one block item under a local-fs root:
// the checksum a block map records for the item.
func c15ItemSum(readers *isaac.BlockItemReaders, h base.Height, it base.BlockItemType) (sum string, found bool, err error) {
	found, err = readers.Reader(h, it, func(f io.Reader, compressFormat string) error {
		switch compressFormat {
		case "":
		case "gz":
			gr, err := gzip.NewReader(f)
			if err != nil {
				return err
			}

			defer gr.Close()

			f = gr
		default:
			return fmt.Errorf("unknown compress format %q", compressFormat)
		}

		hh := sha256.New()
		if _, err := io.Copy(hh, f); err != nil {
			return err
		}

		sum = hex.EncodeToString(hh.Sum(nil))

		return nil
	})

	return sum, found, err
}

// c15FilesOf compares the files of block h under the destination's local-fs root with the source: the block map file
// decodes to the source's block map and the content of the file of every item of that map has the checksum the signed
// map records. problem "" when they match; missing when a file is not there or cannot be read at all.
func c15FilesOf(s *c15Src, fresh *isaac.BlockItemReaders, h int) (missing bool, problem string) {
	switch m, found, err := isaac.BlockItemReadersDecode[base.BlockMap](fresh.Item, base.Height(h), base.BlockItemMap, nil); {
	case err != nil:
		return true, fmt.Sprintf("block map file unreadable: %s", bbErrStr(err))
	case !found:
		return true, "block map file not found"
	default:
		if err := base.IsEqualBlockMap(s.Blocks[h].Map, m); err != nil {
			return false, fmt.Sprintf("block map file differs from the source: %v", err)
		}
	}

	for _, it := range s.Items[h] {
		switch sum, found, err := c15ItemSum(fresh, base.Height(h), it); {
		case !found && (err == nil || errors.Is(err, util.ErrNotFound)):
			return true, fmt.Sprintf("file of item %s not found", it)
		case err != nil:
			return true, fmt.Sprintf("file of item %s unreadable: %s", it, bbErrStr(err))
		case sum != s.Sums[h][it]:
			return false, fmt.Sprintf("content of the file of item %s has checksum %s, the block map says %s", it, sum, s.Sums[h][it])
		}
	}

	return false, ""
}

// ---- fault injection + observation of the per-block merge step

var c15ErrInjected = errors.New("c15: injected storage fault")

type c15Probe struct {
	sync.Mutex
	cond       *sync.Cond
	batchSaved int // storage-save: Saves of the other blocks of the faulted block's batch that have returned
	armed      atomic.Bool
	fired      atomic.Int64
	mergeOK    map[int]bool
	mergeErr   map[int]string
}

var c15Probes sync.Map // *leveldbstorage.Storage -> *c15Probe

func c15FaultController(st *leveldbstorage.Storage, _ string, _ int) error {
	i, found := c15Probes.Load(st)
	if !found {
		return nil
	}

	p := i.(*c15Probe) //nolint:forcetypeassert //...
	if !p.armed.Load() {
		return nil
	}

	p.fired.Add(1)

	return c15ErrInjected
}

// c15SaveFaultImporter arms the fault while the Save of the case's block runs. The Saves of one batch run concurrently;
// the faulted one is held back until the others of its batch have returned (a legal schedule), so that the refused
// writes are exactly those of that block.
type c15SaveFaultImporter struct {
	isaac.BlockImporter
	p       *c15Probe
	fault   bool
	waitFor int // fault: Saves of the same batch to wait for
}

func (im *c15SaveFaultImporter) Save(ctx context.Context) (func(context.Context) error, error) {
	p := im.p

	if !im.fault {
		deferred, err := im.BlockImporter.Save(ctx)

		p.Lock()
		p.batchSaved++
		p.cond.Broadcast()
		p.Unlock()

		return deferred, err
	}

	p.Lock()
	for p.batchSaved < im.waitFor {
		p.cond.Wait()
	}
	p.Unlock()

	p.armed.Store(true)
	defer p.armed.Store(false)

	return im.BlockImporter.Save(ctx)
}

// c15NewImporter is bbDest.newImporter (wired like launch.ImportBlocks) plus the observation of the merge step and the
// fault window of the case.
func c15NewImporter(d *bbDest, p *c15Probe, c c15Case) func(base.BlockMap) (isaac.BlockImporter, error) {
	encs, _ := gen.Encoders()

	return func(m base.BlockMap) (isaac.BlockImporter, error) {
		h := int(m.Manifest().Height())

		bwdb, err := d.DB.NewBlockWriteDatabase(m.Manifest().Height())
		if err != nil {
			return nil, err
		}

		im, err := isaacblock.NewBlockImporter(d.Root, encs, m, bwdb,
			func(context.Context) error {
				fault := c.Fault == c15FaultMerge && h == c.FaultAt
				if fault {
					p.armed.Store(true)
				}

				err := d.DB.MergeBlockWriteDatabase(bwdb)

				if fault {
					p.armed.Store(false)
				}

				p.Lock()
				p.mergeOK[h] = err == nil
				if err != nil {
					p.mergeErr[h] = bbErrStr(err)
				}
				p.Unlock()

				return err
			},
			gen.NetworkID,
		)
		if err != nil || c.Fault != c15FaultSave {
			return im, err
		}

		first := c.From + (c.FaultAt-c.From)/c.Limit*c.Limit // first block of the batch of the faulted block
		if h < first || h >= first+c.FaultBatchSize() {
			return im, nil
		}

		return &c15SaveFaultImporter{BlockImporter: im, p: p, fault: h == c.FaultAt, waitFor: c.FaultBatchSize() - 1}, nil
	}
}

// c15Run prepares a destination that already holds 0..Prefix-1 (imported block by block, not through ImportBlocks) and
// runs the real ImportBlocks wired like launch.ImportBlocks.
func c15Run(s *c15Src, c c15Case) (*bbDest, c15Outcome, error) {
	d, err := bbNewDest()
	if err != nil {
		return nil, c15Outcome{}, err
	}

	for h := 0; h < c.Prefix; h++ {
		if stored, step, err := bbImportOne(d, s.W.Readers, s.Blocks[h].Map); !stored {
			d.Close()

			return nil, c15Outcome{}, fmt.Errorf("prefix block %d: %s: %w", h, step, err)
		}
	}

	if c.Prefix > 0 {
		if err := d.DB.MergeAllPermanent(); err != nil {
			d.Close()

			return nil, c15Outcome{}, err
		}
	}

	if err := c15Plant(s, d, c); err != nil {
		d.Close()

		return nil, c15Outcome{}, err
	}

	var out c15Outcome

	p := &c15Probe{mergeOK: map[int]bool{}, mergeErr: map[int]string{}}
	p.cond = sync.NewCond(&p.Mutex)

	c15Probes.Store(d.St, p)
	defer c15Probes.Delete(d.St)

	var lvpsf func([2]base.Voteproof, bool) error
	if c.Lvps {
		lvpsf = func(vps [2]base.Voteproof, found bool) error {
			out.LvpsCalled = true
			out.LvpsFound = found

			if !found { // launch.setLastVoteproofsfFromBlockReaderFunc
				return fmt.Errorf("last voteproofs not found")
			}

			out.LvpsHeight = vps[1].Point().Height()

			return nil
		}
	}

	out.Err = isaacblock.ImportBlocks(
		context.Background(),
		base.Height(c.From), base.Height(c.To()),
		int64(c.Limit),
		d.Readers, // launch passes the destination's readers
		bbMapFunc(s.W.Readers),
		bbItemFunc(s.W.Readers),
		c15NewImporter(d, p, c),
		lvpsf,
		func(context.Context) error {
			out.MergeCalls++
			out.LastMergeSaw = base.NilHeight

			if m, found, _ := d.DB.LastBlockMap(); found {
				out.LastMergeSaw = m.Manifest().Height()
			}

			return d.DB.MergeAllPermanent()
		},
	)

	p.armed.Store(false)
	out.MergeOK, out.MergeErr, out.Fired = p.mergeOK, p.mergeErr, p.fired.Load()

	if out.Err != nil && c.Prefix == c.From {
		for h := c.From; h <= c.To(); h++ {
			if _, found, _ := d.DB.BlockMap(base.Height(h)); !found {
				continue
			}

			if _, found, err := isaac.BlockItemReadersDecode[base.BlockMap](d.Readers.Item, base.Height(h), base.BlockItemMap, nil); err != nil || !found {
				out.VisibleWithoutFiles++
			}
		}
	}

	return d, out, nil
}

// c15FilesSig: a block that is in the database while its files are not in the local fs has its own root cause (the
// files were never moved in place, or were taken away afterwards); a block missing from both keeps the signature of the
// missing block.
func c15FilesSig(sig string, inDB bool) string {
	if inDB {
		return "missing-block-files"
	}

	return sig
}

// c15Check is the oracle: success => every block From..To is stored and merged.
func c15Check(t ev.TB, r *ev.Rec, s *c15Src, c c15Case, d *bbDest, out c15Outcome) {
	if out.Err != nil {
		return // no success reported: the statement says nothing (counted by the caller)
	}

	to := base.Height(c.To())
	top := base.Height(c.Top()) // == to unless the destination already held later blocks (reimport)
	desc := c.String()

	encs, _ := gen.Encoders()

	fresh := isaac.NewBlockItemReaders(d.Root, encs, nil)
	defer fresh.Close()

	if err := fresh.Add(isaacblock.LocalFSWriterHint, isaacblock.NewDefaultItemReaderFunc(3)); err != nil {
		t.Fatalf("readers: %v", err)
	}

	// success => every block merged: a merge step (the func handed to the BlockImporter, Center.MergeBlockWriteDatabase as
	// in launch) whose last run for a height of the range failed means that block is not merged. A merge step that never
	// ran is left to the comparison of the stored data below.
	for h := c.From; h <= c.To(); h++ {
		if ok, ran := out.MergeOK[h]; ran && !ok {
			r.Violation(t, "merge-failure-reported-as-success",
				"%s: ImportBlocks returned nil but the merge step of block %d (in a batch of %d importers) failed: %s",
				desc, h, c15Case{From: c.From, Count: c.Count, Limit: c.Limit, FaultAt: h}.FaultBatchSize(), out.MergeErr[h])
		}
	}

	// root-cause signature: blocks of a full last batch that are missing while everything before them is there
	sig := "missing-block"

	if c.Count%c.Limit == 0 && c.Fault == c15FaultNone {
		firstMissing := -1

		for h := c.From; h <= c.To(); h++ {
			if _, found, _ := d.DB.BlockMap(base.Height(h)); !found {
				firstMissing = h

				break
			}
		}

		if firstMissing == c.To()-c.Limit+1 {
			sig = "last-full-batch-unsaved"
		}
	}

	switch m, found, err := d.DB.LastBlockMap(); {
	case err != nil:
		t.Fatalf("LastBlockMap: %v", err)
	case !found:
		r.Violation(t, sig, "%s: ImportBlocks returned nil but the database has no last block map (want height %d)", desc, top)
	case m.Manifest().Height() != top:
		r.Violation(t, sig, "%s: ImportBlocks returned nil but the last stored height is %d, want %d", desc, m.Manifest().Height(), top)
	}

	for h := c.From; h <= c.To(); h++ {
		b := s.Blocks[h]

		inDB := false

		switch m, found, err := d.DB.BlockMap(base.Height(h)); {
		case err != nil:
			t.Fatalf("BlockMap: %v", err)
		case !found:
			r.Violation(t, sig, "%s: success but block map of height %d is not in the database", desc, h)
		default:
			inDB = true

			if err := base.IsEqualBlockMap(b.Map, m); err != nil {
				r.Violation(t, "stored-block-differs", "%s: stored block map of height %d differs from the source: %v", desc, h, err)
			}
		}

		// local fs of the destination, through the readers ImportBlocks was given ...
		switch m, found, err := isaac.BlockItemReadersDecode[base.BlockMap](d.Readers.Item, base.Height(h), base.BlockItemMap, nil); {
		case err != nil:
			r.Violation(t, c15FilesSig(sig, inDB), "%s: success but the block files of height %d are unreadable: %v", desc, h, err)
		case !found:
			r.Violation(t, c15FilesSig(sig, inDB), "%s: success but the block files of height %d are not in the local fs", desc, h)
		default:
			if err := base.IsEqualBlockMap(b.Map, m); err != nil {
				r.Violation(t, "stored-block-differs", "%s: stored block files of height %d differ from the source: %v", desc, h, err)
			}
		}

		// ... and file by file (readers without a cache): the block map file and the file of every item of the block
		switch missing, problem := c15FilesOf(s, fresh, h); {
		case problem == "":
		case missing:
			r.Violation(t, c15FilesSig(sig, inDB), "%s: success but block %d is not stored in the local fs: %s", desc, h, problem)
		default:
			r.Violation(t, "stored-block-differs", "%s: success but the stored files of block %d are not those of the block: %s", desc, h, problem)
		}

		for _, op := range b.Ops {
			if found, err := d.DB.ExistsKnownOperation(op.Hash()); err != nil || !found {
				r.Violation(t, sig, "%s: success but operation %s of height %d is not known to the database (err %v)", desc, op.Hash(), h, err)
			}
		}

		for _, st := range b.States {
			for _, oph := range st.Operations() {
				if found, err := d.DB.ExistsInStateOperation(oph); err != nil || !found {
					r.Violation(t, sig, "%s: success but in-state operation %s of height %d is missing (err %v)", desc, oph, h, err)
				}
			}
		}
	}

	// "so the last stored height is B": the blocks below A that the destination had stored before the import (it was
	// prepared with 0..Prefix-1) are still stored, the import of A..B must not take their files away
	for h := 0; h < c.Prefix && h < c.From; h++ {
		if missing, problem := c15FilesOf(s, fresh, h); problem != "" {
			sg := "stored-block-differs"
			if missing {
				sg = "missing-block-files"
			}

			r.Violation(t, sg, "%s: success but block %d, stored in the local fs before the import, is not any more: %s", desc, h, problem)
		}
	}

	// every key has the version of the chain cut at the last height (not judged when blocks below From were never given
	// to the destination: their keys cannot be there)
	keys := s.KeysAt[c.Top()]
	if c.Prefix < c.From {
		keys = nil
	}

	for k, want := range keys {
		switch got, found, err := d.DB.State(k); {
		case err != nil:
			t.Fatalf("State: %v", err)
		case !found:
			r.Violation(t, sig, "%s: success but state %q (height %d) is not in the database", desc, k, want.Height())
		case !base.IsEqualState(want, got):
			r.Violation(t, sig, "%s: success but state %q has height %d, want the version of height %d", desc, k, got.Height(), want.Height())
		}
	}

	// merged: the merge callback (launch: Center.MergeAllPermanent) ran after the last block became visible in the Center
	if out.MergeCalls < 1 || out.LastMergeSaw != top {
		r.Violation(t, "not-merged", "%s: success but the last of %d merge callbacks ran when the Center's last height was %d, want %d",
			desc, out.MergeCalls, out.LastMergeSaw, top)
	}

	if c.Lvps && (!out.LvpsCalled || !out.LvpsFound || out.LvpsHeight != to) {
		r.Violation(t, "last-voteproofs", "%s: success but last voteproofs callback called=%v found=%v height=%d", desc, out.LvpsCalled, out.LvpsFound, out.LvpsHeight)
	}

	// the suffrage proof the importer built for the last suffrage block must be there
	wantSuf := base.Height(0)
	if c.Top() >= 4 {
		wantSuf = 1
	}

	switch proof, found, err := d.DB.LastSuffrageProof(); {
	case err != nil:
		t.Fatalf("LastSuffrageProof: %v", err)
	case !found:
		r.Violation(t, sig, "%s: success but no suffrage proof in the database", desc)
	case proof.SuffrageHeight() != wantSuf:
		r.Violation(t, sig, "%s: success but last suffrage height is %d, want %d", desc, proof.SuffrageHeight(), wantSuf)
	}
}

func TestC15(t *testing.T) {
	r := ev.Start(t, "C15")
	defer r.Finish()
	r.Rule("source chain of 43 production-path blocks (filler states incl. one key rewritten by every block, candidate at 2, join at 4); " +
		"deterministic enumeration of (count 1..40, batch limit 1..40) pairs — thorough: all 1600 pairs, quick: every pair with count a multiple of limit and count<=12 or count==24, " +
		"(16,16) (33,33) (40,40), plus a seed-rotated sample of the rest; import start From in 0..3 (prefix imported block by block) and " +
		"setLastVoteproofsFunc nil (launch.ImportBlocks) or set (syncer) derived from (count, limit, seed); real ImportBlocks + BlockImporter + Center over a fresh mem leveldb. " +
		"non-trivial: count%limit==0 or count>limit; distinct by (from,count,limit,lvps). " +
		"Plus imports in which one block cannot be stored/merged — (count, limit, position of that block) enumerated for count 1..6 x limit 1..7 (thorough 1..12 x 1..13) and a few larger shapes with count%limit==1, " +
		"so that the block sits in a batch of exactly one importer (limit 1, one-block range, last batch with remainder 1) or first/middle/last in a larger batch, in the first/middle/last batch: " +
		"storage-merge (every write to the destination leveldb fails, fault controller H3, while that block's merge step runs), and per (count, limit) one of storage-save (the same during that block's BlockImporter.Save), " +
		"reimport (destination already holds blocks >= From, as the import command allows: the Center refuses block From) and gap (destination ends below From-1). " +
		"non-trivial there: the failure was observed (a refused write or a failed merge step); distinct by (from,count,limit,lvps,fault,block,prefix). " +
		"Plus imports over left-overs — the destination's local-fs root is not fresh: before ImportBlocks one or two heights inside the range (and/or the height right above it) already have a height directory and/or <height>.json " +
		"(the block's own files as a completed LocalFSImporter.Save leaves them before the database merge, the files of another block as after a roll back, half of one item file plus a stray file, a stray file plus an undecodable <height>.json, an empty directory, <height>.json alone) " +
		"and optionally a stale importer temp directory; (count, limit, position) for count 1..6 x limit 1..7 (quick: the last block and one rotating position; thorough: every position, 1..12 x 1..13) and larger shapes incl. limit 1 and remainder 1, " +
		"so that the left-over height is saved alone in its batch or with others, in the first or a later batch; every block can be stored, success is expected and judged by the same oracle. distinct by (..., left-overs)")
	r.Floor(120)
	r.Assume("stored in the local fs = under the destination root the block map file of the height decodes to the source's block map and the content of the file of every item of that map has the checksum the signed block map records (read with readers that have no cache; the source's own files are checked the same way first); "+
		"a block that is in the database after a nil return while its files are missing is signature missing-block-files; the blocks below A that the destination had stored before the import must still be stored after it (the last stored height is B means 0..B are there); "+
		"left-over height directories / <height>.json under the import root are a state real nodes reach (LocalFSImporter.Save moves the files in place before the database merge; a crash in between, or a database roll back, leaves them) and LocalFSImporter anticipates (it replaces an existing height directory); what remains of left-overs outside A..B is not judged",
		"success = ImportBlocks returns nil; stored = block map/operations/states readable from the destination Center and block files from its local fs; merged = visible through the Center and the merge callback (Center.MergeAllPermanent as in launch) ran after block B became visible",
		"an error return is never judged (with a setLastVoteproofsFunc that fails on not-found, as the syncer's does, a lost last batch surfaces as an error)",
		"the merge step of a block is the func handed to its BlockImporter (Center.MergeBlockWriteDatabase of its block write database, as launch wires it); ImportBlocks has no other way to merge a block, "+
			"so success while the last run of that func for a height of the range returned an error is a violation; what an import that returns an error leaves behind is not judged (only counted)")

	leveldbstorage.VerifSetFaultController(c15FaultController)
	defer leveldbstorage.VerifSetFaultController(nil)

	s, err := c15GetSource()
	if err != nil {
		t.Fatalf("source chain: %+v", err)
	}

	seed := int(r.Seed)
	idx := 0
	nErr, nPlainErr, nVisibleWithoutFiles := 0, 0, 0
	nFaultCases, nFaultObserved := map[string]int{}, map[string]int{}
	nLeftCases, nLeftSuccess := 0, 0
	firstErr := ""

	var cases []c15Case

	for count := 1; count <= c15MaxCount; count++ {
		for limit := 1; limit <= c15MaxCount; limit++ {
			multiple := count%limit == 0

			if !r.Thorough() {
				pick := (multiple && (count <= 12 || count == 24)) || (count == limit && (count == 16 || count == 33 || count == 40)) ||
					(count*41+limit+seed)%67 == 0
				if !pick {
					continue
				}
			}

			idx++
			if !r.Mine(idx) {
				continue
			}

			c := c15Case{Count: count, Limit: limit}
			c.From = (count*7 + limit*3 + seed) % (c15MaxFrom + 1)
			if (count+limit+seed)%3 == 0 {
				c.From = 0
			}

			c.Prefix = c.From

			// the nil variant is the one that can report success wrongly; keep it the majority
			c.Lvps = (count+2*limit+seed)%4 == 0

			cases = append(cases, c)
		}
	}

	nPlain := len(cases)

	// ---- imports in which one block cannot be stored/merged
	addFault := func(count, limit, pos int, fault string) {
		idx++
		if !r.Mine(idx) {
			return
		}

		x := count*5 + limit*3 + pos + seed
		c := c15Case{Count: count, Limit: limit, Fault: fault, Lvps: x%4 == 0}

		switch fault {
		case c15FaultReimport:
			c.From = x % (c15MaxFrom + 1)
			c.Prefix = c.From + 1 + (x/4)%3
			c.FaultAt = c.From
		case c15FaultGap:
			c.From = 2 + x%(c15MaxFrom-1)
			c.Prefix = 1 + (x/2)%(c.From-1)
			c.FaultAt = c.From
		default:
			c.From = x % (c15MaxFrom + 1)
			c.Prefix = c.From
			c.FaultAt = c.From + pos
		}

		cases = append(cases, c)
	}

	maxCount, maxLimit := r.N(6, 12), r.N(7, 13)

	for count := 1; count <= maxCount; count++ {
		for limit := 1; limit <= maxLimit; limit++ {
			for pos := 0; pos < count; pos++ {
				addFault(count, limit, pos, c15FaultMerge)
			}

			others := []string{c15FaultSave, c15FaultReimport, c15FaultGap}

			if r.Thorough() {
				for pos := 0; pos < count; pos++ {
					addFault(count, limit, pos, c15FaultSave)
				}

				addFault(count, limit, 0, c15FaultReimport)
				addFault(count, limit, 0, c15FaultGap)
			} else {
				addFault(count, limit, (count+limit+seed)%count, others[(count*2+limit+seed)%3])
			}
		}
	}

	// larger ranges whose last batch holds one importer (count%limit==1), the unmerged block last, first or in the middle
	for _, cl := range [][2]int{{13, 4}, {13, 12}, {25, 8}, {34, 3}, {40, 39}, {37, 6}} {
		if !r.Thorough() && !(cl == [2]int{13, 4} || cl == [2]int{13, 12} || cl == [2]int{34, 3}) {
			continue
		}

		addFault(cl[0], cl[1], cl[0]-1, c15FaultMerge)

		if r.Thorough() {
			addFault(cl[0], cl[1], 0, c15FaultMerge)
			addFault(cl[0], cl[1], cl[0]/2, c15FaultMerge)
			addFault(cl[0], cl[1], cl[0]-1, c15FaultSave)
		}
	}

	// ---- imports over left-overs: the local-fs root of the destination is not fresh. Every block of the range can be
	// stored, so these imports are expected to succeed like the plain ones and are judged by the same oracle.
	addLeft := func(count, limit, pos, salt int) {
		idx++
		if !r.Mine(idx) {
			return
		}

		x := count*11 + limit*5 + pos*3 + salt + seed
		c := c15Case{Count: count, Limit: limit, Lvps: x%5 == 0, LeftTemp: x%2 == 0}
		c.From = x % (c15MaxFrom + 1)
		c.Prefix = c.From

		c.Left = append(c.Left, c15Left{Height: c.From + pos, Kind: c15LeftKinds[x%len(c15LeftKinds)]})

		switch (x / 2) % 3 {
		case 0: // a second one inside the range
			if p2 := (pos + 1 + x/7%count) % count; p2 != pos {
				c.Left = append(c.Left, c15Left{Height: c.From + p2, Kind: c15LeftKinds[(x/3)%len(c15LeftKinds)]})
			}
		case 1: // one right above the range
			c.Left = append(c.Left, c15Left{Height: c.To() + 1, Kind: c15LeftKinds[(x/3)%len(c15LeftKinds)]})
		}

		cases = append(cases, c)
	}

	for count := 1; count <= maxCount; count++ {
		for limit := 1; limit <= maxLimit; limit++ {
			if r.Thorough() {
				for pos := 0; pos < count; pos++ {
					addLeft(count, limit, pos, 0)
				}

				addLeft(count, limit, count-1, 1)

				continue
			}

			// quick: the last block of the range (everything before it has been saved when its batch is saved; alone in
			// its batch when limit is 1 or the remainder is 1) and one more position
			addLeft(count, limit, count-1, 0)

			if pos := (count*3 + limit + seed) % count; pos != count-1 {
				addLeft(count, limit, pos, 1)
			}
		}
	}

	for _, cl := range [][2]int{{13, 4}, {13, 12}, {12, 1}, {34, 3}, {24, 8}, {37, 6}} {
		if !r.Thorough() && cl[0] > 13 {
			continue
		}

		addLeft(cl[0], cl[1], cl[0]-1, 2)
		addLeft(cl[0], cl[1], cl[0]/2, 3)

		if r.Thorough() {
			addLeft(cl[0], cl[1], 0, 4)
			addLeft(cl[0], cl[1], cl[0]-2, 5)
		}
	}

	// the imports are independent: run up to 4 at a time, judge them in enumeration order on the test goroutine
	type result struct {
		d   *bbDest
		out c15Outcome
		err error
	}

	results := make([]chan result, len(cases))
	sem := make(chan struct{}, 4)
	stop := make(chan struct{})

	for i := range cases {
		results[i] = make(chan result, 1)
	}

	go func() {
		for i := range cases {
			select {
			case sem <- struct{}{}:
			case <-stop:
				return
			}

			go func(i int) {
				defer func() { <-sem }()

				d, out, err := c15Run(s, cases[i])
				results[i] <- result{d: d, out: out, err: err}
			}(i)
		}
	}()

	defer func() { // also on a violation (Goexit): stop launching, wait for the imports in flight, remove their directories
		close(stop)

		for i := 0; i < cap(sem); i++ {
			sem <- struct{}{}
		}

		for i := range results {
			select {
			case res := <-results[i]:
				if res.d != nil {
					res.d.Close()
				}
			default:
			}
		}
	}()

	for i, c := range cases {
		res := <-results[i]
		if res.err != nil {
			t.Fatalf("prepare %+v: %+v", c, res.err)
		}

		d, out := res.d, res.out
		count, limit := c.Count, c.Limit
		multiple := count%limit == 0

		func() {
			defer d.Close()

			c15Check(t, r, s, c, d, out)
		}()

		nontrivial := multiple || count > limit
		classes := []string{fmt.Sprintf("from:%d", c.From), fmt.Sprintf("lvps:%v", c.Lvps)}

		if c.Fault != c15FaultNone {
			observed := out.Fired > 0
			for _, ok := range out.MergeOK {
				observed = observed || !ok
			}

			nontrivial = observed
			nFaultCases[c.Fault]++
			if observed {
				nFaultObserved[c.Fault]++
			}
			nVisibleWithoutFiles += out.VisibleWithoutFiles

			classes = append(classes, "fault:"+c.Fault, fmt.Sprintf("fault-observed:%v", observed))

			switch n := c.FaultBatchSize(); {
			case n == 1:
				classes = append(classes, "fault-batch:one-importer")
			case n == 2:
				classes = append(classes, "fault-batch:two-importers")
			default:
				classes = append(classes, "fault-batch:more-importers")
			}

			switch first := (c.FaultAt - c.From) / c.Limit * c.Limit; {
			case first+c.Limit >= c.Count:
				classes = append(classes, "fault-in:last-batch")
			default:
				classes = append(classes, "fault-in:earlier-batch")
			}

			if _, ran := out.MergeOK[c.FaultAt]; ran {
				classes = append(classes, "fault-reached:merge-step")
			} else {
				classes = append(classes, "fault-reached:before-merge-step")
			}
		} else {
			classes = append(classes, "fault:none")
		}

		if len(c.Left) > 0 {
			nLeftCases++
			if out.Err == nil {
				nLeftSuccess++
			}

			for i, l := range c.Left {
				classes = append(classes, "left-over:"+l.Kind)

				switch {
				case l.Height > c.To():
					classes = append(classes, "left-over-at:above-range")
				case i > 0:
					classes = append(classes, "left-over-at:second-in-range")
				default:
					switch n := c.BatchSizeOf(l.Height); {
					case n == 1:
						classes = append(classes, "left-over-batch:one-importer")
					default:
						classes = append(classes, "left-over-batch:more-importers")
					}

					switch {
					case l.Height-c.From < c.Limit:
						classes = append(classes, "left-over-in:first-batch")
					default:
						classes = append(classes, "left-over-in:later-batch")
					}
				}
			}

			classes = append(classes, fmt.Sprintf("left-over-temp:%v", c.LeftTemp))
			nontrivial = true
		} else {
			classes = append(classes, "left-over:none")
		}

		switch {
		case multiple && count > limit:
			classes = append(classes, "shape:multiple-batches-last-full")
		case multiple:
			classes = append(classes, "shape:one-full-batch")
		case count > limit:
			classes = append(classes, "shape:multiple-batches-last-partial")
		default:
			classes = append(classes, "shape:one-partial-batch")
		}

		if out.Err != nil {
			nErr++
			classes = append(classes, "result:error")

			if c.Fault == c15FaultNone && len(c.Left) == 0 {
				nPlainErr++

				if firstErr == "" {
					firstErr = fmt.Sprintf("%+v: %s", c, bbErrStr(out.Err))
				}
			}
		} else {
			classes = append(classes, "result:success")
		}

		r.Case(fmt.Sprintf("%d|%d|%d|%v|%s|%d|%d|%s", c.From, c.Count, c.Limit, c.Lvps, c.Fault, c.FaultAt, c.Prefix, c15LeftString(c.Left, c.LeftTemp)), nontrivial, classes...)

		if nontrivial && (multiple || (c.Fault != c15FaultNone && c.FaultBatchSize() == 1) || len(c.Left) > 0) && r.WantSample() {
			r.Sample(map[string]any{"from": c.From, "to": c.To(), "count": c.Count, "batch_limit": c.Limit, "set_last_voteproofs": c.Lvps,
				"fault": c.Fault, "fault_block": c.FaultAt, "fault_batch_importers": c.FaultBatchSize(), "destination_held_before": c.Prefix,
				"left_overs_before_import": c15LeftString(c.Left, c.LeftTemp),
				"result_error": bbErrStr(out.Err), "merge_callback_calls": out.MergeCalls, "writes_refused": out.Fired})
		}
	}

	// the source chain is valid, so every import must go through; an import that fails says nothing about the statement
	// and a run made of failures would be vacuous (on the unfixed tree the setLastVoteproofs variant fails for multiples)
	r.Extra("imports_returning_error", nErr)
	r.Extra("fault_free_imports_returning_error", nPlainErr)
	r.Extra("fault_imports_with_observed_failure", nFaultObserved)
	r.Extra("error_returns_blocks_visible_in_center_without_files", nVisibleWithoutFiles)

	if nPlainErr*2 > nPlain && !r.Failed() {
		t.Fatalf("more than half of the fault-free imports of a valid chain failed (%d of %d), cannot decide; first: %s", nPlainErr, nPlain, firstErr)
	}

	r.Extra("left_over_imports", nLeftCases)
	r.Extra("left_over_imports_returning_success", nLeftSuccess)

	// every block of a left-over import can be stored; if none of them reports success the oracle never ran on the class
	if nLeftCases > 0 && nLeftSuccess == 0 && !r.Failed() {
		t.Fatalf("none of the %d imports over left-overs returned success, cannot decide", nLeftCases)
	}

	// the fault classes must reach the code: a run in which no injected storage fault fired / no merge was refused is vacuous
	if !r.Failed() {
		for _, f := range []string{c15FaultMerge, c15FaultSave, c15FaultReimport, c15FaultGap} {
			if nFaultCases[f] > 0 && nFaultObserved[f] == 0 {
				t.Fatalf("none of the %d %q imports hit its failure (fault controller not consulted / block not refused)", nFaultCases[f], f)
			}
		}
	}

	r.Exhaustive(r.Thorough())
}
