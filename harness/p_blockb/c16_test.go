package p_blockb

import (
	"bytes"
	"context"
	"fmt"
	"os"
	"path/filepath"
	"sort"
	"strings"
	"testing"
	"time"

	"github.com/spikeekips/mitum/base"
	"github.com/spikeekips/mitum/isaac"
	isaacblock "github.com/spikeekips/mitum/isaac/block"
	"github.com/spikeekips/mitum/util"
	"github.com/spikeekips/mitum/util/fixedtree"
	"github.com/spikeekips/mitum/util/hint"
	"github.com/spikeekips/mitum/util/valuehash"
	"pgregory.net/rapid"
	"verif/internal/ev"
	"verif/internal/gen"
)

// c16Items is everything a sync source serves for one block.
type c16Items struct {
	Manifest base.Manifest
	Proposal base.ProposalSignFact
	Ops      []base.Operation
	OpsTree  fixedtree.Tree
	States   []base.State
	StsTree  fixedtree.Tree
	IVP      base.INITVoteproof
	AVP      base.ACCEPTVoteproof
	// serve a tree item even when the tree has no nodes (a tree file whose header says "0 nodes")
	EmptyOpsTreeFile bool
	EmptyStsTreeFile bool
	// items left out of the (re-signed) block map: the source does not serve them at all
	Withheld []base.BlockItemType
}

func c16FromBlock(b bbBlock) c16Items {
	it := c16Items{Manifest: b.Map.Manifest(), Proposal: b.Proposal, OpsTree: b.OpsTree, StsTree: b.StsTree}
	it.Ops = append([]base.Operation(nil), b.Ops...)
	it.States = append([]base.State(nil), b.States...)
	it.IVP, _ = b.VPs[0].(base.INITVoteproof)
	it.AVP, _ = b.VPs[1].(base.ACCEPTVoteproof)

	return it
}

// c16Inconsistent is the oracle: which clauses of the statement the served items break (empty = consistent with the
// manifest). Written from the statement; trees are re-hashed with the reference Merkle computation.
func c16Inconsistent(it c16Items) (bad []string) {
	m := it.Manifest

	// proposal must match the manifest
	if it.Proposal == nil || it.Proposal.Point().Height() != m.Height() || !it.Proposal.Fact().Hash().Equal(m.Proposal()) {
		bad = append(bad, "proposal")
	}

	// operations must match the manifest's operations-tree root
	func() {
		if len(it.Ops) < 1 && it.OpsTree.Len() < 1 {
			if m.OperationsTree() != nil {
				bad = append(bad, "operations")
			}

			return
		}

		keys := bbTreeKeys(it.OpsTree)
		if m.OperationsTree() == nil || !bytes.Equal(bbRefRoot(keys), m.OperationsTree().Bytes()) {
			bad = append(bad, "operations")

			return
		}

		// the served tree is what binds the items to the root: every node of it has to carry the hash of its key and children
		if c16WrongNodeHash(it.OpsTree) >= 0 {
			bad = append(bad, "operations")

			return
		}

		var a, b []string

		for _, k := range keys {
			a = append(a, strings.TrimSuffix(k, "-"))
		}

		for _, op := range it.Ops {
			b = append(b, op.Fact().Hash().String())
		}

		sort.Strings(a)
		sort.Strings(b)

		if strings.Join(a, ",") != strings.Join(b, ",") {
			bad = append(bad, "operations")
		}
	}()

	// states must match the manifest's states-tree root
	func() {
		if len(it.States) < 1 && it.StsTree.Len() < 1 {
			if m.StatesTree() != nil {
				bad = append(bad, "states")
			}

			return
		}

		keys := bbTreeKeys(it.StsTree)
		if m.StatesTree() == nil || !bytes.Equal(bbRefRoot(keys), m.StatesTree().Bytes()) {
			bad = append(bad, "states")

			return
		}

		if c16WrongNodeHash(it.StsTree) >= 0 {
			bad = append(bad, "states")

			return
		}

		a := append([]string(nil), keys...)

		var b []string

		for _, st := range it.States {
			b = append(b, st.Hash().String())

			if st.Height() != m.Height() {
				bad = append(bad, "states")

				return
			}
		}

		sort.Strings(a)
		sort.Strings(b)

		if strings.Join(a, ",") != strings.Join(b, ",") {
			bad = append(bad, "states")
		}
	}()

	// voteproofs: for the manifest's point ...
	switch {
	case it.IVP == nil || it.AVP == nil:
		bad = append(bad, "voteproof-point")
	case it.IVP.Point().Height() != m.Height() || it.AVP.Point().Height() != m.Height() ||
		it.IVP.Point().Round() != it.AVP.Point().Round() ||
		it.IVP.Point().Stage() != base.StageINIT || it.AVP.Point().Stage() != base.StageACCEPT:
		bad = append(bad, "voteproof-point")
	}

	// NOT judged: the round of the voteproofs against the round of the proposal the manifest commits to. A base.Manifest
	// has a height and a proposal hash, no round: "the manifest's point" is read as its height plus INIT and ACCEPT at one
	// and the same point. Such blocks are generated and counted as a class (see c16RoundNotOfProposal), not reported.

	// ... with an ACCEPT majority for the manifest hash
	if it.AVP != nil {
		mj := it.AVP.BallotMajority()
		if it.AVP.Result() != base.VoteResultMajority || mj == nil || !mj.NewBlock().Equal(m.Hash()) {
			bad = append(bad, "accept-majority")
		}
	}

	return bad
}

// c16RoundNotOfProposal: the served proposal is the one the manifest commits to (fact hash), and a voteproof is of
// another point (height, round) than that proposal. Used for class counting only, never for the verdict.
func c16RoundNotOfProposal(it c16Items) bool {
	if it.Proposal == nil || it.IVP == nil || it.AVP == nil || !it.Proposal.Fact().Hash().Equal(it.Manifest.Proposal()) {
		return false
	}

	return !it.IVP.Point().Point.Equal(it.Proposal.Point()) || !it.AVP.Point().Point.Equal(it.Proposal.Point())
}

// c16OtherRound draws a round of the same height other than r (a later round, or an earlier one if there is one).
func c16OtherRound(rt *rapid.T, r base.Round) base.Round {
	d := rapid.SampledFrom([]int{1, 2, 7, -1}).Draw(rt, "roundDelta")
	if d < 0 && r < 1 {
		d = 1
	}

	return base.Round(int64(r) + int64(d))
}

// c16OnlyEmptyAgainstRoot: all broken clauses are operations/states served as nothing at all (no items, tree of zero
// nodes) while the manifest commits to a root.
func c16OnlyEmptyAgainstRoot(it c16Items, bad []string) bool {
	for _, b := range bad {
		switch {
		case b == "operations" && len(it.Ops) < 1 && it.OpsTree.Len() < 1 && it.Manifest.OperationsTree() != nil:
		case b == "states" && len(it.States) < 1 && it.StsTree.Len() < 1 && it.Manifest.StatesTree() != nil:
		default:
			return false
		}
	}

	return len(bad) > 0
}

// c16RefHashes: the reference Merkle hash of every node, computed from the node keys alone (node i has children 2i+1 and
// 2i+2; hash = SHA3-256(key || hash(left) || hash(right))). Nothing stored in the tree but the keys is used.
func c16RefHashes(keys []string) [][]byte {
	n := len(keys)
	hs := make([][]byte, n)

	for i := n - 1; i >= 0; i-- {
		b := []byte(keys[i])

		if l := 2*i + 1; l < n {
			b = append(b, hs[l]...)
		}

		if r := 2*i + 2; r < n {
			b = append(b, hs[r]...)
		}

		hs[i] = valuehash.NewSHA256(b).Bytes()
	}

	return hs
}

// c16WrongNodeHash: index of the first node whose stored hash is not the reference hash of its key and children, -1 if
// the tree is internally consistent.
func c16WrongNodeHash(tr fixedtree.Tree) int {
	hs := c16RefHashes(bbTreeKeys(tr))

	for i := range hs {
		if h := tr.Node(uint64(i)).Hash(); h == nil || !bytes.Equal(h.Bytes(), hs[i]) {
			return i
		}
	}

	return -1
}

// c16OnlyTreeNotHashingToRoot: every broken clause is of the shape "the served tree claims the manifest's root in its
// root node, but its nodes do not hash to it" (a node key or a node hash inside the tree is not what the root commits to).
func c16OnlyTreeNotHashingToRoot(it c16Items, bad []string) bool {
	shape := func(tr fixedtree.Tree, root util.Hash) bool {
		if tr.Len() < 1 || root == nil || tr.Root() == nil || !tr.Root().Equal(root) {
			return false
		}

		return c16WrongNodeHash(tr) >= 0
	}

	for _, b := range bad {
		switch {
		case b == "operations" && shape(it.OpsTree, it.Manifest.OperationsTree()):
		case b == "states" && shape(it.StsTree, it.Manifest.StatesTree()):
		default:
			return false
		}
	}

	return len(bad) > 0
}

// c16StoredNodeHash: SHA3-256(key || stored hash of the left child || stored hash of the right child): the hash a node
// gets when only this node is re-hashed and its children are taken as they are.
func c16StoredNodeHash(nodes []fixedtree.Node, i int) util.Hash {
	b := []byte(nodes[i].Key())

	if l := 2*i + 1; l < len(nodes) {
		b = append(b, nodes[l].Hash().Bytes()...)
	}

	if r := 2*i + 2; r < len(nodes) {
		b = append(b, nodes[r].Hash().Bytes()...)
	}

	return valuehash.NewSHA256(b)
}

// c16TamperTreeNode returns a copy of tr in which node p is replaced by nn (nil: node p keeps its key) and the hashes are
// set by mode: "kept" the node keeps the stored hash of the original node p; "foreign" the node gets the hash fh;
// "node" only node p is re-hashed over its key and its children's stored hashes; "path" node p and all its ancestors are
// re-hashed (a consistent tree); "foreign-path" node p gets fh and all its ancestors are re-hashed over it.
func c16TamperTreeNode(tr fixedtree.Tree, p int, nn fixedtree.Node, mode string, fh util.Hash) (fixedtree.Tree, error) {
	nodes := append([]fixedtree.Node(nil), tr.Nodes()...)
	if p < 0 || p >= len(nodes) {
		return fixedtree.Tree{}, fmt.Errorf("node %d out of %d", p, len(nodes))
	}

	orig := nodes[p]
	if nn == nil {
		nn = orig
	}

	up := false

	switch mode {
	case "kept":
		nodes[p] = nn.SetHash(orig.Hash())
	case "foreign", "foreign-path":
		nodes[p] = nn.SetHash(fh)
		up = mode == "foreign-path"
	case "node", "path":
		nodes[p] = nn
		nodes[p] = nn.SetHash(c16StoredNodeHash(nodes, p))
		up = mode == "path"
	default:
		return fixedtree.Tree{}, fmt.Errorf("unknown hash mode %q", mode)
	}

	for i := p; up && i > 0; {
		i = (i - 1) / 2
		nodes[i] = nodes[i].SetHash(c16StoredNodeHash(nodes, i))
	}

	return fixedtree.NewTree(tr.Hint(), nodes)
}

// c16NodePosition draws a node position of a tree of n nodes: where = "leaf" (no children), "inner" (has children; a
// tree of one node has none, its only node is taken) or "any".
func c16NodePosition(rt *rapid.T, n int, where string) (p int, desc, full string) {
	firstLeaf := n / 2 // node i has children iff 2i+1 < n

	switch {
	case where == "leaf":
		p = rapid.IntRange(firstLeaf, n-1).Draw(rt, "leafNode")
	case where == "inner" && firstLeaf > 0:
		p = rapid.IntRange(0, firstLeaf-1).Draw(rt, "innerNode")
	default:
		p = rapid.IntRange(0, n-1).Draw(rt, "node")
	}

	switch {
	case p == 0 && n == 1:
		desc = "root=only leaf"
	case p == 0:
		desc = "root"
	case p >= firstLeaf:
		desc = "leaf"
	default:
		desc = "inner"
	}

	return p, desc, fmt.Sprintf("node %d/%d (%s)", p, n, desc)
}

// c16ResignWithout replaces the block map under root by one with the same manifest and the same items and checksums except
// the withheld item types, signed by signer, in the file format LocalFSWriter gave the original map file (its header
// line is kept). The production LocalFSWriter always lists a `states` item next to a states tree, so a source that
// withholds the item has to build its map itself.
func c16ResignWithout(root string, h base.Height, m base.BlockMap, signer base.LocalNode, withheld []base.BlockItemType) (base.BlockMap, error) {
	encs, enc := gen.Encoders()

	nm := isaacblock.NewBlockMap()
	nm.SetManifest(m.Manifest())

	var serr error

	m.Items(func(item base.BlockMapItem) bool {
		for _, t := range withheld {
			if item.Type() == t {
				return true
			}
		}

		serr = nm.SetItem(item)

		return serr == nil
	})

	if serr != nil {
		return nil, serr
	}

	if err := nm.Sign(signer.Address(), signer.Privatekey(), gen.NetworkID); err != nil {
		return nil, err
	}

	name, err := isaacblock.DefaultBlockItemFileName(base.BlockItemMap, enc.Hint().Type())
	if err != nil {
		return nil, err
	}

	dir := filepath.Join(root, isaac.BlockHeightDirectory(h))
	path := filepath.Join(dir, name)

	old, err := os.ReadFile(path)
	if err != nil {
		return nil, err
	}

	i := bytes.IndexByte(old, '\n')
	if i < 0 || !bytes.HasPrefix(old, []byte("# ")) {
		return nil, fmt.Errorf("map file %s has no header line", path)
	}

	buf := bytes.NewBuffer(append([]byte(nil), old[:i+1]...))
	if err := enc.StreamEncoder(buf).Encode(nm); err != nil {
		return nil, err
	}

	if err := os.WriteFile(path, buf.Bytes(), 0o600); err != nil {
		return nil, err
	}

	// the withheld item files are not served
	for _, t := range withheld {
		if fname, err := isaacblock.DefaultBlockItemFileName(t, enc.Hint().Type()); err == nil {
			_ = os.Remove(filepath.Join(dir, fname))
		}
	}

	// read it back the way the importing node's ImportBlocksBlockMapFunc does
	readers := isaac.NewBlockItemReaders(root, encs, nil)
	if err := readers.Add(isaacblock.LocalFSWriterHint, isaacblock.NewDefaultItemReaderFunc(3)); err != nil {
		return nil, err
	}

	switch rm, found, err := isaac.BlockItemReadersDecode[base.BlockMap](readers.Item, h, base.BlockItemMap, nil); {
	case err != nil:
		return nil, err
	case !found:
		return nil, fmt.Errorf("re-signed map not found")
	default:
		if err := rm.IsValid(gen.NetworkID); err != nil {
			return nil, fmt.Errorf("re-signed map: %w", err)
		}

		for _, t := range withheld {
			if _, found := rm.Item(t); found {
				return nil, fmt.Errorf("re-signed map still lists %s", t)
			}
		}

		return rm, nil
	}
}

// c16Validate runs the repository's block validator on the block files under readers.
func c16Validate(readers *isaac.BlockItemReaders, h base.Height) error {
	return isaacblock.IsValidBlockFromLocalFS(readers.Item, h, gen.NetworkID, nil, nil, nil)
}

func c16StatesTree(sts []base.State) (fixedtree.Tree, error) {
	w, err := fixedtree.NewWriter(base.StateFixedtreeHint, uint64(len(sts)))
	if err != nil {
		return fixedtree.Tree{}, err
	}

	for i := range sts {
		if err := w.Add(uint64(i), fixedtree.NewBaseNode(sts[i].Hash().String())); err != nil {
			return fixedtree.Tree{}, err
		}
	}

	if err := w.Write(func(uint64, fixedtree.Node) error { return nil }); err != nil {
		return fixedtree.Tree{}, err
	}

	return w.Tree()
}

// c16Write serves the items as block files under root through the production LocalFSWriter: item checksums are
// computed over what is written and the block map is signed by signer.
func c16Write(root string, h base.Height, it c16Items, signer base.LocalNode) (base.BlockMap, error) {
	_, enc := gen.Encoders()
	ctx := context.Background()

	w, err := isaacblock.NewLocalFSWriter(root, h, enc, enc, signer, gen.NetworkID)
	if err != nil {
		return nil, err
	}

	fail := func(err error) (base.BlockMap, error) {
		_ = w.Cancel()

		return nil, err
	}

	if err := w.SetProposal(ctx, it.Proposal); err != nil {
		return fail(err)
	}

	for i := range it.Ops {
		if err := w.SetOperation(ctx, uint64(len(it.Ops)), uint64(i), it.Ops[i]); err != nil {
			return fail(err)
		}
	}

	switch {
	case it.OpsTree.Len() > 0:
		if err := w.SetOperationsTree(ctx, it.OpsTree); err != nil {
			return fail(err)
		}
	case it.EmptyOpsTreeFile:
		if err := w.SetOperationsTree(ctx, fixedtree.Tree{BaseHinter: hint.NewBaseHinter(base.OperationFixedtreeHint)}); err != nil {
			return fail(err)
		}
	}

	for i := range it.States {
		if err := w.SetState(ctx, uint64(len(it.States)), uint64(i), it.States[i]); err != nil {
			return fail(err)
		}
	}

	switch {
	case it.StsTree.Len() > 0:
		if err := w.SetStatesTree(ctx, it.StsTree); err != nil {
			return fail(err)
		}
	case it.EmptyStsTreeFile:
		if err := w.SetStatesTree(ctx, fixedtree.Tree{BaseHinter: hint.NewBaseHinter(base.StateFixedtreeHint)}); err != nil {
			return fail(err)
		}
	}

	if err := w.SetManifest(ctx, it.Manifest); err != nil {
		return fail(err)
	}

	if err := w.SetINITVoteproof(ctx, it.IVP); err != nil {
		return fail(err)
	}

	if err := w.SetACCEPTVoteproof(ctx, it.AVP); err != nil {
		return fail(err)
	}

	m, err := w.Save(ctx)
	if err != nil {
		return fail(err)
	}

	return m, nil
}

var c16Kinds = []string{
	"rewritten-untampered",
	"foreign-states-tree", "extra-state", "missing-state", "altered-state", "states-and-tree-rebuilt",
	"all-states-dropped", "states-dropped-tree-emptied",
	"state-leaf-rekeyed", "state-inner-node-rekeyed", "state-node-rekeyed-rehashed", "states-tree-node-rekeyed", "states-tree-node-hash-changed",
	"operation-leaf-rekeyed", "operation-inner-node-rekeyed", "operation-node-rekeyed-rehashed", "operations-tree-node-rekeyed", "operations-tree-node-hash-changed",
	"operation-missing", "operation-foreign", "foreign-operations-tree", "operations-and-tree-of-other-block",
	"all-operations-dropped", "operations-dropped-tree-emptied",
	"proposal-other-block", "proposal-same-point-other-fact",
	"voteproofs-other-block", "accept-majority-other-block",
	"init-voteproof-other-round", "accept-voteproof-other-round", "voteproofs-other-round",
	"manifest-other-states-root", "manifest-other-operations-root", "manifest-other-proposal",
	"file-swapped-after-signing",
}

type c16Tamper struct {
	Kind    string
	Height  int
	Other   int
	Detail  string
	Node    string // position class of the tampered tree node, if any
	Swapped bool
}

func c16Apply(rt *rapid.T, s *c15Src, tm *c16Tamper, it *c16Items) {
	h := base.Height(tm.Height)
	other := s.Blocks[tm.Other]
	label := fmt.Sprintf("c16-%d-%d-%s", tm.Height, tm.Other, tm.Kind)
	must := func(err error) {
		if err != nil {
			rt.Fatalf("tamper %s: %+v", tm.Kind, err)
		}
	}

	pick := func(n int, name string) int { return rapid.IntRange(0, n-1).Draw(rt, name) }

	switch tm.Kind {
	case "rewritten-untampered", "file-swapped-after-signing":
	case "foreign-states-tree":
		it.StsTree = other.StsTree
	case "extra-state":
		it.States = append(it.States, base.NewBaseState(h, "c16-extra", base.NewDummyStateValue("x"), nil, []util.Hash{gen.H(label)}))
	case "missing-state":
		i := pick(len(it.States), "dropState")
		it.States = append(it.States[:i:i], it.States[i+1:]...)
		tm.Detail = fmt.Sprintf("drop %d/%d", i, len(it.States)+1)
	case "altered-state", "states-and-tree-rebuilt":
		i := pick(len(it.States), "alterState")
		st := it.States[i]
		it.States[i] = base.NewBaseState(h, st.Key(), base.NewDummyStateValue("altered-"+label), st.Previous(), st.Operations())
		tm.Detail = fmt.Sprintf("alter %d/%d (%s)", i, len(it.States), st.Key())

		if tm.Kind == "states-and-tree-rebuilt" {
			tr, err := c16StatesTree(it.States)
			must(err)

			it.StsTree = tr
		}
	case "all-states-dropped":
		// the whole `states` item is withheld (no states file, no map item); the genuine states tree is still served
		tm.Detail = fmt.Sprintf("drop all %d", len(it.States))
		it.States = nil
		it.Withheld = []base.BlockItemType{base.BlockItemStates}
	case "states-dropped-tree-emptied":
		// no states, and the states-tree item is a tree file of zero nodes (the block map needs the item when the manifest
		// has a states root)
		tm.Detail = fmt.Sprintf("drop all %d, tree file of 0 nodes", len(it.States))
		it.States = nil
		it.StsTree = fixedtree.EmptyTree()
		it.EmptyStsTreeFile = true
		it.Withheld = []base.BlockItemType{base.BlockItemStates}
	case "state-leaf-rekeyed", "state-inner-node-rekeyed", "state-node-rekeyed-rehashed", "states-tree-node-rekeyed":
		// the state that sits at one node of the states tree is replaced by a foreign state of this height, and that node is
		// re-keyed to the foreign state's hash. *-leaf-/-inner-node-rekeyed keep the node's stored hash, so every other node,
		// the root included, is untouched and the root still equals the manifest's; -rehashed re-hashes the node alone or the
		// node and its ancestors; states-tree-node-rekeyed re-keys the node and leaves the states as they are
		where, mode := "any", "kept"

		switch tm.Kind {
		case "state-leaf-rekeyed":
			where = "leaf"
		case "state-inner-node-rekeyed":
			where = "inner"
		case "state-node-rekeyed-rehashed":
			mode = rapid.SampledFrom([]string{"node", "path"}).Draw(rt, "hashMode")
		}

		p, pos, pdesc := c16NodePosition(rt, it.StsTree.Len(), where)
		tm.Node = pos
		key := it.StsTree.Node(uint64(p)).Key()
		i := -1

		for j := range it.States {
			if it.States[j].Hash().String() == key {
				i = j
			}
		}

		if i < 0 {
			rt.Fatalf("harness: no state for node %d of the states tree of block %d", p, tm.Height)
		}

		st := it.States[i]
		skey := st.Key()

		if rapid.Bool().Draw(rt, "newStateKey") {
			skey = "c16-foreign-" + label
		}

		foreign := base.NewBaseState(h, skey, base.NewDummyStateValue("foreign-"+label), st.Previous(), st.Operations())

		if tm.Kind != "states-tree-node-rekeyed" {
			it.States[i] = foreign
		}

		tr, err := c16TamperTreeNode(it.StsTree, p, fixedtree.NewBaseNode(foreign.Hash().String()), mode, nil)
		must(err)

		it.StsTree = tr
		tm.Detail = fmt.Sprintf("%s re-keyed to state %q, hash %s", pdesc, skey, mode)
	case "states-tree-node-hash-changed", "operations-tree-node-hash-changed":
		// items and node keys as they are; the stored hash of one node is another hash, alone or with the ancestors re-hashed
		// over it
		trp := &it.StsTree
		if tm.Kind == "operations-tree-node-hash-changed" {
			trp = &it.OpsTree
		}

		mode := rapid.SampledFrom([]string{"foreign", "foreign-path"}).Draw(rt, "hashMode")
		p, pos, pdesc := c16NodePosition(rt, trp.Len(), "any")
		tm.Node = pos

		tr, err := c16TamperTreeNode(*trp, p, nil, mode, gen.H(label+pdesc))
		must(err)

		*trp = tr
		tm.Detail = fmt.Sprintf("%s hash %s", pdesc, mode)
	case "operation-leaf-rekeyed", "operation-inner-node-rekeyed", "operation-node-rekeyed-rehashed", "operations-tree-node-rekeyed":
		// same for the operations tree: the operation at one node is replaced by an operation of another block and the node
		// is re-keyed to its fact hash (in-state flag and reason of the node kept)
		where, mode := "any", "kept"

		switch tm.Kind {
		case "operation-leaf-rekeyed":
			where = "leaf"
		case "operation-inner-node-rekeyed":
			where = "inner"
		case "operation-node-rekeyed-rehashed":
			mode = rapid.SampledFrom([]string{"node", "path"}).Draw(rt, "hashMode")
		}

		p, pos, pdesc := c16NodePosition(rt, it.OpsTree.Len(), where)
		tm.Node = pos

		on, ok := it.OpsTree.Node(uint64(p)).(base.OperationFixedtreeNode)
		if !ok {
			rt.Fatalf("harness: node %d of the operations tree of block %d is %T", p, tm.Height, it.OpsTree.Node(uint64(p)))
		}

		i := -1

		for j := range it.Ops {
			if it.Ops[j].Fact().Hash().Equal(on.Operation()) {
				i = j
			}
		}

		if i < 0 {
			rt.Fatalf("harness: no operation for node %d of the operations tree of block %d", p, tm.Height)
		}

		foreign := other.Ops[pick(len(other.Ops), "otherOp")]

		for j := range it.Ops {
			if it.Ops[j].Fact().Hash().Equal(foreign.Fact().Hash()) {
				rt.Fatalf("harness: operation %d of block %d is also in block %d", j, tm.Height, tm.Other)
			}
		}

		if tm.Kind != "operations-tree-node-rekeyed" {
			it.Ops[i] = foreign
		}

		var reason string
		if on.Reason() != nil {
			reason = on.Reason().Msg()
		}

		var nn fixedtree.Node = base.NewInStateOperationFixedtreeNode(foreign.Fact().Hash(), reason)
		if !on.InState() {
			nn = base.NewNotInStateOperationFixedtreeNode(foreign.Fact().Hash(), reason)
		}

		tr, err := c16TamperTreeNode(it.OpsTree, p, nn, mode, nil)
		must(err)

		it.OpsTree = tr
		tm.Detail = fmt.Sprintf("%s re-keyed to an operation of block %d, hash %s", pdesc, tm.Other, mode)
	case "all-operations-dropped":
		tm.Detail = fmt.Sprintf("drop all %d", len(it.Ops))
		it.Ops = nil
	case "operations-dropped-tree-emptied":
		tm.Detail = fmt.Sprintf("drop all %d, tree file of 0 nodes", len(it.Ops))
		it.Ops = nil
		it.OpsTree = fixedtree.EmptyTree()
		it.EmptyOpsTreeFile = true
	case "operation-missing":
		i := pick(len(it.Ops), "dropOp")
		it.Ops = append(it.Ops[:i:i], it.Ops[i+1:]...)
		tm.Detail = fmt.Sprintf("drop %d/%d", i, len(it.Ops)+1)
	case "operation-foreign":
		i := pick(len(it.Ops), "swapOp")
		it.Ops[i] = other.Ops[pick(len(other.Ops), "otherOp")]
		tm.Detail = fmt.Sprintf("replace %d/%d", i, len(it.Ops))
	case "foreign-operations-tree":
		it.OpsTree = other.OpsTree
	case "operations-and-tree-of-other-block":
		// consistent with each other, not with the manifest
		it.Ops = append([]base.Operation(nil), other.Ops...)
		it.OpsTree = other.OpsTree
	case "proposal-other-block":
		it.Proposal = other.Proposal
	case "proposal-same-point-other-fact":
		it.Proposal = gen.Proposal(it.Proposal.Point(), gen.Local(0), it.Proposal.ProposalFact().PreviousBlock(),
			[][2]util.Hash{{gen.H(label + "op"), gen.H(label + "fact")}})
	case "voteproofs-other-block":
		it.IVP, _ = other.VPs[0].(base.INITVoteproof)
		it.AVP, _ = other.VPs[1].(base.ACCEPTVoteproof)
	case "accept-majority-other-block":
		// same point, valid signatures, but the majority is for another block hash; signed by the attacker's own nodes
		// (a voteproof's IsValid does not know the suffrage) or by the real suffrage (an equivocating majority)
		voters := []base.LocalNode{gen.Local(40), gen.Local(41), gen.Local(42)}
		if rapid.Bool().Draw(rt, "realSigners") {
			voters = nil

			for _, sf := range it.AVP.SignFacts() {
				voters = append(voters, gen.LocalByAddress(sf.Node()))
			}

			tm.Detail = "signed by the suffrage"
		}

		fact := isaac.NewACCEPTBallotFact(it.AVP.Point().Point, it.Manifest.Proposal(), other.Map.Manifest().Hash(), nil)
		it.AVP = gen.FullACCEPTVoteproof(fact, voters, 67, nil)
	case "init-voteproof-other-round", "accept-voteproof-other-round", "voteproofs-other-round":
		// valid voteproofs of the block's height but of another round than the block's (e.g. the INIT voteproof of a drawn
		// earlier round, or of a later round): the INIT alone, the ACCEPT alone (majority still the manifest hash and the
		// manifest's proposal), or both at the same other round. Facts as in the genuine voteproofs except the round; signed
		// by the attacker's own nodes or by the signers of the genuine voteproofs
		imj, amj := it.IVP.BallotMajority(), it.AVP.BallotMajority()
		if imj == nil || amj == nil {
			rt.Fatalf("harness: voteproofs of block %d have no majority", tm.Height)
		}

		point := base.NewPoint(h, c16OtherRound(rt, it.AVP.Point().Round()))
		realSigners := rapid.Bool().Draw(rt, "realSigners")

		voters := func(sfs []base.BallotSignFact) []base.LocalNode {
			if !realSigners {
				return []base.LocalNode{gen.Local(40), gen.Local(41), gen.Local(42)}
			}

			var vs []base.LocalNode

			for _, sf := range sfs {
				vs = append(vs, gen.LocalByAddress(sf.Node()))
			}

			return vs
		}

		if tm.Kind != "accept-voteproof-other-round" {
			fact := isaac.NewINITBallotFact(point, imj.PreviousBlock(), imj.Proposal(), nil)
			it.IVP = gen.FullINITVoteproof(fact, voters(it.IVP.SignFacts()), it.IVP.Threshold(), nil)
		}

		if tm.Kind != "init-voteproof-other-round" {
			fact := isaac.NewACCEPTBallotFact(point, amj.Proposal(), amj.NewBlock(), nil)
			it.AVP = gen.FullACCEPTVoteproof(fact, voters(it.AVP.SignFacts()), it.AVP.Threshold(), nil)
		}

		tm.Detail = fmt.Sprintf("round %d instead of %d, signed by the suffrage: %v", point.Round(), it.Proposal.Point().Round(), realSigners)
	case "manifest-other-states-root":
		m := it.Manifest
		it.Manifest = isaac.NewManifest(m.Height(), m.Previous(), m.Proposal(), m.OperationsTree(), other.Map.Manifest().StatesTree(), m.Suffrage(), m.ProposedAt())
	case "manifest-other-operations-root":
		m := it.Manifest
		it.Manifest = isaac.NewManifest(m.Height(), m.Previous(), m.Proposal(), other.Map.Manifest().OperationsTree(), m.StatesTree(), m.Suffrage(), m.ProposedAt())
	case "manifest-other-proposal":
		m := it.Manifest
		it.Manifest = isaac.NewManifest(m.Height(), m.Previous(), other.Map.Manifest().Proposal(), m.OperationsTree(), m.StatesTree(), m.Suffrage(), m.ProposedAt())
	default:
		rt.Fatalf("unknown kind %s", tm.Kind)
	}
}

func TestC16(t *testing.T) {
	r := ev.Start(t, "C16")
	defer r.Finish()
	r.Rule("blocks 0..42 of a production-path chain (genesis, candidate, join, filler states); per case one block is served from an attacker's directory written with the production LocalFSWriter " +
		"(checksums recomputed, block map re-signed by the attacker or by the original signer) either untouched or with one tampering {states tree of another block, extra / missing / altered state, " +
		"altered states with a consistently rebuilt tree, all states withheld with the genuine tree or with a tree file of zero nodes, missing / foreign operation, foreign operations tree, operations and tree of another block, " +
		"all operations withheld with the genuine tree or with a tree file of zero nodes, " +
		"one node of the states / operations tree (leaf, inner node or root) re-keyed to a foreign state of this height / an operation of another block that replaces the item at that node, with the node's stored hash kept " +
		"(all other nodes and the root untouched, root still the manifest's), the node alone re-hashed or the node and its ancestors re-hashed; the same re-keying with the items left as they are; " +
		"the stored hash of one tree node replaced with or without re-hashing its ancestors; proposal of another block or another proposal for the same point, voteproofs of another block, " +
		"ACCEPT voteproof at the same point whose majority is another block hash, valid INIT / ACCEPT / INIT+ACCEPT voteproofs of the block's height but of another round than the block's (facts otherwise genuine, signed by the suffrage or by the attacker's nodes), manifest re-pointed to another states root / operations root / proposal, item file swapped after signing}; " +
		"imported into a fresh node with the real BlockImporter (WriteMap, WriteItem per item, Save, merge). non-trivial: tampered and every item checksum matches the re-signed map; " +
		"distinct by (height, other height, kind, parameters, signer)")
	r.Floor(int64(r.N(120, 3000)))
	r.Assume("stored := NewBlockImporter + WriteItem for every item of the map + Save + deferred merge all return nil (the per-block part of ImportBlocks)",
		"oracle from the statement, independent of the validator: proposal fact hash and height equal the manifest's; operation fact hashes equal the keys of the served operations tree and its reference root equals the manifest's; "+
			"same for states (hash keys, block height); every node of a served tree carries the reference hash of its key and its children's reference hashes (recomputed from the keys, not with Tree.IsValid); both voteproofs at the manifest's height, same round, INIT/ACCEPT (a manifest has a height and no round: whether that common round is the round of the committed proposal is not judged, blocks with INIT+ACCEPT of another round are generated and only counted); ACCEPT result is a majority whose new-block hash is the manifest hash",
		"differential part: a stored block must pass isaacblock.IsValidBlockFromLocalFS on the destination's files",
		"the validator is judged by the same clauses, independent of the importer: IsValidBlockFromLocalFS run on the served block files (and on the stored ones) must not accept files the clause-by-clause oracle calls inconsistent; "+
			"a validator that rejects consistent served files is not judged",
		"who signed the block map and whether voteproof signers belong to the suffrage are outside the statement; rejecting is never a violation, but real blocks served unchanged must be stored for the run to count")

	s, err := c15GetSource()
	if err != nil {
		t.Fatalf("source chain: %+v", err)
	}

	// baseline: the real blocks, served from the real node's directory, are stored and pass the validator
	for _, h := range []int{0, 1, 2, 4, c15Top} {
		d, err := bbNewDest()
		if err != nil {
			t.Fatalf("%+v", err)
		}

		stored, step, err := bbImportOne(d, s.W.Readers, s.Blocks[h].Map)
		if !stored {
			d.Close()
			t.Fatalf("inconclusive: real block %d is not stored (%s): %+v", h, step, err)
		}

		if bad := c16Inconsistent(c16FromBlock(s.Blocks[h])); len(bad) > 0 {
			d.Close()
			t.Fatalf("harness: oracle calls real block %d inconsistent: %v", h, bad)
		}

		if err := isaacblock.IsValidBlockFromLocalFS(d.Readers.Item, base.Height(h), gen.NetworkID, nil, nil, nil); err != nil {
			d.Close()
			t.Fatalf("harness: imported real block %d fails the validator: %+v", h, err)
		}

		d.Close()
		r.Case(fmt.Sprintf("real|%d", h), false, "kind:real-block")
	}

	r.Checks(300, 12000)
	r.ShrinkTime(20 * time.Second)

	rapid.Check(t, func(rt *rapid.T) {
		tm := c16Tamper{Kind: rapid.SampledFrom(c16Kinds).Draw(rt, "kind")}
		tm.Height = rapid.IntRange(0, c15Top).Draw(rt, "height")
		tm.Other = rapid.IntRange(0, c15Top-1).Draw(rt, "other")

		if tm.Other >= tm.Height {
			tm.Other++
		}

		attackerSigns := rapid.Bool().Draw(rt, "attackerSigns")
		signer := s.W.Local

		if attackerSigns {
			signer = gen.Local(40)
		}

		it := c16FromBlock(s.Blocks[tm.Height])
		c16Apply(rt, s, &tm, &it)

		root, err := os.MkdirTemp("", "verif-blockb-attacker")
		if err != nil {
			rt.Fatalf("%+v", err)
		}

		defer os.RemoveAll(root)

		h := base.Height(tm.Height)

		m, err := c16Write(root, h, it, signer)
		if err != nil {
			rt.Fatalf("harness: cannot write the tampered block %+v: %+v", tm, err)
		}

		if len(it.Withheld) > 0 {
			if m, err = c16ResignWithout(root, h, m, signer, it.Withheld); err != nil {
				rt.Fatalf("harness: cannot re-sign the block map of %+v: %+v", tm, err)
			}
		}

		if tm.Kind == "file-swapped-after-signing" {
			// replace the proposal file by the one of another block; the signed map still has the old checksum
			_, jenc := gen.Encoders()

			name, err := isaacblock.DefaultBlockItemFileName(base.BlockItemProposal, jenc.Hint().Type())
			if err != nil {
				rt.Fatalf("%+v", err)
			}

			b, err := os.ReadFile(filepath.Join(s.W.Root, isaac.BlockHeightDirectory(base.Height(tm.Other)), name))
			if err != nil {
				rt.Fatalf("harness: %+v", err)
			}

			if err := os.WriteFile(filepath.Join(root, isaac.BlockHeightDirectory(h), name), b, 0o600); err != nil {
				rt.Fatalf("harness: %+v", err)
			}

			it.Proposal = s.Blocks[tm.Other].Proposal
			tm.Swapped = true
		}

		encs, _ := gen.Encoders()
		src := isaac.NewBlockItemReaders(root, encs, nil)

		if err := src.Add(isaacblock.LocalFSWriterHint, isaacblock.NewDefaultItemReaderFunc(3)); err != nil {
			rt.Fatalf("%+v", err)
		}

		d, err := bbNewDest()
		if err != nil {
			rt.Fatalf("%+v", err)
		}

		defer d.Close()

		stored, step, ierr := bbImportOne(d, src, m)
		bad := c16Inconsistent(it)
		desc := fmt.Sprintf("block %d served with %s (other block %d, %s, map signed by %s)", tm.Height, tm.Kind, tm.Other, tm.Detail, signer.Address())

		// the repository's validator judged on its own, on the block files exactly as the source serves them (the importer
		// copies item files verbatim, so these are the files a node would hold after storing the block)
		srcVerr := c16Validate(src, h)

		var verr error

		if stored {
			verr = c16Validate(d.Readers, h)

			if len(bad) > 0 {
				sig := "importer-skips-manifest-crosscheck"

				switch {
				case tm.Swapped:
					sig = "item-not-matching-map-checksum-stored"
				case len(bad) == 1 && bad[0] == "accept-majority":
					sig = "accept-majority-not-bound-to-manifest"
				case len(bad) == 1 && bad[0] == "voteproof-point", len(bad) == 2 && bad[0] == "voteproof-point" && bad[1] == "accept-majority":
					sig = "voteproofs-of-other-point-stored"
				}

				r.Violation(rt, sig, "%s: the importer stored the block although its items do not match the manifest in: %s (repository validator on the stored files: %s)",
					desc, strings.Join(bad, ", "), bbErrStr(verr))
			}

			if verr != nil && len(bad) < 1 {
				r.Violation(rt, "stored-block-fails-own-validator", "%s: stored, but IsValidBlockFromLocalFS rejects the stored files: %s", desc, bbErrStr(verr))
			}
		}

		// the validator itself: "pass the repository's own block validator" has to imply every clause of the statement, so a
		// set of block files that breaks a clause and is accepted by IsValidBlockFromLocalFS is a violation whatever the
		// importer did with the block
		if len(bad) > 0 {
			sig := "validator-accepts-inconsistent-block"

			// root cause told apart by the shape of the served items, not by the tampering: every broken clause is "no
			// items and a tree of zero nodes against a non-nil root in the manifest"
			switch {
			case c16OnlyEmptyAgainstRoot(it, bad):
				sig = "validator-accepts-empty-tree-for-manifest-root"
			case c16OnlyTreeNotHashingToRoot(it, bad):
				// the tree carries the manifest's root in its root node, but a node key or node hash below is not what
				// that root commits to
				sig = "validator-accepts-tree-not-hashing-to-its-root"
			}

			switch {
			case stored && verr == nil:
				r.Violation(rt, sig, "%s: IsValidBlockFromLocalFS accepts the stored block files although they do not match the manifest in: %s",
					desc, strings.Join(bad, ", "))
			case srcVerr == nil:
				r.Violation(rt, sig, "%s: IsValidBlockFromLocalFS accepts the served block files although they do not match the manifest in: %s (importer: stored=%v %s %s)",
					desc, strings.Join(bad, ", "), stored, step, bbErrStr(ierr))
			}
		}

		if tm.Kind == "rewritten-untampered" && !attackerSigns && !stored {
			rt.Fatalf("inconclusive: an untampered block rewritten by its own signer is not stored (%s): %+v", step, ierr)
		}

		// voteproofs-other-round is not judged (see c16Inconsistent): it does not count as a non-trivial case
		nontrivial := tm.Kind != "rewritten-untampered" && !tm.Swapped && tm.Kind != "voteproofs-other-round"
		classes := []string{"kind:" + tm.Kind, fmt.Sprintf("attacker-signed:%v", attackerSigns)}

		if stored {
			classes = append(classes, "result:stored")
		} else {
			classes = append(classes, "result:rejected-at-"+strings.SplitN(step, ":", 2)[0])
		}

		if tm.Height == 0 {
			classes = append(classes, "block:genesis")
		}

		if tm.Node != "" {
			classes = append(classes, "tree-node:"+tm.Node)
		}

		if len(bad) < 1 && c16RoundNotOfProposal(it) {
			// INIT and ACCEPT agree with each other and with the manifest's height, but not with the round of the proposal
			// the manifest commits to: outside the judged reading of "the manifest's point"
			if stored {
				classes = append(classes, "voteproofs-other-round-stored(not-judged)")
			} else {
				classes = append(classes, "voteproofs-other-round-rejected(not-judged)")
			}
		}

		if len(bad) > 0 {
			classes = append(classes, "oracle:inconsistent")
		} else {
			classes = append(classes, "oracle:consistent")
		}

		if srcVerr == nil {
			classes = append(classes, "validator-on-served-files:accepts")
		} else {
			classes = append(classes, "validator-on-served-files:rejects")
		}

		r.Case(fmt.Sprintf("%d|%d|%s|%s|%v", tm.Height, tm.Other, tm.Kind, tm.Detail, attackerSigns), nontrivial, classes...)

		if nontrivial && r.WantSample() {
			r.Sample(map[string]any{"height": tm.Height, "other_height": tm.Other, "kind": tm.Kind, "detail": tm.Detail, "map_signed_by": signer.Address().String(),
				"oracle_broken_clauses": bad, "stored": stored, "rejected_at": step, "importer_error": bbErrStr(ierr)})
		}
	})
}
