package p_blockb

import (
	"context"
	"fmt"
	"io"
	"os"
	"sync"
	"testing"

	"github.com/spikeekips/mitum/base"
	"github.com/spikeekips/mitum/isaac"
	isaacblock "github.com/spikeekips/mitum/isaac/block"
	isaacdatabase "github.com/spikeekips/mitum/isaac/database"
	leveldbstorage "github.com/spikeekips/mitum/storage/leveldb"
	"github.com/spikeekips/mitum/util"
	"github.com/spikeekips/mitum/util/fixedtree"
	"github.com/spikeekips/mitum/util/valuehash"
	"verif/internal/chain"
	"verif/internal/gen"
)

// ---- process-wide cleanup of temp dirs / worlds (keep /tmp clean)

var (
	bbCleanMu sync.Mutex
	bbCleans  []func()
)

func bbOnExit(f func()) {
	bbCleanMu.Lock()
	bbCleans = append(bbCleans, f)
	bbCleanMu.Unlock()
}

func TestMain(m *testing.M) {
	code := m.Run()

	bbCleanMu.Lock()
	for i := len(bbCleans) - 1; i >= 0; i-- {
		bbCleans[i]()
	}
	bbCleanMu.Unlock()

	os.Exit(code)
}

// ---- reference Merkle recomputation for mitum's fixed tree (written from the format: node i has children 2i+1, 2i+2;
// hash(node) = SHA3-256(key || hash(left) || hash(right)), missing children contribute nothing). Shares no code with
// util/fixedtree.

func bbRefRoot(keys []string) []byte {
	n := len(keys)
	hs := make([][]byte, n)

	for i := n - 1; i >= 0; i-- {
		b := []byte(keys[i])

		if l := 2*i + 1; l < n {
			b = append(b, hs[l]...)
		}

		if r := 2*i + 2; r < n {
			b = append(b, hs[r]...)
		}

		hs[i] = valuehash.NewSHA256(b).Bytes()
	}

	if n < 1 {
		return nil
	}

	return hs[0]
}

func bbTreeKeys(tr fixedtree.Tree) []string {
	keys := make([]string, tr.Len())
	for i := range keys {
		keys[i] = tr.Node(uint64(i)).Key()
	}

	return keys
}

// ---- a source block as read back from a local-fs root (independent of the database)

type bbBlock struct {
	Height   base.Height
	Map      base.BlockMap
	Proposal base.ProposalSignFact
	Ops      []base.Operation
	OpsTree  fixedtree.Tree
	States   []base.State
	StsTree  fixedtree.Tree
	VPs      [2]base.Voteproof
}

func bbReadBlock(readers *isaac.BlockItemReaders, h base.Height) (b bbBlock, err error) {
	b.Height = h

	var found bool

	if b.Map, found, err = isaac.BlockItemReadersDecode[base.BlockMap](readers.Item, h, base.BlockItemMap, nil); err != nil || !found {
		return b, fmt.Errorf("map of %d: found=%v %w", h, found, err)
	}

	if b.Proposal, found, err = isaac.BlockItemReadersDecode[base.ProposalSignFact](readers.Item, h, base.BlockItemProposal, nil); err != nil || !found {
		return b, fmt.Errorf("proposal of %d: found=%v %w", h, found, err)
	}

	if b.VPs, found, err = isaac.BlockItemReadersDecode[[2]base.Voteproof](readers.Item, h, base.BlockItemVoteproofs, nil); err != nil || !found {
		return b, fmt.Errorf("voteproofs of %d: found=%v %w", h, found, err)
	}

	if _, ok := b.Map.Item(base.BlockItemOperations); ok {
		if _, b.Ops, _, err = isaac.BlockItemReadersDecodeItems[base.Operation](readers.Item, h, base.BlockItemOperations, nil, nil); err != nil {
			return b, err
		}
	}

	if _, ok := b.Map.Item(base.BlockItemOperationsTree); ok {
		if b.OpsTree, _, err = isaac.BlockItemReadersDecode[fixedtree.Tree](readers.Item, h, base.BlockItemOperationsTree, nil); err != nil {
			return b, err
		}
	}

	if _, ok := b.Map.Item(base.BlockItemStates); ok {
		if _, b.States, _, err = isaac.BlockItemReadersDecodeItems[base.State](readers.Item, h, base.BlockItemStates, nil, nil); err != nil {
			return b, err
		}
	}

	if _, ok := b.Map.Item(base.BlockItemStatesTree); ok {
		if b.StsTree, _, err = isaac.BlockItemReadersDecode[fixedtree.Tree](readers.Item, h, base.BlockItemStatesTree, nil); err != nil {
			return b, err
		}
	}

	return b, nil
}

// ---- destination node: fresh in-memory leveldb + Center + empty local-fs root

type bbDest struct {
	St      *leveldbstorage.Storage
	Perm    isaac.PermanentDatabase
	DB      *isaacdatabase.Center
	Root    string
	Readers *isaac.BlockItemReaders
}

func bbNewDest() (*bbDest, error) {
	encs, enc := gen.Encoders()

	root, err := os.MkdirTemp("", "verif-blockb-dest")
	if err != nil {
		return nil, err
	}

	st := leveldbstorage.NewMemStorage()

	perm, db, err := chain.OpenDB(st, encs, enc)
	if err != nil {
		_ = os.RemoveAll(root)

		return nil, err
	}

	readers := isaac.NewBlockItemReaders(root, encs, nil)
	if err := readers.Add(isaacblock.LocalFSWriterHint, isaacblock.NewDefaultItemReaderFunc(3)); err != nil {
		_ = os.RemoveAll(root)

		return nil, err
	}

	return &bbDest{St: st, Perm: perm, DB: db, Root: root, Readers: readers}, nil
}

func (d *bbDest) Close() {
	_ = d.DB.Close()
	_ = d.St.Close()
	_ = os.RemoveAll(d.Root)
}

// newImporter is wired exactly like launch.ImportBlocks / launch.newBlockImpoterFunc.
func (d *bbDest) newImporter(m base.BlockMap) (isaac.BlockImporter, error) {
	encs, _ := gen.Encoders()

	bwdb, err := d.DB.NewBlockWriteDatabase(m.Manifest().Height())
	if err != nil {
		return nil, err
	}

	return isaacblock.NewBlockImporter(d.Root, encs, m, bwdb,
		func(context.Context) error { return d.DB.MergeBlockWriteDatabase(bwdb) },
		gen.NetworkID,
	)
}

// bbMapFunc / bbItemFunc read from a source root like launch.ImportBlocks does (local files only).
func bbMapFunc(src *isaac.BlockItemReaders) isaacblock.ImportBlocksBlockMapFunc {
	return func(_ context.Context, h base.Height) (base.BlockMap, bool, error) {
		return isaac.BlockItemReadersDecode[base.BlockMap](src.Item, h, base.BlockItemMap, nil)
	}
}

func bbItemFunc(src *isaac.BlockItemReaders) isaacblock.ImportBlocksBlockItemFunc {
	return func(_ context.Context, h base.Height, item base.BlockItemType, f func(io.Reader, bool, string) error) error {
		switch _, found, err := src.Item(h, item, func(ir isaac.BlockItemReader) error {
			return f(ir.Reader(), true, ir.Reader().Format)
		}); {
		case err != nil:
			return err
		case !found:
			return f(nil, false, "")
		default:
			return nil
		}
	}
}

// bbImportOne imports one block from src through a single BlockImporter (WriteMap via the constructor, WriteItem per
// item of the map, Save, deferred merge) — the per-block part of isaacblock.ImportBlocks. stored=false with the error
// of the first failing step.
func bbImportOne(d *bbDest, src *isaac.BlockItemReaders, m base.BlockMap) (stored bool, step string, err error) {
	h := m.Manifest().Height()

	im, err := d.newImporter(m)
	if err != nil {
		return false, "new", err
	}

	var types []base.BlockItemType

	m.Items(func(item base.BlockMapItem) bool {
		types = append(types, item.Type())

		return true
	})

	itemf := bbItemFunc(src)

	for _, t := range types {
		t := t

		if err := itemf(context.Background(), h, t, func(r io.Reader, found bool, cf string) error {
			if !found {
				return util.ErrNotFound.Errorf("blockItem not found, %q", t)
			}

			return d.Readers.ItemFromReader(t, r, cf, func(ir isaac.BlockItemReader) error {
				return im.WriteItem(ir.Type(), ir)
			})
		}); err != nil {
			_ = im.CancelImport(context.Background())

			return false, "item:" + t.String(), err
		}
	}

	deferred, err := im.Save(context.Background())
	if err != nil {
		_ = im.CancelImport(context.Background())

		return false, "save", err
	}

	if err := deferred(context.Background()); err != nil {
		_ = im.CancelImport(context.Background())

		return false, "merge", err
	}

	return true, "", nil
}

func bbErrStr(err error) string {
	if err == nil {
		return ""
	}

	s := err.Error()
	if len(s) > 300 {
		s = s[:300]
	}

	return s
}
