package p_conc

import (
	"cmp"
	"errors"
	"fmt"
	"runtime"
	"sort"
	"strings"
	"sync"
	"sync/atomic"
	"testing"
	"time"

	"github.com/spikeekips/mitum/util"
	"pgregory.net/rapid"
	"verif/internal/ev"
	"verif/p_conc/porcupine"
)

// C32: concurrent histories on SingleLockedMap / ShardedMap / deep ShardedMap / Locked are linearizable with respect
// to a sequential map (value), and after the operations finished Len() equals the number of keys.
//
// The sequential model below is written from the LockedMap interface and the documented caller-visible behaviour, per
// key: {closed, present, value}. Histories are recorded with call/return numbers from one atomic counter and checked
// per key with porcupine (vendored copy of v1.3.0, see porcupine/README.txt). Traverse and Map are decomposed into one
// read per key spanning the whole call (shards are locked one after the other, no atomic snapshot is claimed); Close
// is put into every key's history. Close is ONE operation of the whole map, so histories with a Close are checked a
// second time as a whole: directly (once any operation has observed the closed map, no operation that starts after that
// one returned may still find the map open, on whatever key) and exactly (one moment within Close must suit every key).

const (
	c32Exists = iota
	c32Value
	c32SetValue
	c32RemoveValue
	c32Get
	c32GetOrCreate
	c32Set
	c32Remove
	c32SetOrRemove
	c32Traverse
	c32Map
	c32Close
	c32Read // model only: one key's share of a Traverse/Map, or a final Value
)

var c32OpNames = []string{"Exists", "Value", "SetValue", "RemoveValue", "Get", "GetOrCreate", "Set", "Remove", "SetOrRemove", "Traverse", "Map", "Close", "read"}

const (
	c32FOK     = iota // callback returns nil / the new value
	c32FIgnore        // callback returns ErrLockedSetIgnore
	c32FErr           // callback returns an injected error
)

const (
	c32ErrNil = iota
	c32ErrClosed
	c32ErrF
	c32ErrCreate
	c32ErrOther
)

var (
	c32InjF      = errors.New("c32: injected callback error")
	c32InjCreate = errors.New("c32: injected create error")
)

type c32Op struct {
	Kind   int
	Key    int
	Val    int  // value written by SetValue / Set / SetOrRemove / create
	FMode  int  // what the callback answers
	CMode  int  // GetOrCreate: what create answers
	Remove bool // SetOrRemove: the callback asks for removal
	Spin   int  // yields inside the callback (the lock is held meanwhile)
	Locked bool // executed on a Locked value (no closed state, no added/removed flags)
}

type c32KV struct {
	Key, Val int
}

type c32Out struct {
	FCalled   bool
	SeenV     int
	SeenFound bool // Get/Set/Remove/SetOrRemove: found; GetOrCreate: created
	CCalled   bool
	B1        bool // added / removed / created
	B2        bool // SetOrRemove: removed
	V         int
	Found     bool
	Err       int
	Reads     []c32KV // Traverse / Map
}

func (o c32Op) String() string {
	s := fmt.Sprintf("%s(k%d", c32OpNames[o.Kind], o.Key)

	switch o.Kind {
	case c32SetValue:
		s += fmt.Sprintf(",%d", o.Val)
	case c32Get, c32Remove:
		s += fmt.Sprintf(",f=%s", []string{"nil", "ignore", "err"}[o.FMode])
	case c32Set:
		s += fmt.Sprintf(",f=%s", []string{fmt.Sprint(o.Val), "ignore", "err"}[o.FMode])
	case c32SetOrRemove:
		a := fmt.Sprint(o.Val)
		if o.Remove {
			a = "remove"
		}

		s += fmt.Sprintf(",f=%s", []string{a, "ignore", "err"}[o.FMode])
	case c32GetOrCreate:
		s += fmt.Sprintf(",create=%s,f=%s", []string{fmt.Sprint(o.Val), "ignore", "err"}[o.CMode], []string{"nil", "ignore", "err"}[o.FMode])
	case c32Traverse, c32Map, c32Close:
		return c32OpNames[o.Kind] + "()"
	}

	return s + ")"
}

func (o c32Out) String() string {
	var parts []string

	if o.CCalled {
		parts = append(parts, "create-called")
	}

	if o.FCalled {
		parts = append(parts, fmt.Sprintf("f-saw(%d,%v)", o.SeenV, o.SeenFound))
	}

	parts = append(parts, fmt.Sprintf("v=%d found=%v b1=%v b2=%v err=%s", o.V, o.Found, o.B1, o.B2, []string{"nil", "closed", "f-error", "create-error", "other"}[o.Err]))

	if o.Reads != nil {
		parts = append(parts, fmt.Sprintf("reads=%v", o.Reads))
	}

	return strings.Join(parts, " ")
}

// ---- sequential model (per key)

type c32State struct {
	Closed  bool
	Present bool
	Val     int
}

func c32FErrOf(mode int) int {
	if mode == c32FErr {
		return c32ErrF
	}

	return c32ErrNil
}

// c32Step returns every state the sequential object may be in after `in` answered `out` in state s (none = illegal).
func c32Step(s c32State, in c32Op, out c32Out) []c32State {
	same := []c32State{s}
	seenOK := out.FCalled && out.SeenFound == s.Present && (!s.Present || out.SeenV == s.Val)
	existing := 0

	if s.Present {
		existing = s.Val
	}

	if in.Kind == c32Close {
		return []c32State{{Closed: true}}
	}

	if s.Closed {
		ok := false

		switch in.Kind {
		case c32Exists, c32Value, c32Read:
			ok = !out.Found
		case c32SetValue, c32RemoveValue:
			ok = !out.B1
		case c32Get:
			// the sharded map answers "closed", the single map calls f(zero, false)
			ok = (out.Err == c32ErrClosed && !out.FCalled) || (out.FCalled && !out.SeenFound && out.Err == c32FErrOf(in.FMode))
		case c32Remove:
			ok = (out.Err == c32ErrClosed && !out.FCalled && !out.B1) || (out.FCalled && !out.SeenFound && !out.B1 && out.Err == c32FErrOf(in.FMode))
		case c32GetOrCreate:
			ok = out.Err == c32ErrClosed && !out.FCalled && !out.CCalled
		case c32Set, c32SetOrRemove:
			ok = out.Err == c32ErrClosed && !out.FCalled && !out.B1 && !out.B2
		}

		if ok {
			return same
		}

		return nil
	}

	if out.Err == c32ErrClosed || out.Err == c32ErrOther {
		return nil
	}

	switch in.Kind {
	case c32Exists:
		if out.Found == s.Present {
			return same
		}
	case c32Value, c32Read:
		if out.Found == s.Present && (!s.Present || out.V == s.Val) {
			return same
		}
	case c32SetValue:
		if in.Locked || out.B1 == !s.Present {
			return []c32State{{Present: true, Val: in.Val}}
		}
	case c32RemoveValue:
		if in.Locked || out.B1 == s.Present {
			return []c32State{{}}
		}
	case c32Get:
		if seenOK && out.Err == c32FErrOf(in.FMode) {
			return same
		}
	case c32GetOrCreate:
		if s.Present {
			// f(value, created=false)
			if !out.CCalled && out.FCalled && !out.SeenFound && out.SeenV == s.Val && out.Err == c32FErrOf(in.FMode) {
				return same
			}

			return nil
		}

		if !out.CCalled {
			return nil
		}

		switch in.CMode {
		case c32FOK:
			if out.FCalled && out.SeenFound && out.SeenV == in.Val && out.Err == c32FErrOf(in.FMode) {
				created := c32State{Present: true, Val: in.Val}
				if in.FMode == c32FErr {
					// whether a value whose callback failed stays is not specified: both are accepted
					return []c32State{created, s}
				}

				return []c32State{created}
			}
		case c32FIgnore:
			if !out.FCalled && out.Err == c32ErrNil {
				return same
			}
		case c32FErr:
			if !out.FCalled && out.Err == c32ErrCreate {
				return same
			}
		}
	case c32Set:
		if !seenOK {
			return nil
		}

		switch in.FMode {
		case c32FOK:
			if out.Err == c32ErrNil && out.V == in.Val && (in.Locked || out.B1 == !s.Present) {
				return []c32State{{Present: true, Val: in.Val}}
			}
		case c32FIgnore:
			if out.Err == c32ErrNil && !out.B1 && out.V == existing {
				return same
			}
		case c32FErr:
			if out.Err == c32ErrF && !out.B1 {
				return same
			}
		}
	case c32Remove:
		if !seenOK {
			return nil
		}

		switch in.FMode {
		case c32FOK:
			if out.Err == c32ErrNil && (in.Locked || out.B1 == s.Present) {
				return []c32State{{}}
			}
		case c32FIgnore:
			if out.Err == c32ErrNil && !out.B1 {
				return same
			}
		case c32FErr:
			if out.Err == c32ErrF && !out.B1 {
				return same
			}
		}
	case c32SetOrRemove:
		if !seenOK {
			return nil
		}

		switch {
		case in.FMode == c32FIgnore:
			if out.Err == c32ErrNil && !out.B1 && !out.B2 && out.V == existing {
				return same
			}
		case in.FMode == c32FErr:
			if out.Err == c32ErrF && !out.B1 && !out.B2 {
				return same
			}
		case in.Remove:
			if out.Err == c32ErrNil && !out.B1 && out.B2 == s.Present {
				return []c32State{{}}
			}
		default:
			if out.Err == c32ErrNil && out.V == in.Val && out.B1 == !s.Present && !out.B2 {
				return []c32State{{Present: true, Val: in.Val}}
			}
		}
	}

	return nil
}

var c32Model = (&porcupine.NondeterministicModel{
	Init: func() []interface{} { return []interface{}{c32State{}} },
	Step: func(state, input, output interface{}) []interface{} {
		next := c32Step(state.(c32State), input.(c32Op), output.(c32Out))
		r := make([]interface{}, len(next))

		for i := range next {
			r[i] = next[i]
		}

		return r
	},
	DescribeOperation: func(input, output interface{}) string {
		return fmt.Sprintf("%v -> %v", input.(c32Op), output.(c32Out))
	},
}).ToModel()

// c32SawOpen: the answer is one a closed map can not give (derived from the closed clause of the sequential model).
func c32SawOpen(op c32Op, out c32Out) bool {
	switch op.Kind {
	case c32Close:
		return false
	case c32Traverse, c32Map:
		return len(out.Reads) > 0
	default:
		return out.Err != c32ErrOther && len(c32Step(c32State{Closed: true}, op, out)) < 1
	}
}

// c32SawClosed: the answer is one only a closed map can give.
func c32SawClosed(op c32Op, out c32Out) bool {
	return op.Kind == c32Close || out.Err == c32ErrClosed
}

// ---- schedule hooks of the harness-supplied shards

type c32Hooks struct {
	bits       []bool
	i          atomic.Int64
	closeDone  chan struct{}
	waitClose  bool
	createSpin int
	closeSpin  int
}

func (h *c32Hooks) bit() bool {
	if h == nil || len(h.bits) == 0 {
		return false
	}

	return h.bits[int(h.i.Add(1))%len(h.bits)]
}

func (h *c32Hooks) before() {
	if h.bit() {
		runtime.Gosched()
	}
}

// create runs inside the caller-supplied shard factory (ShardedMap calls it while it looks up or creates the shard of a
// key; a factory may take any time, so a goroutine may be descheduled here).
func (h *c32Hooks) create() {
	if h.createSpin < 1 || !h.bit() {
		return
	}

	c32Spin(h.createSpin)
}

// after runs between the return of the shard operation and the bookkeeping of the sharded map (a place where a
// goroutine may be preempted for any time).
func (h *c32Hooks) after() {
	if !h.bit() {
		return
	}

	if h.waitClose {
		select {
		case <-h.closeDone:
		case <-time.After(150 * time.Microsecond):
		}

		return
	}

	runtime.Gosched()
	runtime.Gosched()
}

// closing runs around the Close of one shard (closing a caller-supplied shard may take any time; a goroutine may be
// descheduled between the Close of one shard and of the next one).
func (h *c32Hooks) closing() {
	if h.closeSpin < 1 {
		return
	}

	n := 1
	if h.bit() {
		n = h.closeSpin
	}

	c32Spin(n)
}

// c32Shard is a LockedMap a caller may hand to NewShardedMap: the stock single map plus scheduling points.
type c32Shard[K cmp.Ordered] struct {
	*util.SingleLockedMap[K, int]
	h *c32Hooks
}

func (s *c32Shard[K]) Close() {
	s.h.closing()
	defer s.h.closing()

	s.SingleLockedMap.Close()
}

func (s *c32Shard[K]) Exists(k K) bool {
	s.h.before()
	defer s.h.after()

	return s.SingleLockedMap.Exists(k)
}

func (s *c32Shard[K]) Value(k K) (int, bool) {
	s.h.before()
	defer s.h.after()

	return s.SingleLockedMap.Value(k)
}

func (s *c32Shard[K]) SetValue(k K, v int) bool {
	s.h.before()
	defer s.h.after()

	return s.SingleLockedMap.SetValue(k, v)
}

func (s *c32Shard[K]) RemoveValue(k K) bool {
	s.h.before()
	defer s.h.after()

	return s.SingleLockedMap.RemoveValue(k)
}

func (s *c32Shard[K]) Get(k K, f func(int, bool) error) error {
	s.h.before()
	defer s.h.after()

	return s.SingleLockedMap.Get(k, f)
}

func (s *c32Shard[K]) GetOrCreate(k K, f func(int, bool) error, create func() (int, error)) error {
	s.h.before()
	defer s.h.after()

	return s.SingleLockedMap.GetOrCreate(k, f, create)
}

func (s *c32Shard[K]) Set(k K, f func(int, bool) (int, error)) (int, bool, error) {
	s.h.before()
	defer s.h.after()

	return s.SingleLockedMap.Set(k, f)
}

func (s *c32Shard[K]) Remove(k K, f func(int, bool) error) (bool, error) {
	s.h.before()
	defer s.h.after()

	return s.SingleLockedMap.Remove(k, f)
}

func (s *c32Shard[K]) SetOrRemove(k K, f func(int, bool) (int, bool, error)) (int, bool, bool, error) {
	s.h.before()
	defer s.h.after()

	return s.SingleLockedMap.SetOrRemove(k, f)
}

// ---- targets

type c32Target interface {
	do(o c32Op) c32Out
	final() (lenv, mapLen, traversed int)
}

func c32ErrClass(err error) int {
	switch {
	case err == nil:
		return c32ErrNil
	case errors.Is(err, c32InjF):
		return c32ErrF
	case errors.Is(err, c32InjCreate):
		return c32ErrCreate
	case errors.Is(err, util.ErrLockedMapClosed):
		return c32ErrClosed
	default:
		return c32ErrOther
	}
}

func c32Spin(n int) {
	for i := 0; i < n; i++ {
		runtime.Gosched()
	}
}

func c32FAnswer(mode int) error {
	switch mode {
	case c32FIgnore:
		return util.ErrLockedSetIgnore.WithStack()
	case c32FErr:
		return c32InjF
	default:
		return nil
	}
}

type c32MapTarget[K cmp.Ordered] struct {
	m    util.LockedMap[K, int]
	keys []K
	idx  map[K]int
	h    *c32Hooks
}

func (t *c32MapTarget[K]) do(o c32Op) (out c32Out) {
	var k K
	if o.Key < len(t.keys) {
		k = t.keys[o.Key]
	}

	switch o.Kind {
	case c32Exists:
		out.Found = t.m.Exists(k)
	case c32Value:
		out.V, out.Found = t.m.Value(k)
	case c32SetValue:
		out.B1 = t.m.SetValue(k, o.Val)
	case c32RemoveValue:
		out.B1 = t.m.RemoveValue(k)
	case c32Get:
		out.Err = c32ErrClass(t.m.Get(k, func(v int, found bool) error {
			out.FCalled, out.SeenV, out.SeenFound = true, v, found
			c32Spin(o.Spin)

			return c32FAnswer(o.FMode)
		}))
	case c32GetOrCreate:
		out.Err = c32ErrClass(t.m.GetOrCreate(k,
			func(v int, created bool) error {
				out.FCalled, out.SeenV, out.SeenFound = true, v, created
				c32Spin(o.Spin)

				return c32FAnswer(o.FMode)
			},
			func() (int, error) {
				out.CCalled = true
				c32Spin(o.Spin)

				switch o.CMode {
				case c32FIgnore:
					return 0, util.ErrLockedSetIgnore.WithStack()
				case c32FErr:
					return 0, c32InjCreate
				default:
					return o.Val, nil
				}
			}))
	case c32Set:
		var err error

		out.V, out.B1, err = t.m.Set(k, func(v int, found bool) (int, error) {
			out.FCalled, out.SeenV, out.SeenFound = true, v, found
			c32Spin(o.Spin)

			return o.Val, c32FAnswer(o.FMode)
		})
		out.Err = c32ErrClass(err)
	case c32Remove:
		var err error

		out.B1, err = t.m.Remove(k, func(v int, found bool) error {
			out.FCalled, out.SeenV, out.SeenFound = true, v, found
			c32Spin(o.Spin)

			return c32FAnswer(o.FMode)
		})
		out.Err = c32ErrClass(err)
	case c32SetOrRemove:
		var err error

		out.V, out.B1, out.B2, err = t.m.SetOrRemove(k, func(v int, found bool) (int, bool, error) {
			out.FCalled, out.SeenV, out.SeenFound = true, v, found
			c32Spin(o.Spin)

			return o.Val, o.Remove, c32FAnswer(o.FMode)
		})
		out.Err = c32ErrClass(err)
	case c32Traverse:
		out.Reads = []c32KV{}

		t.m.Traverse(func(k K, v int) bool {
			out.Reads = append(out.Reads, c32KV{Key: t.idx[k], Val: v})

			return true
		})
	case c32Map:
		out.Reads = []c32KV{}

		for k, v := range t.m.Map() {
			out.Reads = append(out.Reads, c32KV{Key: t.idx[k], Val: v})
		}

		sort.Slice(out.Reads, func(i, j int) bool { return out.Reads[i].Key < out.Reads[j].Key })
	case c32Close:
		t.m.Close()

		if t.h != nil {
			close(t.h.closeDone)
		}
	}

	return out
}

func (t *c32MapTarget[K]) final() (lenv, mapLen, traversed int) {
	t.m.Traverse(func(K, int) bool {
		traversed++

		return true
	})

	return t.m.Len(), len(t.m.Map()), traversed
}

type c32LockedTarget struct {
	l *util.Locked[int]
}

func (t *c32LockedTarget) do(o c32Op) (out c32Out) {
	switch o.Kind {
	case c32Value:
		v, isempty := t.l.Value()
		out.V, out.Found = v, !isempty
	case c32SetValue:
		t.l.SetValue(o.Val)
	case c32RemoveValue:
		t.l.EmptyValue()
	case c32Get:
		out.Err = c32ErrClass(t.l.Get(func(v int, isempty bool) error {
			out.FCalled, out.SeenV, out.SeenFound = true, v, !isempty
			c32Spin(o.Spin)

			return c32FAnswer(o.FMode)
		}))
	case c32GetOrCreate:
		out.Err = c32ErrClass(t.l.GetOrCreate(
			func(v int, created bool) error {
				out.FCalled, out.SeenV, out.SeenFound = true, v, created
				c32Spin(o.Spin)

				return c32FAnswer(o.FMode)
			},
			func() (int, error) {
				out.CCalled = true

				switch o.CMode {
				case c32FIgnore:
					return 0, util.ErrLockedSetIgnore.WithStack()
				case c32FErr:
					return 0, c32InjCreate
				default:
					return o.Val, nil
				}
			}))
	case c32Set:
		v, err := t.l.Set(func(v int, isempty bool) (int, error) {
			out.FCalled, out.SeenV, out.SeenFound = true, v, !isempty
			c32Spin(o.Spin)

			return o.Val, c32FAnswer(o.FMode)
		})
		out.V, out.Err = v, c32ErrClass(err)
	case c32Remove:
		out.Err = c32ErrClass(t.l.Empty(func(v int, isempty bool) error {
			out.FCalled, out.SeenV, out.SeenFound = true, v, !isempty
			c32Spin(o.Spin)

			return c32FAnswer(o.FMode)
		}))
	}

	return out
}

func (t *c32LockedTarget) final() (int, int, int) {
	n := 0
	if _, isempty := t.l.Value(); !isempty {
		n = 1
	}

	return n, n, n
}

// ---- case generation

type c32Case struct {
	Shape      string // mixed: long programs on one map | burst: short write-first programs, repeated on fresh maps | closing: a Close in flight while many clients work on many keys
	Kind       string // single | sharded | sharded-hooked | deep | deep-hooked | locked
	KeyType    string // string | int
	Shards     []uint64
	IntKeys    []int
	Progs      [][]c32Op
	Bits       []bool
	HasClose   bool
	CreateSpin int  // yields inside the harness-supplied shard factory
	CloseSpin  int  // yields around the Close of one harness-supplied shard
	WaitClose  bool // harness-supplied shards: an operation may be held between the shard operation and the bookkeeping until Close returned
	Rounds     int  // fresh objects the same programs are run on (each round is checked on its own)
}

const c32NKeys = 4

var (
	c32AllKinds   = []int{c32Exists, c32Value, c32Value, c32SetValue, c32SetValue, c32RemoveValue, c32Get, c32GetOrCreate, c32GetOrCreate, c32Set, c32Set, c32Remove, c32SetOrRemove, c32SetOrRemove, c32Traverse, c32Map}
	c32WriteKinds = []int{c32SetValue, c32SetValue, c32SetValue, c32Set, c32Set, c32GetOrCreate, c32GetOrCreate, c32SetOrRemove}
	// closing programs: every operation on a key, reads and writes alike; few whole-map reads
	c32ClosingKinds = []int{
		c32Exists, c32Value, c32Value, c32Value, c32SetValue, c32SetValue, c32RemoveValue, c32Get, c32Get, c32GetOrCreate, c32GetOrCreate,
		c32Set, c32Set, c32Set, c32Remove, c32SetOrRemove, c32SetOrRemove, c32Exists, c32Value, c32SetValue, c32GetOrCreate, c32Set, c32Traverse, c32Map,
	}
)

func c32IsWrite(kind int) bool {
	return kind == c32SetValue || kind == c32Set || kind == c32GetOrCreate || kind == c32SetOrRemove
}

func c32GenOp(t *rapid.T, kinds []int, nkeys, val int, locked bool) c32Op {
	o := c32Op{
		Key:    rapid.IntRange(0, nkeys-1).Draw(t, "key"),
		Val:    val,
		Spin:   rapid.SampledFrom([]int{0, 0, 1, 3}).Draw(t, "spin"),
		Locked: locked,
	}

	o.Kind = rapid.SampledFrom(kinds).Draw(t, "op")

	switch o.Kind {
	case c32Get:
		o.FMode = rapid.SampledFrom([]int{c32FOK, c32FOK, c32FErr}).Draw(t, "f")
	case c32GetOrCreate:
		o.CMode = rapid.SampledFrom([]int{c32FOK, c32FOK, c32FOK, c32FIgnore, c32FErr}).Draw(t, "create")
		o.FMode = rapid.SampledFrom([]int{c32FOK, c32FOK, c32FOK, c32FErr}).Draw(t, "f")
	case c32Set, c32Remove:
		o.FMode = rapid.SampledFrom([]int{c32FOK, c32FOK, c32FOK, c32FIgnore, c32FErr}).Draw(t, "f")
	case c32SetOrRemove:
		o.FMode = rapid.SampledFrom([]int{c32FOK, c32FOK, c32FOK, c32FIgnore, c32FErr}).Draw(t, "f")
		o.Remove = rapid.Bool().Draw(t, "remove")
	}

	return o
}

func c32GenCase(t *rapid.T) c32Case {
	c := c32Case{Rounds: 1}
	c.Shape = rapid.SampledFrom([]string{"mixed", "mixed", "burst", "closing", "closing"}).Draw(t, "shape")

	kinds := []string{"single", "sharded", "sharded", "sharded-hooked", "sharded-hooked", "sharded-hooked", "deep", "deep-hooked", "deep-hooked", "locked"}
	if c.Shape == "burst" {
		// the life of a sharded map starts with no shard at all: shards (and the inner maps of a deep map) are made
		// by the first writers that need them, so concurrent first writers are an arrival order of their own
		kinds = []string{"sharded", "sharded", "sharded-hooked", "deep", "deep", "deep-hooked"}
	}

	if c.Shape == "closing" {
		// Close is one operation of the whole map however many shards (and levels) it has to go through
		kinds = []string{"sharded", "sharded-hooked", "sharded-hooked", "sharded-hooked", "deep", "deep-hooked", "deep-hooked"}
	}

	c.Kind = rapid.SampledFrom(kinds).Draw(t, "kind")
	c.KeyType = rapid.SampledFrom([]string{"string", "int"}).Draw(t, "keyType")

	switch c.Kind {
	case "sharded", "sharded-hooked":
		sizes := []int{2, 2, 3, 4, 7, 16, 64}
		if c.Shape == "burst" {
			sizes = []int{2, 2, 2, 3, 4, 7}
		}

		c.Shards = []uint64{uint64(rapid.SampledFrom(sizes).Draw(t, "shards"))}
	case "deep", "deep-hooked":
		sizes := [][]uint64{{2, 3}, {4, 4, 4}, {2, 2}, {2, 2, 2}}
		if c.Shape == "closing" {
			sizes = [][]uint64{{2, 3}, {4, 4, 4}, {2, 2}, {2, 2, 2}, {8, 8}, {3, 2, 4}}
		}

		c.Shards = rapid.SampledFrom(sizes).Draw(t, "deepSizes")
	}

	nkeys := c32NKeys
	nclients := rapid.IntRange(3, 6).Draw(t, "clients")

	if c.Shape == "burst" {
		nkeys = rapid.IntRange(4, 12).Draw(t, "nkeys")
		nclients = rapid.IntRange(3, 8).Draw(t, "burstClients")
		c.Rounds = rapid.IntRange(8, 24).Draw(t, "rounds")
	}

	if c.Shape == "closing" {
		nkeys = rapid.IntRange(8, 16).Draw(t, "nkeys")
		nclients = rapid.IntRange(3, 8).Draw(t, "closingClients")
		c.Rounds = rapid.IntRange(3, 8).Draw(t, "rounds")
	}

	c.IntKeys = rapid.SliceOfNDistinct(rapid.IntRange(0, 40), nkeys, nkeys, rapid.ID[int]).Draw(t, "intKeys")

	if c.Kind == "locked" {
		nkeys = 1
	}

	closer := -1
	closeOdds := 2

	if c.Shape == "burst" {
		closeOdds = 5
	}

	switch {
	case c.Shape == "closing":
		// one more client: it does a few operations, closes the map while the others are at work, and goes on
		closer = nclients
		nclients++
	case c.Kind != "locked" && rapid.IntRange(0, closeOdds).Draw(t, "withClose") == 0:
		closer = rapid.IntRange(0, nclients-1).Draw(t, "closer")
	}

	val := 0

	for ci := 0; ci < nclients; ci++ {
		var prog []c32Op

		switch c.Shape {
		case "burst":
			// the first operation of every client is one that has to find or make the shard of its key
			n := rapid.IntRange(0, 3).Draw(t, "nmore")
			prog = make([]c32Op, 0, n+2)

			val++
			prog = append(prog, c32GenOp(t, c32WriteKinds, nkeys, ci*1000+val, false))

			for i := 0; i < n; i++ {
				val++
				prog = append(prog, c32GenOp(t, c32AllKinds, nkeys, ci*1000+val, false))
			}
		case "closing":
			// the first operation is a write so that keys exist on many shards when Close arrives
			n := rapid.IntRange(3, 11).Draw(t, "nmore")
			if ci == closer {
				n = rapid.IntRange(0, 4).Draw(t, "closerOps")
			}

			prog = make([]c32Op, 0, n+2)

			val++
			prog = append(prog, c32GenOp(t, c32WriteKinds, nkeys, ci*1000+val, false))

			for i := 0; i < n; i++ {
				val++
				prog = append(prog, c32GenOp(t, c32ClosingKinds, nkeys, ci*1000+val, false))
			}
		default:
			n := rapid.IntRange(5, 20).Draw(t, "nops")
			prog = make([]c32Op, 0, n+1)

			for i := 0; i < n; i++ {
				val++

				kinds := c32AllKinds
				if c.Kind == "locked" {
					kinds = []int{c32Value, c32Value, c32SetValue, c32RemoveValue, c32Get, c32GetOrCreate, c32GetOrCreate, c32Set, c32Set, c32Remove}
				}

				prog = append(prog, c32GenOp(t, kinds, nkeys, ci*1000+val, c.Kind == "locked"))
			}
		}

		if ci == closer {
			at := rapid.IntRange(0, len(prog)).Draw(t, "closeAt")
			prog = append(prog[:at], append([]c32Op{{Kind: c32Close}}, prog[at:]...)...)
			c.HasClose = true
		}

		c.Progs = append(c.Progs, prog)
	}

	c.Bits = rapid.SliceOfN(rapid.Bool(), 16, 48).Draw(t, "bits")
	c.CreateSpin = rapid.SampledFrom([]int{0, 1, 2, 4}).Draw(t, "createSpin")
	c.WaitClose = c.HasClose

	if c.Shape == "closing" {
		c.CloseSpin = rapid.SampledFrom([]int{0, 1, 2, 4, 8}).Draw(t, "closeSpin")
		c.WaitClose = rapid.IntRange(0, 2).Draw(t, "waitClose") == 0
	}

	return c
}

func (c c32Case) fingerprint() string {
	var b strings.Builder

	fmt.Fprintf(&b, "%s|%s|%s|%v|%v|", c.Shape, c.Kind, c.KeyType, c.Shards, c.IntKeys)

	for _, p := range c.Progs {
		for _, o := range p {
			fmt.Fprintf(&b, "%d.%d.%d.%d.%v,", o.Kind, o.Key, o.FMode, o.CMode, o.Remove)
		}

		b.WriteByte('/')
	}

	return b.String()
}

func c32Build[K cmp.Ordered](c c32Case, keys []K, round int, rt *rapid.T) (c32Target, *c32Hooks) {
	var h *c32Hooks

	var newMap func() util.LockedMap[K, int]

	if strings.HasSuffix(c.Kind, "-hooked") {
		h = &c32Hooks{bits: c.Bits, closeDone: make(chan struct{}), waitClose: c.WaitClose, createSpin: c.CreateSpin, closeSpin: c.CloseSpin}
		h.i.Store(int64(round))
		newMap = func() util.LockedMap[K, int] {
			h.create()

			return &c32Shard[K]{SingleLockedMap: util.NewSingleLockedMap[K, int](), h: h}
		}
	}

	var m util.LockedMap[K, int]
	var err error

	switch c.Kind {
	case "single":
		m = util.NewSingleLockedMap[K, int]()
	case "sharded", "sharded-hooked":
		m, err = util.NewShardedMap[K, int](c.Shards[0], newMap)
	case "deep", "deep-hooked":
		m, err = util.NewDeepShardedMap[K, int](c.Shards, newMap)
	}

	if err != nil {
		rt.Fatalf("c32: cannot build %s %v: %v", c.Kind, c.Shards, err)
	}

	idx := map[K]int{}
	for i := range keys {
		idx[keys[i]] = i
	}

	return &c32MapTarget[K]{m: m, keys: keys, idx: idx, h: h}, h
}

type c32Rec struct {
	client    int
	op        c32Op
	out       c32Out
	call, ret int64
}

type c32RoundResult struct {
	recs        [][]c32Rec
	overlap     bool // two operations of different clients on the same key overlapped
	firstWrites bool // the first operations of two clients were both writes and overlapped (both had to find or make a shard on a fresh object)
	sawGOCErr   bool
	unknown     int64

	closeInFlight    bool  // operations of other clients overlapped the Close
	afterClosedSeen  int64 // operations that started after some operation had returned with the closed map observed
	wholeChecked     bool  // the history was checked against the model of the whole map
	wholeUnknown     int64 // ... and porcupine ran out of its time budget (inconclusive)
	closedAnswerSeen bool  // some operation other than Close answered ErrLockedMapClosed
}

// c32RunRound runs the programs of c on a fresh object and checks the recorded history.
func c32RunRound(rt *rapid.T, r *ev.Rec, c c32Case, round int) (res c32RoundResult) {
	var target c32Target

	switch {
	case c.Kind == "locked":
		target = &c32LockedTarget{l: util.EmptyLocked[int]()}
	case c.KeyType == "int":
		target, _ = c32Build[int](c, c.IntKeys, round, rt)
	default:
		keys := make([]string, len(c.IntKeys))
		for i := range keys {
			keys[i] = fmt.Sprintf("key-%d", c.IntKeys[i])
		}

		target, _ = c32Build[string](c, keys, round, rt)
	}

	// ---- run
	var clock atomic.Int64

	recs := make([][]c32Rec, len(c.Progs))
	start := make(chan struct{})

	var wg sync.WaitGroup

	for ci := range c.Progs {
		ci := ci
		recs[ci] = make([]c32Rec, 0, len(c.Progs[ci]))

		wg.Add(1)

		go func() {
			defer wg.Done()

			<-start

			for _, o := range c.Progs[ci] {
				call := clock.Add(1)
				out := target.do(o)
				ret := clock.Add(1)
				recs[ci] = append(recs[ci], c32Rec{client: ci, op: o, out: out, call: call, ret: ret})
			}
		}()
	}

	close(start)
	wg.Wait()

	nkeys := len(c.IntKeys)
	if c.Kind == "locked" {
		nkeys = 1
	}

	// final sequential reads
	final := len(c.Progs)
	present := 0

	var finals []c32Rec

	for k := 0; k < nkeys; k++ {
		o := c32Op{Kind: c32Value, Key: k, Locked: c.Kind == "locked"}
		call := clock.Add(1)
		out := target.do(o)
		ret := clock.Add(1)
		finals = append(finals, c32Rec{client: final, op: o, out: out, call: call, ret: ret})

		if out.Found {
			present++
		}
	}

	lenv, mapLen, traversed := target.final()

	// ---- histories per key
	hist := make([][]porcupine.Operation, nkeys)
	add := func(k int, rec c32Rec, in c32Op, out c32Out) {
		hist[k] = append(hist[k], porcupine.Operation{ClientId: rec.client, Input: in, Call: rec.call, Output: out, Return: rec.ret})
	}

	all := append([]c32Rec(nil), finals...)
	for ci := range recs {
		all = append(all, recs[ci]...)
	}

	var sawGOCErr bool

	for _, rec := range all {
		switch rec.op.Kind {
		case c32Close:
			for k := 0; k < nkeys; k++ {
				add(k, rec, rec.op, rec.out)
			}
		case c32Traverse, c32Map:
			seen := make([]bool, nkeys)

			for _, kv := range rec.out.Reads {
				if kv.Key < 0 || kv.Key >= nkeys {
					continue
				}

				seen[kv.Key] = true
				add(kv.Key, rec, c32Op{Kind: c32Read, Key: kv.Key}, c32Out{Found: true, V: kv.Val})
			}

			for k := range seen {
				if !seen[k] {
					add(k, rec, c32Op{Kind: c32Read, Key: k}, c32Out{})
				}
			}
		default:
			add(rec.op.Key, rec, rec.op, rec.out)

			if rec.op.Kind == c32GetOrCreate && rec.out.CCalled && rec.out.FCalled && rec.out.SeenFound && rec.out.Err == c32ErrF {
				sawGOCErr = true
			}
		}
	}

	render := func(k int) string {
		ops := append([]porcupine.Operation(nil), hist[k]...)
		sort.Slice(ops, func(i, j int) bool { return ops[i].Call < ops[j].Call })

		var b strings.Builder

		for _, o := range ops {
			fmt.Fprintf(&b, "\n    [%d..%d] client%d %v -> %v", o.Call, o.Return, o.ClientId, o.Input.(c32Op), o.Output.(c32Out))
		}

		return b.String()
	}

	desc := fmt.Sprintf("%s keys=%s shards=%v clients=%d programs=%s (fresh object no. %d of %d)", c.Kind, c.KeyType, c.Shards, len(c.Progs), c.Shape, round+1, c.Rounds)

	overlap := false

	for k := 0; k < nkeys; k++ {
		ops := hist[k]

		if !overlap {
		outer:
			for i := range ops {
				for j := i + 1; j < len(ops); j++ {
					if ops[i].ClientId != ops[j].ClientId && ops[i].Call < ops[j].Return && ops[j].Call < ops[i].Return {
						overlap = true

						break outer
					}
				}
			}
		}

		switch porcupine.CheckOperationsTimeout(c32Model, ops, 5*time.Second) {
		case porcupine.Illegal:
			r.Violation(rt, "not-linearizable-"+c.Kind, "%s: the history of key %d is not linearizable with respect to a sequential map:%s", desc, k, render(k))
		case porcupine.Unknown:
			res.unknown++
		}
	}

	// ---- Close is one operation of the whole map
	if c.HasClose {
		c32CheckWholeMap(rt, r, desc, all, hist, &res)
	}

	// ---- length
	if lenv != present || mapLen != present || traversed != present {
		sig := "len-mismatch"

		switch {
		case mapLen != present || traversed != present:
			sig = "map-traverse-mismatch"
		case sawGOCErr:
			sig = "len-wrong-after-getorcreate-callback-error"
		case c.HasClose:
			sig = "len-wrong-after-close-race"
		}

		var hs strings.Builder
		for k := 0; k < nkeys; k++ {
			fmt.Fprintf(&hs, "\n  key %d:%s", k, render(k))
		}

		r.Violation(rt, sig, "%s: after all operations finished Len()=%d, Map() has %d keys, Traverse visited %d, %d keys exist (Value)%s", desc, lenv, mapLen, traversed, present, hs.String())
	}

	res.recs, res.overlap, res.sawGOCErr = recs, overlap, sawGOCErr

	for i := range recs {
		for j := i + 1; j < len(recs) && !res.firstWrites; j++ {
			if len(recs[i]) < 1 || len(recs[j]) < 1 {
				continue
			}

			x, y := recs[i][0], recs[j][0]
			res.firstWrites = c32IsWrite(x.op.Kind) && c32IsWrite(y.op.Kind) && x.call < y.ret && y.call < x.ret
		}
	}

	return res
}

// c32CheckWholeMap checks the clauses that follow from Close being ONE operation of a linearizable map: whatever the
// sequential order is, Close has one place in it, every operation before it finds the map open and every operation
// after it finds the map closed, on every key and shard.
func c32CheckWholeMap(rt *rapid.T, r *ev.Rec, desc string, all []c32Rec, hist [][]porcupine.Operation, res *c32RoundResult) {
	recs := append([]c32Rec(nil), all...)
	sort.Slice(recs, func(i, j int) bool { return recs[i].call < recs[j].call })

	line := func(rec c32Rec) string {
		return fmt.Sprintf("[%d..%d] client%d %v -> %v", rec.call, rec.ret, rec.client, rec.op, rec.out)
	}

	var closes []c32Rec

	for _, rec := range recs {
		if rec.op.Kind != c32Close {
			if rec.out.Err == c32ErrClosed {
				res.closedAnswerSeen = true
			}

			continue
		}

		closes = append(closes, rec)

		for _, o := range recs {
			if o.client != rec.client && o.call < rec.ret && rec.call < o.ret {
				res.closeInFlight = true

				break
			}
		}
	}

	// (1) direct: X answered what only a closed map answers (or X is Close itself), so Close is before X in the
	// sequential order; Y started after X returned, so Y is after X, hence after Close: Y must find the map closed.
	var first *c32Rec

	for i := range recs {
		if c32SawClosed(recs[i].op, recs[i].out) && (first == nil || recs[i].ret < first.ret) {
			first = &recs[i]
		}
	}

	if first != nil {
		for _, rec := range recs {
			if rec.call < first.ret {
				continue
			}

			res.afterClosedSeen++

			if !c32SawOpen(rec.op, rec.out) {
				continue
			}

			var cl strings.Builder
			for _, x := range closes {
				fmt.Fprintf(&cl, "\n    %s", line(x))
			}

			r.Violation(rt, "close-not-atomic", "%s: Close is not one step of the whole map: an operation had already returned with the closed map observed, and an operation that started afterwards still found the map open (no place for Close in a sequential order):\n  observed closed: %s\n  later, still open: %s\n  Close:%s",
				desc, line(*first), line(rec), cl.String())

			break
		}
	}

	// (2) exact: the whole history is linearizable with ONE Close exactly when there is a moment t inside the interval of
	// Close (a gap between two consecutive call/return numbers) such that every key's own history is linearizable with
	// Close narrowed to t: operations that returned before t are before Close, operations that started after t are
	// after it, the others are free (before and after Close the keys are independent objects, so their orders compose;
	// the other direction: take the place of Close in a sequential order of the whole map as t). For one key the answer
	// only changes when t passes a call/return of an operation on that key, so one porcupine run per such stretch does.
	// This also covers "not found because closed" on a key nobody removed.
	if len(closes) != 1 {
		return
	}

	cc, cr := closes[0].call, closes[0].ret
	if cr <= cc {
		return
	}

	res.wholeChecked = true

	feasible := make([]bool, cr-cc) // feasible[g-cc]: Close may sit between the numbers g and g+1
	for i := range feasible {
		feasible[i] = true
	}

	windows := make([]string, len(hist))

	for k := range hist {
		var stamps []int64

		ops := make([]porcupine.Operation, 0, len(hist[k]))
		ci := -1

		for _, o := range hist[k] {
			if o.Input.(c32Op).Kind == c32Close {
				ci = len(ops)
			} else {
				if o.Call > cc && o.Call < cr {
					stamps = append(stamps, o.Call)
				}

				if o.Return > cc && o.Return < cr {
					stamps = append(stamps, o.Return)
				}
			}

			o.Call, o.Return = 4*o.Call, 4*o.Return
			ops = append(ops, o)
		}

		if ci < 0 {
			return
		}

		sort.Slice(stamps, func(i, j int) bool { return stamps[i] < stamps[j] })

		// Traverse/Map give one read per key with the same numbers
		uniq := stamps[:0]
		for i := range stamps {
			if i == 0 || stamps[i] != stamps[i-1] {
				uniq = append(uniq, stamps[i])
			}
		}

		bounds := append(append([]int64{cc}, uniq...), cr) // stretch i = gaps bounds[i] .. bounds[i+1]-1
		any := false

		var w []string

		lastStart, lastEnd := int64(-1), int64(-1)

		for i := 0; i+1 < len(bounds); i++ {
			g := bounds[i]
			ops[ci].Call, ops[ci].Return = 4*g+1, 4*g+2

			switch porcupine.CheckOperationsTimeout(c32Model, ops, 5*time.Second) {
			case porcupine.Illegal:
				for j := g; j < bounds[i+1]; j++ {
					feasible[j-cc] = false
				}

				continue
			case porcupine.Unknown:
				res.wholeUnknown++
			}

			any = true

			if lastEnd == g && len(w) > 0 {
				w = w[:len(w)-1]
				g = lastStart
			}

			lastStart, lastEnd = g, bounds[i+1]
			w = append(w, fmt.Sprintf("after %d and before %d", lastStart, lastEnd))
		}

		if !any {
			// this key's own history has no place for Close at all: that is the per-key verdict above (or its budget)
			return
		}

		windows[k] = strings.Join(w, ", or ")
	}

	for i := range feasible {
		if feasible[i] {
			return
		}
	}

	var b strings.Builder

	for k := range windows {
		fmt.Fprintf(&b, "\n    key %d: Close has to take effect %s", k, windows[k])
	}

	b.WriteString("\n  history:")

	for _, rec := range recs {
		fmt.Fprintf(&b, "\n    %s", line(rec))
	}

	r.Violation(rt, "close-not-atomic", "%s: the history is not linearizable with respect to a sequential map with ONE Close: every key's own history is linearizable, but there is no single moment within Close [%d..%d] that suits all keys:%s",
		desc, cc, cr, b.String())
}

func TestC32(t *testing.T) {
	r := ev.Start(t, "C32")
	defer r.Finish()
	r.Rule("objects {SingleLockedMap, ShardedMap 2..64 shards, deep ShardedMap [2,3]/[4,4,4]/[2,2]/[2,2,2], each with stock shards or harness shards that add scheduling points around the shard operation " +
		"inside the shard factory and around the Close of one shard, Locked value} with string or int keys. Three program shapes: mixed = 3..6 client goroutines run drawn programs of 5..20 operations over 4 keys: Exists, Value, SetValue, " +
		"RemoveValue, Get, GetOrCreate (create ok/ignore/error, callback ok/error), Set / Remove / SetOrRemove (callback ok/ignore/error), Traverse, Map, Close (at most once); " +
		"burst = 3..8 clients whose first operation is a write (SetValue, Set, GetOrCreate, SetOrRemove: the operations that find or make the shard of a key) followed by 0..3 operations of any kind, over 4..12 keys " +
		"on few shards (2..7, deep), the same programs run on 8..24 fresh objects so that the first writers meet shards that do not exist yet; " +
		"closing = 3..8 clients run 4..12 operations each (first a write, then reads and writes of every kind) over 8..16 keys spread over the shards of a ShardedMap (2..64 shards) or a deep map " +
		"([2,3] .. [8,8], [4,4,4]) while one more client closes the map in the middle of its own short program, repeated on 3..8 fresh objects. After every run each key is read, and Len, Map and Traverse are compared. " +
		"Every history with a Close is also checked as ONE history of the whole map (direct happens-before clause + one common moment for Close over all keys' histories). " +
		"non-trivial: at least two operations of different clients on the same key overlapped in the recorded history, or the first writes of two clients overlapped on a fresh object, " +
		"or operations of other clients overlapped the Close; distinct by (shape, object, keys, programs)")
	r.Floor(100)
	r.Assume("Traverse and Map are not claimed to be atomic snapshots across shards: each is one read per key spanning the call",
		"Close is one operation of the whole map (the statement says the maps are linearizable): in every key's history, and once in the history of the whole map, where all keys share one closed flag; "+
			"an answer only a closed map gives is ErrLockedMapClosed, answers only an open map gives are the ones the closed clause of the model refuses (found, added, removed, callback called by Set/GetOrCreate/SetOrRemove, a non-empty Traverse/Map)",
		"closing a caller-supplied shard may take any time: the harness shard yields inside its Close",
		"the history of the whole map is decided exactly by trying every moment within Close on every key's own history (keys are independent before and after Close); a porcupine run that exceeds its time budget counts as 'possible' (whole_map_porcupine_timeouts), never as a violation",
		"on a closed map Get and Remove may either answer ErrLockedMapClosed or call the callback with (zero, not found): the two stock implementations differ",
		"whether a value created by GetOrCreate stays when its callback returns an error is not specified: the model accepts both, but Len must agree with the keys that exist",
		"schedules are sampled (real goroutines), except for the scheduling points of the harness-supplied shards",
		"the shard factory handed to NewShardedMap / NewDeepShardedMap is caller code and may be descheduled for any time: the harness factory yields there")

	r.Checks(450, 30000)
	r.ShrinkTime(12 * time.Second)

	var unknown, wholeUnknown atomic.Int64

	rapid.Check(t, func(rt *rapid.T) {
		c := c32GenCase(rt)

		var overlap, sawGOCErr, firstWrites, closeInFlight, wholeChecked, closedAnswerSeen bool

		var afterClosedSeen int64

		var recs [][]c32Rec

		for round := 0; round < c.Rounds; round++ {
			res := c32RunRound(rt, r, c, round)
			recs = res.recs
			overlap = overlap || res.overlap
			sawGOCErr = sawGOCErr || res.sawGOCErr
			firstWrites = firstWrites || res.firstWrites
			closeInFlight = closeInFlight || res.closeInFlight
			wholeChecked = wholeChecked || res.wholeChecked
			closedAnswerSeen = closedAnswerSeen || res.closedAnswerSeen
			afterClosedSeen += res.afterClosedSeen

			unknown.Add(res.unknown)
			wholeUnknown.Add(res.wholeUnknown)
		}

		// ---- evidence
		classes := []string{"object:" + c.Kind, "programs:" + c.Shape}
		if c.Kind != "locked" {
			classes = append(classes, "keys:"+c.KeyType)
		}

		if c.HasClose {
			classes = append(classes, "with-close")
		}

		if overlap {
			classes = append(classes, "overlap-on-a-key")
		}

		if sawGOCErr {
			classes = append(classes, "getorcreate-created-then-callback-error")
		}

		if firstWrites {
			classes = append(classes, "overlapping-first-writes-on-fresh-object")
		}

		if closeInFlight {
			classes = append(classes, "close-in-flight")
		}

		if wholeChecked {
			classes = append(classes, "whole-map-history-checked")
		}

		if closeInFlight && closedAnswerSeen {
			classes = append(classes, "close-in-flight-and-closed-answer-seen")
		}

		if afterClosedSeen > 0 {
			r.Class("operations-started-after-closed-map-was-observed", afterClosedSeen)
		}

		if c.Shape == "burst" {
			r.Class("fresh-objects-in-burst-cases", int64(c.Rounds))
		}

		if c.Shape == "closing" {
			r.Class("fresh-objects-in-closing-cases", int64(c.Rounds))
		}

		if strings.HasSuffix(c.Kind, "-hooked") && c.CloseSpin > 0 {
			classes = append(classes, "shard-close-yields")
		}

		if strings.HasSuffix(c.Kind, "-hooked") && c.CreateSpin > 0 {
			classes = append(classes, "shard-factory-yields")
		}

		nontrivial := overlap || firstWrites || closeInFlight
		nops := 0

		for ci := range recs {
			nops += len(recs[ci])

			for _, rec := range recs[ci] {
				r.Class("op:"+c32OpNames[rec.op.Kind], 1)

				if rec.out.Err == c32ErrClosed {
					r.Class("answer:closed", 1)
				}
			}
		}

		r.Case(c.fingerprint(), nontrivial, classes...)

		if nontrivial && r.WantSample() {
			prog := make([]string, len(c.Progs))
			for i := range c.Progs {
				prog[i] = fmt.Sprint(c.Progs[i])
			}

			r.Sample(map[string]any{"shape": c.Shape, "object": c.Kind, "key_type": c.KeyType, "shards": c.Shards, "keys": len(c.IntKeys), "fresh_objects": c.Rounds, "programs": prog, "operations": nops})
		}
	})

	r.Extra("porcupine_timeouts", unknown.Load())
	r.Extra("whole_map_porcupine_timeouts", wholeUnknown.Load())
}
