package p_conc

import (
	"context"
	"errors"
	"fmt"
	"runtime"
	"sort"
	"strconv"
	"strings"
	"sync"
	"sync/atomic"
	"testing"
	"time"

	"github.com/spikeekips/mitum/util"
	"pgregory.net/rapid"
	"verif/internal/ev"
)

// C33: job workers run every accepted job once and report the first error; batched work visits every index once,
// batch by batch, preparation first.
//
// The harness owns every job body, the batch preparation callback and the error callback. Job bodies never block on
// anything that only a *correct* worker would provide: "follower" jobs wait for the worker context and are also
// released by the harness once the call under test returned (or by a watchdog), "late" jobs wait for a harness timer.

const (
	c33OK       = iota // return nil after some yields
	c33Fail            // return its own error after some yields
	c33Follower        // wait until the worker context is cancelled, then return its own error
	c33Cancel          // cancel the parent context (external cancellation), return nil
	c33Late            // wait for the harness "late" gate (opened shortly after the call under test started), return nil
)

var c33KindNames = []string{"ok", "fail", "follower", "cancel", "late"}

// What a failing job returns. "The first job error cancels the remaining work and is the error returned" holds for
// whatever error a job returns: also for one that IS or WRAPS context.Canceled / context.DeadlineExceeded although the
// worker's own context is live (the job's own sub-operation was cancelled or timed out - a remote call, a stream).
const (
	c33ErrDistinct     = iota // a distinct error value of the harness
	c33ErrCanceled            // context.Canceled itself
	c33ErrCanceledWrap        // fmt.Errorf("...: %w", context.Canceled), distinct value
	c33ErrCanceledJoin        // errors.Join(distinct, context.Canceled)
	c33ErrDeadline            // context.DeadlineExceeded itself
	c33ErrDeadlineWrap        // fmt.Errorf("...: %w", context.DeadlineExceeded), distinct value
	c33ErrDeadlineJoin        // errors.Join(distinct, context.DeadlineExceeded)
)

var c33ErrKindNames = []string{"", "=canceled", "=wrap(canceled)", "=join(canceled)", "=deadline", "=wrap(deadline)", "=join(deadline)"}

// the error is a bare sentinel: not a distinct value, several jobs (and a cancellation from outside) may yield the same
func c33ErrBare(k int) bool { return k == c33ErrCanceled || k == c33ErrDeadline }

type c33Plan struct {
	Mode     string // base | errbase (explicit NewJob/Done/Wait on NewBaseJobWorker / NewErrCallbackJobWorker) | run | errcb | batch
	W        int64  // worker size (batch: limit)
	N        int    // jobs (batch: size)
	Kinds    []int
	Yields   []int
	ErrKinds []int  // what a failing job returns (c33Err...)
	FailLate []bool // a failing job first waits for the late gate (so that it fails while the submitter/Wait is blocked)
	DoneAt   int    // base: Done() is called after this many submissions, the rest is still submitted
	PrefFail int    // batch: index of the batch whose preparation fails, -1 = none
	LateUS   int    // delay before the late gate opens
	StopAt   int    // base, errbase: right after this many submissions the submitter stops the worker (StopHow); -1 = never
	StopHow  string // cancel (wk.Cancel) | close (wk.Close) | parent (the context the worker was made with is cancelled)
}

func (p c33Plan) explicit() bool { return p.Mode == "base" || p.Mode == "errbase" }

// errMode: the worker hands job errors to the error callback; a failing job does not cancel anything.
func (p c33Plan) errMode() bool { return p.Mode == "errcb" || p.Mode == "errbase" }

func (p c33Plan) fingerprint() string {
	var b strings.Builder

	fmt.Fprintf(&b, "%s|w%d|n%d|d%d|p%d|s%d%s|", p.Mode, p.W, p.N, p.DoneAt, p.PrefFail, p.StopAt, p.StopHow)

	for i := range p.Kinds {
		b.WriteByte("ofFcl"[p.Kinds[i]])

		if p.Kinds[i] == c33Fail && p.FailLate[i] {
			b.WriteByte('~')
		}

		if p.Kinds[i] == c33Fail && p.ErrKinds[i] != c33ErrDistinct {
			b.WriteByte("0123456789"[p.ErrKinds[i]])
		}
	}

	return b.String()
}

func c33GenPlan(t *rapid.T) c33Plan {
	p := c33Plan{PrefFail: -1, StopAt: -1}
	p.Mode = rapid.SampledFrom([]string{"base", "base", "base", "errbase", "run", "run", "errcb", "batch", "batch"}).Draw(t, "mode")
	p.W = int64(rapid.SampledFrom([]int{1, 1, 2, 3, 4, 8, 16}).Draw(t, "w"))

	switch rapid.IntRange(0, 9).Draw(t, "sizeClass") {
	case 0:
		p.N = rapid.IntRange(0, 1).Draw(t, "n")
	case 1, 2, 3, 4, 5:
		p.N = rapid.IntRange(2, 12).Draw(t, "n")
	case 6, 7, 8:
		p.N = rapid.IntRange(13, 60).Draw(t, "n")
	default:
		p.N = rapid.IntRange(61, 200).Draw(t, "n")
	}

	if p.Mode == "batch" {
		if p.N < 1 {
			p.N = 1
		}

		// half of the batch plans certainly take the several-batches path (limit < size) when the size allows it
		if p.N > 1 && rapid.Bool().Draw(t, "severalBatches") {
			p.W = int64(rapid.IntRange(1, min(p.N-1, 50)).Draw(t, "limit"))
		} else {
			p.W = int64(rapid.IntRange(1, 50).Draw(t, "limit"))
		}
	}

	shape := rapid.SampledFrom([]string{"nofail", "nofail", "single", "single", "single", "multi", "multi", "cancel"}).Draw(t, "shape")

	// accepted-then-stopped: the submitter itself stops the worker right after a NewJob call returned
	if p.explicit() && p.N > 0 && rapid.IntRange(0, 2).Draw(t, "stops") == 0 {
		p.StopAt = rapid.IntRange(1, p.N).Draw(t, "stopAt")
		p.StopHow = rapid.SampledFrom([]string{"cancel", "close", "parent"}).Draw(t, "stopHow")
	}

	p.Kinds = make([]int, p.N)
	p.Yields = make([]int, p.N)
	p.FailLate = make([]bool, p.N)
	p.ErrKinds = make([]int, p.N)

	for i := range p.Kinds {
		p.Yields[i] = rapid.IntRange(0, 6).Draw(t, "yields")
		p.FailLate[i] = rapid.IntRange(0, 2).Draw(t, "failLate") == 0

		// half of the failing jobs fail with a context error of their own (the worker context is live at that moment)
		if ek := rapid.IntRange(0, 11).Draw(t, "errKind"); ek >= 6 {
			p.ErrKinds[i] = ek - 5
		}

		k := rapid.IntRange(0, 19).Draw(t, "kind")

		switch {
		case k < 3:
			p.Kinds[i] = c33Late
		case k < 6 && (shape != "nofail" || p.StopAt >= 0):
			p.Kinds[i] = c33Follower
		case k < 8 && shape == "multi":
			p.Kinds[i] = c33Fail
		default:
			p.Kinds[i] = c33OK
		}
	}

	if p.N > 0 {
		switch shape {
		case "single", "multi":
			p.Kinds[rapid.IntRange(0, p.N-1).Draw(t, "failAt")] = c33Fail
		case "cancel":
			p.Kinds[rapid.IntRange(0, p.N-1).Draw(t, "cancelAt")] = c33Cancel

			if rapid.Bool().Draw(t, "alsoFail") {
				p.Kinds[rapid.IntRange(0, p.N-1).Draw(t, "failAt")] = c33Fail
			}
		}
	}

	// followers are only legal after the first job that certainly cancels the worker context (an error-callback worker
	// is not cancelled by a failing job), or - fewer than the worker size, so that a slot stays free and the submitter
	// is never parked for good - in front of the point where the submitter stops the worker.
	trigger := -1

	for i := range p.Kinds {
		if p.Kinds[i] == c33Cancel || (p.Kinds[i] == c33Fail && !p.errMode()) {
			trigger = i

			break
		}
	}

	early := int64(0)

	for i := range p.Kinds {
		if p.Kinds[i] != c33Follower || (trigger >= 0 && i > trigger) {
			continue
		}

		if i < p.StopAt && early < p.W-1 {
			early++

			continue
		}

		p.Kinds[i] = c33OK
	}

	p.DoneAt = p.N
	if p.explicit() && p.N > 0 && rapid.IntRange(0, 3).Draw(t, "doneEarly") == 0 {
		p.DoneAt = rapid.IntRange(0, p.N).Draw(t, "doneAt")
	}

	if p.Mode == "batch" && rapid.IntRange(0, 5).Draw(t, "prefFails") == 0 {
		nb := (p.N + int(p.W) - 1) / int(p.W)
		p.PrefFail = rapid.IntRange(0, nb-1).Draw(t, "prefFailAt")
	}

	p.LateUS = rapid.SampledFrom([]int{0, 20, 100, 300, 1000}).Draw(t, "lateUS")

	return p
}

type c33Exec struct {
	p        c33Plan
	errs     []error
	prefErr  error
	ran      []atomic.Int32
	fin      []atomic.Int32
	retErr   []atomic.Bool
	sawDone  []atomic.Bool  // the job was handed a context that was already done when it started
	lastArg  []atomic.Int64 // batch: the `last` value job i was given (+1; 0 = not called)
	started  atomic.Int64
	finished atomic.Int64
	seq      atomic.Int64
	startSeq []atomic.Int64
	endSeq   []atomic.Int64

	// "the first job error cancels the remaining work": what every job was handed as its context and what it saw of it
	ctxs         []atomic.Pointer[context.Context] // the context job i was called with
	afterReturn  atomic.Bool                       // set by the harness right after the call under test came back
	liveLate     []atomic.Bool                     // job i started after the call had come back and its context was not done
	wokenByCtx   []atomic.Bool                     // job i (follower) saw its context done
	cause        []atomic.Pointer[error]           // context.Cause of it at that moment
	releasedLive []atomic.Bool                     // job i (follower) was let go by the harness (after the return) with its context still not done

	inflightAtFail atomic.Int64 // max number of started-but-unfinished jobs seen when a job reported an error
	cancel         context.CancelFunc
	cancelled      atomic.Bool
	release        chan struct{} // closed by the harness after the call returned (followers give up, return nil)
	releaseOnce    sync.Once
	late           chan struct{}
	watchdog       atomic.Bool
}

func c33NewExec(p c33Plan) *c33Exec {
	x := &c33Exec{
		p: p, errs: make([]error, p.N), ran: make([]atomic.Int32, p.N), fin: make([]atomic.Int32, p.N),
		retErr: make([]atomic.Bool, p.N), sawDone: make([]atomic.Bool, p.N), lastArg: make([]atomic.Int64, p.N),
		startSeq: make([]atomic.Int64, p.N), endSeq: make([]atomic.Int64, p.N),
		ctxs: make([]atomic.Pointer[context.Context], p.N), liveLate: make([]atomic.Bool, p.N), wokenByCtx: make([]atomic.Bool, p.N),
		cause: make([]atomic.Pointer[error], p.N), releasedLive: make([]atomic.Bool, p.N),
		release: make(chan struct{}), late: make(chan struct{}),
		prefErr: errors.New("c33: injected preparation error"),
	}

	for i := range x.errs {
		x.errs[i] = fmt.Errorf("c33: injected error of job %d", i)

		if p.Kinds[i] != c33Fail {
			continue
		}

		switch p.ErrKinds[i] {
		case c33ErrCanceled:
			x.errs[i] = context.Canceled
		case c33ErrCanceledWrap:
			x.errs[i] = fmt.Errorf("c33: injected error of job %d: %w", i, context.Canceled)
		case c33ErrCanceledJoin:
			x.errs[i] = errors.Join(x.errs[i], context.Canceled)
		case c33ErrDeadline:
			x.errs[i] = context.DeadlineExceeded
		case c33ErrDeadlineWrap:
			x.errs[i] = fmt.Errorf("c33: injected error of job %d: %w", i, context.DeadlineExceeded)
		case c33ErrDeadlineJoin:
			x.errs[i] = errors.Join(x.errs[i], context.DeadlineExceeded)
		}
	}

	return x
}

func (x *c33Exec) openRelease() { x.releaseOnce.Do(func() { close(x.release) }) }

func (x *c33Exec) job(ctx context.Context, i int) (err error) {
	x.started.Add(1)
	x.ran[i].Add(1)
	x.startSeq[i].Store(x.seq.Add(1))

	x.ctxs[i].Store(&ctx)

	// order matters: the flag is read first, so "flag set and context live" means the context was live after the return
	switch late := x.afterReturn.Load(); {
	case ctx.Err() != nil:
		x.sawDone[i].Store(true)
	case late:
		x.liveLate[i].Store(true)
	}

	defer func() {
		if err != nil {
			if n := x.started.Load() - x.finished.Load(); n > x.inflightAtFail.Load() {
				x.inflightAtFail.Store(n)
			}

			x.retErr[i].Store(true)
		}

		x.endSeq[i].Store(x.seq.Add(1))
		x.fin[i].Add(1)
		x.finished.Add(1)
	}()

	for k := 0; k < x.p.Yields[i]; k++ {
		runtime.Gosched()
	}

	switch x.p.Kinds[i] {
	case c33Fail:
		if x.p.FailLate[i] {
			<-x.late
		}

		return x.errs[i]
	case c33Follower:
		select {
		case <-ctx.Done():
		case <-x.release:
			// released by the harness, i.e. after the call under test came back (or by the watchdog)
			if ctx.Err() == nil {
				x.releasedLive[i].Store(true)

				return nil
			}
		}

		cause := context.Cause(ctx)
		x.cause[i].Store(&cause)
		x.wokenByCtx[i].Store(true)

		return x.errs[i]
	case c33Cancel:
		x.cancelled.Store(true)
		x.cancel()

		return nil
	case c33Late:
		<-x.late

		return nil
	default:
		return nil
	}
}

// c33Injected: which injected errors err matches.
func (x *c33Exec) matches(err error) (idx []int, pref, canceled bool) {
	for i := range x.errs {
		// a bare sentinel is not a distinct value (see bareOf)
		if x.p.Kinds[i] == c33Fail && c33ErrBare(x.p.ErrKinds[i]) {
			continue
		}

		if errors.Is(err, x.errs[i]) {
			idx = append(idx, i)
		}
	}

	return idx, errors.Is(err, x.prefErr), errors.Is(err, context.Canceled)
}

// bareOf: the failing jobs whose error is a bare sentinel (context.Canceled / context.DeadlineExceeded itself) that err matches.
func (x *c33Exec) bareOf(err error) (idx []int) {
	if err == nil {
		return nil
	}

	for i := range x.errs {
		if x.p.Kinds[i] == c33Fail && c33ErrBare(x.p.ErrKinds[i]) && errors.Is(err, x.errs[i]) {
			idx = append(idx, i)
		}
	}

	return idx
}

// c33Census lists the live goroutines of the process (id -> header and top frame) without the runtime's own ones.
// Goroutine ids are never reused, so "alive now and not in an earlier census" is exactly "started since and not yet gone".
func c33Census() map[int64]string {
	buf := make([]byte, 1<<16)

	for {
		n := runtime.Stack(buf, true)
		if n < len(buf) {
			buf = buf[:n]

			break
		}

		buf = make([]byte, 2*len(buf))
	}

	out := map[int64]string{}

	for _, blk := range strings.Split(string(buf), "\n\n") {
		if !strings.HasPrefix(blk, "goroutine ") || strings.Contains(blk, "\ncreated by runtime.") {
			continue
		}

		rest := blk[len("goroutine "):]

		sp := strings.IndexByte(rest, ' ')
		if sp < 0 {
			continue
		}

		id, err := strconv.ParseInt(rest[:sp], 10, 64)
		if err != nil {
			continue
		}

		lines := strings.SplitN(blk, "\n", 3)
		if len(lines) > 2 {
			lines = lines[:2]
		}

		out[id] = strings.Join(lines, " ")
	}

	return out
}

// drain waits until no goroutine that came into being since the census `before` is left. The harness's own goroutines
// have been joined by then, so what is left was started by the code under test on behalf of this case; once they are
// all gone nothing can run a job of this case any more and the run counters are final. That makes "an accepted job was
// never run" a fact about the process, not a guess after a delay. Only the budget is real time; hitting it is inconclusive.
func c33Drain(before map[int64]string) (left []string, ok bool) {
	deadline := time.Now().Add(15 * time.Second)

	for spin := 0; ; spin++ {
		left = left[:0]

		for id, what := range c33Census() {
			if _, found := before[id]; !found {
				left = append(left, what)
			}
		}

		if len(left) < 1 {
			return nil, true
		}

		if time.Now().After(deadline) {
			sort.Strings(left)

			return left, false
		}

		if spin < 50 {
			runtime.Gosched()
		} else {
			time.Sleep(200 * time.Microsecond)
		}
	}
}

func c33Describe(p c33Plan) string {
	var ks []string

	for i, k := range p.Kinds {
		if k != c33OK {
			n := c33KindNames[k]
			if k == c33Fail && p.FailLate[i] {
				n = "fail-late"
			}

			if k == c33Fail {
				n += c33ErrKindNames[p.ErrKinds[i]]
			}

			ks = append(ks, fmt.Sprintf("%d:%s", i, n))
		}

		if len(ks) > 24 {
			ks = append(ks, "...")

			break
		}
	}

	stop := "never"
	if p.StopAt >= 0 {
		stop = fmt.Sprintf("%s-after-%d-submissions", p.StopHow, p.StopAt)
	}

	return fmt.Sprintf("mode=%s worker=%d jobs=%d doneAt=%d stop=%s prefFail=%d special=[%s]", p.Mode, p.W, p.N, p.DoneAt, stop, p.PrefFail, strings.Join(ks, " "))
}

func TestC33(t *testing.T) {
	r := ev.Start(t, "C33")
	defer r.Finish()
	r.Rule("plans: mode {BaseJobWorker / ErrCallbackJobWorker with explicit NewJob/Done/Wait, RunJobWorker, RunErrCallbackJobWorker, BatchWork} x worker size 1..16 / batch limit 1..50 " +
		"x 0..200 jobs of kinds {ok, fail with a distinct error or - half of the failing jobs - with an error that is / wraps (fmt.Errorf %w) / joins (errors.Join) context.Canceled or context.DeadlineExceeded while the worker context is live, follower (fails only after the worker context was cancelled), external cancel, late (still running when Wait starts)} " +
		"with drawn yields, batch limits below the size in half of the batch plans (several batches, failing job with followers / late jobs in the SAME batch), Done() before the last submission, the submitter stopping the worker (Cancel / Close / parent context) right after a NewJob call returned, failing batch preparation. " +
		"non-trivial: >= 2 batches, or a failing job that reported its error while other jobs were in flight / still to be submitted, or a stop right after an accepted job; distinct by (mode, sizes, stop, kind string)")
	r.Floor(100)
	r.Assume("'waits for all jobs' and 'finished at return' are judged on the no-error path",
		"'every accepted job runs exactly once' (NewJob returned nil => the callback is invoked once, possibly with a context that is already done) is judged on every path, cancelled or failed ones included, "+
			"once no goroutine started since the beginning of the case is left (goroutine census; the harness's own goroutines are joined first), so 'never ran' is a fact and not a timeout; acceptance is observable only where the harness calls NewJob itself",
		"the first error is demanded exactly only where the order is determined: worker size 1, or one failing job whose followers fail only after observing the cancellation; otherwise membership in the set of errors jobs actually returned",
		"error-callback workers are documented to ignore job errors: nil is returned (context.Canceled only after a cancellation from outside), and the callback receives exactly the errors jobs returned, each once",
		"external cancellation and a submitter that stops the worker: run counts, error membership and the error callback are judged, not which error Wait returns",
		"'the first job error cancels the remaining work': once a worker that reports job errors (BaseJobWorker.Wait, RunJobWorker, BatchWork on either path) has returned an error, every job of it that had not finished "+
			"(running, or started afterwards) holds a context that is done - every job records the context it was called with; that such jobs have already left is not demanded (Wait does not wait on the error path)",
		"a job that waited on its context sees the first job error as context.Cause where the plan determines that error (one failing job, or worker size / limit 1), else the error of one of the failing jobs; not judged with cancellations from outside")

	r.Checks(1500, 100000)
	r.ShrinkTime(20 * time.Second)

	rapid.Check(t, func(rt *rapid.T) {
		p := c33GenPlan(rt)
		x := c33NewExec(p)

		before := c33Census() // nothing of this case exists yet

		parent, cancel := context.WithCancel(context.Background())
		defer cancel()
		x.cancel = cancel

		// late gate + watchdog (the harness's own goroutines; joined before the goroutine census below)
		var (
			own          sync.WaitGroup
			returned     = make(chan struct{})
			returnedOnce sync.Once
		)

		defer func() { // also when a violation unwinds: let everything of this case run out
			returnedOnce.Do(func() { close(returned) })
			x.openRelease()
		}()

		own.Add(2)

		go func() {
			defer own.Done()

			if p.LateUS > 0 {
				time.Sleep(time.Duration(p.LateUS) * time.Microsecond)
			}

			close(x.late)
		}()

		go func() {
			defer own.Done()

			watch := time.NewTimer(20 * time.Second)
			defer watch.Stop()

			select {
			case <-returned:
			case <-watch.C:
				x.watchdog.Store(true)
				x.openRelease()
			}
		}()

		var (
			callErr    error
			accepted   = make([]bool, p.N)
			naccepted  int64
			errfGot    []error
			errfLock   sync.Mutex
			prefCalls  []int64 // last values in call order
			prefSeqs   []int64
			prefPrevOK []bool // at preparation time every job of the previous batch had finished
			prefLock   sync.Mutex

			prefOverflow bool
		)

		limit := int(p.W)
		batchOf := func(i int) int { return i / limit }
		batchEnd := func(b int) int { return min((b+1)*limit, p.N) }

		errf := func(err error) {
			errfLock.Lock()
			errfGot = append(errfGot, err)
			errfLock.Unlock()
		}

		switch p.Mode {
		case "base", "errbase":
			var (
				wk  *util.BaseJobWorker
				err error
			)

			if p.Mode == "base" {
				wk, err = util.NewBaseJobWorker(parent, p.W)
			} else {
				wk, err = util.NewErrCallbackJobWorker(parent, p.W, errf)
			}

			if err != nil {
				rt.Fatalf("new worker: %v", err)
			}

			stop := func() {
				x.cancelled.Store(true)

				switch p.StopHow {
				case "cancel":
					wk.Cancel()
				case "close":
					wk.Close()
				default:
					cancel()
				}
			}

			for i := 0; i < p.N; i++ {
				if i == p.StopAt {
					stop() // NewJob(i-1) has just returned
				}

				if i == p.DoneAt {
					wk.Done()
				}

				i := i
				if err := wk.NewJob(func(ctx context.Context, _ uint64) error { return x.job(ctx, i) }); err == nil {
					accepted[i] = true
					naccepted++
				}
			}

			if p.StopAt == p.N {
				stop()
			}

			if p.DoneAt >= p.N {
				wk.Done()
			}

			callErr = wk.Wait()
		case "run":
			callErr = util.RunJobWorker(parent, p.W, int64(p.N), func(ctx context.Context, i, _ uint64) error { return x.job(ctx, int(i)) })
		case "errcb":
			callErr = util.RunErrCallbackJobWorker(parent, p.W, int64(p.N), errf, func(ctx context.Context, i, _ uint64) error { return x.job(ctx, int(i)) })
		case "batch":
			callErr = util.BatchWork(parent, int64(p.N), p.W,
				func(_ context.Context, last uint64) error {
					prefLock.Lock()
					defer prefLock.Unlock()

					b := len(prefCalls)
					prevOK := true

					if b >= (p.N+limit-1)/limit {
						// more preparations than batches exist: stop the loop under test, reported below
						prefOverflow = true

						return errors.New("c33: preparation called more often than batches exist")
					}

					if b > 0 {
						for i := (b - 1) * limit; i < batchEnd(b-1) && i < p.N; i++ {
							if x.fin[i].Load() != 1 {
								prevOK = false
							}
						}
					}

					prefCalls = append(prefCalls, int64(last))
					prefSeqs = append(prefSeqs, x.seq.Add(1))
					prefPrevOK = append(prefPrevOK, prevOK)

					if b == p.PrefFail {
						return x.prefErr
					}

					return nil
				},
				func(ctx context.Context, i, last uint64) error {
					if int(i) >= p.N {
						return fmt.Errorf("c33: index %d out of range", i) // reported below through ran/lastArg bookkeeping
					}

					x.lastArg[i].Store(int64(last) + 1)

					return x.job(ctx, int(i))
				})
		}

		// ---- snapshot at return
		x.afterReturn.Store(true)
		returnedOnce.Do(func() { close(returned) })

		finAtReturn := make([]int32, p.N)
		errAtReturn := make([]bool, p.N)
		liveAtReturn := make([]bool, p.N) // job i had been started, had not finished and the context it was given was not done

		for i := range finAtReturn {
			errAtReturn[i] = x.retErr[i].Load()
			finAtReturn[i] = x.fin[i].Load()

			// fin is read first and a context never comes back to life: unfinished now => unfinished at the return,
			// live now => live at the return
			if c := x.ctxs[i].Load(); finAtReturn[i] == 0 && c != nil && (*c).Err() == nil {
				liveAtReturn[i] = true
			}
		}

		watchdog := x.watchdog.Load()
		x.openRelease()

		desc := c33Describe(p)

		if watchdog {
			// a 20 s stall: the call only came back because the harness released the followers. Not a verdict.
			rt.Fatalf("c33: watchdog fired (call did not return within 20 s): %s", desc)
		}

		hasCancel := p.StopAt >= 0 // the submitter stopped the worker: like a cancellation from outside
		nfail := 0

		for _, k := range p.Kinds {
			switch k {
			case c33Cancel:
				hasCancel = true
			case c33Fail:
				nfail++
			}
		}

		idx, isPref, isCanceled := x.matches(callErr)

		// the job error that cancels the work where the plan determines it (set per mode below; nil = not determined)
		var (
			firstErr      error
			firstErrExact bool
		)

		// the returned error must be an error a job (or the preparation) actually returned before the call came back
		checkMembership := func() {
			if callErr == nil {
				return
			}

			for _, i := range idx {
				if errAtReturn[i] {
					return
				}
			}

			for _, i := range x.bareOf(callErr) {
				if errAtReturn[i] {
					return
				}
			}

			if isPref && p.PrefFail >= 0 {
				return
			}

			if isCanceled && x.cancelled.Load() {
				return
			}

			var returnedErrs []int

			for i := range errAtReturn {
				if errAtReturn[i] {
					returnedErrs = append(returnedErrs, i)
				}
			}

			sig := "returned-error-not-a-job-error"
			if isCanceled && len(returnedErrs) > 0 {
				sig = "job-error-masked-by-context-canceled"
			}

			r.Violation(rt, sig, "%s: returned error %q is not the error of any job that failed (jobs that had returned an error: %v; external cancel requested: %v)",
				desc, callErr, returnedErrs, x.cancelled.Load())
		}

		expectExact := func(want error, why string) {
			if callErr == nil {
				r.Violation(rt, "job-error-lost", "%s: returned nil although %s", desc, why)

				return
			}

			if !errors.Is(callErr, want) {
				sig := "not-first-error"
				if isCanceled && !x.cancelled.Load() {
					sig = "job-error-masked-by-context-canceled"
				}

				r.Violation(rt, sig, "%s: returned %q, want %q (%s)", desc, callErr, want, why)
			}
		}

		expectAllRanAtReturn := func(upto int, what string) {
			for i := 0; i < upto; i++ {
				if p.explicit() && !accepted[i] {
					continue
				}

				if finAtReturn[i] != 1 {
					r.Violation(rt, "returned-before-jobs-finished", "%s: %s returned nil but job %d had finished %d times at that moment (want exactly 1)", desc, what, i, finAtReturn[i])
				}
			}
		}

		switch p.Mode {
		case "base", "run":
			reach := p.N
			if p.Mode == "base" {
				reach = p.DoneAt
			}

			// first failing job among those certainly accepted (nothing cancels before it)
			expFail := -1

			for i := 0; i < reach; i++ {
				if p.Kinds[i] == c33Fail {
					expFail = i

					break
				}
			}

			nfailReach := 0

			for i := 0; i < reach; i++ {
				if p.Kinds[i] == c33Fail {
					nfailReach++
				}
			}

			if !hasCancel && expFail >= 0 {
				firstErr, firstErrExact = x.errs[expFail], p.W == 1 || nfailReach == 1
			}

			switch {
			case hasCancel:
				checkMembership()
			case expFail < 0:
				if callErr != nil {
					r.Violation(rt, "error-without-failing-job", "%s: returned %q although no job fails", desc, callErr)
				}

				expectAllRanAtReturn(p.N, "Wait")
			case p.W == 1 || nfailReach == 1:
				expectExact(x.errs[expFail], fmt.Sprintf("job %d is the first job that fails (worker size %d, failing jobs %d)", expFail, p.W, nfailReach))
			default:
				if callErr == nil {
					r.Violation(rt, "job-error-lost", "%s: returned nil although job %d fails", desc, expFail)
				}

				checkMembership()
			}

			// worker size 1: the failing job cancels before it releases its slot, so nothing after it is accepted
			if p.Mode == "base" && p.W == 1 && !hasCancel && expFail >= 0 {
				for i := expFail + 1; i < p.N; i++ {
					if accepted[i] {
						r.Violation(rt, "work-not-cancelled-after-error", "%s: job %d was accepted after job %d had failed on a worker of size 1", desc, i, expFail)
					}
				}
			}
		case "errcb", "errbase":
			// job errors go to the callback and never into the returned error; only a cancellation from outside may come back
			if callErr != nil && !(hasCancel && isCanceled && len(idx) == 0 && x.cancelled.Load()) {
				r.Violation(rt, "errcallback-worker-returned-error", "%s: returned %q; this worker hands job errors to the callback and goes on (cancellation from outside requested: %v)",
					desc, callErr, x.cancelled.Load())
			}

			if !hasCancel {
				// nothing cancels: every accepted job (RunErrCallbackJobWorker: every job) has finished and every error was handed over at return
				expectAllRanAtReturn(p.N, "the error-callback worker")

				var want, got []string

				for i, k := range p.Kinds {
					if k == c33Fail && (!p.explicit() || accepted[i]) {
						want = append(want, x.errs[i].Error())
					}
				}

				errfLock.Lock()
				for _, e := range errfGot {
					got = append(got, e.Error())
				}
				errfLock.Unlock()

				sort.Strings(want)
				sort.Strings(got)

				if strings.Join(want, "\n") != strings.Join(got, "\n") {
					r.Violation(rt, "errcallback-errors-mismatch", "%s: error callback received %d errors %v, jobs returned %d", desc, len(got), got, len(want))
				}
			}
		case "batch":
			nb := (p.N + limit - 1) / limit

			if prefOverflow {
				r.Violation(rt, "batch-preparation-count", "%s: preparation was called a %d. time although there are only %d batches (calls so far: last=%v)", desc, nb+1, nb, prefCalls)
			}

			// sequential expectation
			var (
				wantErr   error
				wantWhy   string
				exact     = true
				prefHit   bool
				stopBatch = nb // first batch of which no job may start
			)

			for b := 0; b < nb && stopBatch == nb; b++ {
				if b == p.PrefFail {
					wantErr, wantWhy, stopBatch, prefHit = x.prefErr, fmt.Sprintf("preparation of batch %d fails", b), b, true

					break
				}

				nf, ff, canc := 0, -1, false

				for i := b * limit; i < batchEnd(b); i++ {
					switch p.Kinds[i] {
					case c33Fail:
						nf++

						if ff < 0 {
							ff = i
						}
					case c33Cancel:
						canc = true
					}
				}

				switch {
				case canc:
					wantErr, exact, stopBatch = context.Canceled, false, b+1
				case nf > 0:
					wantErr, wantWhy, stopBatch = x.errs[ff], fmt.Sprintf("job %d fails in batch %d", ff, b), b+1
					exact = nf == 1 || limit == 1
				}
			}

			if !hasCancel && !prefHit && wantErr != nil {
				firstErr, firstErrExact = wantErr, exact
			}

			switch {
			case wantErr == nil:
				if callErr != nil {
					r.Violation(rt, "error-without-failing-job", "%s: returned %q although nothing fails", desc, callErr)
				}

				expectAllRanAtReturn(p.N, "BatchWork")
			case exact:
				expectExact(wantErr, wantWhy)
			default:
				if callErr == nil {
					r.Violation(rt, "job-error-lost", "%s: returned nil although a job fails or the context is cancelled", desc)
				}

				checkMembership()
			}

			// preparation calls: in order, with the batch ends, before their jobs, after the previous batch
			prefLock.Lock()
			pc := append([]int64(nil), prefCalls...)
			ps := append([]int64(nil), prefSeqs...)
			po := append([]bool(nil), prefPrevOK...)
			prefLock.Unlock()

			wantPrefs := stopBatch
			if prefHit {
				wantPrefs = stopBatch + 1
			}

			if !hasCancel && len(pc) != min(wantPrefs, nb) {
				r.Violation(rt, "batch-preparation-count", "%s: preparation was called %d times %v, want %d", desc, len(pc), pc, min(wantPrefs, nb))
			}

			for b := range pc {
				if b >= nb {
					r.Violation(rt, "batch-preparation-count", "%s: preparation called %d times for %d batches", desc, len(pc), nb)

					break
				}

				if pc[b] != int64(batchEnd(b)-1) {
					r.Violation(rt, "batch-end-wrong", "%s: preparation call %d got last=%d, want %d", desc, b, pc[b], batchEnd(b)-1)
				}

				if !po[b] {
					r.Violation(rt, "batch-started-before-previous-finished", "%s: preparation of batch %d ran before every job of batch %d had finished", desc, b, b-1)
				}
			}

			for i := 0; i < p.N; i++ {
				ss := x.startSeq[i].Load()
				if ss == 0 {
					continue
				}

				b := batchOf(i)

				if b >= len(ps) || ps[b] > ss {
					r.Violation(rt, "job-before-preparation", "%s: job %d (batch %d) started before the preparation of its batch", desc, i, b)
				}

				if la := x.lastArg[i].Load(); la != int64(batchEnd(b)) {
					r.Violation(rt, "batch-end-wrong", "%s: job %d got last=%d, want %d", desc, i, la-1, batchEnd(b)-1)
				}

				if !hasCancel && b >= stopBatch {
					r.Violation(rt, "batch-after-error", "%s: job %d of batch %d started although the work stops with batch %d", desc, i, b, stopBatch-1)
				}
			}
		}

		// ---- quiescence: the harness's goroutines are joined, then every goroutine the code under test started for this
		// case is awaited (goroutine census, see c33Drain). After that nothing can run a job any more: nothing ran twice,
		// nothing refused ran, everything accepted ran exactly once - also when the worker was stopped, or a job failed,
		// right after NewJob had accepted the job - and the error callback got exactly the errors jobs returned.
		own.Wait()

		if left, ok := c33Drain(before); !ok {
			rt.Fatalf("c33: goroutines of this case still alive after 15 s (started %d finished %d accepted %d): %s: %v", x.started.Load(), x.finished.Load(), naccepted, desc, left)
		}

		if s, f := x.started.Load(), x.finished.Load(); s != f {
			rt.Fatalf("c33: harness: %d job bodies entered, %d left, and no goroutine is left: %s", s, f, desc)
		}

		for i := 0; i < p.N; i++ {
			n := x.ran[i].Load()

			if n > 1 {
				r.Violation(rt, "job-ran-twice", "%s: job %d ran %d times", desc, i, n)
			}

			if p.explicit() {
				if !accepted[i] && n != 0 {
					r.Violation(rt, "refused-job-ran", "%s: job %d was refused by NewJob but ran", desc, i)
				}

				if accepted[i] && n != 1 {
					r.Violation(rt, "accepted-job-not-run", "%s: NewJob returned nil for job %d but the job ran %d times (want exactly once; no goroutine is left that could still run it)", desc, i, n)
				}
			}
		}

		// "the first job error cancels the remaining work": a worker that reports job errors has come back with an error.
		// Whatever job of it had not finished by then - running (for instance a follower parked on its context, a late job),
		// or accepted and started only afterwards - must hold a context that is done; a job cannot learn in any other way
		// that its work is no longer wanted. Whether such a job has already left is NOT demanded (Wait does not wait for
		// the jobs on the error path). Everything below is final: no goroutine of the case is left.
		woken, wokenSameBatch := 0, 0

		if callErr != nil && !p.errMode() {
			for i := 0; i < p.N; i++ {
				var how string

				switch {
				case liveAtReturn[i]:
					how = "was running when the call came back and its context was not done"
				case x.releasedLive[i].Load():
					how = "waited for its context until the harness let it go after the call had come back; the context was still not done"
				case x.liveLate[i].Load():
					how = "was started after the call had come back, with a context that was not done"
				default:
					continue
				}

				where := ""
				if p.Mode == "batch" {
					where = fmt.Sprintf(" (batch %d of %d, limit %d)", batchOf(i), (p.N+limit-1)/limit, limit)
				}

				r.Violation(rt, "remaining-work-not-cancelled-after-error", "%s: the call returned %q but job %d [%s]%s %s", desc, callErr, i, c33KindNames[p.Kinds[i]], where, how)
			}
		}

		// the cancellation the waiting jobs observe is the one made by the first job error (cancel cause), where the plan
		// determines which error that is; with several independent failing jobs it is one of theirs
		for i := 0; i < p.N; i++ {
			if !x.wokenByCtx[i].Load() {
				continue
			}

			woken++

			if p.Mode == "batch" && firstErr != nil && len(idx) > 0 && batchOf(idx[0]) == batchOf(i) {
				wokenSameBatch++
			}

			if firstErr == nil || p.errMode() {
				continue
			}

			cause := *x.cause[i].Load()

			switch {
			case firstErrExact:
				if !errors.Is(cause, firstErr) {
					r.Violation(rt, "cancel-cause-not-first-error", "%s: job %d waited for its context; it was cancelled with cause %q, want the first job error %q", desc, i, fmt.Sprint(cause), firstErr)
				}
			default:
				found := false

				for j := range x.errs {
					if p.Kinds[j] == c33Fail && errors.Is(cause, x.errs[j]) {
						found = true
					}
				}

				if !found {
					r.Violation(rt, "cancel-cause-not-first-error", "%s: job %d waited for its context; it was cancelled with cause %q, which is not the error of any failing job", desc, i, fmt.Sprint(cause))
				}
			}
		}

		if p.errMode() {
			var want, got []string

			for i := range x.retErr {
				if x.retErr[i].Load() {
					want = append(want, x.errs[i].Error())
				}
			}

			errfLock.Lock()
			for _, e := range errfGot {
				got = append(got, e.Error())
			}
			errfLock.Unlock()

			sort.Strings(want)
			sort.Strings(got)

			if strings.Join(want, "\n") != strings.Join(got, "\n") {
				r.Violation(rt, "errcallback-errors-mismatch", "%s: after everything ran out the error callback had received %d errors %v, jobs had returned %d %v", desc, len(got), got, len(want), want)
			}
		}

		if p.Mode == "batch" {
			prefLock.Lock()
			n := len(prefCalls)
			prefLock.Unlock()

			if nb := (p.N + limit - 1) / limit; n > nb {
				r.Violation(rt, "batch-preparation-count", "%s: preparation called %d times for %d batches", desc, n, nb)
			}
		}

		// ---- evidence
		nb := 1
		if p.Mode == "batch" {
			nb = (p.N + limit - 1) / limit
		}

		failedInFlight := false

		for i := range errAtReturn {
			if errAtReturn[i] && p.Kinds[i] == c33Fail && (x.inflightAtFail.Load() >= 2 || i < p.N-1) {
				failedInFlight = true
			}
		}

		// the submitter stopped the worker right after a NewJob call that had accepted a job
		stoppedAfterAccept := p.explicit() && p.StopAt >= 1 && accepted[p.StopAt-1]

		ranDone := 0 // jobs that were run with a context that was already done

		for i := range x.sawDone {
			if x.sawDone[i].Load() {
				ranDone++
			}
		}

		nontrivial := (p.Mode == "batch" && nb >= 2) || failedInFlight || stoppedAfterAccept

		shape := "nofail"

		switch {
		case p.StopAt >= 0:
			shape = "submitter-stops"
		case hasCancel:
			shape = "extcancel"
		case nfail == 1:
			shape = "single-fail"
		case nfail > 1:
			shape = "multi-fail"
		}

		classes := []string{"mode:" + p.Mode, "shape:" + shape}
		if p.W == 1 {
			classes = append(classes, "worker:1")
		} else {
			classes = append(classes, "worker:>1")
		}

		if p.explicit() && p.DoneAt < p.N {
			classes = append(classes, "done-early")
		}

		if stoppedAfterAccept {
			classes = append(classes, "stopped-right-after-accept:"+p.StopHow)
		}

		if ranDone > 0 {
			classes = append(classes, "job-ran-with-done-context")
		}

		if p.PrefFail >= 0 {
			classes = append(classes, "prep-fails")
		}

		if p.Mode == "batch" && nb >= 2 {
			classes = append(classes, "batches:>=2")
		}

		if x.inflightAtFail.Load() >= 2 {
			classes = append(classes, "error-with-others-in-flight")
		}

		for i := range errAtReturn {
			if errAtReturn[i] && p.Kinds[i] == c33Fail && p.ErrKinds[i] != c33ErrDistinct && !hasCancel {
				classes = append(classes, "job-failed-with-context-error-of-its-own:"+p.Mode)

				break
			}
		}

		if woken > 0 {
			classes = append(classes, "job-waiting-on-context-saw-cancellation")
		}

		if wokenSameBatch > 0 && nb >= 2 {
			classes = append(classes, "batches:>=2+sibling-of-failing-job-waiting-on-context")
		}

		if callErr != nil {
			classes = append(classes, "returned:error")
		} else {
			classes = append(classes, "returned:nil")
		}

		r.Case(p.fingerprint(), nontrivial, classes...)

		if nontrivial && r.WantSample() {
			r.Sample(map[string]any{"plan": desc, "returned": fmt.Sprint(callErr), "batches": nb, "in_flight_at_error": x.inflightAtFail.Load(), "accepted": naccepted, "ran_with_done_context": ranDone})
		}
	})
}
