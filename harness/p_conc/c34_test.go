package p_conc

import (
	"context"
	"errors"
	"fmt"
	"strings"
	"sync"
	"sync/atomic"
	"testing"
	"time"

	"github.com/spikeekips/mitum/util"
	"pgregory.net/rapid"
	"verif/internal/ev"
)

// C34: stopped timers stay stopped, removing a timer never removes its successor under the same id, no callback
// before its interval.
//
// The harness owns every callback, interval function and removal hook (NewSimpleTimer's whenRemoved). Every harness
// action and every observation gets a number from one atomic counter; all verdicts are derived afterwards from those
// numbers and from monotonic clock readings taken inside harness code, so they hold for every schedule:
//   (a) a timer registered before a Stop* call (covering its id) started may start its callback at most once after
//       that call returned (one run may already be past its context check) - not at all when the Stop* call was made
//       from inside that timer's own callback, because run() holds the timer lock from the context check to the end;
//   (b) every observed removal of a timer object must be explained by a Stop* call that overlaps or follows its
//       registration, by its own callback having returned keep=false / an error, or by the final shutdown;
//   (c) start(0) - (clock read before registration) >= interval(0), start(k+1) - end(k) >= interval(k+1).

const (
	c34ActNone = iota
	c34ActNewSame
	c34ActNewOther
	c34ActStopOwn
	c34ActStopOthers // excluding the own id
	c34ActStopAll
)

var c34ActNames = []string{"-", "new-same-id", "new-other-id", "stop-own-id", "stop-others", "stop-all"}

const (
	c34RetKeep = iota
	c34RetDrop
	c34RetErr
)

var c34RetNames = []string{"keep", "keep=false", "error"}

type c34CB struct {
	DurMS  int
	Action int
	Ret    int
	New    *c34Spec
}

type c34Spec struct {
	ID        int
	Intervals []int // ms, cycled by call index
	Script    []c34CB
	PlainNew  bool // registered through SimpleTimers.New (no removal hook available)
}

type c34Step struct {
	SleepMS int
	Op      string // new | stop | stopothers | stopall
	Spec    *c34Spec
	IDs     []int
}

type c34Program struct {
	Size       uint64
	Resolution int // ms
	Steps      []c34Step
	TailMS     int
}

var c34IDs = []util.TimerID{"t0", "t1", "t2"}

func c34GenSpec(t *rapid.T, depth int) *c34Spec {
	s := &c34Spec{
		ID:        rapid.IntRange(0, len(c34IDs)-1).Draw(t, "id"),
		Intervals: rapid.SliceOfN(rapid.IntRange(1, 12), 1, 3).Draw(t, "intervals"),
		PlainNew:  rapid.IntRange(0, 5).Draw(t, "plainNew") == 0,
	}

	n := rapid.IntRange(0, 3).Draw(t, "scriptLen")
	for i := 0; i < n; i++ {
		cb := c34CB{DurMS: rapid.SampledFrom([]int{0, 0, 1, 3, 6, 9}).Draw(t, "dur")}

		switch a := rapid.IntRange(0, 19).Draw(t, "action"); {
		case a < 8:
			cb.Action = c34ActNone
		case a < 13:
			cb.Action = c34ActNewSame
		case a < 15:
			cb.Action = c34ActNewOther
		case a < 17:
			cb.Action = c34ActStopOwn
		case a < 19:
			cb.Action = c34ActStopOthers
		default:
			cb.Action = c34ActStopAll
		}

		if (cb.Action == c34ActNewSame || cb.Action == c34ActNewOther) && depth >= 2 {
			cb.Action = c34ActNone
		}

		switch x := rapid.IntRange(0, 9).Draw(t, "ret"); {
		case x < 5:
			cb.Ret = c34RetKeep
		case x < 8:
			cb.Ret = c34RetDrop
		default:
			cb.Ret = c34RetErr
		}

		if cb.Action == c34ActNewSame || cb.Action == c34ActNewOther {
			cb.New = c34GenSpec(t, depth+1)

			if cb.Action == c34ActNewSame {
				cb.New.ID = s.ID
			} else if cb.New.ID == s.ID {
				cb.New.ID = (s.ID + 1) % len(c34IDs)
			}
		}

		s.Script = append(s.Script, cb)
	}

	return s
}

func c34GenProgram(t *rapid.T) c34Program {
	p := c34Program{
		Size:       rapid.SampledFrom([]uint64{1, 2, 16}).Draw(t, "size"),
		Resolution: rapid.IntRange(2, 5).Draw(t, "resolution"),
		TailMS:     rapid.IntRange(5, 25).Draw(t, "tail"),
	}

	n := rapid.IntRange(3, 8).Draw(t, "steps")
	for i := 0; i < n; i++ {
		st := c34Step{SleepMS: rapid.IntRange(0, 12).Draw(t, "sleep")}

		switch o := rapid.IntRange(0, 9).Draw(t, "op"); {
		case o < 6 || i == 0:
			st.Op = "new"
			st.Spec = c34GenSpec(t, 0)
		case o < 8:
			st.Op = "stop"
			st.IDs = rapid.SliceOfNDistinct(rapid.IntRange(0, len(c34IDs)-1), 1, 2, rapid.ID[int]).Draw(t, "ids")
		case o < 9:
			st.Op = "stopothers"
			st.IDs = rapid.SliceOfNDistinct(rapid.IntRange(0, len(c34IDs)-1), 0, 2, rapid.ID[int]).Draw(t, "exclude")
		default:
			st.Op = "stopall"
		}

		p.Steps = append(p.Steps, st)
	}

	return p
}

func (s *c34Spec) String() string {
	var b strings.Builder

	fmt.Fprintf(&b, "{id=%s every=%vms", c34IDs[s.ID], s.Intervals)

	if s.PlainNew {
		b.WriteString(" plain")
	}

	for i, cb := range s.Script {
		fmt.Fprintf(&b, " cb%d:[%dms %s -> %s", i, cb.DurMS, c34ActNames[cb.Action], c34RetNames[cb.Ret])

		if cb.New != nil {
			b.WriteString(" " + cb.New.String())
		}

		b.WriteString("]")
	}

	b.WriteString("}")

	return b.String()
}

func (p c34Program) String() string {
	var b strings.Builder

	fmt.Fprintf(&b, "shards=%d resolution=%dms tail=%dms:", p.Size, p.Resolution, p.TailMS)

	for _, st := range p.Steps {
		fmt.Fprintf(&b, " +%dms %s", st.SleepMS, st.Op)

		switch st.Op {
		case "new":
			b.WriteString(st.Spec.String())
		case "stop", "stopothers":
			fmt.Fprintf(&b, "%v", st.IDs)
		}

		b.WriteString(";")
	}

	return b.String()
}

// ---- the log

type c34CBEvent struct {
	startSeq, endSeq int64
	start, end       time.Time
	ret              int
}

type c34Timer struct {
	idx         int
	spec        *c34Spec
	parent      int // timer whose callback registered it, -1 = the driver
	regStartSeq int64
	regEndSeq   int64
	regStart    time.Time
	added       bool
	regErr      error
	cbs         []c34CBEvent
	removed     []int64
	selfDropSeq int64 // the moment a callback of this timer decided to return keep=false / an error (first time)
}

type c34Stop struct {
	what     string
	startSeq int64
	endSeq   int64 // 0 = still running
	all      bool
	ids      map[int]bool // stop: the ids; stopothers: the excluded ids
	others   bool
	inside   int // timer index whose callback issued it, -1 = the driver
}

func (s *c34Stop) covers(id int) bool {
	switch {
	case s.all:
		return true
	case s.others:
		return !s.ids[id]
	default:
		return s.ids[id]
	}
}

type c34Run struct {
	ts       *util.SimpleTimers
	mu       sync.Mutex
	seq      atomic.Int64
	timers   []*c34Timer
	stops    []*c34Stop
	closed   bool
	inflight atomic.Int64
}

func (x *c34Run) register(spec *c34Spec, parent int) {
	tm := &c34Timer{spec: spec, parent: parent}

	x.mu.Lock()
	if x.closed {
		x.mu.Unlock()

		return
	}

	tm.idx = len(x.timers)
	x.timers = append(x.timers, tm)
	tm.regStart = time.Now()
	tm.regStartSeq = x.seq.Add(1)
	x.mu.Unlock()

	intervalf := func(k uint64) time.Duration {
		return time.Duration(spec.Intervals[int(k%uint64(len(spec.Intervals)))]) * time.Millisecond
	}

	cb := func(_ context.Context, _ uint64) (bool, error) { return x.callback(tm) }

	var added bool
	var err error

	if spec.PlainNew {
		added, err = x.ts.New(c34IDs[spec.ID], intervalf, cb)
	} else {
		added, err = x.ts.NewTimer(util.NewSimpleTimer(c34IDs[spec.ID], intervalf, cb, func() {
			s := x.seq.Add(1)

			x.mu.Lock()
			tm.removed = append(tm.removed, s)
			x.mu.Unlock()
		}))
	}

	x.mu.Lock()
	tm.added, tm.regErr = added, err
	tm.regEndSeq = x.seq.Add(1)
	x.mu.Unlock()
}

func (x *c34Run) stop(what string, ids []int, inside int) {
	s := &c34Stop{what: what, ids: map[int]bool{}, inside: inside, others: what == "stopothers", all: what == "stopall" || what == "shutdown"}

	for _, i := range ids {
		s.ids[i] = true
	}

	tids := make([]util.TimerID, len(ids))
	for i := range ids {
		tids[i] = c34IDs[ids[i]]
	}

	x.mu.Lock()
	if x.closed {
		x.mu.Unlock()

		return
	}

	s.startSeq = x.seq.Add(1)
	x.stops = append(x.stops, s)
	x.mu.Unlock()

	switch what {
	case "stop":
		_ = x.ts.StopTimers(tids)
	case "stopothers":
		_ = x.ts.StopOthers(tids)
	case "stopall":
		_ = x.ts.StopAllTimers()
	case "shutdown":
		_ = x.ts.Stop()
	}

	x.mu.Lock()
	s.endSeq = x.seq.Add(1)
	x.mu.Unlock()
}

func (x *c34Run) callback(tm *c34Timer) (bool, error) {
	now := time.Now()

	x.mu.Lock()
	if x.closed {
		x.mu.Unlock()

		return true, nil
	}

	k := len(tm.cbs)
	tm.cbs = append(tm.cbs, c34CBEvent{startSeq: x.seq.Add(1), start: now})
	x.inflight.Add(1)
	x.mu.Unlock()

	defer x.inflight.Add(-1)

	cb := c34CB{}
	if k < len(tm.spec.Script) {
		cb = tm.spec.Script[k]
	}

	if cb.DurMS > 0 {
		time.Sleep(time.Duration(cb.DurMS) * time.Millisecond)
	}

	switch cb.Action {
	case c34ActNewSame, c34ActNewOther:
		x.register(cb.New, tm.idx)
	case c34ActStopOwn:
		x.stop("stop", []int{tm.spec.ID}, tm.idx)
	case c34ActStopOthers:
		x.stop("stopothers", []int{tm.spec.ID}, tm.idx)
	case c34ActStopAll:
		x.stop("stopall", nil, tm.idx)
	}

	x.mu.Lock()
	if cb.Ret != c34RetKeep && tm.selfDropSeq == 0 {
		tm.selfDropSeq = x.seq.Add(1)
	}

	if !x.closed {
		tm.cbs[k].ret = cb.Ret
		tm.cbs[k].endSeq = x.seq.Add(1)
		tm.cbs[k].end = time.Now()
	}
	x.mu.Unlock()

	switch cb.Ret {
	case c34RetDrop:
		return false, nil
	case c34RetErr:
		return true, errors.New("c34: injected callback error")
	default:
		return true, nil
	}
}

func TestC34(t *testing.T) {
	r := ev.Start(t, "C34")
	defer r.Finish()
	r.Rule("programs of 3..8 driver steps {NewTimer/New, StopTimers, StopOthers, StopAllTimers} over 3 ids with 0..12 ms pauses against a running SimpleTimers " +
		"(1/2/16 shards, resolution 2..5 ms); every timer has drawn intervals 1..12 ms and a per-call script {duration 0..9 ms, action from inside the callback: " +
		"register same id / other id, stop own id, StopOthers, StopAllTimers; return keep / keep=false / error}. " +
		"non-trivial: an id is registered again while a callback of the previous timer object under that id is in flight; distinct by program text")
	r.Floor(40)
	r.Assume("one callback start after a Stop* call returned is tolerated (a run may be past its context check), none when the Stop* came from inside the timer's own callback",
		"removals are observed through NewSimpleTimer's whenRemoved hook; timers registered through SimpleTimers.New have no hook and are only subject to clauses (a) and (c)",
		"intervals are >= 1 ms; clock readings are monotonic and taken before registration / at callback entry / at callback exit, so lateness of the machine cannot produce a violation")

	r.Checks(300, 16000)
	r.ShrinkTime(30 * time.Second)

	rapid.Check(t, func(rt *rapid.T) {
		p := c34GenProgram(rt)

		ts, err := util.NewSimpleTimers(p.Size, time.Duration(p.Resolution)*time.Millisecond)
		if err != nil {
			rt.Fatalf("NewSimpleTimers: %v", err)
		}

		x := &c34Run{ts: ts}

		if err := ts.Start(context.Background()); err != nil {
			rt.Fatalf("start: %v", err)
		}

		for _, st := range p.Steps {
			if st.SleepMS > 0 {
				time.Sleep(time.Duration(st.SleepMS) * time.Millisecond)
			}

			switch st.Op {
			case "new":
				x.register(st.Spec, -1)
			default:
				x.stop(st.Op, st.IDs, -1)
			}
		}

		time.Sleep(time.Duration(p.TailMS) * time.Millisecond)
		x.stop("shutdown", nil, -1)

		// let callbacks that are still in flight finish (bounded; a budget hit is inconclusive)
		deadline := time.Now().Add(10 * time.Second)
		for quiet := 0; quiet < 3; {
			if x.inflight.Load() == 0 {
				quiet++
			} else {
				quiet = 0
			}

			if time.Now().After(deadline) {
				rt.Fatalf("c34: callbacks still in flight 10 s after shutdown: %s", p)
			}

			time.Sleep(time.Millisecond)
		}

		x.mu.Lock()
		x.closed = true
		timers := x.timers
		stops := x.stops
		x.mu.Unlock()

		desc := p.String()
		tname := func(tm *c34Timer) string {
			return fmt.Sprintf("timer#%d(id=%s, registered@%d..%d by %d)", tm.idx, c34IDs[tm.spec.ID], tm.regStartSeq, tm.regEndSeq, tm.parent)
		}

		// ---- (c) never before the interval
		for _, tm := range timers {
			iv := func(k int) time.Duration {
				return time.Duration(tm.spec.Intervals[k%len(tm.spec.Intervals)]) * time.Millisecond
			}

			for k := range tm.cbs {
				switch {
				case k == 0:
					if d := tm.cbs[0].start.Sub(tm.regStart); d < iv(0) {
						r.Violation(rt, "callback-before-interval", "%s: first callback of %s started %v after registration began, interval(0)=%v", desc, tname(tm), d, iv(0))
					}
				case tm.cbs[k-1].endSeq == 0:
					r.Violation(rt, "callback-overlaps-itself", "%s: callback %d of %s started before callback %d returned", desc, k, tname(tm), k-1)
				default:
					if d := tm.cbs[k].start.Sub(tm.cbs[k-1].end); d < iv(k) {
						r.Violation(rt, "callback-before-interval", "%s: callback %d of %s started %v after callback %d returned, interval(%d)=%v", desc, k, tname(tm), d, k-1, k, iv(k))
					}
				}
			}
		}

		// ---- (a) stopped stays stopped
		for _, s := range stops {
			if s.endSeq == 0 {
				continue
			}

			for _, tm := range timers {
				if tm.regEndSeq == 0 || tm.regEndSeq > s.startSeq || !s.covers(tm.spec.ID) {
					continue
				}

				n := 0

				for _, cb := range tm.cbs {
					if cb.startSeq > s.endSeq {
						n++
					}
				}

				tol := 1
				if s.inside == tm.idx {
					tol = 0
				}

				if n > tol {
					r.Violation(rt, "stopped-timer-restarted", "%s: %s started its callback %d times after %s@%d..%d (from timer %d) had returned (tolerated: %d)",
						desc, tname(tm), n, s.what, s.startSeq, s.endSeq, s.inside, tol)
				}
			}
		}

		// ---- (b) every removal has a cause
		var shutdownSeq int64

		for _, s := range stops {
			if s.what == "shutdown" {
				shutdownSeq = s.startSeq
			}
		}

		for _, tm := range timers {
			if len(tm.removed) > 1 {
				r.Violation(rt, "timer-removed-twice", "%s: %s was removed %d times", desc, tname(tm), len(tm.removed))
			}

			for _, rs := range tm.removed {
				explained := tm.selfDropSeq != 0 && tm.selfDropSeq < rs

				for _, s := range stops {
					if s.startSeq < rs && (s.endSeq == 0 || s.endSeq > tm.regStartSeq) && s.covers(tm.spec.ID) {
						explained = true
					}
				}

				if explained {
					continue
				}

				// who could have done it: an older timer object under the same id that ended its own life
				sig, why := "timer-removed-without-cause", ""

				for _, s := range stops {
					if s.startSeq < rs && (s.endSeq == 0 || s.endSeq > rs) && !s.covers(tm.spec.ID) {
						sig = "stop-removed-uncovered-id"
						why = fmt.Sprintf("; %s@%d..%d, which does not cover this id, was running at that moment", s.what, s.startSeq, s.endSeq)
					}
				}

				for _, old := range timers {
					if sig == "stop-removed-uncovered-id" {
						break
					}

					if old == tm || old.spec.ID != tm.spec.ID || old.regStartSeq > tm.regStartSeq {
						continue
					}

					stopped := len(old.removed) > 0
					if (old.selfDropSeq != 0 && old.selfDropSeq < rs) || stopped {
						sig = "successor-removed-by-id"
						why = fmt.Sprintf("; %s under the same id returned keep=false/error or was stopped before (selfdrop@%d removed@%v)", tname(old), old.selfDropSeq, old.removed)
					}
				}

				r.Violation(rt, sig, "%s: %s was removed @%d (shutdown@%d) although no Stop* call covering its id overlapped or followed its registration and none of its callbacks returned keep=false/error%s",
					desc, tname(tm), rs, shutdownSeq, why)
			}
		}

		// ---- evidence
		reuseInFlight, insideStop, selfDrop, replaced := false, false, false, false
		ncb := 0

		for _, tm := range timers {
			ncb += len(tm.cbs)

			if tm.selfDropSeq != 0 {
				selfDrop = true
			}

			for _, old := range timers {
				if old == tm || old.spec.ID != tm.spec.ID || old.regStartSeq >= tm.regStartSeq {
					continue
				}

				replaced = true

				for _, cb := range old.cbs {
					if cb.startSeq < tm.regEndSeq && (cb.endSeq == 0 || cb.endSeq > tm.regStartSeq) {
						reuseInFlight = true
					}
				}
			}
		}

		for _, s := range stops {
			if s.inside >= 0 {
				insideStop = true
			}
		}

		classes := []string{fmt.Sprintf("shards:%d", p.Size)}
		if reuseInFlight {
			classes = append(classes, "id-reused-while-callback-in-flight")
		}

		if replaced {
			classes = append(classes, "id-reused")
		}

		if insideStop {
			classes = append(classes, "stop-from-inside-callback")
		}

		if selfDrop {
			classes = append(classes, "callback-returned-drop-or-error")
		}

		if ncb == 0 {
			classes = append(classes, "no-callback-ran")
		}

		r.Class("callbacks", int64(ncb))
		r.Class("timers", int64(len(timers)))
		r.Case(desc, reuseInFlight, classes...)

		if reuseInFlight && r.WantSample() {
			r.Sample(map[string]any{"program": desc, "timers": len(timers), "callbacks": ncb, "stop_calls": len(stops)})
		}
	})
}
