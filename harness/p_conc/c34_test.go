package p_conc

import (
	"context"
	"errors"
	"fmt"
	"os"
	"runtime"
	"strings"
	"sync"
	"sync/atomic"
	"testing"
	"time"

	"github.com/spikeekips/mitum/util"
	"pgregory.net/rapid"
	"verif/internal/ev"
)

// C34: stopped timers stay stopped, removing a timer never removes its successor under the same id, no callback
// before its interval.
//
// The harness owns every callback, interval function and removal hook (NewSimpleTimer's whenRemoved). Every harness
// action and every observation gets a number from one atomic counter; all verdicts are derived afterwards from those
// numbers and from monotonic clock readings taken inside harness code, so they hold for every schedule:
//   (a) a timer registered before a Stop* call (covering its id) started may start its callback at most once after
//       that call returned (one run may already be past its context check) - not at all when the Stop* call was made
//       from inside that timer's own callback, because run() holds the timer lock from the context check to the end;
//   (b) every observed removal of a timer object must be explained by a Stop* call that overlaps or follows its
//       registration, by its own callback having returned keep=false / an error, or by the final shutdown;
//   (c) start(0) - (clock read before registration) >= interval(0), start(k+1) - end(k) >= interval(k+1).
//
// A second phase ("registration storm") is about clause (c) at the moment of registration: several goroutines register
// timers (New/NewTimer, reused ids, mostly intervals far longer than the test) as fast as they can, with drawn
// runtime.Gosched calls and StopTimers in between, against a timer loop that ticks with a resolution of 1 ns..100 us,
// so that the loop looks at the timers while they are being published. The oracle is the same one-sided clock
// comparison, made inside the harness-owned callback: a callback that starts less than interval(0) after the clock
// reading taken before its registration call began is a violation; a late callback never is.
//
// A third phase ("crowd", see c34RunCrowd) is about clause (a) for timers that are stopped between being collected by
// the loop and getting a worker slot: more timers than one loop pass can run at once expire together, their callbacks
// are held in a harness gate, Stop* calls are made while all slots are taken, then the gate is opened.

const (
	c34ActNone = iota
	c34ActNewSame
	c34ActNewOther
	c34ActStopOwn
	c34ActStopOthers // excluding the own id
	c34ActStopAll
)

var c34ActNames = []string{"-", "new-same-id", "new-other-id", "stop-own-id", "stop-others", "stop-all"}

const (
	c34RetKeep = iota
	c34RetDrop
	c34RetErr
)

var c34RetNames = []string{"keep", "keep=false", "error"}

type c34CB struct {
	DurMS  int
	Action int
	Ret    int
	New    *c34Spec
}

type c34Spec struct {
	ID        int
	Intervals []int // ms, cycled by call index
	Script    []c34CB
	PlainNew  bool // registered through SimpleTimers.New (no removal hook available)
}

type c34Step struct {
	SleepMS int
	Op      string // new | stop | stopothers | stopall
	Spec    *c34Spec
	IDs     []int
}

type c34Program struct {
	Size       uint64
	Resolution int // ms
	Steps      []c34Step
	TailMS     int
}

var c34IDs = []util.TimerID{"t0", "t1", "t2"}

func c34GenSpec(t *rapid.T, depth int) *c34Spec {
	s := &c34Spec{
		ID:        rapid.IntRange(0, len(c34IDs)-1).Draw(t, "id"),
		Intervals: rapid.SliceOfN(rapid.IntRange(1, 12), 1, 3).Draw(t, "intervals"),
		PlainNew:  rapid.IntRange(0, 5).Draw(t, "plainNew") == 0,
	}

	n := rapid.IntRange(0, 3).Draw(t, "scriptLen")
	for i := 0; i < n; i++ {
		cb := c34CB{DurMS: rapid.SampledFrom([]int{0, 0, 1, 3, 6, 9}).Draw(t, "dur")}

		switch a := rapid.IntRange(0, 19).Draw(t, "action"); {
		case a < 8:
			cb.Action = c34ActNone
		case a < 13:
			cb.Action = c34ActNewSame
		case a < 15:
			cb.Action = c34ActNewOther
		case a < 17:
			cb.Action = c34ActStopOwn
		case a < 19:
			cb.Action = c34ActStopOthers
		default:
			cb.Action = c34ActStopAll
		}

		if (cb.Action == c34ActNewSame || cb.Action == c34ActNewOther) && depth >= 2 {
			cb.Action = c34ActNone
		}

		switch x := rapid.IntRange(0, 9).Draw(t, "ret"); {
		case x < 5:
			cb.Ret = c34RetKeep
		case x < 8:
			cb.Ret = c34RetDrop
		default:
			cb.Ret = c34RetErr
		}

		if cb.Action == c34ActNewSame || cb.Action == c34ActNewOther {
			cb.New = c34GenSpec(t, depth+1)

			if cb.Action == c34ActNewSame {
				cb.New.ID = s.ID
			} else if cb.New.ID == s.ID {
				cb.New.ID = (s.ID + 1) % len(c34IDs)
			}
		}

		s.Script = append(s.Script, cb)
	}

	return s
}

func c34GenProgram(t *rapid.T) c34Program {
	p := c34Program{
		Size:       rapid.SampledFrom([]uint64{1, 2, 16}).Draw(t, "size"),
		Resolution: rapid.IntRange(2, 5).Draw(t, "resolution"),
		TailMS:     rapid.IntRange(5, 25).Draw(t, "tail"),
	}

	n := rapid.IntRange(3, 8).Draw(t, "steps")
	for i := 0; i < n; i++ {
		st := c34Step{SleepMS: rapid.IntRange(0, 12).Draw(t, "sleep")}

		switch o := rapid.IntRange(0, 9).Draw(t, "op"); {
		case o < 6 || i == 0:
			st.Op = "new"
			st.Spec = c34GenSpec(t, 0)
		case o < 8:
			st.Op = "stop"
			st.IDs = rapid.SliceOfNDistinct(rapid.IntRange(0, len(c34IDs)-1), 1, 2, rapid.ID[int]).Draw(t, "ids")
		case o < 9:
			st.Op = "stopothers"
			st.IDs = rapid.SliceOfNDistinct(rapid.IntRange(0, len(c34IDs)-1), 0, 2, rapid.ID[int]).Draw(t, "exclude")
		default:
			st.Op = "stopall"
		}

		p.Steps = append(p.Steps, st)
	}

	return p
}

func (s *c34Spec) String() string {
	var b strings.Builder

	fmt.Fprintf(&b, "{id=%s every=%vms", c34IDs[s.ID], s.Intervals)

	if s.PlainNew {
		b.WriteString(" plain")
	}

	for i, cb := range s.Script {
		fmt.Fprintf(&b, " cb%d:[%dms %s -> %s", i, cb.DurMS, c34ActNames[cb.Action], c34RetNames[cb.Ret])

		if cb.New != nil {
			b.WriteString(" " + cb.New.String())
		}

		b.WriteString("]")
	}

	b.WriteString("}")

	return b.String()
}

func (p c34Program) String() string {
	var b strings.Builder

	fmt.Fprintf(&b, "shards=%d resolution=%dms tail=%dms:", p.Size, p.Resolution, p.TailMS)

	for _, st := range p.Steps {
		fmt.Fprintf(&b, " +%dms %s", st.SleepMS, st.Op)

		switch st.Op {
		case "new":
			b.WriteString(st.Spec.String())
		case "stop", "stopothers":
			fmt.Fprintf(&b, "%v", st.IDs)
		}

		b.WriteString(";")
	}

	return b.String()
}

// ---- the log

type c34CBEvent struct {
	startSeq, endSeq int64
	start, end       time.Time
	ret              int
}

type c34Timer struct {
	idx         int
	spec        *c34Spec
	parent      int // timer whose callback registered it, -1 = the driver
	regStartSeq int64
	regEndSeq   int64
	regStart    time.Time
	added       bool
	regErr      error
	cbs         []c34CBEvent
	removed     []int64
	selfDropSeq int64 // the moment a callback of this timer decided to return keep=false / an error (first time)
}

type c34Stop struct {
	what     string
	startSeq int64
	endSeq   int64 // 0 = still running
	all      bool
	ids      map[int]bool // stop: the ids; stopothers: the excluded ids
	others   bool
	inside   int // timer index whose callback issued it, -1 = the driver
}

func (s *c34Stop) covers(id int) bool {
	switch {
	case s.all:
		return true
	case s.others:
		return !s.ids[id]
	default:
		return s.ids[id]
	}
}

type c34Run struct {
	ts       *util.SimpleTimers
	mu       sync.Mutex
	seq      atomic.Int64
	timers   []*c34Timer
	stops    []*c34Stop
	closed   bool
	inflight atomic.Int64
}

func (x *c34Run) register(spec *c34Spec, parent int) {
	tm := &c34Timer{spec: spec, parent: parent}

	x.mu.Lock()
	if x.closed {
		x.mu.Unlock()

		return
	}

	tm.idx = len(x.timers)
	x.timers = append(x.timers, tm)
	tm.regStart = time.Now()
	tm.regStartSeq = x.seq.Add(1)
	x.mu.Unlock()

	intervalf := func(k uint64) time.Duration {
		return time.Duration(spec.Intervals[int(k%uint64(len(spec.Intervals)))]) * time.Millisecond
	}

	cb := func(_ context.Context, _ uint64) (bool, error) { return x.callback(tm) }

	var added bool
	var err error

	if spec.PlainNew {
		added, err = x.ts.New(c34IDs[spec.ID], intervalf, cb)
	} else {
		added, err = x.ts.NewTimer(util.NewSimpleTimer(c34IDs[spec.ID], intervalf, cb, func() {
			s := x.seq.Add(1)

			x.mu.Lock()
			tm.removed = append(tm.removed, s)
			x.mu.Unlock()
		}))
	}

	x.mu.Lock()
	tm.added, tm.regErr = added, err
	tm.regEndSeq = x.seq.Add(1)
	x.mu.Unlock()
}

func (x *c34Run) stop(what string, ids []int, inside int) {
	s := &c34Stop{what: what, ids: map[int]bool{}, inside: inside, others: what == "stopothers", all: what == "stopall" || what == "shutdown"}

	for _, i := range ids {
		s.ids[i] = true
	}

	tids := make([]util.TimerID, len(ids))
	for i := range ids {
		tids[i] = c34IDs[ids[i]]
	}

	x.mu.Lock()
	if x.closed {
		x.mu.Unlock()

		return
	}

	s.startSeq = x.seq.Add(1)
	x.stops = append(x.stops, s)
	x.mu.Unlock()

	switch what {
	case "stop":
		_ = x.ts.StopTimers(tids)
	case "stopothers":
		_ = x.ts.StopOthers(tids)
	case "stopall":
		_ = x.ts.StopAllTimers()
	case "shutdown":
		_ = x.ts.Stop()
	}

	x.mu.Lock()
	s.endSeq = x.seq.Add(1)
	x.mu.Unlock()
}

func (x *c34Run) callback(tm *c34Timer) (bool, error) {
	now := time.Now()

	x.mu.Lock()
	if x.closed {
		x.mu.Unlock()

		return true, nil
	}

	k := len(tm.cbs)
	tm.cbs = append(tm.cbs, c34CBEvent{startSeq: x.seq.Add(1), start: now})
	x.inflight.Add(1)
	x.mu.Unlock()

	defer x.inflight.Add(-1)

	cb := c34CB{}
	if k < len(tm.spec.Script) {
		cb = tm.spec.Script[k]
	}

	if cb.DurMS > 0 {
		time.Sleep(time.Duration(cb.DurMS) * time.Millisecond)
	}

	switch cb.Action {
	case c34ActNewSame, c34ActNewOther:
		x.register(cb.New, tm.idx)
	case c34ActStopOwn:
		x.stop("stop", []int{tm.spec.ID}, tm.idx)
	case c34ActStopOthers:
		x.stop("stopothers", []int{tm.spec.ID}, tm.idx)
	case c34ActStopAll:
		x.stop("stopall", nil, tm.idx)
	}

	x.mu.Lock()
	if cb.Ret != c34RetKeep && tm.selfDropSeq == 0 {
		tm.selfDropSeq = x.seq.Add(1)
	}

	if !x.closed {
		tm.cbs[k].ret = cb.Ret
		tm.cbs[k].endSeq = x.seq.Add(1)
		tm.cbs[k].end = time.Now()
	}
	x.mu.Unlock()

	switch cb.Ret {
	case c34RetDrop:
		return false, nil
	case c34RetErr:
		return true, errors.New("c34: injected callback error")
	default:
		return true, nil
	}
}

// ---- phase 2: registration storm

var (
	c34StormIntervals   = []time.Duration{time.Hour, time.Hour, 10 * time.Minute, time.Second, time.Millisecond, 100 * time.Microsecond}
	c34StormResolutions = []time.Duration{1, 100, time.Microsecond, 10 * time.Microsecond, 100 * time.Microsecond}
)

const (
	c34AfterNone    = iota // leave the timer; the next registration under the id replaces it
	c34AfterStop           // StopTimers([id]) right away
	c34AfterStopAll        // StopTimers(every id of the case)
)

var c34AfterNames = []string{"-", "stop", "stop-pool"}

type c34StormOp struct {
	ID       int // index into the id pool of the case (shared by all workers)
	Plain    bool
	Interval int // index into c34StormIntervals
	Before   int // runtime.Gosched calls before the registration
	Yield    int // runtime.Gosched calls after the registration returned
	After    int
}

type c34Storm struct {
	Size       uint64
	Resolution int // index into c34StormResolutions
	NIDs       int
	Rounds     int
	Sentinel   bool // a 200us timer under its own id that nobody stops: counts ticks of the loop
	Workers    [][]c34StormOp
}

func c34GenStorm(t *rapid.T) c34Storm {
	p := c34Storm{
		Size:       rapid.SampledFrom([]uint64{1, 1, 2, 16}).Draw(t, "size"),
		Resolution: rapid.IntRange(0, len(c34StormResolutions)-1).Draw(t, "resolution"),
		NIDs:       rapid.IntRange(1, 8).Draw(t, "ids"),
		Rounds:     rapid.SampledFrom([]int{20, 100, 300, 600}).Draw(t, "rounds"),
		Sentinel:   rapid.IntRange(0, 3).Draw(t, "sentinel") != 0,
	}

	nw := rapid.IntRange(2, 8).Draw(t, "workers")
	for w := 0; w < nw; w++ {
		n := rapid.IntRange(1, 4).Draw(t, "pattern")
		ops := make([]c34StormOp, n)

		for i := range ops {
			ops[i] = c34StormOp{
				ID:       rapid.IntRange(0, p.NIDs-1).Draw(t, "id"),
				Plain:    rapid.Bool().Draw(t, "plain"),
				Interval: rapid.IntRange(0, len(c34StormIntervals)-1).Draw(t, "interval"),
				Before:   rapid.SampledFrom([]int{0, 0, 0, 1, 2}).Draw(t, "before"),
				Yield:    rapid.SampledFrom([]int{0, 0, 1, 1, 3}).Draw(t, "yield"),
				After:    rapid.SampledFrom([]int{c34AfterNone, c34AfterNone, c34AfterNone, c34AfterStop, c34AfterStop, c34AfterStopAll}).Draw(t, "after"),
			}
		}

		p.Workers = append(p.Workers, ops)
	}

	return p
}

func (p c34Storm) String() string {
	var b strings.Builder

	fmt.Fprintf(&b, "c34-storm shards=%d resolution=%v ids=%d rounds=%d sentinel=%v:", p.Size, c34StormResolutions[p.Resolution], p.NIDs, p.Rounds, p.Sentinel)

	for w, ops := range p.Workers {
		fmt.Fprintf(&b, " w%d[", w)

		for i, op := range ops {
			if i > 0 {
				b.WriteString(" ")
			}

			how := "NewTimer"
			if op.Plain {
				how = "New"
			}

			fmt.Fprintf(&b, "y%d %s(s%d every %v) y%d %s;", op.Before, how, op.ID, c34StormIntervals[op.Interval], op.Yield, c34AfterNames[op.After])
		}

		b.WriteString("]")
	}

	return b.String()
}

type c34StormEarly struct {
	worker, n int // n-th registration of that worker; worker -1 = the sentinel
	op        c34StormOp
	k         uint64
	since     string
	d, iv     time.Duration
}

type c34StormRun struct {
	ts       *util.SimpleTimers
	ids      []util.TimerID
	early    atomic.Pointer[c34StormEarly]
	inflight atomic.Int64
	closed   atomic.Bool
	regs     atomic.Int64
	starts   atomic.Int64 // callback starts of worker timers (all of them at or after their interval, or early is set)
	ticks    atomic.Int64 // callback starts of the sentinel
	ticksIn  atomic.Int64 // ... while the workers were registering
	working  atomic.Bool
}

// one registration by a worker; everything the oracle needs is captured by the callback closure
func (x *c34StormRun) register(w, n int, op c34StormOp) error {
	iv := c34StormIntervals[op.Interval]
	id := x.ids[op.ID]

	intervalf := func(uint64) time.Duration { return iv }

	var last atomic.Int64 // end of the previous callback, ns since reg; 0 = none yet
	var reg time.Time

	cb := func(_ context.Context, k uint64) (bool, error) {
		now := time.Now()

		if x.closed.Load() {
			return true, nil
		}

		x.inflight.Add(1)
		defer x.inflight.Add(-1)

		x.starts.Add(1)

		d, since := now.Sub(reg), "its registration began"
		if l := last.Load(); l != 0 {
			d, since = d-time.Duration(l), "its previous callback returned"
		}

		if d < iv {
			x.early.CompareAndSwap(nil, &c34StormEarly{worker: w, n: n, op: op, k: k, since: since, d: d, iv: iv})
		}

		last.Store(max(1, int64(time.Since(reg))))

		return true, nil
	}

	var added bool
	var err error

	reg = time.Now()

	if op.Plain {
		added, err = x.ts.New(id, intervalf, cb)
	} else {
		added, err = x.ts.NewTimer(util.NewSimpleTimer(id, intervalf, cb, nil))
	}

	x.regs.Add(1)

	if err != nil || !added {
		return fmt.Errorf("registration %d of worker %d: added=%v err=%v", n, w, added, err)
	}

	return nil
}

func c34RunStorm(rt *rapid.T, r *ev.Rec, p c34Storm) {
	ts, err := util.NewSimpleTimers(p.Size, c34StormResolutions[p.Resolution])
	if err != nil {
		rt.Fatalf("NewSimpleTimers: %v", err)
	}

	x := &c34StormRun{ts: ts}
	for i := 0; i < p.NIDs; i++ {
		x.ids = append(x.ids, util.TimerID(fmt.Sprintf("s%d", i)))
	}

	if err := ts.Start(context.Background()); err != nil {
		rt.Fatalf("start: %v", err)
	}

	const sentinelEvery = 200 * time.Microsecond

	if p.Sentinel {
		var last atomic.Int64

		reg := time.Now()

		added, err := ts.New("tick", func(uint64) time.Duration { return sentinelEvery }, func(_ context.Context, k uint64) (bool, error) {
			now := time.Now()

			if x.closed.Load() {
				return true, nil
			}

			x.inflight.Add(1)
			defer x.inflight.Add(-1)

			x.ticks.Add(1)

			if x.working.Load() {
				x.ticksIn.Add(1)
			}

			d, since := now.Sub(reg), "its registration began"
			if l := last.Load(); l != 0 {
				d, since = d-time.Duration(l), "its previous callback returned"
			}

			if d < sentinelEvery {
				x.early.CompareAndSwap(nil, &c34StormEarly{worker: -1, k: k, since: since, d: d, iv: sentinelEvery})
			}

			last.Store(max(1, int64(time.Since(reg))))

			return true, nil
		})
		if err != nil || !added {
			rt.Fatalf("c34: sentinel not registered: added=%v err=%v", added, err)
		}
	}

	var wg sync.WaitGroup

	errs := make([]error, len(p.Workers))
	gate := make(chan struct{})

	for w := range p.Workers {
		wg.Add(1)

		go func(w int, ops []c34StormOp) {
			defer wg.Done()

			<-gate

			n := 0

			for round := 0; round < p.Rounds; round++ {
				for _, op := range ops {
					if x.early.Load() != nil {
						return
					}

					for i := 0; i < op.Before; i++ {
						runtime.Gosched()
					}

					if err := x.register(w, n, op); err != nil {
						errs[w] = err

						return
					}

					n++

					for i := 0; i < op.Yield; i++ {
						runtime.Gosched()
					}

					switch op.After {
					case c34AfterStop:
						_ = x.ts.StopTimers([]util.TimerID{x.ids[op.ID]})
					case c34AfterStopAll:
						_ = x.ts.StopTimers(x.ids)
					}
				}
			}
		}(w, p.Workers[w])
	}

	x.working.Store(true)
	close(gate)
	wg.Wait()
	x.working.Store(false)

	_ = ts.Stop()

	// let callbacks that were already collected start and finish (bounded; a budget hit is inconclusive)
	deadline := time.Now().Add(10 * time.Second)
	for quiet := 0; quiet < 3; {
		if x.inflight.Load() == 0 {
			quiet++
		} else {
			quiet = 0
		}

		if time.Now().After(deadline) {
			rt.Fatalf("c34: storm callbacks still in flight 10 s after shutdown: %s", p)
		}

		time.Sleep(200 * time.Microsecond)
	}

	early := x.early.Load()
	x.closed.Store(true)

	desc := p.String()

	for w := range errs {
		if errs[w] != nil {
			rt.Fatalf("c34: %s: %v", desc, errs[w])
		}
	}

	if e := early; e != nil {
		who := "the sentinel timer (id=tick)"
		if e.worker >= 0 {
			how := "NewTimer"
			if e.op.Plain {
				how = "New"
			}

			who = fmt.Sprintf("the timer of registration #%d of worker %d (%s id=s%d)", e.n, e.worker, how, e.op.ID)
		}

		r.Violation(rt, "callback-before-interval", "%s: callback %d of %s started %v after %s, interval=%v (%d registrations made so far by %d goroutines)",
			desc, e.k, who, e.d, e.since, e.iv, x.regs.Load(), len(p.Workers))
	}

	ticking := p.Sentinel && x.ticksIn.Load() > 0 // evidence that the loop looked at the map while registrations were going on
	classes := []string{"phase:storm", fmt.Sprintf("storm-shards:%d", p.Size), fmt.Sprintf("storm-resolution:%v", c34StormResolutions[p.Resolution])}

	if p.Sentinel && x.ticksIn.Load() > 0 {
		classes = append(classes, "storm-loop-ticked-during-registrations")
	}

	if x.starts.Load() > 0 {
		classes = append(classes, "storm-callback-ran-after-its-interval")
	}

	r.Class("storm-registrations", x.regs.Load())
	r.Class("storm-callbacks", x.starts.Load())
	r.Class("storm-sentinel-ticks", x.ticks.Load())
	r.Case(desc, ticking, classes...)

	if ticking && r.WantSample() {
		r.Sample(map[string]any{"program": desc, "registrations": x.regs.Load(), "callbacks": x.starts.Load(), "sentinel_ticks_during_registrations": x.ticksIn.Load()})
	}
}

// ---- phase 3: crowd
//
// More timers expire in one pass of the timer loop than the pass can run at the same time, and the callbacks do not
// return until the harness lets them: the loop is then stuck handing out the remaining, already collected timers,
// and every Stop* call made in that window hits timers that are collected but whose callback has not started.
//
// All timers are registered before the loop is started and the loop is started only after the monotonic clock has
// passed every first expiry, so the first pass collects all of them. Every callback blocks on a harness gate. The
// harness waits (by count, not by time) until exactly c34CrowdSlots callbacks are inside the gate: with that many
// slots per pass every slot is then held by a goroutine that is inside a harness callback, so no other timer of the
// pass can be anywhere between "looked at its stop flag" and "entered its callback". That is the one situation in
// which the one-start tolerance of clause (a) is not needed: a callback start numbered after the return of a Stop*
// call covering the timer is a violation. If the number of running callbacks ever exceeds c34CrowdSlots before the
// gate opens, the assumption about the slots is wrong and the case is not judged by this clause.

const c34CrowdSlots = 333 // callbacks of one loop pass that run at the same time (maxTimerSemsize in util/timers.go)

type c34CrowdProfile struct {
	IntervalMS int
	Plain      bool // SimpleTimers.New instead of NewTimer
	Ret        int  // what every callback of the timer returns
}

type c34CrowdOp struct {
	Op    string // stop | stopothers | stopall
	Picks []int  // stop: picks among the timers whose callback has not started; stopothers: picks among all timers (the exclude list)
	Also  []int  // stop: picks among all timers, stopped by id in the same call (running callbacks included)
}

type c34Crowd struct {
	Size         uint64
	Resolution   int // ms
	N            int
	Profiles     []c34CrowdProfile // timer i uses Profiles[i % len]
	Ops          []c34CrowdOp
	Successors   []int // picks among the ids stopped in the window: registered again before the gate opens
	SuccessorMS  int
	SuccessorRet int
}

func c34GenCrowd(t *rapid.T) c34Crowd {
	p := c34Crowd{
		Size:         rapid.SampledFrom([]uint64{1, 2, 3, 16}).Draw(t, "size"),
		Resolution:   rapid.IntRange(1, 5).Draw(t, "resolution"),
		N:            rapid.IntRange(c34CrowdSlots+1, 500).Draw(t, "timers"),
		SuccessorMS:  rapid.IntRange(1, 5).Draw(t, "successorInterval"),
		SuccessorRet: rapid.SampledFrom([]int{c34RetKeep, c34RetKeep, c34RetDrop, c34RetErr}).Draw(t, "successorRet"),
	}

	np := rapid.IntRange(1, 5).Draw(t, "profiles")
	for i := 0; i < np; i++ {
		p.Profiles = append(p.Profiles, c34CrowdProfile{
			IntervalMS: rapid.SampledFrom([]int{1, 1, 2, 3, 5, 10}).Draw(t, "interval"),
			Plain:      rapid.Bool().Draw(t, "plain"),
			Ret:        rapid.SampledFrom([]int{c34RetKeep, c34RetKeep, c34RetDrop, c34RetErr}).Draw(t, "ret"),
		})
	}

	no := rapid.IntRange(1, 4).Draw(t, "ops")
	for i := 0; i < no; i++ {
		op := c34CrowdOp{}

		switch o := rapid.IntRange(0, 9).Draw(t, "op"); {
		case o < 6:
			op.Op = "stop"
			op.Picks = rapid.SliceOfN(rapid.IntRange(0, 9999), 1, 60).Draw(t, "picks")
			op.Also = rapid.SliceOfN(rapid.IntRange(0, 9999), 0, 3).Draw(t, "also")
		case o < 9:
			op.Op = "stopothers"
			op.Picks = rapid.SliceOfN(rapid.IntRange(0, 9999), 0, 12).Draw(t, "exclude")
		default:
			op.Op = "stopall"
		}

		p.Ops = append(p.Ops, op)
	}

	p.Successors = rapid.SliceOfN(rapid.IntRange(0, 9999), 0, 6).Draw(t, "successors")

	return p
}

func (p c34Crowd) String() string {
	var b strings.Builder

	fmt.Fprintf(&b, "c34-crowd shards=%d resolution=%dms timers=%d profiles=[", p.Size, p.Resolution, p.N)

	for i, pr := range p.Profiles {
		if i > 0 {
			b.WriteString(" ")
		}

		how := "NewTimer"
		if pr.Plain {
			how = "New"
		}

		fmt.Fprintf(&b, "%s every %dms -> %s;", how, pr.IntervalMS, c34RetNames[pr.Ret])
	}

	b.WriteString("] while the worker slots are full:")

	for _, op := range p.Ops {
		switch op.Op {
		case "stop":
			fmt.Fprintf(&b, " stop(waiting%v any%v);", op.Picks, op.Also)
		case "stopothers":
			fmt.Fprintf(&b, " stopothers(exclude any%v);", op.Picks)
		default:
			b.WriteString(" stopall;")
		}
	}

	fmt.Fprintf(&b, " register again stopped%v every %dms -> %s; open the gate", p.Successors, p.SuccessorMS, c34RetNames[p.SuccessorRet])

	return b.String()
}

type c34CrowdTimer struct {
	idx       int
	id        util.TimerID
	interval  time.Duration
	ret       int
	gated     bool
	successor bool
	regStart  time.Time
	regEndSeq int64
	cbs       []c34CBEvent
	removed   []int64
}

type c34CrowdStop struct {
	what             string
	startSeq, endSeq int64
	covered          []*c34CrowdTimer
}

type c34CrowdRun struct {
	ts       *util.SimpleTimers
	mu       sync.Mutex
	seq      atomic.Int64
	gate     chan struct{}
	opened   bool
	closed   bool
	inGate   int // callbacks of gated timers that started before the gate was opened
	ticks    int // callback starts of the sentinel
	inflight atomic.Int64
}

func (x *c34CrowdRun) register(rt *rapid.T, tm *c34CrowdTimer, plain bool) {
	intervalf := func(uint64) time.Duration { return tm.interval }
	cb := func(context.Context, uint64) (bool, error) { return x.callback(tm) }

	var added bool
	var err error

	tm.regStart = time.Now()

	if plain {
		added, err = x.ts.New(tm.id, intervalf, cb)
	} else {
		added, err = x.ts.NewTimer(util.NewSimpleTimer(tm.id, intervalf, cb, func() {
			s := x.seq.Add(1)

			x.mu.Lock()
			tm.removed = append(tm.removed, s)
			x.mu.Unlock()
		}))
	}

	if err != nil || !added {
		rt.Fatalf("c34: crowd: timer %s not registered: added=%v err=%v", tm.id, added, err)
	}

	x.mu.Lock()
	tm.regEndSeq = x.seq.Add(1)
	x.mu.Unlock()
}

func (x *c34CrowdRun) callback(tm *c34CrowdTimer) (bool, error) {
	now := time.Now()

	x.mu.Lock()
	if x.closed {
		x.mu.Unlock()

		return true, nil
	}

	k := len(tm.cbs)
	tm.cbs = append(tm.cbs, c34CBEvent{startSeq: x.seq.Add(1), start: now})

	switch {
	case tm.gated && !x.opened:
		x.inGate++
	case tm.idx < 0:
		x.ticks++
	}

	x.inflight.Add(1)
	x.mu.Unlock()

	defer x.inflight.Add(-1)

	if tm.gated {
		<-x.gate
	}

	x.mu.Lock()
	if !x.closed {
		tm.cbs[k].ret = tm.ret
		tm.cbs[k].endSeq = x.seq.Add(1)
		tm.cbs[k].end = time.Now()
	}
	x.mu.Unlock()

	switch tm.ret {
	case c34RetDrop:
		return false, nil
	case c34RetErr:
		return true, errors.New("c34: injected callback error")
	default:
		return true, nil
	}
}

func (x *c34CrowdRun) stop(what string, ids []util.TimerID, covered []*c34CrowdTimer) *c34CrowdStop {
	s := &c34CrowdStop{what: what, covered: covered}

	s.startSeq = x.seq.Add(1)

	switch what {
	case "stop":
		_ = x.ts.StopTimers(ids)
	case "stopothers":
		_ = x.ts.StopOthers(ids)
	case "stopall":
		_ = x.ts.StopAllTimers()
	}

	s.endSeq = x.seq.Add(1)

	return s
}

func c34RunCrowd(rt *rapid.T, r *ev.Rec, p c34Crowd) {
	ts, err := util.NewSimpleTimers(p.Size, time.Duration(p.Resolution)*time.Millisecond)
	if err != nil {
		rt.Fatalf("NewSimpleTimers: %v", err)
	}

	x := &c34CrowdRun{ts: ts, gate: make(chan struct{})}
	desc := p.String()

	var openSeq int64

	open := func() {
		x.mu.Lock()
		if !x.opened {
			x.opened = true
			openSeq = x.seq.Add(1)

			close(x.gate)
		}
		x.mu.Unlock()
	}

	started := false

	defer func() { // also on the way out of a failed case: no callback stays behind the gate, no loop keeps running
		open()

		if started {
			_ = ts.Stop()
		}

		x.mu.Lock()
		x.closed = true
		x.mu.Unlock()
	}()

	// ---- every timer is registered, and expired, before the loop starts: the first pass collects all of them
	timers := make([]*c34CrowdTimer, p.N)

	var longest time.Duration

	for i := range timers {
		pr := p.Profiles[i%len(p.Profiles)]
		tm := &c34CrowdTimer{idx: i, id: util.TimerID(fmt.Sprintf("c%03d", i)), interval: time.Duration(pr.IntervalMS) * time.Millisecond, ret: pr.Ret, gated: true}
		timers[i] = tm

		x.register(rt, tm, pr.Plain)

		longest = max(longest, tm.interval)
	}

	for registered := time.Now(); time.Since(registered) <= longest+time.Millisecond; {
		time.Sleep(longest + time.Millisecond)
	}

	if err := ts.Start(context.Background()); err != nil {
		rt.Fatalf("start: %v", err)
	}

	started = true

	// ---- wait until the worker slots of the pass are full (bounded; a budget hit is inconclusive)
	running := func() int {
		x.mu.Lock()
		defer x.mu.Unlock()

		return x.inGate
	}

	for deadline := time.Now().Add(30 * time.Second); running() < c34CrowdSlots; {
		if time.Now().After(deadline) {
			rt.Fatalf("c34: crowd: only %d callbacks running 30 s after the loop was started: %s", running(), desc)
		}

		time.Sleep(200 * time.Microsecond)
	}

	// ---- the window: nothing more can start before the gate opens
	var waiting []*c34CrowdTimer // callback not started

	x.mu.Lock()
	for _, tm := range timers {
		if len(tm.cbs) == 0 {
			waiting = append(waiting, tm)
		}
	}
	x.mu.Unlock()

	var stops []*c34CrowdStop

	stoppedAny := map[int]bool{}

	for _, op := range p.Ops {
		var ids []util.TimerID
		var covered []*c34CrowdTimer

		switch op.Op {
		case "stop":
			seen := map[int]bool{}

			for _, pick := range op.Picks {
				if len(waiting) == 0 {
					break
				}

				if tm := waiting[pick%len(waiting)]; !seen[tm.idx] {
					seen[tm.idx] = true
					covered = append(covered, tm)
				}
			}

			for _, pick := range op.Also {
				if tm := timers[pick%len(timers)]; !seen[tm.idx] {
					seen[tm.idx] = true
					covered = append(covered, tm)
				}
			}

			for _, tm := range covered {
				ids = append(ids, tm.id)
			}
		case "stopothers":
			exclude := map[int]bool{}

			for _, pick := range op.Picks {
				if tm := timers[pick%len(timers)]; !exclude[tm.idx] {
					exclude[tm.idx] = true
					ids = append(ids, tm.id)
				}
			}

			for _, tm := range timers {
				if !exclude[tm.idx] {
					covered = append(covered, tm)
				}
			}
		default:
			covered = timers
		}

		for _, tm := range covered {
			stoppedAny[tm.idx] = true
		}

		stops = append(stops, x.stop(op.Op, ids, covered))
	}

	// ---- ids stopped in the window are registered again: the old timer objects are still waiting for a slot
	var stopped []*c34CrowdTimer

	for _, tm := range timers {
		if stoppedAny[tm.idx] {
			stopped = append(stopped, tm)
		}
	}

	var successors []*c34CrowdTimer

	again := map[int]bool{}

	for _, pick := range p.Successors {
		if len(stopped) == 0 {
			break
		}

		old := stopped[pick%len(stopped)]
		if again[old.idx] {
			continue
		}

		again[old.idx] = true

		tm := &c34CrowdTimer{idx: p.N + len(successors), id: old.id, interval: time.Duration(p.SuccessorMS) * time.Millisecond, ret: p.SuccessorRet, successor: true}
		successors = append(successors, tm)

		x.register(rt, tm, false)
	}

	full := running() == c34CrowdSlots // the count only grows while the gate is closed: it was 333 during every call above

	open()

	// ---- a sentinel registered now can only be collected by a later pass, that is after the loop got rid of every
	// timer of the first pass; its second tick is the (count-based) sign that the stopped timers had their chance
	sentinel := &c34CrowdTimer{idx: -1, id: "c-tick", interval: time.Millisecond, ret: c34RetKeep}
	x.register(rt, sentinel, true)

	for deadline := time.Now().Add(30 * time.Second); ; {
		x.mu.Lock()
		ticks := x.ticks
		x.mu.Unlock()

		if ticks >= 2 {
			break
		}

		if time.Now().After(deadline) {
			rt.Fatalf("c34: crowd: the loop did not get to a timer registered after the gate was opened within 30 s: %s", desc)
		}

		time.Sleep(200 * time.Microsecond)
	}

	shutdownSeq := x.seq.Add(1)

	_ = ts.Stop()

	started = false

	for deadline, quiet := time.Now().Add(10*time.Second), 0; quiet < 3; {
		if x.inflight.Load() == 0 {
			quiet++
		} else {
			quiet = 0
		}

		if time.Now().After(deadline) {
			rt.Fatalf("c34: crowd: callbacks still in flight 10 s after shutdown: %s", desc)
		}

		time.Sleep(200 * time.Microsecond)
	}

	x.mu.Lock()
	x.closed = true
	nrunning := x.inGate
	x.mu.Unlock()

	tname := func(tm *c34CrowdTimer) string {
		what := "timer"
		if tm.successor {
			what = "second timer under"
		}

		return fmt.Sprintf("%s %s (every %v -> %s)", what, tm.id, tm.interval, c34RetNames[tm.ret])
	}

	// ---- (a) stopped stays stopped; no tolerance while every slot was held inside the harness gate
	stoppedWaiting := map[int]bool{}

	for _, s := range stops {
		n, first := 0, ""

		for _, tm := range s.covered {
			waited := len(tm.cbs) == 0 || tm.cbs[0].startSeq > s.startSeq
			if waited {
				stoppedWaiting[tm.idx] = true
			}

			for k, cb := range tm.cbs {
				if cb.startSeq <= s.endSeq {
					continue
				}

				n++

				if first == "" {
					first = fmt.Sprintf("callback %d of %s started @%d (no callback of it had started when the call was made: %v)", k, tname(tm), cb.startSeq, waited)
				}
			}
		}

		if n > 0 && full {
			r.Violation(rt, "stopped-timer-started", "%s: %d callback starts of timers stopped by %s@%d..%d after that call had returned, first: %s; "+
				"%d callbacks were running and held in the harness gate from before the call until @%d, so no other timer of the pass could have been past its stopped test",
				desc, n, s.what, s.startSeq, s.endSeq, first, nrunning, openSeq)
		}
	}

	// ---- (b) the second timer under an id is not removed by anything that concerns the first one
	for _, tm := range successors {
		for _, rs := range tm.removed {
			selfdrop := false

			for _, cb := range tm.cbs {
				if cb.ret != c34RetKeep && cb.endSeq != 0 && cb.endSeq < rs {
					selfdrop = true
				}
			}

			if rs < shutdownSeq && !selfdrop {
				r.Violation(rt, "successor-removed-by-id", "%s: %s, registered @%d after every Stop* call had returned, was removed @%d (shutdown@%d) although none of its callbacks had returned keep=false/error",
					desc, tname(tm), tm.regEndSeq, rs, shutdownSeq)
			}
		}
	}

	// ---- (c) never before the interval
	for _, tm := range append(append([]*c34CrowdTimer{sentinel}, timers...), successors...) {
		for k := range tm.cbs {
			switch {
			case k == 0:
				if d := tm.cbs[0].start.Sub(tm.regStart); d < tm.interval {
					r.Violation(rt, "callback-before-interval", "%s: first callback of %s started %v after registration began", desc, tname(tm), d)
				}
			case tm.cbs[k-1].endSeq == 0:
				r.Violation(rt, "callback-overlaps-itself", "%s: callback %d of %s started before callback %d returned", desc, k, tname(tm), k-1)
			default:
				if d := tm.cbs[k].start.Sub(tm.cbs[k-1].end); d < tm.interval {
					r.Violation(rt, "callback-before-interval", "%s: callback %d of %s started %v after callback %d returned", desc, k, tname(tm), d, k-1)
				}
			}
		}
	}

	// ---- evidence
	ncb := 0
	for _, tm := range timers {
		ncb += len(tm.cbs)
	}

	nontrivial := full && len(stoppedWaiting) > 0

	classes := []string{"phase:crowd", fmt.Sprintf("crowd-shards:%d", p.Size)}

	if full {
		classes = append(classes, "crowd-slots-full-during-stops")
	} else {
		classes = append(classes, "crowd-more-callbacks-running-than-slots-assumed:not-judged")
	}

	if len(stoppedWaiting) > 0 {
		classes = append(classes, "crowd-stopped-collected-not-started-timer")
	}

	if len(successors) > 0 {
		classes = append(classes, "crowd-id-registered-again-while-old-timer-waits")
	}

	for _, s := range stops {
		classes = append(classes, "crowd-op:"+s.what)
	}

	r.Class("crowd-timers", int64(p.N))
	r.Class("crowd-callbacks", int64(ncb))
	r.Class("crowd-stopped-while-waiting", int64(len(stoppedWaiting)))
	r.Case(desc, nontrivial, classes...)

	if nontrivial && r.WantSample() {
		r.Sample(map[string]any{"program": desc, "running_during_stops": nrunning, "waiting_during_stops": len(waiting), "stopped_while_waiting": len(stoppedWaiting),
			"registered_again": len(successors), "callbacks": ncb})
	}
}

func TestC34(t *testing.T) {
	r := ev.Start(t, "C34")
	defer r.Finish()
	r.Rule("programs of 3..8 driver steps {NewTimer/New, StopTimers, StopOthers, StopAllTimers} over 3 ids with 0..12 ms pauses against a running SimpleTimers " +
		"(1/2/16 shards, resolution 2..5 ms); every timer has drawn intervals 1..12 ms and a per-call script {duration 0..9 ms, action from inside the callback: " +
		"register same id / other id, stop own id, StopOthers, StopAllTimers; return keep / keep=false / error}. " +
		"non-trivial: an id is registered again while a callback of the previous timer object under that id is in flight; distinct by program text. " +
		"second phase (registration storm): 2..8 goroutines each repeat a drawn pattern of 1..4 registrations {New/NewTimer, one of 1..8 shared ids, interval 1h/10min/1s/1ms/100us, " +
		"0..2 Gosched before, 0..3 Gosched after, then nothing / StopTimers(id) / StopTimers(all ids)} 20..600 times against a loop with resolution 1ns..100us (1/2/16 shards), " +
		"bounded by registration count, not by time; every callback start is compared with the clock read before its registration. " +
		"non-trivial: a sentinel timer (200us, own id) saw the loop tick while the goroutines were registering; distinct by program text. " +
		"third phase (crowd): 334..500 timers with distinct ids (1..5 profiles {New/NewTimer, interval 1..10 ms, every callback returns keep / keep=false / error}) are registered and expired before the loop " +
		"(1/2/3/16 shards, resolution 1..5 ms) starts, every callback blocks on a harness gate; once 333 callbacks are running (all worker slots of the loop pass, the loop is stuck handing out the rest) " +
		"1..4 drawn calls {StopTimers(1..60 picks among the timers whose callback has not started + 0..3 among all), StopOthers(0..12 excluded), StopAllTimers} are made, 0..6 of the stopped ids are registered again, " +
		"then the gate is opened and a timer registered after that has ticked twice before shutdown. " +
		"non-trivial: all 333 slots were held in the gate during the calls and at least one timer was stopped between being collected and starting; distinct by program text")
	r.Floor(80)
	r.Assume("one callback start after a Stop* call returned is tolerated (a run may be past its context check), none when the Stop* came from inside the timer's own callback",
		"removals are observed through NewSimpleTimer's whenRemoved hook; timers registered through SimpleTimers.New have no hook and are only subject to clauses (a) and (c)",
		"intervals are >= 1 ms (program phase) / >= 100 us (storm phase); clock readings are monotonic and taken before registration / at callback entry / at callback exit, so lateness of the machine cannot produce a violation",
		"storm phase: resolutions down to 1 ns are accepted by NewSimpleTimers (production uses 33 ms); a callback that was collected but had not started when the case was closed is not judged (a miss, never a false alarm)",
		"crowd phase: one loop pass runs at most 333 callbacks at the same time (maxTimerSemsize) and the loop does not begin another pass before it has handed out every timer of the current one; "+
			"when exactly 333 callbacks sit in the harness gate no other timer of the pass can be between its stopped test and its callback, so no callback start after a Stop* call returned is tolerated there; "+
			"if more than 333 callbacks are ever running before the gate opens the case is not judged by that clause; a stopped timer whose goroutine had not been scheduled when the case was closed is a miss, never a false alarm")

	// a rapid fail file replays one phase: the storm phase marks its cases with "c34-storm", the crowd phase with "c34-crowd"
	replayStorm, replayCrowd, replayProgram := false, false, false

	if f := os.Getenv("VERIF_RAPID_FAILFILE"); f != "" {
		b, _ := os.ReadFile(f)
		replayStorm = strings.Contains(string(b), "c34-storm")
		replayCrowd = !replayStorm && strings.Contains(string(b), "c34-crowd")
		replayProgram = !replayStorm && !replayCrowd
	}

	r.Checks(300, 16000)
	r.ShrinkTime(30 * time.Second)

	if !replayStorm && !replayCrowd {
		rapid.Check(t, c34ProgramCase(r))
	}

	if r.Failed() || t.Failed() || replayProgram {
		return
	}

	// ---- phase 3: crowd
	r.Checks(40, 2400)
	r.ShrinkTime(10 * time.Second)

	crowdStart := time.Now()

	if !replayStorm {
		rapid.Check(t, func(rt *rapid.T) { c34RunCrowd(rt, r, c34GenCrowd(rt)) })
	}

	r.Extra("crowd_phase_wall_s", time.Since(crowdStart).Seconds())

	if r.Failed() || t.Failed() || replayCrowd {
		return
	}

	// ---- phase 2: registration storm
	r.Checks(120, 6400)
	r.ShrinkTime(15 * time.Second)

	stormStart := time.Now()

	rapid.Check(t, func(rt *rapid.T) { c34RunStorm(rt, r, c34GenStorm(rt)) })

	r.Extra("storm_phase_wall_s", time.Since(stormStart).Seconds())
}

func c34ProgramCase(r *ev.Rec) func(rt *rapid.T) {
	return func(rt *rapid.T) {
		p := c34GenProgram(rt)

		ts, err := util.NewSimpleTimers(p.Size, time.Duration(p.Resolution)*time.Millisecond)
		if err != nil {
			rt.Fatalf("NewSimpleTimers: %v", err)
		}

		x := &c34Run{ts: ts}

		if err := ts.Start(context.Background()); err != nil {
			rt.Fatalf("start: %v", err)
		}

		for _, st := range p.Steps {
			if st.SleepMS > 0 {
				time.Sleep(time.Duration(st.SleepMS) * time.Millisecond)
			}

			switch st.Op {
			case "new":
				x.register(st.Spec, -1)
			default:
				x.stop(st.Op, st.IDs, -1)
			}
		}

		time.Sleep(time.Duration(p.TailMS) * time.Millisecond)
		x.stop("shutdown", nil, -1)

		// let callbacks that are still in flight finish (bounded; a budget hit is inconclusive)
		deadline := time.Now().Add(10 * time.Second)
		for quiet := 0; quiet < 3; {
			if x.inflight.Load() == 0 {
				quiet++
			} else {
				quiet = 0
			}

			if time.Now().After(deadline) {
				rt.Fatalf("c34: callbacks still in flight 10 s after shutdown: %s", p)
			}

			time.Sleep(time.Millisecond)
		}

		x.mu.Lock()
		x.closed = true
		timers := x.timers
		stops := x.stops
		x.mu.Unlock()

		desc := p.String()
		tname := func(tm *c34Timer) string {
			return fmt.Sprintf("timer#%d(id=%s, registered@%d..%d by %d)", tm.idx, c34IDs[tm.spec.ID], tm.regStartSeq, tm.regEndSeq, tm.parent)
		}

		// ---- (c) never before the interval
		for _, tm := range timers {
			iv := func(k int) time.Duration {
				return time.Duration(tm.spec.Intervals[k%len(tm.spec.Intervals)]) * time.Millisecond
			}

			for k := range tm.cbs {
				switch {
				case k == 0:
					if d := tm.cbs[0].start.Sub(tm.regStart); d < iv(0) {
						r.Violation(rt, "callback-before-interval", "%s: first callback of %s started %v after registration began, interval(0)=%v", desc, tname(tm), d, iv(0))
					}
				case tm.cbs[k-1].endSeq == 0:
					r.Violation(rt, "callback-overlaps-itself", "%s: callback %d of %s started before callback %d returned", desc, k, tname(tm), k-1)
				default:
					if d := tm.cbs[k].start.Sub(tm.cbs[k-1].end); d < iv(k) {
						r.Violation(rt, "callback-before-interval", "%s: callback %d of %s started %v after callback %d returned, interval(%d)=%v", desc, k, tname(tm), d, k-1, k, iv(k))
					}
				}
			}
		}

		// ---- (a) stopped stays stopped
		for _, s := range stops {
			if s.endSeq == 0 {
				continue
			}

			for _, tm := range timers {
				if tm.regEndSeq == 0 || tm.regEndSeq > s.startSeq || !s.covers(tm.spec.ID) {
					continue
				}

				n := 0

				for _, cb := range tm.cbs {
					if cb.startSeq > s.endSeq {
						n++
					}
				}

				tol := 1
				if s.inside == tm.idx {
					tol = 0
				}

				if n > tol {
					r.Violation(rt, "stopped-timer-restarted", "%s: %s started its callback %d times after %s@%d..%d (from timer %d) had returned (tolerated: %d)",
						desc, tname(tm), n, s.what, s.startSeq, s.endSeq, s.inside, tol)
				}
			}
		}

		// ---- (b) every removal has a cause
		var shutdownSeq int64

		for _, s := range stops {
			if s.what == "shutdown" {
				shutdownSeq = s.startSeq
			}
		}

		for _, tm := range timers {
			if len(tm.removed) > 1 {
				r.Violation(rt, "timer-removed-twice", "%s: %s was removed %d times", desc, tname(tm), len(tm.removed))
			}

			for _, rs := range tm.removed {
				explained := tm.selfDropSeq != 0 && tm.selfDropSeq < rs

				for _, s := range stops {
					if s.startSeq < rs && (s.endSeq == 0 || s.endSeq > tm.regStartSeq) && s.covers(tm.spec.ID) {
						explained = true
					}
				}

				if explained {
					continue
				}

				// who could have done it: an older timer object under the same id that ended its own life
				sig, why := "timer-removed-without-cause", ""

				for _, s := range stops {
					if s.startSeq < rs && (s.endSeq == 0 || s.endSeq > rs) && !s.covers(tm.spec.ID) {
						sig = "stop-removed-uncovered-id"
						why = fmt.Sprintf("; %s@%d..%d, which does not cover this id, was running at that moment", s.what, s.startSeq, s.endSeq)
					}
				}

				for _, old := range timers {
					if sig == "stop-removed-uncovered-id" {
						break
					}

					if old == tm || old.spec.ID != tm.spec.ID || old.regStartSeq > tm.regStartSeq {
						continue
					}

					stopped := len(old.removed) > 0
					if (old.selfDropSeq != 0 && old.selfDropSeq < rs) || stopped {
						sig = "successor-removed-by-id"
						why = fmt.Sprintf("; %s under the same id returned keep=false/error or was stopped before (selfdrop@%d removed@%v)", tname(old), old.selfDropSeq, old.removed)
					}
				}

				r.Violation(rt, sig, "%s: %s was removed @%d (shutdown@%d) although no Stop* call covering its id overlapped or followed its registration and none of its callbacks returned keep=false/error%s",
					desc, tname(tm), rs, shutdownSeq, why)
			}
		}

		// ---- evidence
		reuseInFlight, insideStop, selfDrop, replaced := false, false, false, false
		ncb := 0

		for _, tm := range timers {
			ncb += len(tm.cbs)

			if tm.selfDropSeq != 0 {
				selfDrop = true
			}

			for _, old := range timers {
				if old == tm || old.spec.ID != tm.spec.ID || old.regStartSeq >= tm.regStartSeq {
					continue
				}

				replaced = true

				for _, cb := range old.cbs {
					if cb.startSeq < tm.regEndSeq && (cb.endSeq == 0 || cb.endSeq > tm.regStartSeq) {
						reuseInFlight = true
					}
				}
			}
		}

		for _, s := range stops {
			if s.inside >= 0 {
				insideStop = true
			}
		}

		classes := []string{fmt.Sprintf("shards:%d", p.Size)}
		if reuseInFlight {
			classes = append(classes, "id-reused-while-callback-in-flight")
		}

		if replaced {
			classes = append(classes, "id-reused")
		}

		if insideStop {
			classes = append(classes, "stop-from-inside-callback")
		}

		if selfDrop {
			classes = append(classes, "callback-returned-drop-or-error")
		}

		if ncb == 0 {
			classes = append(classes, "no-callback-ran")
		}

		r.Class("callbacks", int64(ncb))
		r.Class("timers", int64(len(timers)))
		r.Case(desc, reuseInFlight, classes...)

		if reuseInFlight && r.WantSample() {
			r.Sample(map[string]any{"program": desc, "timers": len(timers), "callbacks": ncb, "stop_calls": len(stops)})
		}
	}
}
