package porcupine

// Annotation is the only declaration of upstream visualization.go that checker.go refers to (the HTML
// visualisation itself is not vendored).
type Annotation struct {
	ClientId        int
	Tag             string
	Start           int64
	End             int64
	Description     string
	Details         string
	TextColor       string
	BackgroundColor string
	_               struct{} // disallow positional literals, for extensibility
}
