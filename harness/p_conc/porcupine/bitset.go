package porcupine

// From the MurmurHash3 64-bit finalizer
const prime uint64 = 0xff51afd7ed558ccd

type bitset []uint64

// data layout:
// bits 0-63 are in data[0], the next are in data[1], etc.

func newBitset(bits uint) bitset {
	extra := uint(0)
	if bits%64 != 0 {
		extra = 1
	}
	chunks := bits/64 + extra
	return bitset(make([]uint64, chunks))
}

func (b bitset) clone() bitset {
	dataCopy := make([]uint64, len(b))
	copy(dataCopy, b)
	return bitset(dataCopy)
}

func bitsetIndex(pos uint) (uint, uint) {
	return pos / 64, pos % 64
}

func (b bitset) set(pos uint) bitset {
	major, minor := bitsetIndex(pos)
	b[major] |= (1 << minor)
	return b
}

func (b bitset) clear(pos uint) bitset {
	major, minor := bitsetIndex(pos)
	b[major] &^= (1 << minor)
	return b
}

func (b bitset) hash() uint64 {
	var h uint64
	for _, v := range b {
		h ^= v
		h *= prime
	}
	return h
}

func (b bitset) equal(b2 bitset) bool {
	if len(b) != len(b2) {
		return false
	}
	for i := range b {
		if b[i] != b2[i] {
			return false
		}
	}
	return true
}
