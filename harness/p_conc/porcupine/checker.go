package porcupine

import (
	"context"
	"sort"
	"time"
)

type entryKind bool

const (
	callEntry   entryKind = false
	returnEntry entryKind = true
)

type entry struct {
	kind     entryKind
	value    interface{}
	id       int
	time     int64
	clientId int
	metadata interface{}
}

type LinearizationInfo struct {
	history               [][]entry // for each partition, a list of entries
	partialLinearizations [][][]int // for each partition, a set of histories (list of ids)
	annotations           []Annotation
}

// PartialLinearizations returns partial linearizations found during the
// linearizability check, as sets of operation IDs.
//
// For each partition, it returns a set of possible linearization histories,
// where each history is represented as a sequence of operation IDs. If the
// history is linearizable, this will contain a complete linearization. If not
// linearizable, it contains the maximal partial linearizations found.
func (li *LinearizationInfo) PartialLinearizations() [][][]int {
	return li.partialLinearizations
}

// PartialLinearizationsOperations returns partial linearizations found during
// the linearizability check, as sets of sequences of [Operation].
//
// For each partition, it returns a set of possible linearization histories,
// where each history is represented as a sequence of [Operation]. If the
// history is linearizable, this will contain a complete linearization. If not
// linearizable, it contains the maximal partial linearizations found.
func (li *LinearizationInfo) PartialLinearizationsOperations() [][][]Operation {
	result := make([][][]Operation, len(li.history))
	for p, partition := range li.history {
		// reconstruct operations based on entries
		callMap := make(map[int]entry)
		retMap := make(map[int]entry)
		for _, e := range partition {
			if e.kind == callEntry {
				callMap[e.id] = e
			} else {
				retMap[e.id] = e
			}
		}

		opMap := make(map[int]Operation)
		for id, call := range callMap {
			ret, ok := retMap[id]
			if !ok {
				// this should never happen, because the LinearizationInfo
				// object should always contain valid partial linearizations,
				// where there is a return for every call
				panic("cannot find corresponding return for call")
			}
			// prefer return metadata over call metadata
			metadata := call.metadata
			if ret.metadata != nil {
				metadata = ret.metadata
			}
			opMap[id] = Operation{
				ClientId: call.clientId,
				Input:    call.value,
				Call:     call.time,
				Output:   ret.value,
				Return:   ret.time,
				Metadata: metadata,
			}
		}

		partials := make([][]Operation, len(li.partialLinearizations[p]))
		for i, linearization := range li.partialLinearizations[p] {
			partials[i] = make([]Operation, len(linearization))
			for j, id := range linearization {
				op, exists := opMap[id]
				if !exists {
					// this should never happen, because the LinearizationInfo
					// object should always contain valid partial
					// linearizations, where every ID in the partial
					// linearization is in the history
					panic("cannot find operation for given id in linearization")
				}
				partials[i][j] = op
			}
		}
		result[p] = partials
	}
	return result
}

type byTime []entry

func (a byTime) Len() int {
	return len(a)
}

func (a byTime) Swap(i, j int) {
	a[i], a[j] = a[j], a[i]
}

func (a byTime) Less(i, j int) bool {
	if a[i].time != a[j].time {
		return a[i].time < a[j].time
	}
	// if the timestamps are the same, we need to make sure we order calls
	// before returns
	return a[i].kind == callEntry && a[j].kind == returnEntry
}

func makeEntries(history []Operation) []entry {
	var entries []entry = nil
	id := 0
	for _, elem := range history {
		entries = append(entries, entry{
			callEntry, elem.Input, id, elem.Call, elem.ClientId, elem.Metadata})
		entries = append(entries, entry{
			returnEntry, elem.Output, id, elem.Return, elem.ClientId, elem.Metadata})
		id++
	}
	sort.Sort(byTime(entries))
	return entries
}

type node struct {
	value interface{}
	match *node // call if match is nil, otherwise return
	id    int
	next  *node
	prev  *node
}

func insertBefore(n *node, mark *node) *node {
	if mark != nil {
		beforeMark := mark.prev
		mark.prev = n
		n.next = mark
		if beforeMark != nil {
			n.prev = beforeMark
			beforeMark.next = n
		}
	}
	return n
}

func renumber(events []Event) []Event {
	var e []Event
	m := make(map[int]int) // renumbering
	id := 0
	for _, v := range events {
		if r, ok := m[v.Id]; ok {
			e = append(e, Event{ClientId: v.ClientId, Kind: v.Kind, Value: v.Value, Id: r, Metadata: v.Metadata})
		} else {
			e = append(e, Event{ClientId: v.ClientId, Kind: v.Kind, Value: v.Value, Id: id, Metadata: v.Metadata})
			m[v.Id] = id
			id++
		}
	}
	return e
}

func convertEntries(events []Event) []entry {
	var entries []entry
	for i, elem := range events {
		kind := callEntry
		if elem.Kind == ReturnEvent {
			kind = returnEntry
		}
		// use index as "time"
		entries = append(entries, entry{kind, elem.Value, elem.Id, int64(i), elem.ClientId, elem.Metadata})
	}
	return entries
}

func makeLinkedEntries(entries []entry) *node {
	var root *node = nil
	match := make(map[int]*node)
	for i := len(entries) - 1; i >= 0; i-- {
		elem := entries[i]
		if elem.kind == returnEntry {
			entry := &node{value: elem.value, match: nil, id: elem.id}
			match[elem.id] = entry
			insertBefore(entry, root)
			root = entry
		} else {
			entry := &node{value: elem.value, match: match[elem.id], id: elem.id}
			insertBefore(entry, root)
			root = entry
		}
	}
	return root
}

type cacheEntry struct {
	linearized bitset
	state      interface{}
}

func cacheKey(model Model, linearized bitset, state interface{}) uint64 {
	h := linearized.hash()
	if model.Hash != nil {
		h ^= model.Hash(state)
	}
	return h
}

func cacheContains(model Model, bucket []cacheEntry, linearized bitset, state interface{}) bool {
	for _, elem := range bucket {
		if linearized.equal(elem.linearized) && model.Equal(state, elem.state) {
			return true
		}
	}
	return false
}

type callsEntry struct {
	entry *node
	state interface{}
}

func lift(entry *node) {
	entry.prev.next = entry.next
	entry.next.prev = entry.prev
	match := entry.match
	match.prev.next = match.next
	if match.next != nil {
		match.next.prev = match.prev
	}
}

func unlift(entry *node) {
	match := entry.match
	match.prev.next = match
	if match.next != nil {
		match.next.prev = match
	}
	entry.prev.next = entry
	entry.next.prev = entry
}

func checkSingle(ctx context.Context, model Model, history []entry, computePartial bool) (bool, []*[]int) {
	entry := makeLinkedEntries(history)
	n := len(history) / 2
	linearized := newBitset(uint(n))
	cache := make(map[uint64][]cacheEntry) // map from hash to cache entry
	var calls []callsEntry
	// longest linearizable prefix that includes the given entry
	longest := make([]*[]int, n)

	state := model.Init()
	headEntry := insertBefore(&node{value: nil, match: nil, id: -1}, entry)
	for headEntry.next != nil {
		if ctx.Err() != nil {
			return false, longest
		}
		if entry.match != nil {
			matching := entry.match // the return entry
			ok, newState := model.StepContext(ctx, state, entry.value, matching.value)
			if ctx.Err() != nil {
				return false, longest
			}
			if ok {
				linearized.set(uint(entry.id))
				key := cacheKey(model, linearized, newState)
				bucket := cache[key]
				if !cacheContains(model, bucket, linearized, newState) {
					cache[key] = append(bucket, cacheEntry{linearized.clone(), newState})
					calls = append(calls, callsEntry{entry, state})
					state = newState
					lift(entry)
					entry = headEntry.next
				} else {
					linearized.clear(uint(entry.id))
					entry = entry.next
				}
			} else {
				entry = entry.next
			}
		} else {
			if len(calls) == 0 {
				return false, longest
			}
			// longest
			if computePartial {
				callsLen := len(calls)
				var seq []int = nil
				for _, v := range calls {
					if longest[v.entry.id] == nil || callsLen > len(*longest[v.entry.id]) {
						// create seq lazily
						if seq == nil {
							seq = make([]int, len(calls))
							for i, v := range calls {
								seq[i] = v.entry.id
							}
						}
						longest[v.entry.id] = &seq
					}
				}
			}
			callsTop := calls[len(calls)-1]
			entry = callsTop.entry
			state = callsTop.state
			linearized.clear(uint(entry.id))
			calls = calls[:len(calls)-1]
			unlift(entry)
			entry = entry.next
		}
	}
	// longest linearization is the complete linearization, which is calls
	seq := make([]int, len(calls))
	for i, v := range calls {
		seq[i] = v.entry.id
	}
	for i := 0; i < n; i++ {
		longest[i] = &seq
	}
	return true, longest
}

func fillDefault(model Model) Model {
	if model.Partition == nil {
		model.Partition = noPartition
	}
	if model.PartitionEvent == nil {
		model.PartitionEvent = noPartitionEvent
	}
	if model.Equal == nil {
		model.Equal = shallowEqual
	}
	if model.DescribeOperation == nil {
		model.DescribeOperation = defaultDescribeOperation
	}
	if model.DescribeState == nil {
		model.DescribeState = defaultDescribeState
	}
	if model.DescribeOperationMetadata == nil {
		model.DescribeOperationMetadata = defaultDescribeOperationMetadata
	}
	switch {
	case model.Step == nil && model.StepContext == nil:
		panic("model must define Step or StepContext")
	case model.Step == nil:
		ctx := context.Background()
		model.Step = func(state, input, output interface{}) (bool, interface{}) {
			return model.StepContext(ctx, state, input, output)
		}
	case model.StepContext == nil:
		model.StepContext = func(ctx context.Context, state interface{}, input interface{}, output interface{}) (bool, interface{}) {
			return model.Step(state, input, output)
		}
	}
	return model
}

func checkParallel(model Model, history [][]entry, computeInfo bool, timeout time.Duration) (CheckResult, LinearizationInfo) {
	if len(history) == 0 {
		return Ok, LinearizationInfo{}
	}
	ok := true
	timedOut := false
	ctx, cancel := context.WithCancel(context.Background())
	defer cancel()
	results := make(chan bool, len(history))
	longest := make([][]*[]int, len(history))
	for i, subhistory := range history {
		go func(i int, subhistory []entry) {
			ok, l := checkSingle(ctx, model, subhistory, computeInfo)
			longest[i] = l
			results <- ok
		}(i, subhistory)
	}
	var timeoutChan <-chan time.Time
	if timeout > 0 {
		timeoutChan = time.After(timeout)
	}
	count := 0
loop:
	for {
		select {
		case result := <-results:
			count++
			ok = ok && result
			if !ok && !computeInfo {
				cancel()
				break loop
			}
			if count >= len(history) {
				break loop
			}
		case <-timeoutChan:
			timedOut = true
			cancel()
			break loop // if we time out, we might get a false positive
		}
	}
	var info LinearizationInfo
	if computeInfo {
		// make sure we've waited for all goroutines to finish,
		// otherwise we might race on access to longest[]
		for count < len(history) {
			<-results
			count++
		}
		// return longest linearizable prefixes that include each history element
		partialLinearizations := make([][][]int, len(history))
		for i := 0; i < len(history); i++ {
			var partials [][]int
			// turn longest into a set of unique linearizations
			set := make(map[*[]int]struct{})
			for _, v := range longest[i] {
				if v != nil {
					set[v] = struct{}{}
				}
			}
			for k := range set {
				arr := make([]int, len(*k))
				copy(arr, *k)
				partials = append(partials, arr)
			}
			partialLinearizations[i] = partials
		}
		info.history = history
		info.partialLinearizations = partialLinearizations
	}
	var result CheckResult
	if !ok {
		result = Illegal
	} else {
		if timedOut {
			result = Unknown
		} else {
			result = Ok
		}
	}
	return result, info
}

func checkEvents(model Model, history []Event, verbose bool, timeout time.Duration) (CheckResult, LinearizationInfo) {
	model = fillDefault(model)
	partitions := model.PartitionEvent(history)
	l := make([][]entry, len(partitions))
	for i, subhistory := range partitions {
		l[i] = convertEntries(renumber(subhistory))
	}
	return checkParallel(model, l, verbose, timeout)
}

func checkOperations(model Model, history []Operation, verbose bool, timeout time.Duration) (CheckResult, LinearizationInfo) {
	model = fillDefault(model)
	partitions := model.Partition(history)
	l := make([][]entry, len(partitions))
	for i, subhistory := range partitions {
		l[i] = makeEntries(subhistory)
	}
	return checkParallel(model, l, verbose, timeout)
}
