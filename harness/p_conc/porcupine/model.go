package porcupine

import (
	"context"
	"fmt"
	"strings"
)

// An Operation is an element of a history.
//
// This package supports two different representations of histories, as a
// sequence of Operation or [Event]. In the Operation representation, function
// call/returns are packaged together, along with timestamps of when the
// function call was made and when the function call returned.
//
// The interval [Call, Return] is interpreted as a closed interval, so an
// operation with interval [10, 20] is concurrent with another operation with
// interval [20, 30].
type Operation struct {
	ClientId int // optional, unless you want a visualization; zero-indexed
	Input    interface{}
	Call     int64 // invocation timestamp
	Output   interface{}
	Return   int64 // response timestamp
	// Metadata contains arbitrary metadata associated with the operation.
	// It is not used for linearizability checking but can be used for visualization.
	Metadata interface{}
	_        struct{} // disallow positional literals, for extensibility
}

// Interpreting the interval [Call, Return] as a closed interval is the only
// reasonable approach for how we expect this library to be used. Otherwise, we
// might have the following situation, when using a monotonic clock to get
// timestamps (where successive calls to the clock return values that are always
// greater than _or equal to_ previously returned values):
//
// - Client 1 calls clock(), gets ts=1, invokes put("x", "y")
// - Client 2 calls clock(), gets ts=2, invokes get("x")
// - Client 1 operation returns, calls clock(), gets ts=2
// - Client 2 operation returns "", calls clock(), gets ts=3
//
// These operations were concurrent, but if we interpret the intervals as
// half-open, for example, Client 1's operation had interval [1, 2) and Client
// 2's operation had interval [2, 3), so they are not concurrent operations, and
// we'd say that this history is not linearizable, which is not correct. The
// only sensible approach is to interpret the interval [Call, Return] as a
// closed interval.

// An EventKind tags an [Event] as either a function call or a return.
type EventKind bool

const (
	CallEvent   EventKind = false
	ReturnEvent EventKind = true
)

// An Event is an element of a history, a function call event or a return
// event.
//
// This package supports two different representations of histories, as a
// sequence of Event or [Operation]. In the Event representation, function
// calls and returns are only relatively ordered and do not have absolute
// timestamps.
//
// The Id field is used to match a function call event with its corresponding
// return event.
type Event struct {
	ClientId int // optional, unless you want a visualization; zero-indexed
	Kind     EventKind
	Value    interface{}
	Id       int
	// Metadata contains arbitrary metadata associated with the operation.
	// It is not used for linearizability checking but can be used for visualization.
	// Can be set on CallEvent or ReturnEvent. If both have metadata, ReturnEvent metadata takes precedence.
	Metadata interface{}
	_        struct{} // disallow positional literals, for extensibility
}

// A Model is a sequential specification of a system.
//
// Note: models in this package are expected to be purely functional. That is,
// the model Step function should not modify the given state (or input or
// output), but return a new state.
//
// Only the Init, Step (or StepContext), and Equal functions are necessary to
// specify if you just want to test histories for linearizability.
//
// Implementing the partition functions can greatly improve performance. If
// you're implementing the partition function, the model Init and Step
// functions can be per-partition. For example, if your specification is for a
// key-value store and you partition by key, then the per-partition state
// representation can just be a single value rather than a map.
//
// Implementing DescribeOperation and DescribeState will produce nicer
// visualizations.
//
// It may be helpful to look at this package's [test code] for examples of how
// to write models, including models that include partition functions.
//
// [test code]: https://github.com/anishathalye/porcupine/blob/master/porcupine_test.go
type Model struct {
	// Partition functions, such that a history is linearizable if and only
	// if each partition is linearizable. If left nil, this package will
	// skip partitioning.
	Partition      func(history []Operation) [][]Operation
	PartitionEvent func(history []Event) [][]Event
	// Initial state of the system.
	Init func() interface{}
	// Step function for the system. Returns whether or not the system
	// could take this step with the given inputs and outputs and also
	// returns the new state. This function must be a pure function: it
	// cannot mutate the given state.
	Step func(state interface{}, input interface{}, output interface{}) (bool, interface{})
	// StepContext is an optional context-aware Step function. If set, the
	// checker and visualization replay call StepContext instead of Step,
	// allowing the model to stop work promptly when a timeout expires.
	StepContext func(ctx context.Context, state interface{}, input interface{}, output interface{}) (bool, interface{})
	// Equality on states. If left nil, this package will use == as a
	// fallback ([ShallowEqual]).
	Equal func(state1, state2 interface{}) bool
	// Hash returns a hash of the given state. If non-nil, the checker uses
	// it to reduce the number of [Equal] comparisons. Must satisfy the
	// invariant that [Equal] states have equal hashes.
	Hash func(state interface{}) uint64
	// For visualization, describe an operation as a string. For example,
	// "Get('x') -> 'y'". Can be omitted if you're not producing
	// visualizations.
	DescribeOperation func(input interface{}, output interface{}) string
	// For visualization purposes, describe a state as a string. For
	// example, "{'x' -> 'y', 'z' -> 'w'}". Can be omitted if you're not
	// producing visualizations.
	DescribeState func(state interface{}) string
	// For visualization purposes, describe metadata as a string. Can be
	// omitted if you're not producing visualizations.
	DescribeOperationMetadata func(info interface{}) string
	_                         struct{} // disallow positional literals, for extensibility
}

// A NondeterministicModel is a nondeterministic sequential specification of a
// system.
//
// For basics on models, see the documentation for [Model].  In contrast to
// Model, NondeterministicModel has a step function that returns a set of
// states, indicating all possible next states. It can be converted to a Model
// using the [NondeterministicModel.ToModel] function.
//
// It may be helpful to look at this package's [test code] for examples of how
// to write and use nondeterministic models.
//
// [test code]: https://github.com/anishathalye/porcupine/blob/master/porcupine_test.go
type NondeterministicModel struct {
	// Partition functions, such that a history is linearizable if and only
	// if each partition is linearizable. If left nil, this package will
	// skip partitioning.
	Partition      func(history []Operation) [][]Operation
	PartitionEvent func(history []Event) [][]Event
	// Initial states of the system.
	Init func() []interface{}
	// Step function for the system. Returns all possible next states for
	// the given state, input, and output. If the system cannot step with
	// the given state/input to produce the given output, this function
	// should return an empty slice.
	Step func(state interface{}, input interface{}, output interface{}) []interface{}
	// StepContext is an optional context-aware Step function. If set, the
	// checker calls StepContext instead of Step, allowing the model to stop
	// work promptly when a timeout expires.
	StepContext func(ctx context.Context, state interface{}, input interface{}, output interface{}) []interface{}
	// Equality on states. If left nil, this package will use == as a
	// fallback ([ShallowEqual]).
	Equal func(state1, state2 interface{}) bool
	// Hash returns a hash of the given state. If non-nil, the checker uses
	// it to reduce the number of [Equal] comparisons. Must satisfy the
	// invariant that [Equal] states have equal hashes.
	Hash func(state interface{}) uint64
	// For visualization, describe an operation as a string. For example,
	// "Get('x') -> 'y'". Can be omitted if you're not producing
	// visualizations.
	DescribeOperation func(input interface{}, output interface{}) string
	// For visualization purposes, describe a state as a string. For
	// example, "{'x' -> 'y', 'z' -> 'w'}". Can be omitted if you're not
	// producing visualizations.
	DescribeState func(state interface{}) string
	// For visualization purposes, describe metadata as a string. Can be
	// omitted if you're not producing visualizations.
	DescribeOperationMetadata func(info interface{}) string
	_                         struct{} // disallow positional literals, for extensibility
}

func merge(states []interface{}, eq func(state1, state2 interface{}) bool) []interface{} {
	var uniqueStates []interface{}
	for _, state := range states {
		unique := true
		for _, us := range uniqueStates {
			if eq(state, us) {
				unique = false
				break
			}
		}
		if unique {
			uniqueStates = append(uniqueStates, state)
		}
	}
	return uniqueStates
}

// ToModel converts a [NondeterministicModel] to a [Model] using a power set
// construction.
//
// This makes it suitable for use in linearizability checking operations like
// [CheckOperations]. This is a general construction that can be used for any
// nondeterministic model. It relies on the NondeterministicModel's Equal
// function to merge states. You may be able to achieve better performance by
// implementing a Model directly.
func (nm *NondeterministicModel) ToModel() Model {
	// like fillDefault
	equal := nm.Equal
	if equal == nil {
		equal = shallowEqual
	}
	describeOperation := nm.DescribeOperation
	if describeOperation == nil {
		describeOperation = defaultDescribeOperation
	}
	describeState := nm.DescribeState
	if describeState == nil {
		describeState = defaultDescribeState
	}
	describeOperationMetadata := nm.DescribeOperationMetadata
	if describeOperationMetadata == nil {
		describeOperationMetadata = defaultDescribeOperationMetadata
	}
	var nondeterministicStepContext func(ctx context.Context, state interface{}, input interface{}, output interface{}) []interface{}
	switch {
	case nm.StepContext != nil:
		nondeterministicStepContext = nm.StepContext
	case nm.Step != nil:
		nondeterministicStepContext = func(ctx context.Context, state interface{}, input interface{}, output interface{}) []interface{} {
			return nm.Step(state, input, output)
		}
	default:
		panic("nondeterministic model must define Step or StepContext")
	}
	step := func(ctx context.Context, state, input, output interface{}) (bool, interface{}) {
		states := state.([]interface{})
		var allNextStates []interface{}
		for _, state := range states {
			if ctx.Err() != nil {
				return false, nil
			}
			allNextStates = append(allNextStates, nondeterministicStepContext(ctx, state, input, output)...)
		}
		if ctx.Err() != nil {
			return false, nil
		}
		uniqueNextStates := merge(allNextStates, equal)
		return len(uniqueNextStates) > 0, uniqueNextStates
	}
	var hashState func(state interface{}) uint64
	if nm.Hash != nil {
		// using XOR for order-independent combination of the
		// individual hashes, because state is a set
		hashState = func(state interface{}) uint64 {
			states := state.([]interface{})
			var h uint64
			for _, s := range states {
				h ^= nm.Hash(s)
			}
			return h
		}
	}
	backgroundContext := context.Background()
	return Model{
		Partition:      nm.Partition,
		PartitionEvent: nm.PartitionEvent,
		// we need this wrapper to convert a []interface{} to an interface{}
		Init: func() interface{} {
			return merge(nm.Init(), equal)
		},
		Step: func(state, input, output interface{}) (bool, interface{}) {
			return step(backgroundContext, state, input, output)
		},
		StepContext: step,
		// this operates on sets of states that have been merged, so we
		// don't need to check inclusion in both directions
		Equal: func(state1, state2 interface{}) bool {
			states1 := state1.([]interface{})
			states2 := state2.([]interface{})
			if len(states1) != len(states2) {
				return false
			}
			for _, s1 := range states1 {
				found := false
				for _, s2 := range states2 {
					if equal(s1, s2) {
						found = true
						break
					}
				}
				if !found {
					return false
				}
			}
			return true
		},
		Hash:              hashState,
		DescribeOperation: describeOperation,
		DescribeState: func(state interface{}) string {
			states := state.([]interface{})
			var descriptions []string
			for _, state := range states {
				descriptions = append(descriptions, describeState(state))
			}
			return fmt.Sprintf("{%s}", strings.Join(descriptions, ", "))
		},
		DescribeOperationMetadata: describeOperationMetadata,
	}
}

// noPartition is a fallback partition function that partitions the history
// into a single partition containing all of the operations.
func noPartition(history []Operation) [][]Operation {
	return [][]Operation{history}
}

// noPartitionEvent is a fallback partition function that partitions the
// history into a single partition containing all of the events.
func noPartitionEvent(history []Event) [][]Event {
	return [][]Event{history}
}

// shallowEqual is a fallback equality function that compares two states using
// ==.
func shallowEqual(state1, state2 interface{}) bool {
	return state1 == state2
}

// defaultDescribeOperation is a fallback to convert an operation to a string.
// It renders inputs and outputs using the "%v" format specifier.
func defaultDescribeOperation(input interface{}, output interface{}) string {
	return fmt.Sprintf("%v -> %v", input, output)
}

// defaultDescribeState is a fallback to convert a state to a string. It
// renders the state using the "%v" format specifier.
func defaultDescribeState(state interface{}) string {
	return fmt.Sprintf("%v", state)
}

// defaultDescribeOperationMetadata is a fallback to convert metadata to a
// string. It renders the metadata using the "%v" format specifier.
func defaultDescribeOperationMetadata(info interface{}) string {
	if info == nil {
		return ""
	}
	return fmt.Sprintf("%v", info)
}

// A CheckResult is the result of a linearizability check.
//
// Checking for linearizability is decidable, but it is an NP-hard problem, so
// the checker might take a long time. If a timeout is not given, functions in
// this package will always return Ok or Illegal, but if a timeout is supplied,
// then some functions may return Unknown. Depending on the use case, you can
// interpret an Unknown result as Ok (i.e., the tool didn't find a
// linearizability violation within the given timeout).
type CheckResult string

const (
	Unknown CheckResult = "Unknown" // timed out
	Ok      CheckResult = "Ok"
	Illegal CheckResult = "Illegal"
)
