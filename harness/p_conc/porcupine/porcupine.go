package porcupine

import "time"

// CheckOperations checks whether a history is linearizable.
func CheckOperations(model Model, history []Operation) bool {
	res, _ := checkOperations(model, history, false, 0)
	return res == Ok
}

// CheckOperationsTimeout checks whether a history is linearizable, with a
// timeout.
//
// A timeout of 0 is interpreted as an unlimited timeout.
func CheckOperationsTimeout(model Model, history []Operation, timeout time.Duration) CheckResult {
	res, _ := checkOperations(model, history, false, timeout)
	return res
}

// CheckOperationsVerbose checks whether a history is linearizable while
// computing data that can be used to visualize the history and linearization.
//
// The returned LinearizationInfo can be used with [Visualize].
func CheckOperationsVerbose(model Model, history []Operation, timeout time.Duration) (CheckResult, LinearizationInfo) {
	return checkOperations(model, history, true, timeout)
}

// CheckEvents checks whether a history is linearizable.
func CheckEvents(model Model, history []Event) bool {
	res, _ := checkEvents(model, history, false, 0)
	return res == Ok
}

// CheckEventsTimeout checks whether a history is linearizable, with a timeout.
//
// A timeout of 0 is interpreted as an unlimited timeout.
func CheckEventsTimeout(model Model, history []Event, timeout time.Duration) CheckResult {
	res, _ := checkEvents(model, history, false, timeout)
	return res
}

// CheckEventsVerbose checks whether a history is linearizable while computing
// data that can be used to visualize the history and linearization.
//
// The returned LinearizationInfo can be used with [Visualize].
func CheckEventsVerbose(model Model, history []Event, timeout time.Duration) (CheckResult, LinearizationInfo) {
	return checkEvents(model, history, true, timeout)
}
