package p_crash

import (
	"bytes"
	"errors"
	"fmt"
	"math/bits"
	"os"
	"runtime"
	"sort"
	"strings"
	"sync"
	"testing"
	"time"

	"github.com/spikeekips/mitum/base"
	"github.com/spikeekips/mitum/isaac"
	isaacdatabase "github.com/spikeekips/mitum/isaac/database"
	leveldbstorage "github.com/spikeekips/mitum/storage/leveldb"
	"github.com/spikeekips/mitum/util"
	"github.com/syndtr/goleveldb/leveldb"
	leveldbStorage "github.com/syndtr/goleveldb/leveldb/storage"
	leveldbutil "github.com/syndtr/goleveldb/leveldb/util"
	"pgregory.net/rapid"
	"verif/internal/chain"
	"verif/internal/ev"
	"verif/internal/gen"
)

// =====================================================================================================================
// C21 "Block commit is atomic across crashes" - fault enumeration.
//
// Crash model (hook H3): a controller is consulted before every Put/Delete/Batch of the leveldb Storage. The first N
// writes succeed, every later write returns an error (the process is "dead"). For writes that the code issues
// concurrently without ordering (the permanent merge), the writes of one concurrent group are held at the fault point
// until the whole group is in flight and then an arbitrary subset is let through ("any subset of in-flight writes may
// have reached the disk"). Afterwards the old objects are abandoned, the Storage is closed, the same goleveldb
// MemStorage is reopened and a fresh permanent database + Center reads everything.
//
// Oracle (from the statement, model taken from the block files of a crash-free run, not from the database): let L' be
// the height of LastBlockMap after the reopen. Every block <= L' is fully visible (map, every state at its latest
// value <= L', every known / in-state operation, suffrage proofs, policy), nothing of a block > L' is visible, and
// L' lies in [first touched block - 1, last committed block].
// =====================================================================================================================

var errC21Crash = errors.New("verif: injected crash (write refused, the process is dead)")

// c21Die is what a refused write does. The process is dead at that point: nothing after the write may run, so the
// goroutine that attempted it ends (runtime.Goexit runs its deferred unlocks, so the rest of the dead process cannot
// deadlock the harness; whatever it still attempts to write is refused the same way). Returning an error instead would
// run mitum's error paths, and one of them (isaacblock.Writer.statesMergerClose: the named result tg is reset to nil while
// other state jobs still call tg.Add) panics inside a worker goroutine and would kill the test binary.
func c21Die() error {
	runtime.Goexit()

	return errC21Crash
}

const (
	c21Off = iota
	c21Count
	c21Budget
	c21Hold
	c21Dead
)

type c21Ctl struct {
	mu        sync.Mutex
	st        *leveldbstorage.Storage
	mode      int
	seen      int
	budget    int
	holdStart int
	released  bool
	held      []chan bool
	arrived   chan struct{}
	log       []string
}

func (c *c21Ctl) arm(st *leveldbstorage.Storage, mode, n int) {
	c.mu.Lock()
	defer c.mu.Unlock()

	c.st = st
	c.mode = mode
	c.seen = 0
	c.budget = n
	c.holdStart = n
	c.released = false
	c.held = nil
	c.log = nil
	c.arrived = make(chan struct{}, 4096)
}

func (c *c21Ctl) setMode(mode int) {
	c.mu.Lock()
	c.mode = mode
	c.mu.Unlock()
}

func (c *c21Ctl) counted() (int, []string) {
	c.mu.Lock()
	defer c.mu.Unlock()

	return c.seen, append([]string(nil), c.log...)
}

func (c *c21Ctl) fault(st *leveldbstorage.Storage, kind string, n int) error {
	c.mu.Lock()

	if st != c.st || c.mode == c21Off {
		c.mu.Unlock()

		return nil
	}

	idx := c.seen
	c.seen++
	c.log = append(c.log, fmt.Sprintf("%s:%d", kind, n))

	switch c.mode {
	case c21Count:
		c.mu.Unlock()

		return nil
	case c21Budget:
		ok := idx < c.budget
		c.mu.Unlock()

		if ok {
			return nil
		}

		return c21Die()
	case c21Hold:
		if idx < c.holdStart {
			c.mu.Unlock()

			return nil
		}

		if c.released {
			c.mu.Unlock()

			return c21Die()
		}

		ch := make(chan bool, 1)
		c.held = append(c.held, ch)
		arrived := c.arrived
		c.mu.Unlock()

		select {
		case arrived <- struct{}{}:
		default:
		}

		if <-ch {
			return nil
		}

		return c21Die()
	default:
		c.mu.Unlock()

		return c21Die()
	}
}

// holdGroup waits until a group of concurrent writes is in flight: `expect` writes are held, or (expect <= 0, or as a
// guard) at least one write is held and no further write arrived for `grace`. Then held write a proceeds iff allow(a).
// With final=true every later write is refused. Returns the size of the group (0: the phase ended first).
// The grace period only decides how long to wait for more in-flight writes; it never decides a verdict.
func (c *c21Ctl) holdGroup(expect int, grace time.Duration, done <-chan struct{}, allow func(a int) bool, final bool) int {
	c.mu.Lock()
	arrived := c.arrived
	c.mu.Unlock()

	ended := false

end:
	for {
		c.mu.Lock()
		n := len(c.held)
		c.mu.Unlock()

		if expect > 0 && n >= expect {
			break
		}

		tm := time.NewTimer(grace)

		select {
		case <-arrived:
			tm.Stop()
		case <-done:
			tm.Stop()

			ended = true

			break end
		case <-tm.C:
			if n > 0 {
				break end
			}
		}
	}

	c.mu.Lock()
	held := c.held
	c.held = nil

	if final {
		c.released = true
	}
	c.mu.Unlock()

	for a, ch := range held {
		ch <- !ended && allow(a)
	}

	return len(held)
}

// ---- scenarios

type c21Op struct {
	Kind string // filler | candidate | join | policy
	K    int    // filler: number of state keys (0: the operation is processed but stays out of state)
	Base int    // filler: first key index (overlaps with other blocks give states a previous value)
	Rep  int    // filler: > 1: that many filler operations of K keys each, on consecutive key ranges (blocks with many operations)
}

type c21Blk struct {
	Ops     []c21Op
	Merge   bool // MergeAllPermanent after this block (prior blocks only)
	Garbage int  // > 0: a cancelled block write of this many states for the same height precedes the block
}

type c21Scn struct {
	Name   string
	NSuf   int
	Prior  []c21Blk
	H      c21Blk
	Next   c21Blk
	Worker int64
	// NoCrashOnly: only the pass without a crash (write everything, merge all into the permanent store, reopen, check
	// every record); used for blocks whose crash points would be too many to enumerate in the quick tier
	NoCrashOnly bool
}

func (o c21Op) String() string {
	if o.Kind == "filler" {
		if o.Rep > 1 {
			return fmt.Sprintf("%dxf%d@%d", o.Rep, o.K, o.Base)
		}

		return fmt.Sprintf("f%d@%d", o.K, o.Base)
	}

	return o.Kind
}

func (b c21Blk) String() string {
	ss := make([]string, len(b.Ops))
	for i := range b.Ops {
		ss[i] = b.Ops[i].String()
	}

	s := "[" + strings.Join(ss, ",") + "]"
	if b.Garbage > 0 {
		s = fmt.Sprintf("garbage%d+", b.Garbage) + s
	}

	if b.Merge {
		s += "M"
	}

	return s
}

func (s c21Scn) String() string {
	ps := make([]string, len(s.Prior))
	for i := range s.Prior {
		ps[i] = s.Prior[i].String()
	}

	nc := ""
	if s.NoCrashOnly {
		nc = " no-crash-pass-only"
	}

	return fmt.Sprintf("%s{n=%d w=%d prior=%s H=%s next=%s%s}", s.Name, s.NSuf, s.Worker, strings.Join(ps, ""), s.H, s.Next, nc)
}

func c21F(k, base int) c21Op { return c21Op{Kind: "filler", K: k, Base: base} }

func c21FN(rep, k, base int) c21Op { return c21Op{Kind: "filler", K: k, Base: base, Rep: rep} }

func (o c21Op) reps() int {
	if o.Kind == "filler" && o.Rep > 1 {
		return o.Rep
	}

	return 1
}

// keys of a block in the stores: states + in-state record + known record + block map + merged marker (+2 proofs)
func (b c21Blk) fillerKeys() int {
	n := 0

	for _, o := range b.Ops {
		if o.Kind == "filler" {
			n += o.K * o.reps()
		}
	}

	return n
}

func (b c21Blk) nops() int {
	n := 0

	for _, o := range b.Ops {
		n += o.reps()
	}

	return n
}

func (b c21Blk) has(kind string) bool {
	for _, o := range b.Ops {
		if o.Kind == kind {
			return true
		}
	}

	return false
}

type c21BuiltBlk struct {
	Ops []base.Operation
	Pr  base.ProposalSignFact
	Blk c21Blk
}

type c21Snap struct {
	KV   [][2][]byte
	Maps []base.BlockMap
}

type c21ModelBlk struct {
	Map      base.BlockMap
	States   []base.State
	Known    []util.Hash     // operation hashes
	InState  map[string]bool // fact hash -> in state
	Facts    []util.Hash
	SufState base.State
	SufH     base.Height
	Policy   base.NetworkPolicy
}

type c21Built struct {
	Scn       c21Scn
	Blocks    []c21BuiltBlk // heights 1..T
	HH        base.Height   // height of H
	S0, S1a   c21Snap       // before H, before H+1
	S1        c21Snap       // after H+1, before the permanent merge
	WH, WNext int
	LogH      []string
	LogNext   []string
	G         []int // concurrent write groups of the permanent merge (profile)
	PermLast  base.Height
	Model     []c21ModelBlk
	Keys      []string
	cands     []c21Cand
	npolicy   int
}

type c21Cand struct {
	idx    int
	height base.Height
	joined bool
}

func c21Dump(st *leveldbstorage.Storage) [][2][]byte {
	it := st.DB().NewIterator(nil, nil)
	defer it.Release()

	var kv [][2][]byte
	for it.Next() {
		kv = append(kv, [2][]byte{bytes.Clone(it.Key()), bytes.Clone(it.Value())})
	}

	return kv
}

func c21NewStorage(t ev.TB) (leveldbStorage.Storage, *leveldbstorage.Storage) {
	str := leveldbStorage.NewMemStorage()

	st, err := leveldbstorage.NewStorage(str, nil)
	if err != nil {
		t.Fatalf("harness: new storage: %v", err)
	}

	return str, st
}

// restore builds a fresh storage holding snapshot s, opens the databases on it and wraps them in a chain.World with an
// empty block-file root.
func (b *c21Built) restore(t ev.TB, s c21Snap) (*chain.World, leveldbStorage.Storage, func()) {
	str, st := c21NewStorage(t)

	batch := &leveldb.Batch{}
	for i := range s.KV {
		batch.Put(s.KV[i][0], s.KV[i][1])
	}

	if err := st.DB().Write(batch, nil); err != nil { // straight to goleveldb: not a write of the code under test
		t.Fatalf("harness: restore: %v", err)
	}

	encs, enc := gen.Encoders()

	perm, db, err := chain.OpenDB(st, encs, enc)
	if err != nil {
		t.Fatalf("harness: open restored snapshot: %+v", err)
	}

	root, err := os.MkdirTemp("", "verif-c21-")
	if err != nil {
		t.Fatalf("harness: %v", err)
	}

	w := &chain.World{
		Encs: encs, Enc: enc, NetworkID: gen.NetworkID, Threshold: 67, Local: gen.Local(0),
		St: st, Perm: perm, DB: db, Root: root, Maps: append([]base.BlockMap(nil), s.Maps...),
	}

	return w, str, func() { _ = os.RemoveAll(root) }
}

func (b *c21Built) makeOps(w *chain.World, blk c21Blk, tag string) []base.Operation {
	var ops []base.Operation

	for i, o := range blk.Ops {
		label := fmt.Sprintf("%s-%s-%d", b.Scn.Name, tag, i)

		switch o.Kind {
		case "filler":
			for x := 0; x < o.reps(); x++ {
				keys := make([]string, o.K)
				vals := make([]string, o.K)

				for j := 0; j < o.K; j++ {
					keys[j] = fmt.Sprintf("c21/%05d", o.Base+x*o.K+j)
					vals[j] = fmt.Sprintf("%s/%d", tag, x*o.K+j)
				}

				l := label
				if x > 0 {
					l = fmt.Sprintf("%s-r%d", label, x)
				}

				ops = append(ops, chain.NewFillerOperation(l, keys, vals, gen.Local(9)))
			}
		case "candidate":
			idx := 10 + len(b.cands)
			n := gen.Local(idx)
			ops = append(ops, chain.CandidateOp(label, n, n))
			b.cands = append(b.cands, c21Cand{idx: idx, height: w.NextHeight()})
		case "join":
			for ci := range b.cands {
				c := &b.cands[ci]
				if c.joined || c.height >= w.NextHeight() {
					continue
				}

				n := gen.Local(c.idx)
				signers := append([]base.LocalNode{n}, w.Members()...)
				ops = append(ops, chain.JoinOp(label, n.Address(), c.height+1, signers))
				c.joined = true

				break
			}
		case "policy":
			b.npolicy++
			p := isaac.DefaultNetworkPolicy()
			p.SetMaxOperationsInProposal(uint64(300 + b.npolicy))
			ops = append(ops, chain.PolicyOp(label, p, w.Members()))
		}
	}

	return ops
}

// c21Garbage is a block write for height h that is cancelled after k states were handed to it (what isaacblock.Writer
// does when a processed proposal is cancelled): full batches already went to the storage under their own prefix.
func c21Garbage(w *chain.World, h base.Height, k int) error {
	bw, err := w.DB.NewBlockWriteDatabase(h)
	if err != nil {
		return err
	}

	fact := gen.H(fmt.Sprintf("garbage-fact-%d", h))
	sts := make([]base.State, k)

	for i := range sts {
		sts[i] = base.NewBaseState(h, fmt.Sprintf("c21/%05d", 70000+i), base.NewDummyStateValue(fmt.Sprintf("garbage/%d", i)), nil, []util.Hash{fact})
	}

	if err := bw.SetStates(sts); err != nil {
		_ = bw.Cancel()

		return err
	}

	if err := bw.SetOperations([]util.Hash{gen.H(fmt.Sprintf("garbage-op-%d", h))}); err != nil {
		_ = bw.Cancel()

		return err
	}

	return bw.Cancel()
}

func (b *c21Built) procOpts() chain.ProcOpts {
	return chain.ProcOpts{MaxWorkerSize: b.Scn.Worker, WriterWorkerSize: b.Scn.Worker}
}

// writeBlock = what a node does for one height: (optionally a cancelled block write), process the proposal, save.
func (b *c21Built) writeBlock(w *chain.World, bb c21BuiltBlk) error {
	if bb.Blk.Garbage > 0 {
		if err := c21Garbage(w, w.NextHeight(), bb.Blk.Garbage); err != nil {
			return err
		}
	}

	p, err := w.Process(bb.Pr, bb.Ops, nil, b.procOpts())
	if err != nil {
		return err
	}

	_, err = p.Save()

	return err
}

// c21Quiesce waits until the goroutines started since the count n0 was taken are gone (goleveldb panics when a read races
// with Close, and both the dead process and Center.dig leave short-lived reader goroutines behind). Goroutines of the
// dead process that are blocked for good never read again, so after the bound the close goes ahead anyway.
func c21Quiesce(n0 int) bool {
	for i := 0; i < 5000; i++ {
		if runtime.NumGoroutine() <= n0 {
			return true
		}

		time.Sleep(200 * time.Microsecond)
	}

	return false
}

func c21Guarded(t ev.TB, what string, f func() error) error {
	ch := make(chan error, 1)

	go func() {
		finished := false

		defer func() {
			switch x := recover(); {
			case x != nil:
				ch <- fmt.Errorf("panic: %v", x)
			case !finished:
				ch <- errC21Crash // the goroutine itself attempted a refused write
			}
		}()

		err := f()
		finished = true
		ch <- err
	}()

	select {
	case err := <-ch:
		return err
	case <-time.After(3 * time.Minute):
		t.Fatalf("harness: %s did not return (inconclusive)", what)

		return nil
	}
}

// c21Build runs the scenario once without faults, counting the writes of every phase, taking the snapshots the crash
// runs start from, profiling the concurrent write groups of the permanent merge and extracting the model.
func c21Build(t ev.TB, ctl *c21Ctl, scn c21Scn) *c21Built {
	b := &c21Built{Scn: scn}

	_, st := c21NewStorage(t)
	n0 := runtime.NumGoroutine()

	w, err := chain.New(chain.Opts{NSuffrage: scn.NSuf, Storage: st})
	if err != nil {
		t.Fatalf("harness: genesis: %+v", err)
	}

	defer func() {
		c21Quiesce(n0)
		w.Close()
		_ = st.Close()
	}()

	add := func(blk c21Blk, tag string) c21BuiltBlk {
		ops := b.makeOps(w, blk, tag)
		bb := c21BuiltBlk{Ops: ops, Pr: w.Propose(ops), Blk: blk}
		b.Blocks = append(b.Blocks, bb)

		return bb
	}

	snap := func() c21Snap { return c21Snap{KV: c21Dump(st), Maps: append([]base.BlockMap(nil), w.Maps...)} }

	for i, blk := range scn.Prior {
		bb := add(blk, fmt.Sprintf("p%d", i))
		if err := b.writeBlock(w, bb); err != nil {
			t.Fatalf("harness: prior block %d of %s: %+v", i, scn, err)
		}

		if blk.Merge {
			if err := w.DB.MergeAllPermanent(); err != nil {
				t.Fatalf("harness: merge: %+v", err)
			}
		}
	}

	b.HH = w.NextHeight()
	b.S0 = snap()

	bb := add(scn.H, "h")

	ctl.arm(st, c21Count, 0)

	if err := b.writeBlock(w, bb); err != nil {
		t.Fatalf("harness: block H of %s: %+v", scn, err)
	}

	b.WH, b.LogH = ctl.counted()
	ctl.setMode(c21Off)

	b.S1a = snap()

	bb = add(scn.Next, "n")

	ctl.arm(st, c21Count, 0)

	if err := b.writeBlock(w, bb); err != nil {
		t.Fatalf("harness: block H+1 of %s: %+v", scn, err)
	}

	b.WNext, b.LogNext = ctl.counted()
	ctl.setMode(c21Off)

	b.S1 = snap()

	b.PermLast = base.NilHeight
	if m, found, _ := w.Perm.LastBlockMap(); found {
		b.PermLast = m.Manifest().Height()
	}

	// model from the block files
	for h := base.GenesisHeight; h <= w.Last().Manifest().Height(); h++ {
		mb := c21ModelBlk{Map: w.Maps[h], InState: map[string]bool{}, SufH: base.NilHeight}

		sts, err := w.BlockStates(h)
		if err != nil {
			t.Fatalf("harness: states of %d: %+v", h, err)
		}

		mb.States = sts

		for _, s := range sts {
			switch {
			case s.Key() == isaac.SuffrageStateKey:
				v, err := base.LoadSuffrageNodesStateValue(s)
				if err != nil {
					t.Fatalf("harness: %v", err)
				}

				mb.SufState = s
				mb.SufH = v.Height()
			case s.Key() == isaac.NetworkPolicyStateKey:
				mb.Policy = s.Value().(base.NetworkPolicyStateValue).Policy() //nolint:forcetypeassert //...
			}
		}

		ops, err := w.BlockOperations(h)
		if err != nil {
			t.Fatalf("harness: operations of %d: %+v", h, err)
		}

		res, err := w.OperationResults(h)
		if err != nil {
			t.Fatalf("harness: operations tree of %d: %+v", h, err)
		}

		for _, op := range ops {
			mb.Known = append(mb.Known, op.Hash())
			mb.Facts = append(mb.Facts, op.Fact().Hash())

			if x, found := res[op.Fact().Hash().String()]; found {
				mb.InState[op.Fact().Hash().String()] = x[0] == "true"
			}
		}

		b.Model = append(b.Model, mb)
	}

	km := map[string]struct{}{}

	for _, mb := range b.Model {
		for _, s := range mb.States {
			km[s.Key()] = struct{}{}
		}
	}

	// states of cancelled block writes were never committed: they must never show up
	for _, g := range []int{scn.H.Garbage, scn.Next.Garbage} {
		for i := 0; i < g; i++ {
			km[fmt.Sprintf("c21/%05d", 70000+i)] = struct{}{}
		}
	}

	for k := range km {
		b.Keys = append(b.Keys, k)
	}

	sort.Strings(b.Keys)

	// profile of the permanent merge on a restored copy: which writes are in flight together
	pw, _, cleanup := b.restore(t, b.S1)
	defer cleanup()

	pn0 := runtime.NumGoroutine()

	ctl.arm(pw.St, c21Hold, 0)

	done := make(chan struct{})
	gch := make(chan []int, 1)

	go func() {
		var g []int

		for {
			n := ctl.holdGroup(0, 100*time.Millisecond, done, func(int) bool { return true }, false)
			if n == 0 {
				break
			}

			g = append(g, n)
		}

		gch <- g
	}()

	err = c21Guarded(t, "permanent merge (profile)", pw.DB.MergeAllPermanent)

	close(done)

	b.G = <-gch

	ctl.setMode(c21Off)

	if err != nil {
		t.Fatalf("harness: permanent merge of %s: %+v", scn, err)
	}

	c21Quiesce(pn0)

	_ = pw.St.Close()

	return b
}

// ---- what the reopened storage holds of each block-write (temp) prefix, compared with the permanent prefix.
// Used only to describe a failing case and to classify its root cause; the verdict comes from the database API.

type c21Landed struct {
	Height  base.Height
	ByKind  map[string][2]int // record kind -> landed, total
	Pattern string            // landed flags in descending key order, run-length encoded
}

func c21LabelPrefix(name string) []byte {
	for k, v := range isaacdatabase.AllLabelKeys() {
		if v == name {
			return []byte{k[0], k[1]}
		}
	}

	return nil
}

func c21Landing(st *leveldbstorage.Storage) []c21Landed {
	bw, perm := c21LabelPrefix("block_write"), c21LabelPrefix("permanent")
	if bw == nil || perm == nil {
		return nil
	}

	kinds := map[[2]byte]string{}
	for k, v := range isaacdatabase.AllPrefixKeys() {
		kinds[[2]byte{k[0], k[1]}] = v
	}

	plen := 2 + 8 + util.ULIDLen

	type rec struct {
		kind   string
		landed bool
	}

	byh := map[base.Height][]rec{}

	var hs []base.Height

	it := st.DB().NewIterator(leveldbutil.BytesPrefix(bw), nil)
	defer it.Release()

	for it.Next() {
		k := it.Key()
		if len(k) < plen+2 {
			continue
		}

		h, err := base.ParseHeightBytes(k[2:10])
		if err != nil {
			continue
		}

		pk := append(append([]byte(nil), perm...), k[plen:]...)
		v, err := st.DB().Get(pk, nil)

		if _, found := byh[h]; !found {
			hs = append(hs, h)
		}

		byh[h] = append(byh[h], rec{kind: kinds[[2]byte{k[plen], k[plen+1]}], landed: err == nil && bytes.Equal(v, it.Value())})
	}

	var out []c21Landed

	for _, h := range hs {
		l := c21Landed{Height: h, ByKind: map[string][2]int{}}
		recs := byh[h]

		var sb strings.Builder

		run, cur := 0, false

		for i := len(recs) - 1; i >= 0; i-- {
			x := l.ByKind[recs[i].kind]
			x[1]++

			if recs[i].landed {
				x[0]++
			}

			l.ByKind[recs[i].kind] = x

			if run > 0 && recs[i].landed != cur {
				fmt.Fprintf(&sb, "%d%c", run, "-+"[c21b2i(cur)])
				run = 0
			}

			cur = recs[i].landed
			run++
		}

		if run > 0 {
			fmt.Fprintf(&sb, "%d%c", run, "-+"[c21b2i(cur)])
		}

		l.Pattern = sb.String()
		out = append(out, l)
	}

	return out
}

func c21b2i(b bool) int {
	if b {
		return 1
	}

	return 0
}

func (l c21Landed) String() string {
	ks := make([]string, 0, len(l.ByKind))
	for k := range l.ByKind {
		ks = append(ks, k)
	}

	sort.Strings(ks)

	ss := make([]string, len(ks))
	for i, k := range ks {
		ss[i] = fmt.Sprintf("%s=%d/%d", k, l.ByKind[k][0], l.ByKind[k][1])
	}

	return fmt.Sprintf("temp@%d in permanent{%s pattern(desc keys)=%s}", l.Height, strings.Join(ss, " "), l.Pattern)
}

// blockmapFirst: the block map of a temp reached the permanent store while other records of the same temp did not.
func (l c21Landed) blockmapFirst() bool {
	bm := l.ByKind["blockmap"]
	if bm[1] == 0 || bm[0] < bm[1] {
		return false
	}

	for k, x := range l.ByKind {
		if k != "blockmap" && k != "temp_merged" && x[0] < x[1] {
			return true
		}
	}

	return false
}

// ---- the oracle

type c21Result struct {
	L        base.Height
	Violated bool
	Landing  []c21Landed
}

// verify reopens str and compares every read with the model. lo..hi is the allowed range of the last height.
func (b *c21Built) verify(t ev.TB, report func(sig, msg string), phase, desc string, str leveldbStorage.Storage, lo, hi base.Height) c21Result {
	res := c21Result{L: base.NilHeight}

	st2, err := leveldbstorage.NewStorage(str, nil)
	if err != nil {
		t.Fatalf("harness: reopen goleveldb: %v", err)
	}

	n0 := runtime.NumGoroutine()

	defer func() {
		c21Quiesce(n0)

		_ = st2.Close()
	}()

	res.Landing = c21Landing(st2)

	landing := func() string {
		var ss []string

		for _, l := range res.Landing {
			if l.Height > b.PermLast {
				ss = append(ss, l.String())
			}
		}

		return strings.Join(ss, "; ")
	}

	viol := func(kind, format string, a ...any) c21Result {
		sig := phase + "-" + kind

		if phase == "perm" {
			// root cause classification: the highest temp whose block map is in the permanent store (nothing above it was
			// merged, so no later block overwrote its records there) lacks other records
			var top *c21Landed

			for i := range res.Landing {
				if bm := res.Landing[i].ByKind["blockmap"]; bm[1] > 0 && bm[0] == bm[1] {
					top = &res.Landing[i]
				}
			}

			if top != nil && top.blockmapFirst() {
				sig = "perm-merge-blockmap-before-rest"
			}
		}

		res.Violated = true

		report(sig, fmt.Sprintf("%s: %s [last height after reopen=%d, allowed %d..%d; %s]", desc, fmt.Sprintf(format, a...), res.L, lo, hi, landing()))

		return res
	}

	encs, enc := gen.Encoders()

	_, db, err := chain.OpenDB(st2, encs, enc)
	if err != nil {
		return viol("reopen-fails", "opening the databases after the crash failed: %v", err)
	}

	lm, found, err := db.LastBlockMap()
	if err != nil || !found {
		return viol("reopen-fails", "no last block map after the crash: found=%v err=%v", found, err)
	}

	L := lm.Manifest().Height()
	res.L = L

	if L < lo || L > hi || int(L) >= len(b.Model) {
		return viol("last-out-of-range", "last block map height %d is outside %d..%d", L, lo, hi)
	}

	side := func(h base.Height) string { // which half of the statement a wrong read of height h breaks
		if h > L {
			return "invisible-leak"
		}

		return "partial-visible"
	}

	if !lm.Manifest().Hash().Equal(b.Model[L].Map.Manifest().Hash()) {
		return viol("partial-visible", "last block map at %d is not the committed one", L)
	}

	for h := base.GenesisHeight; int(h) < len(b.Model); h++ {
		m, found, err := db.BlockMap(h)

		switch {
		case err != nil:
			return viol(side(h), "BlockMap(%d): %v", h, err)
		case h <= L && !found:
			return viol("partial-visible", "BlockMap(%d) not found although the last height is %d", h, L)
		case h <= L && !m.Manifest().Hash().Equal(b.Model[h].Map.Manifest().Hash()):
			return viol("partial-visible", "BlockMap(%d) differs from the committed one", h)
		case h > L && found:
			return viol("invisible-leak", "BlockMap(%d) found although the last height is %d", h, L)
		}
	}

	// states: latest value at or below L
	want := map[string]base.State{}

	for h := base.GenesisHeight; h <= L; h++ {
		for _, s := range b.Model[h].States {
			want[s.Key()] = s
		}
	}

	for _, k := range b.Keys {
		got, found, err := db.State(k)
		ws := want[k]

		switch {
		case err != nil:
			return viol("partial-visible", "State(%q): %v", k, err)
		case ws == nil && found:
			return viol(side(got.Height()), "State(%q) returns a state of height %d; the key is only set above the last height %d", k, got.Height(), L)
		case ws != nil && !found:
			return viol("partial-visible", "State(%q) not found; block %d (<= last height %d) set it", k, ws.Height(), L)
		case ws != nil && !got.Hash().Equal(ws.Hash()):
			kind := "partial-visible"
			if got.Height() > L {
				kind = "invisible-leak"
			}

			return viol(kind, "State(%q) is the state of height %d, want the one of height %d (last height %d)", k, got.Height(), ws.Height(), L)
		}
	}

	// operations
	for h := base.GenesisHeight; int(h) < len(b.Model); h++ {
		mb := b.Model[h]

		for i, oph := range mb.Known {
			known, err := db.ExistsKnownOperation(oph)
			if err != nil {
				return viol(side(h), "ExistsKnownOperation: %v", err)
			}

			ins, err := db.ExistsInStateOperation(mb.Facts[i])
			if err != nil {
				return viol(side(h), "ExistsInStateOperation: %v", err)
			}

			wantIn := mb.InState[mb.Facts[i].String()] && h <= L

			switch {
			case known != (h <= L):
				return viol(side(h), "operation %d of block %d: known=%v (last height %d)", i, h, known, L)
			case ins != wantIn:
				return viol(side(h), "operation %d of block %d: in-state=%v, want %v (last height %d)", i, h, ins, wantIn, L)
			}
		}
	}

	// suffrage proofs
	lastSuf := base.NilHeight

	for h := base.GenesisHeight; int(h) < len(b.Model); h++ {
		mb := b.Model[h]
		if mb.SufState == nil {
			continue
		}

		p, found, err := db.SuffrageProof(mb.SufH)

		switch {
		case err != nil:
			return viol(side(h), "SuffrageProof(%d): %v", mb.SufH, err)
		case h <= L && !found:
			return viol("partial-visible", "suffrage proof %d of block %d not found (last height %d)", mb.SufH, h, L)
		case h <= L && (!p.State().Hash().Equal(mb.SufState.Hash()) || !p.Map().Manifest().Hash().Equal(mb.Map.Manifest().Hash())):
			return viol("partial-visible", "suffrage proof %d is not the one of block %d", mb.SufH, h)
		case h > L && found && p.State().Hash().Equal(mb.SufState.Hash()):
			// (a lookup above the last suffrage height that answers with an older proof is a plain read matter, C19, and says
			// nothing about block h)
			return viol("invisible-leak", "suffrage proof %d of block %d found (last height %d)", mb.SufH, h, L)
		}

		if h <= L {
			lastSuf = h
		}
	}

	if lastSuf > base.NilHeight {
		p, found, err := db.LastSuffrageProof()

		switch {
		case err != nil || !found:
			return viol("partial-visible", "LastSuffrageProof: found=%v err=%v", found, err)
		case !p.State().Hash().Equal(b.Model[lastSuf].SufState.Hash()):
			return viol(side(p.Map().Manifest().Height()), "LastSuffrageProof belongs to block %d, want block %d (last height %d)", p.Map().Manifest().Height(), lastSuf, L)
		}
	}

	// policy
	var wantPolicy base.NetworkPolicy

	for h := base.GenesisHeight; h <= L; h++ {
		if b.Model[h].Policy != nil {
			wantPolicy = b.Model[h].Policy
		}
	}

	switch got := db.LastNetworkPolicy(); {
	case wantPolicy == nil:
	case got == nil:
		return viol("partial-visible", "LastNetworkPolicy is empty")
	case !bytes.Equal(got.HashBytes(), wantPolicy.HashBytes()):
		return viol("partial-visible", "LastNetworkPolicy is not the latest policy at or below the last height %d", L)
	}

	return res
}

// ---- running the crash points of one scenario

type c21Stats struct {
	mu       sync.Mutex
	patterns map[string]struct{}
	points   int64
}

func (s *c21Stats) pattern(p string) {
	s.mu.Lock()
	s.patterns[p] = struct{}{}
	s.mu.Unlock()
}

func (b *c21Built) sizeClass() string {
	k := b.Scn.H.fillerKeys()

	switch {
	case k+2*b.Scn.H.nops()+4 > 333:
		return "size:multi-permanent-batch"
	case 2*k+1 >= 128:
		return "size:multi-write-batch"
	default:
		return "size:small"
	}
}

func (b *c21Built) features() []string {
	fs := []string{b.sizeClass()}

	if b.Model[b.HH].SufState != nil {
		fs = append(fs, "feat:suffrage-proof")
	}

	if b.Model[b.HH].Policy != nil {
		fs = append(fs, "feat:policy")
	}

	if b.Scn.H.Garbage > 0 || b.Scn.Next.Garbage > 0 {
		fs = append(fs, "feat:cancelled-write-leftover")
	}

	if b.Scn.H.nops() >= 100 {
		fs = append(fs, "feat:>=100-operations")
	}

	for i := range b.Model {
		if base.Height(i) != b.HH && len(b.Model[i].States) > 333 {
			fs = append(fs, "feat:other-block-multi-permanent-batch")

			break
		}
	}

	if int64(len(b.Model)-1)-b.PermLast.Int64() >= 4 {
		fs = append(fs, "feat:backlog>=3-temps-to-merge")
	}

	for _, g := range b.G {
		if g >= 2 {
			fs = append(fs, "feat:concurrent-permanent-batches")

			break
		}
	}

	return fs
}

func c21Pos(n, w int) string {
	switch {
	case n == 0:
		return "point:before-first-write"
	case n >= w:
		return "point:after-last-write"
	default:
		return "point:inside"
	}
}

// crashWrite: block `which` (0: H from S0, 1: H+1 from S1a) is written with a budget of n successful writes.
func (b *c21Built) crashWrite(t ev.TB, r *ev.Rec, ctl *c21Ctl, which, n int) c21Result {
	snap, bb, total, phase := b.S0, b.Blocks[len(b.Blocks)-2], b.WH, "write"
	if which == 1 {
		snap, bb, total, phase = b.S1a, b.Blocks[len(b.Blocks)-1], b.WNext, "write-next"
	}

	w, str, cleanup := b.restore(t, snap)
	defer cleanup()

	height := w.NextHeight()

	n0 := runtime.NumGoroutine()

	ctl.arm(w.St, c21Budget, n)
	err := c21Guarded(t, "block write", func() error { return b.writeBlock(w, bb) })
	seen, log := ctl.counted()
	ctl.setMode(c21Dead)

	quiet := c21Quiesce(n0)

	if n >= total && err != nil {
		t.Fatalf("harness: %s block %d with the full budget %d failed: %+v (writes %v)", b.Scn, height, n, err, log)
	}

	if seen > total && n >= total {
		t.Fatalf("harness: %s block %d issued %d writes, dry run %d", b.Scn, height, seen, total)
	}

	_ = w.St.Close()

	desc := fmt.Sprintf("scenario %s: crash while block %d is written: the first %d of %d storage writes %v succeed", b.Scn, height, n, total, log)

	res := b.verify(t, c21Report(t, r), "write", desc, str, height-1, height)
	ctl.setMode(c21Off)

	outcome := "outcome:block-not-visible"
	if res.L == height {
		outcome = "outcome:block-visible"
	}

	classes := append(b.features(), "phase:"+phase, c21Pos(n, total), outcome)
	if !quiet {
		classes = append(classes, "note:dead-process-goroutines-left")
	}

	r.Case(fmt.Sprintf("%s|%s|%d", b.Scn, phase, n), n > 0 && n < total, classes...)

	if n > 0 && n < total && r.WantSample() {
		r.Sample(map[string]any{"scenario": b.Scn.String(), "phase": phase, "height": height.Int64(), "writes_of_phase": map[int]any{0: b.LogH, 1: b.LogNext}[which], "writes_allowed": n,
			"last_height_after_reopen": res.L.Int64()})
	}

	return res
}

// crashPerm: MergeAllPermanent on the state after H+1; the groups before `group` complete, of group `group` exactly the
// held writes whose arrival index is set in mask go through, everything later is refused.
func (b *c21Built) crashPerm(t ev.TB, r *ev.Rec, ctl *c21Ctl, stats *c21Stats, group int, mask uint64) c21Result {
	w, str, cleanup := b.restore(t, b.S1)
	defer cleanup()

	start, total := 0, 0

	for i, g := range b.G {
		if i < group {
			start += g
		}

		total += g
	}

	top := w.Last().Manifest().Height()

	n0 := runtime.NumGoroutine()

	ctl.arm(w.St, c21Hold, start)

	done := make(chan struct{})
	nch := make(chan int, 1)

	go func() {
		nch <- ctl.holdGroup(b.G[group], 5*time.Second, done, func(a int) bool { return mask&(1<<uint(a)) != 0 }, true)
	}()

	_ = c21Guarded(t, "permanent merge", w.DB.MergeAllPermanent)

	close(done)

	held := <-nch
	_, log := ctl.counted()
	ctl.setMode(c21Dead)

	quiet := c21Quiesce(n0)

	_ = w.St.Close()

	applied := start + bits.OnesCount64(mask&(1<<uint(held)-1))

	desc := fmt.Sprintf("scenario %s: crash while temps are merged into the permanent store (last permanent height before: %d, top %d): "+
		"concurrent write groups %v; groups before #%d complete, of group #%d (%d batches in flight, no order between them) the batches with arrival index in mask %0*b reach the disk, later writes do not; writes seen %v",
		b.Scn, b.PermLast, top, b.G, group, group, held, b.G[group], mask, log)

	lo := b.PermLast
	if lo < base.GenesisHeight {
		lo = base.GenesisHeight
	}

	res := b.verify(t, c21Report(t, r), "perm", desc, str, lo, top)
	ctl.setMode(c21Off)

	for _, l := range res.Landing {
		if l.Height > b.PermLast {
			stats.pattern(fmt.Sprintf("%s|%d|%s", b.Scn, l.Height, l.Pattern))
		}
	}

	mk := "perm-mask:proper-subset"

	switch {
	case mask == 0:
		mk = "perm-mask:none"
	case bits.OnesCount64(mask) == b.G[group]:
		mk = "perm-mask:all"
	}

	classes := append(b.features(), "phase:permanent-merge", mk, c21Pos(applied, total))
	if held != b.G[group] {
		classes = append(classes, "note:hold-guard-hit")
	}

	if !quiet {
		classes = append(classes, "note:dead-process-goroutines-left")
	}

	nontrivial := applied > 0 && applied < total

	r.Case(fmt.Sprintf("%s|perm|%d|%b", b.Scn, group, mask), nontrivial, classes...)

	if nontrivial && b.G[group] > 1 && r.WantSample() {
		var ls []string
		for _, l := range res.Landing {
			if l.Height > b.PermLast {
				ls = append(ls, l.String())
			}
		}

		r.Sample(map[string]any{"scenario": b.Scn.String(), "phase": "permanent-merge", "groups": b.G, "group": group, "mask": fmt.Sprintf("%b", mask),
			"last_height_after_reopen": res.L.Int64(), "landed": ls})
	}

	return res
}

func c21Masks(g int) []uint64 {
	if g <= 5 {
		ms := make([]uint64, 0, 1<<uint(g))
		for m := uint64(0); m < 1<<uint(g); m++ {
			ms = append(ms, m)
		}

		return ms
	}

	// deterministic families: prefixes, singletons, complements of singletons
	seen := map[uint64]struct{}{}

	var ms []uint64

	add := func(m uint64) {
		if _, found := seen[m]; !found {
			seen[m] = struct{}{}
			ms = append(ms, m)
		}
	}

	full := uint64(1)<<uint(g) - 1

	for i := 0; i <= g; i++ {
		add(uint64(1)<<uint(i) - 1)
	}

	for i := 0; i < g; i++ {
		add(uint64(1) << uint(i))
		add(full &^ (uint64(1) << uint(i)))
	}

	return ms
}

// noCrash: all blocks are written, MergeAllPermanent completes, the storage is closed and reopened. Every block is
// committed, so the statement's first alternative applies to each: it is visible with its map, every state, every
// operation record and its proofs ("startup never presents a block with only part of its data").
func (b *c21Built) noCrash(t ev.TB, r *ev.Rec) c21Result {
	w, str, cleanup := b.restore(t, b.S1)
	defer cleanup()

	n0 := runtime.NumGoroutine()

	if err := c21Guarded(t, "permanent merge (no crash)", w.DB.MergeAllPermanent); err != nil {
		t.Fatalf("harness: permanent merge of %s without a crash: %+v", b.Scn, err)
	}

	c21Quiesce(n0)

	_ = w.St.Close()

	top := base.Height(len(b.Model) - 1)

	desc := fmt.Sprintf("scenario %s without any crash: all blocks up to %d written and saved, MergeAllPermanent completed (last permanent height before: %d), storage closed and reopened",
		b.Scn, top, b.PermLast)

	res := b.verify(t, c21Report(t, r), "nocrash", desc, str, top, top)

	r.Case(b.Scn.String()+"|nocrash", false, append(b.features(), "phase:no-crash-merge-reopen")...)

	return res
}

// c21RunScenario enumerates every crash point of the scenario. mine selects the crash points of this shard.
func c21RunScenario(t ev.TB, r *ev.Rec, ctl *c21Ctl, stats *c21Stats, scn c21Scn, mine func(i int) bool) {
	b := c21Build(t, ctl, scn)

	// the pass without a crash: every write of every phase reaches the storage (the crash point after the very last write)
	b.noCrash(t, r)

	if r.Failed() || scn.NoCrashOnly {
		r.Class("scenarios", 1)

		return
	}

	i := 0

	for which := 0; which < 2; which++ {
		total := b.WH
		if which == 1 {
			total = b.WNext
		}

		for n := 0; n <= total; n++ {
			i++

			if !mine(i) {
				continue
			}

			b.crashWrite(t, r, ctl, which, n)
		}
	}

	for g := range b.G {
		for _, m := range c21Masks(b.G[g]) {
			if g > 0 && m == 0 && b.G[g-1] <= 5 {
				continue // same crash point as "all of the previous group"
			}

			i++

			if !mine(i) {
				continue
			}

			b.crashPerm(t, r, ctl, stats, g, m)
		}
	}

	r.Class("scenarios", 1)
}

func c21Report(t ev.TB, r *ev.Rec) func(sig, msg string) {
	return func(sig, msg string) { r.Violation(t, sig, "%s", msg) }
}

func c21Fixed(thorough bool) []c21Scn {
	cand, join, policy := c21Op{Kind: "candidate"}, c21Op{Kind: "join"}, c21Op{Kind: "policy"}

	scns := []c21Scn{
		{Name: "small", NSuf: 3, Worker: 4,
			Prior: []c21Blk{{Ops: []c21Op{c21F(10, 0)}}},
			H:     c21Blk{Ops: []c21Op{c21F(12, 5)}}, Next: c21Blk{Ops: []c21Op{c21F(3, 8)}}},
		{Name: "join", NSuf: 3, Worker: 4,
			Prior: []c21Blk{{Ops: []c21Op{cand, c21F(4, 0)}}},
			H:     c21Blk{Ops: []c21Op{join, c21F(6, 2)}}, Next: c21Blk{Ops: []c21Op{c21F(2, 0)}}},
		{Name: "policy", NSuf: 2, Worker: 2,
			Prior: []c21Blk{{Ops: []c21Op{c21F(8, 0)}, Merge: true}},
			H:     c21Blk{Ops: []c21Op{policy, cand, c21F(6, 4), c21F(0, 0)}}, Next: c21Blk{}},
		{Name: "twobatch", NSuf: 3, Worker: 8,
			Prior: []c21Blk{{Ops: []c21Op{c21F(40, 0)}, Merge: true}},
			H:     c21Blk{Ops: []c21Op{c21F(150, 20)}}, Next: c21Blk{Ops: []c21Op{c21F(70, 100)}}},
		{Name: "leftover", NSuf: 3, Worker: 4,
			Prior: []c21Blk{{Ops: []c21Op{c21F(5, 0)}}},
			H:     c21Blk{Ops: []c21Op{c21F(30, 0)}, Garbage: 80}, Next: c21Blk{Ops: []c21Op{c21F(2, 0)}, Garbage: 10}},
		{Name: "large2", NSuf: 3, Worker: 4,
			Prior: []c21Blk{{Ops: []c21Op{c21F(30, 0)}}},
			H:     c21Blk{Ops: []c21Op{c21F(340, 10)}}, Next: c21Blk{Ops: []c21Op{c21F(3, 0)}}},
		{Name: "backlog", NSuf: 1, Worker: 2,
			Prior: []c21Blk{{Ops: []c21Op{c21F(5, 0)}}, {Ops: []c21Op{c21F(6, 3), cand}}, {Ops: []c21Op{c21F(7, 6), join}}},
			H:     c21Blk{Ops: []c21Op{c21F(9, 0), policy}}, Next: c21Blk{Ops: []c21Op{c21F(1, 0)}}},
		{Name: "joinlarge", NSuf: 3, Worker: 8,
			Prior: []c21Blk{{Ops: []c21Op{cand}}, {Ops: []c21Op{c21F(200, 0)}, Merge: true}},
			H:     c21Blk{Ops: []c21Op{join, policy, c21F(335, 100)}}, Next: c21Blk{Ops: []c21Op{c21F(5, 0)}}},
	}

	scns = append(scns,
		c21Scn{Name: "large3", NSuf: 3, Worker: 8,
			Prior: []c21Blk{{Ops: []c21Op{c21F(100, 0)}}},
			H:     c21Blk{Ops: []c21Op{c21F(700, 50)}}, Next: c21Blk{Ops: []c21Op{c21F(3, 0)}}})

	// large blocks (more records than one batch of 333 of the permanent merge, several batches per record kind), the pass
	// without a crash only. At most 300 operations in a block: isaac.DefaultMaxOperationsInProposal is 333.
	scns = append(scns,
		c21Scn{Name: "nc-states1000", NSuf: 3, Worker: 8, NoCrashOnly: true,
			Prior: []c21Blk{{Ops: []c21Op{c21F(50, 0)}}},
			H:     c21Blk{Ops: []c21Op{c21F(1000, 20)}}, Next: c21Blk{Ops: []c21Op{c21F(400, 0)}}},
		c21Scn{Name: "nc-ops300", NSuf: 3, Worker: 8, NoCrashOnly: true,
			Prior: []c21Blk{{Ops: []c21Op{c21F(10, 0)}, Merge: true}},
			H:     c21Blk{Ops: []c21Op{c21FN(300, 2, 5)}}, Next: c21Blk{Ops: []c21Op{c21F(3, 0)}}},
		c21Scn{Name: "nc-backlog-large", NSuf: 2, Worker: 4, NoCrashOnly: true,
			Prior: []c21Blk{{Ops: []c21Op{c21F(340, 0), cand}}, {Ops: []c21Op{c21FN(120, 1, 300), c21F(400, 500), join}}},
			H:     c21Blk{Ops: []c21Op{c21F(667, 100), policy}}, Next: c21Blk{Ops: []c21Op{c21FN(150, 3, 0)}}},
	)

	if !thorough {
		return scns
	}

	scns = append(scns,
		c21Scn{Name: "large4", NSuf: 4, Worker: 8,
			Prior: []c21Blk{{Ops: []c21Op{c21F(400, 0)}, Merge: true}},
			H:     c21Blk{Ops: []c21Op{c21F(500, 200), c21F(500, 700)}}, Next: c21Blk{Ops: []c21Op{c21F(340, 0)}}},
		c21Scn{Name: "large5", NSuf: 3, Worker: 16,
			Prior: []c21Blk{{Ops: []c21Op{cand}}},
			H:     c21Blk{Ops: []c21Op{join, c21F(1400, 0)}}, Next: c21Blk{}},
		c21Scn{Name: "large7", NSuf: 3, Worker: 8,
			Prior: []c21Blk{{Ops: []c21Op{c21F(10, 0)}}},
			H:     c21Blk{Ops: []c21Op{c21F(2100, 0)}}, Next: c21Blk{Ops: []c21Op{c21F(1, 0)}}},
		c21Scn{Name: "backloglarge", NSuf: 3, Worker: 4,
			Prior: []c21Blk{{Ops: []c21Op{c21F(340, 0)}}, {Ops: []c21Op{c21F(340, 200)}}},
			H:     c21Blk{Ops: []c21Op{c21F(340, 400)}, Garbage: 200}, Next: c21Blk{Ops: []c21Op{c21F(340, 100)}}},
		c21Scn{Name: "edge329", NSuf: 3, Worker: 4,
			Prior: []c21Blk{{Ops: []c21Op{c21F(3, 0)}, Merge: true}},
			H:     c21Blk{Ops: []c21Op{c21F(329, 0)}}, Next: c21Blk{Ops: []c21Op{c21F(330, 0)}}},
		c21Scn{Name: "edge64", NSuf: 1, Worker: 1,
			Prior: []c21Blk{{Ops: []c21Op{c21F(63, 0)}}},
			H:     c21Blk{Ops: []c21Op{c21F(64, 0)}}, Next: c21Blk{Ops: []c21Op{c21F(63, 30)}}},
	)

	return scns
}

func c21GenBlk(rt *rapid.T, label string, sizes []int, allowJoin bool) c21Blk {
	var blk c21Blk

	n := rapid.IntRange(0, 3).Draw(rt, label+"-nops")
	for i := 0; i < n; i++ {
		switch rapid.IntRange(0, 9).Draw(rt, label+"-kind") {
		case 0:
			blk.Ops = append(blk.Ops, c21Op{Kind: "candidate"})
		case 1, 2:
			if allowJoin {
				blk.Ops = append(blk.Ops, c21Op{Kind: "join"})
			}
		case 3:
			blk.Ops = append(blk.Ops, c21Op{Kind: "policy"})
		default:
			k := rapid.SampledFrom(sizes).Draw(rt, label+"-size")
			k += rapid.IntRange(0, 6).Draw(rt, label+"-jitter")
			blk.Ops = append(blk.Ops, c21F(k, rapid.IntRange(0, 400).Draw(rt, label+"-base")))
		}
	}

	// one join, one policy and one candidate at most per block (the processors reject duplicates)
	seen := map[string]bool{}
	ops := blk.Ops[:0]

	for _, o := range blk.Ops {
		if o.Kind != "filler" {
			if seen[o.Kind] {
				continue
			}

			seen[o.Kind] = true
		}

		ops = append(ops, o)
	}

	blk.Ops = ops

	// a block whose operations all stay out of state makes the proposal processor fail ("empty nodes"): an empty filler
	// only rides along with a non-empty one
	nonempty := false

	for _, o := range blk.Ops {
		if o.Kind == "filler" && o.K > 0 {
			nonempty = true
		}
	}

	if !nonempty {
		ops = blk.Ops[:0]

		for _, o := range blk.Ops {
			if o.Kind != "filler" {
				ops = append(ops, o)
			}
		}

		blk.Ops = ops
	}

	// fillers of one block never share a key
	end := 0

	for i := range blk.Ops {
		if blk.Ops[i].Kind != "filler" {
			continue
		}

		if blk.Ops[i].Base < end {
			blk.Ops[i].Base = end
		}

		end = blk.Ops[i].Base + blk.Ops[i].K
	}

	return blk
}

func c21GenScn(rt *rapid.T, thorough bool) c21Scn {
	small := []int{0, 1, 5, 20, 60, 61}
	hs := []int{0, 3, 30, 60, 120, 160, 326, 330}

	if thorough {
		hs = append(hs, 340, 660, 670, 1000)
	}

	scn := c21Scn{Name: "drawn", NSuf: rapid.IntRange(1, 4).Draw(rt, "nsuf"), Worker: int64(rapid.SampledFrom([]int{1, 2, 8}).Draw(rt, "worker"))}

	np := rapid.IntRange(0, 3).Draw(rt, "nprior")
	for i := 0; i < np; i++ {
		blk := c21GenBlk(rt, fmt.Sprintf("prior%d", i), small, i > 0)
		blk.Merge = rapid.Bool().Draw(rt, "merge")
		scn.Prior = append(scn.Prior, blk)
	}

	scn.H = c21GenBlk(rt, "h", hs, np > 0)
	if rapid.IntRange(0, 3).Draw(rt, "garbage") == 0 {
		scn.H.Garbage = rapid.SampledFrom([]int{1, 63, 64, 200}).Draw(rt, "garbage-size")
	}

	scn.Next = c21GenBlk(rt, "next", small, true)

	return scn
}

// c21GenLargeBlk draws a block with more records than one batch of the permanent merge (333): 334..max states in one
// or a few operations, or 112..300 operations (each: one known-operation record, one in-state record, 1..3 states).
func c21GenLargeBlk(rt *rapid.T, label string, max int) c21Blk {
	var blk c21Blk

	switch rapid.IntRange(0, 3).Draw(rt, label+"-shape") {
	case 0:
		blk.Ops = append(blk.Ops, c21F(rapid.IntRange(334, max).Draw(rt, label+"-states"), rapid.IntRange(0, 400).Draw(rt, label+"-base")))
	case 1:
		total := rapid.IntRange(334, max).Draw(rt, label+"-states")
		n := rapid.IntRange(2, 4).Draw(rt, label+"-nops")
		bs := rapid.IntRange(0, 400).Draw(rt, label+"-base")

		for i := 0; i < n; i++ {
			k := total / n
			if i == 0 {
				k += total % n
			}

			blk.Ops = append(blk.Ops, c21F(k, bs))
			bs += k + rapid.IntRange(0, 3).Draw(rt, label+"-gap")
		}
	default:
		k := rapid.IntRange(1, 3).Draw(rt, label+"-keys")
		n := rapid.IntRange(112, 300).Draw(rt, label+"-nops")

		if n*k > max {
			n = max / k
		}

		blk.Ops = append(blk.Ops, c21FN(n, k, rapid.IntRange(0, 400).Draw(rt, label+"-base")))
	}

	switch rapid.IntRange(0, 5).Draw(rt, label+"-extra") {
	case 0:
		blk.Ops = append(blk.Ops, c21Op{Kind: "policy"})
	case 1:
		blk.Ops = append(blk.Ops, c21Op{Kind: "candidate"})
	}

	return blk
}

// c21GenLargeScn: large blocks for the pass without a crash (H is served by the permanent store after the reopen, H+1 by
// its reloaded temp).
func c21GenLargeScn(rt *rapid.T, thorough bool) c21Scn {
	max := 1000
	if thorough {
		max = 2400
	}

	small := []int{0, 1, 5, 20, 60, 61}

	scn := c21Scn{Name: "drawnlarge", NoCrashOnly: true,
		NSuf: rapid.IntRange(1, 4).Draw(rt, "nsuf"), Worker: int64(rapid.SampledFrom([]int{1, 2, 8}).Draw(rt, "worker"))}

	np := rapid.IntRange(0, 2).Draw(rt, "nprior")
	for i := 0; i < np; i++ {
		var blk c21Blk

		if rapid.IntRange(0, 2).Draw(rt, "prior-large") == 0 {
			blk = c21GenLargeBlk(rt, fmt.Sprintf("prior%d", i), max)
		} else {
			blk = c21GenBlk(rt, fmt.Sprintf("prior%d", i), small, i > 0)
		}

		blk.Merge = rapid.Bool().Draw(rt, "merge")
		scn.Prior = append(scn.Prior, blk)
	}

	scn.H = c21GenLargeBlk(rt, "h", max)

	if rapid.IntRange(0, 2).Draw(rt, "next-large") == 0 {
		scn.Next = c21GenLargeBlk(rt, "next", max)
	} else {
		scn.Next = c21GenBlk(rt, "next", small, true)
	}

	return scn
}

func TestC21(t *testing.T) {
	r := ev.Start(t, "C21")
	defer r.Finish()

	r.Rule("scenario = genesis + 0..3 prior blocks (filler states with overlapping keys, candidate/join/policy operations, optional permanent merges) + block H + block H+1, " +
		"fixed list (small, suffrage-changing, policy, multi write batch, cancelled-write leftover, > 333 keys, backlog of temps) plus rapid-drawn ones; " +
		"crash points: every write budget 0..W of writing H and of writing H+1 (block write batches, block map, proofs, merged marker, leftover removal), and for MergeAllPermanent " +
		"every concurrent write group x every subset of its in-flight batches (all 2^g subsets for g<=5, prefixes/singletons/co-singletons above); " +
		"for every scenario also the pass without a crash (all writes reach the storage, MergeAllPermanent completes), and only that pass for blocks of 334..1000 states or 112..300 operations (fixed and rapid-drawn); " +
		"after each: close, reopen the same goleveldb storage, read maps, all states, operations, proofs, policy through a fresh Center and compare with the block files of a crash-free run. " +
		"non-trivial: at least one write of the phase reached the storage and at least one did not; distinct by (scenario, phase, crash point)")
	r.Floor(50)
	r.Assume("goleveldb's own atomicity of one Put/Batch and its reopen path are trusted (process death, not power loss)",
		"writes that the code issues concurrently with no ordering may reach the disk in any subset; writes issued one after the other reach it in order",
		"the removal of already merged temps (Center.cleanRemoved) is only reachable through the 2 s daemon and is not enumerated",
		"the last height after reopen must lie between (first block touched by the interrupted phase - 1) and the last committed block")

	ctl := &c21Ctl{}
	leveldbstorage.VerifSetFaultController(ctl.fault)

	defer leveldbstorage.VerifSetFaultController(nil)

	stats := &c21Stats{patterns: map[string]struct{}{}}

	// ---- A. fixed scenarios, every crash point (sharded by crash point)
	t.Run("fixed", func(t *testing.T) {
		if os.Getenv("VERIF_RAPID_FAILFILE") != "" {
			return // replay of a drawn scenario
		}

		for si, scn := range c21Fixed(r.Thorough()) {
			si := si

			c21RunScenario(t, r, ctl, stats, scn, func(i int) bool { return r.Mine(si*5 + i) })

			if r.Failed() {
				return
			}
		}
	})

	// a rapid fail file replays one of the two drawn phases: the large-block phase draws "h-shape"
	replay, replayLarge := false, false

	if f := os.Getenv("VERIF_RAPID_FAILFILE"); f != "" {
		fb, _ := os.ReadFile(f)
		replay, replayLarge = true, strings.Contains(string(fb), "h-shape")
	}

	// ---- B. drawn scenarios, every crash point of each
	if !r.Failed() && !t.Failed() && !replayLarge {
		r.Checks(3, 192)
		r.ShrinkTime(60 * time.Second)

		rapid.Check(t, func(rt *rapid.T) {
			scn := c21GenScn(rt, r.Thorough())
			c21RunScenario(rt, r, ctl, stats, scn, func(int) bool { return true })
		})
	}

	// ---- C. drawn large blocks (> one permanent-merge batch per record kind), the pass without a crash
	if !r.Failed() && !t.Failed() && (!replay || replayLarge) {
		r.Checks(4, 96)
		r.ShrinkTime(60 * time.Second)

		rapid.Check(t, func(rt *rapid.T) {
			scn := c21GenLargeScn(rt, r.Thorough())
			c21RunScenario(rt, r, ctl, stats, scn, func(int) bool { return true })
		})
	}

	r.Extra("crash_points_exhaustive_per_scenario_phase", true)
	r.Extra("permanent_merge_distinct_landing_patterns", len(stats.patterns))
}
