package p_db

import (
	"fmt"
	"strings"
	"sync"
	"sync/atomic"
	"testing"
	"time"

	"github.com/spikeekips/mitum/base"
	"github.com/spikeekips/mitum/isaac"
	isaacblock "github.com/spikeekips/mitum/isaac/block"
	"github.com/spikeekips/mitum/util"
	"github.com/spikeekips/mitum/util/fixedtree"
	"pgregory.net/rapid"
	"verif/internal/chain"
	"verif/internal/ev"
	"verif/internal/gen"
)

// C19: database reads agree with the committed chain.
//
// A drawn history of block writes (production path: proposal processor -> block writer -> block-write database ->
// Center.MergeBlockWriteDatabase), Center.MergeAllPermanent, Center.RemoveBlocks, close/reopen and abandoned block writes
// (a block write database for last+1 that is written but never merged: crash / cancel before the commit); after every step
// every read of isaac.Database is compared with the list-of-committed-blocks model (common_test.go). A concurrent phase
// lets readers poll states while the harness writes blocks and merges.

type c19Hist struct {
	steps []string
}

func (h *c19Hist) add(format string, a ...any) { h.steps = append(h.steps, fmt.Sprintf(format, a...)) }
func (h *c19Hist) String() string              { return strings.Join(h.steps, " ; ") }

// c19Concurrent: readers poll keys while the writer commits nblocks blocks (each overwriting all keys) and merges after
// each one. Oracle (sound for every interleaving): a read of key k that starts after some read of k returned height x
// (or after a block writing k at height x was committed) must not return a height below x, and must find the key.
func c19Concurrent(t ev.TB, r *ev.Rec, e *dbEnv, hist *c19Hist, nblocks, nreaders int, vals []int) {
	keys := []string{dbKey(0), dbKey(1), dbKey(2)}

	// make sure every key exists before the readers start
	var ks, vs []string
	for _, k := range keys {
		ks = append(ks, k)
		vs = append(vs, "conc-init")
	}

	if err := e.NextBlock([]base.Operation{chain.NewFillerOperation(e.label("conc"), ks, vs, gen.Local(9))}, nil, []string{"conc-init"}); err != nil {
		t.Fatalf("harness: concurrent phase init block: %+v", err)
	}

	floors := make([]atomic.Int64, len(keys))
	for i := range floors {
		floors[i].Store(e.M.lastHeight().Int64())
	}

	type bad struct {
		sig, msg string
	}

	var (
		mu    sync.Mutex
		bads  []bad
		reads atomic.Int64
		stop  atomic.Bool
		wg    sync.WaitGroup
	)

	report := func(sig, format string, a ...any) {
		mu.Lock()
		bads = append(bads, bad{sig, fmt.Sprintf(format, a...)})
		mu.Unlock()
		stop.Store(true)
	}

	db := e.W.DB
	dec := dbDecoder{e}

	for ri := 0; ri < nreaders; ri++ {
		wg.Add(1)

		go func(ri int) {
			defer wg.Done()

			for n := 0; !stop.Load(); n++ {
				ki := (n + ri) % len(keys)
				floor := floors[ki].Load()

				var got int64 = -2

				if (n/len(keys)+ri)%2 == 0 {
					switch st, found, err := db.State(keys[ki]); {
					case err != nil:
						report("concurrent-read-error", "reader %d: State(%q) failed during merges: %v", ri, keys[ki], err)

						return
					case !found:
						report("concurrent-state-lost", "reader %d: State(%q) not found; height %d was returned/committed before this read started", ri, keys[ki], floor)

						return
					default:
						got = st.Height().Int64()
					}
				} else {
					switch enchint, _, body, found, err := db.StateBytes(keys[ki]); {
					case err != nil:
						report("concurrent-read-error", "reader %d: StateBytes(%q) failed during merges: %v", ri, keys[ki], err)

						return
					case !found:
						report("concurrent-state-lost", "reader %d: StateBytes(%q) not found; height %d was returned/committed before this read started", ri, keys[ki], floor)

						return
					default:
						var st base.State
						if err := dec.decodeState(enchint, body, &st); err != nil {
							report("concurrent-read-error", "reader %d: StateBytes(%q) does not decode: %v", ri, keys[ki], err)

							return
						}

						got = st.Height().Int64()
					}
				}

				reads.Add(1)

				if got < floor {
					report("concurrent-state-regressed", "reader %d: read of %q returned the state of height %d although height %d had already been returned/committed before the read started", ri, keys[ki], got, floor)

					return
				}

				for {
					cur := floors[ki].Load()
					if got <= cur || floors[ki].CompareAndSwap(cur, got) {
						break
					}
				}
			}
		}(ri)
	}

	var werr error

	for b := 0; b < nblocks && !stop.Load(); b++ {
		var ks, vs []string
		for i, k := range keys {
			ks = append(ks, k)
			vs = append(vs, fmt.Sprintf("conc-%d-%d", vals[b%len(vals)], i))
		}

		if err := e.NextBlock([]base.Operation{chain.NewFillerOperation(e.label("conc"), ks, vs, gen.Local(9))}, nil, []string{"conc"}); err != nil {
			werr = err

			break
		}

		h := e.M.lastHeight().Int64()
		for i := range floors {
			for {
				cur := floors[i].Load()
				if h <= cur || floors[i].CompareAndSwap(cur, h) {
					break
				}
			}
		}

		if err := e.MergeAll(); err != nil {
			werr = err

			break
		}
	}

	// let every reader finish at least a few more rounds after the last merge
	deadline := time.Now().Add(20 * time.Millisecond)
	for target := reads.Load() + int64(4*nreaders); reads.Load() < target && time.Now().Before(deadline) && !stop.Load(); {
		time.Sleep(time.Millisecond)
	}

	stop.Store(true)
	wg.Wait()

	hist.add("concurrent(%d blocks+merges, %d readers, %d reads)", nblocks, nreaders, reads.Load())
	r.Class("concurrent-reads", reads.Load())

	if werr != nil {
		t.Fatalf("harness: concurrent phase writer: %+v", werr)
	}

	if len(bads) > 0 {
		r.Violation(t, bads[0].sig, "%s\nhistory: %s", bads[0].msg, hist)
	}
}

// c19Abandoned is a block write database for height last+1 that was written but never handed to
// Center.MergeBlockWriteDatabase: it is not part of the committed chain, whatever happens afterwards.
type c19Abandoned struct {
	H        base.Height
	Manifest util.Hash // manifest hash of its block map (nil: the writer did not get as far as SetBlockMap)
	Stage    string
	End      string
	Reloaded bool // the storage was opened again after the write
}

type c19AbandonPlan struct {
	Keys       []int  // indices into the key pool
	WithSuf    bool   // writes a suffrage state (and, at stage "proved", its proof)
	WithPolicy bool   // writes a network policy state
	MaxOps     uint64 // the policy's max operations
	Stage      string // how far the writer got: "states" | "written" | "mapped" | "proved"
	End        string // "crash" (nothing more is called) | "cancel" (BlockWriteDatabase.Cancel) | "close" (BlockWriteDatabase.Close)
}

// c19AbandonedWrite writes a well-formed block of height last+1 (states of pool keys, one operation, optionally a suffrage
// state with its proof and a network policy state, a signed block map) into a new block write database of the center with
// the calls isaacblock.Writer makes, in its order (SetStates, SetOperations, Write, SetBlockMap, SetSuffrageProof), stops
// at p.Stage and never calls Center.MergeBlockWriteDatabase: the node stopped, or the block was cancelled, before the
// commit. The operation of the abandoned block is added to e.AllOps, so the operation reads are asked for it too.
func c19AbandonedWrite(e *dbEnv, p c19AbandonPlan) (*c19Abandoned, error) {
	label := e.label("abandoned")
	h := e.M.lastHeight() + 1
	m := e.M

	ab := &c19Abandoned{H: h, Stage: p.Stage, End: p.End}
	op := dbOpRef{Op: gen.H(label + "/operation"), Fact: gen.H(label + "/fact"), InState: false, H: h}

	previous := func(key string) util.Hash {
		if st, found := m.state(key); found {
			return st.Hash()
		}

		return nil
	}

	var sts []base.State

	for _, k := range p.Keys {
		sts = append(sts, base.NewBaseState(h, dbKey(k), base.NewDummyStateValue(label+"/value/"+dbKey(k)), previous(dbKey(k)), []util.Hash{op.Fact}))
	}

	var sufst base.State

	if members := m.members(); p.WithSuf && len(members) > 0 {
		sufst = base.NewBaseState(h, isaac.SuffrageStateKey, isaac.NewSuffrageNodesStateValue(m.maxSuffrageHeight()+1, members),
			previous(isaac.SuffrageStateKey), []util.Hash{op.Fact})
		sts = append(sts, sufst)
	}

	if p.WithPolicy {
		pl := isaac.DefaultNetworkPolicy()
		_ = pl.SetMaxOperationsInProposal(p.MaxOps)
		sts = append(sts, base.NewBaseState(h, isaac.NetworkPolicyStateKey, isaac.NewNetworkPolicyStateValue(pl),
			previous(isaac.NetworkPolicyStateKey), []util.Hash{op.Fact}))
	}

	tw, err := fixedtree.NewWriter(base.StateFixedtreeHint, uint64(len(sts)))
	if err != nil {
		return nil, err
	}

	for i := range sts {
		if err := tw.Add(uint64(i), fixedtree.NewBaseNode(sts[i].Hash().String())); err != nil {
			return nil, err
		}
	}

	if err := tw.Write(func(uint64, fixedtree.Node) error { return nil }); err != nil {
		return nil, err
	}

	tree, err := tw.Tree()
	if err != nil {
		return nil, err
	}

	suffrage := gen.H(label + "/suffrage")

	switch pb := m.lastProof(); {
	case sufst != nil:
		suffrage = sufst.Hash()
	case pb != nil:
		suffrage = pb.Suf.Hash()
	}

	bm := isaacblock.NewBlockMap()
	bm.SetManifest(isaac.NewManifest(h, m.last().Map.Manifest().Hash(), gen.H(label+"/proposal"), gen.H(label+"/operationstree"), tree.Root(),
		suffrage, m.Blocks[0].Map.Manifest().ProposedAt()))

	for _, t := range []base.BlockItemType{base.BlockItemProposal, base.BlockItemVoteproofs, base.BlockItemOperations,
		base.BlockItemOperationsTree, base.BlockItemStates, base.BlockItemStatesTree} {
		if err := bm.SetItem(isaacblock.NewBlockMapItem(t, gen.H(label+"/checksum/"+t.String()).String())); err != nil {
			return nil, err
		}
	}

	if err := bm.Sign(e.W.Local.Address(), e.W.Local.Privatekey(), e.W.NetworkID); err != nil {
		return nil, err
	}

	if err := bm.IsValid(e.W.NetworkID); err != nil {
		return nil, fmt.Errorf("block map of the abandoned block: %w", err)
	}

	bw, err := e.W.DB.NewBlockWriteDatabase(h)
	if err != nil {
		return nil, err
	}

	steps := []struct {
		stage string
		f     func() error
	}{
		{"states", func() error {
			if err := bw.SetStates(sts); err != nil {
				return err
			}

			return bw.SetOperations([]util.Hash{op.Op})
		}},
		{"written", bw.Write},
		{"mapped", func() error {
			ab.Manifest = bm.Manifest().Hash()

			return bw.SetBlockMap(bm)
		}},
		{"proved", func() error {
			if sufst == nil {
				return nil
			}

			proof, err := tree.Proof(sufst.Hash().String())
			if err != nil {
				return err
			}

			return bw.SetSuffrageProof(isaacblock.NewSuffrageProof(bm, sufst, proof))
		}},
	}

	for _, s := range steps {
		if err := s.f(); err != nil {
			_ = bw.Cancel()

			return nil, fmt.Errorf("write the abandoned block write database (%s): %w", s.stage, err)
		}

		if s.stage == p.Stage {
			break
		}
	}

	switch p.End {
	case "cancel":
		if err := bw.Cancel(); err != nil {
			return nil, fmt.Errorf("cancel the abandoned block write database: %w", err)
		}
	case "close":
		if err := bw.Close(); err != nil {
			return nil, fmt.Errorf("close the abandoned block write database: %w", err)
		}
	}

	e.AllOps = append(e.AllOps, op)

	return ab, nil
}

func TestC19(t *testing.T) {
	r := ev.Start(t, "C19")
	defer r.Finish()
	r.Rule("histories of 8..N drawn steps over a production-path chain (3-5 genesis nodes; blocks with filler states over a 7-key pool, " +
		"candidate/join/disjoin, policy changes, not-in-state operations, empty blocks, 350-key blocks; state caches 0/3/4096): " +
		"next block, Center.MergeAllPermanent, Center.RemoveBlocks(last | any temp | out of range), close+reopen, abandoned block write " +
		"(a block write database for last+1 written up to SetStates+SetOperations | Write | SetBlockMap | SetSuffrageProof in the order of " +
		"isaacblock.Writer and never merged; then crash = reopen of the storage, or Cancel / Close and the process goes on), concurrent phase " +
		"(2-4 readers polling State/StateBytes of 3 keys during 2-4 block+merge rounds). After every step every read of isaac.Database " +
		"(BlockMap[Bytes] -1..last+1, LastBlockMap[Bytes], SuffrageProof[Bytes] by suffrage height -1..max+2, SuffrageProofByBlockHeight " +
		"0..last+1, LastSuffrageProof[Bytes], State[Bytes] for every written/pool/absent key, ExistsInStateOperation/ExistsKnownOperation " +
		"for every operation ever proposed + unknown hashes, LastNetworkPolicy) is compared with the committed-blocks model read from the " +
		"block files. non-trivial: at some step >= 2 suffrage changes with one in the permanent store and one in temps and a by-block-height " +
		"query below the oldest temp; distinct by (genesis size, cache, step list)")
	r.Floor(int64(r.N(30, 800)))
	r.Assume("expected answers come from the block files on the local fs and the proposals built by the harness, never from the database",
		"SuffrageProofByBlockHeight(h) for h above the last block is 'not found' (both stores document this)",
		"RemoveBlocks is called for heights the harness believes are temps (and for out-of-range heights, which must be a no-op); after a removal the harness also removes the block files like launch.removePrevBlockFunc",
		"a block write database that was never handed to Center.MergeBlockWriteDatabase is not a committed block: no read may answer from it, before or after the storage is opened again",
		"goleveldb and the local-fs block writer are trusted")

	maxSteps := r.N(22, 36)
	r.Checks(100, 4000)
	r.ShrinkTime(60 * time.Second)

	rapid.Check(t, func(rt *rapid.T) {
		nsuf := rapid.IntRange(3, 5).Draw(rt, "genesisNodes")
		cache := rapid.SampledFrom([]int{0, 3, 4096, 4096}).Draw(rt, "cache")
		nsteps := rapid.IntRange(8, maxSteps).Draw(rt, "steps")

		e, err := dbNewEnv(dbEnvOpts{NSuffrage: nsuf, Cache: cache})
		if err != nil {
			rt.Fatalf("harness: new env: %+v", err)
		}
		defer e.Close()

		hist := &c19Hist{}
		hist.add("genesis(n=%d,cache=%d)", nsuf, cache)

		baseViol := dbViol(rt, r, hist.String)

		var abandoned []*c19Abandoned

		// same oracle (reads vs the committed-blocks model); when the center serves the block map of an abandoned block write
		// database at the moment of the mismatch, the mismatch is reported under that root cause
		viol := func(sig, format string, a ...any) {
			for _, ab := range abandoned {
				if ab.Manifest == nil {
					continue
				}

				if bm, found, err := e.W.DB.BlockMap(ab.H); err == nil && found && bm.Manifest().Hash().Equal(ab.Manifest) {
					rsig := "uncommitted-block-visible"
					if ab.Reloaded {
						rsig = "uncommitted-block-visible-after-reload"
					}

					baseViol(rsig, "the center answers from the block write database of height %d (manifest %s; written up to %q, then %s) which was never merged by MergeBlockWriteDatabase (reloaded since: %v); first read that differs from the committed chain [%s]: %s",
						ab.H, ab.Manifest, ab.Stage, ab.End, ab.Reloaded, sig, fmt.Sprintf(format, a...))

					return
				}
			}

			baseViol(sig, format, a...)
		}

		reloaded := func() {
			for _, ab := range abandoned {
				ab.Reloaded = true
			}
		}

		var (
			didAbandon, didAbandonReload                                    bool
			nontrivial, didConc, didReopen, didRemove, sawBelow, sawBetween bool
			reads                                                           int
			reopened                                                        bool
		)

		check := func() {
			st := dbCheckReads(e.W.DB, e.M, dbDecoder{e}, e.centerCtx(reopened), viol)
			reads += st.Reads

			nch, hs := e.M.suffrageChanges()
			inPerm, inTemps := 0, 0

			for _, h := range hs {
				if h <= e.PermLast {
					inPerm++
				} else {
					inTemps++
				}
			}

			if st.BelowTemps > 0 {
				sawBelow = true
			}

			if st.BetweenChanges > 0 {
				sawBetween = true
			}

			if nch >= 2 && inPerm >= 1 && inTemps >= 1 && st.BelowTemps > 0 {
				nontrivial = true
			}
		}

		check()

		for i := 0; i < nsteps; i++ {
			acts := []string{"block", "block", "block", "block", "block", "block", "merge", "merge", "remove", "reopen", "abandon"}
			if !didConc {
				acts = append(acts, "conc")
			}

			switch act := rapid.SampledFrom(acts).Draw(rt, "act"); act {
			case "block":
				big := rapid.IntRange(0, 24).Draw(rt, "big") == 0
				p := dbDrawBlock(rt, e, big)

				if err := e.NextBlock(p.Ops, p.Expels, p.Kinds); err != nil {
					rt.Fatalf("harness: next block %v: %+v\nhistory: %s", p.Kinds, err, hist)
				}

				hist.add("block%d%v", e.M.lastHeight(), p.Kinds)
				reopened = false
			case "merge":
				if err := e.MergeAll(); err != nil {
					r.Violation(rt, "merge-error", "MergeAllPermanent failed: %v\nhistory: %s", err, hist)
				}

				hist.add("merge(perm<=%d)", e.PermLast)
				reopened = false
			case "remove":
				last := e.M.lastHeight()

				var h base.Height

				switch rapid.IntRange(0, 5).Draw(rt, "removeWhich") {
				case 0:
					h = last + 1 + base.Height(rapid.IntRange(0, 2).Draw(rt, "above"))
				case 1:
					h = base.Height(rapid.IntRange(0, int(last)).Draw(rt, "any"))
				case 2:
					if e.oldestTemp() > base.NilHeight {
						h = e.oldestTemp() + base.Height(rapid.IntRange(0, int(last-e.oldestTemp())).Draw(rt, "temp"))
					} else {
						h = last
					}
				default:
					h = last
				}

				if h == base.GenesisHeight {
					h = last + 1 // never drop the genesis block: the chain could not go on
				}

				want := h > e.PermLast && h <= last

				removed, err := e.W.DB.RemoveBlocks(h)

				switch {
				case err != nil:
					r.Violation(rt, "remove-error", "RemoveBlocks(%d) failed: %v\nhistory: %s", h, err, hist)
				case removed != want:
					r.Violation(rt, "remove-result", "RemoveBlocks(%d) = %v; last=%d, blocks above %d are unmerged\nhistory: %s", h, removed, last, e.PermLast, hist)
				}

				if removed {
					if err := e.dropFrom(h); err != nil {
						rt.Fatalf("harness: %+v", err)
					}

					didRemove = true
				}

				hist.add("remove(%d)=%v", h, removed)
			case "reopen":
				if err := e.Reopen(); err != nil {
					r.Violation(rt, "reopen-error", "reopening the storage failed: %v\nhistory: %s", err, hist)
				}

				hist.add("reopen")
				reopened, didReopen = true, true

				if len(abandoned) > 0 {
					didAbandonReload = true
				}

				reloaded()
			case "abandon":
				var p c19AbandonPlan

				p.Keys = rapid.SliceOfNDistinct(rapid.IntRange(0, dbKeyPool-1), 1, 3, rapid.ID[int]).Draw(rt, "abandonKeys")
				p.WithSuf = rapid.Bool().Draw(rt, "abandonSuffrage")
				p.WithPolicy = rapid.IntRange(0, 3).Draw(rt, "abandonPolicy") == 0
				p.MaxOps = uint64(rapid.IntRange(50, 400).Draw(rt, "abandonMaxops"))
				p.Stage = rapid.SampledFrom([]string{"states", "written", "mapped", "proved", "proved"}).Draw(rt, "abandonStage")
				p.End = rapid.SampledFrom([]string{"crash", "crash", "cancel", "close"}).Draw(rt, "abandonEnd")

				ab, err := c19AbandonedWrite(e, p)
				if err != nil {
					rt.Fatalf("harness: abandoned block write: %+v\nhistory: %s", err, hist)
				}

				abandoned = append(abandoned, ab)
				didAbandon = true

				hist.add("abandon(%d keys=%v suf=%v policy=%v stage=%s end=%s)", ab.H, p.Keys, p.WithSuf, p.WithPolicy, p.Stage, p.End)

				if p.End == "crash" {
					// the process died before the commit: the next thing that happens to the storage is a restart (reads of the
					// running process with an unmerged block write database are covered by the cancel / close ends)
					if err := e.Reopen(); err != nil {
						r.Violation(rt, "reopen-error", "reopening the storage failed: %v\nhistory: %s", err, hist)
					}

					hist.add("reopen")
					reopened, didReopen, didAbandonReload = true, true, true

					reloaded()
				}
			case "conc":
				nb := rapid.IntRange(2, 4).Draw(rt, "concBlocks")
				nr := rapid.IntRange(2, 4).Draw(rt, "concReaders")
				vals := rapid.SliceOfN(rapid.IntRange(0, 99), nb, nb).Draw(rt, "concVals")

				c19Concurrent(rt, r, e, hist, nb, nr, vals)

				didConc, reopened = true, false
			}

			check()
		}

		nch, _ := e.M.suffrageChanges()

		classes := []string{fmt.Sprintf("cache:%d", cache), fmt.Sprintf("suffrage-changes:%d", min(nch, 4))}
		if nontrivial {
			classes = append(classes, "nontrivial")
		}

		for _, c := range []struct {
			name string
			on   bool
		}{{"with-concurrent", didConc}, {"with-reopen", didReopen}, {"with-remove", didRemove}, {"with-abandoned-write", didAbandon}, {"abandoned-write-then-reload", didAbandonReload}, {"query-below-temps", sawBelow}, {"query-between-changes", sawBetween}} {
			if c.on {
				classes = append(classes, c.name)
			}
		}

		r.Class("reads", int64(reads))
		r.Class("blocks", int64(len(e.M.Blocks)))
		r.Class("settle-timeouts", int64(e.SettleTimeouts))
		r.Case(hist.String(), nontrivial, classes...)

		if nontrivial && r.WantSample() {
			r.Sample(map[string]any{"genesis_nodes": nsuf, "cache": cache, "history": hist.steps, "reads": reads})
		}
	})
}
