package p_db

import (
	"bytes"
	"context"
	"fmt"
	"sort"
	"strings"
	"testing"
	"time"

	"github.com/pkg/errors"
	"github.com/spikeekips/mitum/base"
	"github.com/spikeekips/mitum/isaac"
	isaacblock "github.com/spikeekips/mitum/isaac/block"
	isaacdatabase "github.com/spikeekips/mitum/isaac/database"
	"github.com/spikeekips/mitum/util"
	"github.com/spikeekips/mitum/util/fixedtree"
	"pgregory.net/rapid"
	"verif/internal/chain"
	"verif/internal/ev"
	"verif/internal/gen"
)

// C20: reopening storage returns exactly what was stored.
//
// Drawn chain histories (blocks, permanent merges, pool writes); after every block and every merge the storage is
// closed and reopened and a snapshot of every read (objects re-encoded, *Bytes reads raw: encoder hint, meta, body)
// taken before closing must equal, byte for byte, the snapshot taken after reopening.
//
// Center.RemoveBlocks(height) (launch's removePrevBlockFunc: the previous block was found wrong) is one of the drawn
// steps; the storage is closed and reopened right after it, before a new block of that height exists. The snapshot keeps
// asking for everything that was ever stored (heights, suffrage heights and state keys of removed blocks too), so a
// removal that only happened in memory shows up as a read that was "not found" before closing and is answered after
// reopening.
//
// Another drawn step offers the center a block write database it has to refuse (a second, later-created block of a height
// that is already held, of a lower height, or of a height with a gap: the same height processed twice, a late save, a
// consensus/syncer race). The refused block was never served by the running storage: after close+reopen every read still
// has to give what it gave before closing, and nothing of the refused block's content (its keys, heights, operation and
// suffrage height are part of the list of reads).

type c20PoolItems struct {
	Ops       []base.Operation
	Proposals []base.ProposalSignFact
	Ballots   []base.Ballot
	Expels    []base.SuffrageExpelOperation
	Empty     []base.Height
}

func c20PoolSnapshot(e *dbEnv, pool *isaacdatabase.TempPool, it *c20PoolItems) dbSnap {
	var s dbSnap

	ctx := context.Background()

	for _, op := range it.Ops {
		got, found, err := pool.Operation(ctx, op.Hash())
		s.add(fmt.Sprintf("pool.Operation(%s)", op.Hash()), e.marshal(got, found, err))
		s.add(fmt.Sprintf("pool.OperationBytes(%s)", op.Hash()), dbBytesTriple(pool.OperationBytes(ctx, op.Hash())))
	}

	var order []string

	err := pool.TraverseOperationsBytes(ctx, nil, func(enchint string, meta isaacdatabase.FrameHeaderPoolOperation, body, _ []byte) (bool, error) {
		order = append(order, fmt.Sprintf("%s/%s/%s/%d", enchint, meta.Operation(), meta.Fact(), len(body)))

		return true, nil
	})
	s.add("pool.TraverseOperationsBytes", []byte(fmt.Sprint(order, err)))

	for _, pr := range it.Proposals {
		h := pr.Fact().Hash()
		got, found, err := pool.Proposal(h)
		s.add(fmt.Sprintf("pool.Proposal(%s)", h), e.marshal(got, found, err))
		s.add(fmt.Sprintf("pool.ProposalBytes(%s)", h), dbBytesTriple(pool.ProposalBytes(h)))

		fact := pr.ProposalFact()
		got, found, err = pool.ProposalByPoint(fact.Point(), fact.Proposer(), fact.PreviousBlock())
		s.add(fmt.Sprintf("pool.ProposalByPoint(%s)", fact.Point()), e.marshal(got, found, err))
	}

	for _, bl := range it.Ballots {
		sp := bl.Point()
		got, found, err := pool.Ballot(sp.Point, sp.Stage(), isaac.IsSuffrageConfirmBallotFact(bl.SignFact().Fact()))
		s.add(fmt.Sprintf("pool.Ballot(%s)", sp), e.marshal(got, found, err))
	}

	for _, ex := range it.Expels {
		f := ex.ExpelFact()

		for _, h := range []base.Height{f.ExpelStart() - 1, f.ExpelStart(), f.ExpelEnd(), f.ExpelEnd() + 1} {
			got, found, err := pool.SuffrageExpelOperation(h, f.Node())
			s.add(fmt.Sprintf("pool.SuffrageExpelOperation(%d,%s)", h, f.Node()), e.marshal(got, found, err))
		}
	}

	for h := base.Height(0); h <= 12; h += 3 {
		var seen []string

		err := pool.TraverseSuffrageExpelOperations(ctx, h, func(op base.SuffrageExpelOperation) (bool, error) {
			seen = append(seen, op.Fact().Hash().String())

			return true, nil
		})
		s.add(fmt.Sprintf("pool.TraverseSuffrageExpelOperations(%d)", h), []byte(fmt.Sprint(seen, err)))
	}

	var empties []base.Height

	err = pool.EmptyHeights(func(h base.Height) error {
		empties = append(empties, h)

		return nil
	})
	s.add("pool.EmptyHeights", []byte(fmt.Sprint(empties, err)))

	return s
}

// c20Ever remembers what the chain ever held, also in blocks that were removed again: the reads of the removed heights
// are part of "every read" and have to give the same (not found) answer on both sides of a reopen.
type c20Ever struct {
	MaxH    base.Height
	MaxSufH base.Height
	Keys    map[string]struct{}
	Removed []base.Height // arguments of the effective RemoveBlocks calls
}

// noteRefused: the reads that only a refused block write database could answer stay in the list of reads too.
func (v *c20Ever) noteRefused(rf *c20Refused) {
	if rf.H > v.MaxH {
		v.MaxH = rf.H
	}

	if rf.SufH > v.MaxSufH {
		v.MaxSufH = rf.SufH
	}

	for _, k := range rf.Keys {
		v.Keys[k] = struct{}{}
	}
}

func (v *c20Ever) note(b *dbBlock) {
	if b.H > v.MaxH {
		v.MaxH = b.H
	}

	if b.Suf != nil && b.SufH > v.MaxSufH {
		v.MaxSufH = b.SufH
	}

	for k := range b.States {
		v.Keys[k] = struct{}{}
	}
}

// c20EverSnapshot renders the reads dbSnapshotReads does not ask for any more once blocks were removed: block maps and
// proofs by block height above last+1, proofs by suffrage height above max+1, states only removed blocks wrote.
func c20EverSnapshot(e *dbEnv, prefix string, rd dbReader, m *dbModel, v *c20Ever) dbSnap {
	var s dbSnap

	for h := m.lastHeight() + 2; h <= v.MaxH+1; h++ {
		bm, found, err := rd.BlockMap(h)
		s.add(fmt.Sprintf("%sBlockMap(%d)", prefix, h), e.marshal(bm, found, err))
		s.add(fmt.Sprintf("%sBlockMapBytes(%d)", prefix, h), dbBytesTriple(rd.BlockMapBytes(h)))

		proof, found, err := rd.SuffrageProofByBlockHeight(h)
		s.add(fmt.Sprintf("%sSuffrageProofByBlockHeight(%d)", prefix, h), e.marshal(proof, found, err))
	}

	for sh := m.maxSuffrageHeight() + 2; sh <= v.MaxSufH+1; sh++ {
		proof, found, err := rd.SuffrageProof(sh)
		s.add(fmt.Sprintf("%sSuffrageProof(%d)", prefix, sh), e.marshal(proof, found, err))
		s.add(fmt.Sprintf("%sSuffrageProofBytes(%d)", prefix, sh), dbBytesTriple(rd.SuffrageProofBytes(sh)))
	}

	inModel := map[string]bool{}
	for _, k := range m.stateKeys() {
		inModel[k] = true
	}

	keys := make([]string, 0, len(v.Keys))

	for k := range v.Keys {
		if !inModel[k] {
			keys = append(keys, k)
		}
	}

	sort.Strings(keys)

	nbig := 0

	for _, k := range keys {
		if strings.HasPrefix(k, "big") {
			if nbig++; nbig%37 != 1 {
				continue
			}
		}

		st, found, err := rd.State(k)
		s.add(fmt.Sprintf("%sState(%s)", prefix, k), e.marshal(st, found, err))
		s.add(fmt.Sprintf("%sStateBytes(%s)", prefix, k), dbBytesTriple(rd.StateBytes(k)))
	}

	return s
}

// c20Resurrected finds the first read of the center or the permanent store that answered "not found" (or false) before
// closing and answers something after reopening.
func c20Resurrected(before, after dbSnap) (name string, vb []byte, found bool) {
	for i := 0; i < len(before) && i < len(after); i++ {
		if before[i].Name != after[i].Name || strings.HasPrefix(before[i].Name, "pool.") {
			continue
		}

		a, b := string(before[i].Value), string(after[i].Value)

		if (a == "<not found>" && b != a && !strings.HasPrefix(b, "error: ")) || (a == "false <nil>" && b == "true <nil>") {
			return before[i].Name, after[i].Value, true
		}
	}

	return "", nil, false
}

// c20Refused is a block write database the center refused (MergeBlockWriteDatabase answered with an error): it was never
// part of what the storage served, so nothing of it may be served after a reopen either.
type c20Refused struct {
	H     base.Height
	Kind  string
	Marks []string // strings only the content of this block write database renders to (manifest hash, state value)
	Keys  []string
	SufH  base.Height // suffrage height of its suffrage proof (NilHeight: none)
	Op    dbOpRef
}

type c20RefusedPlan struct {
	H          base.Height
	Kind       string
	Keys       []int // indices into the key pool
	WithSuf    bool
	WithPolicy bool
	MaxOps     uint64
	Importer   bool // call order of isaacblock.BlockImporter (block map first) instead of isaacblock.Writer (block map after Write)
}

// c20OfferRefused writes a complete, well-formed block of height p.H (states of pool keys and of a key of its own, one
// operation, optionally a suffrage state with its proof and a network policy state, a signed block map) into a new block
// write database of the center with the calls isaacblock.Writer / isaacblock.BlockImporter make, and hands it to
// Center.MergeBlockWriteDatabase. merr is the center's answer.
func c20OfferRefused(e *dbEnv, p c20RefusedPlan) (rf *c20Refused, merr error, herr error) {
	label := e.label("refused")
	h := p.H
	prior := e.M.prefix(int(h)) // the committed blocks below h

	rf = &c20Refused{H: h, Kind: p.Kind, SufH: base.NilHeight}
	rf.Op = dbOpRef{Op: gen.H(label + "/operation"), Fact: gen.H(label + "/fact"), InState: true, H: h}
	rf.Marks = append(rf.Marks, label+"/value")

	previous := func(key string) util.Hash {
		if st, found := prior.state(key); found {
			return st.Hash()
		}

		return nil
	}

	var sts []base.State

	keys := []string{label + "-key"}
	for _, k := range p.Keys {
		keys = append(keys, dbKey(k))
	}

	for _, k := range keys {
		sts = append(sts, base.NewBaseState(h, k, base.NewDummyStateValue(label+"/value/"+k), previous(k), []util.Hash{rf.Op.Fact}))
	}

	rf.Keys = keys

	var sufst base.State

	if members := prior.members(); p.WithSuf && len(members) > 0 {
		rf.SufH = prior.maxSuffrageHeight() + 1
		sufst = base.NewBaseState(h, isaac.SuffrageStateKey, isaac.NewSuffrageNodesStateValue(rf.SufH, members),
			previous(isaac.SuffrageStateKey), []util.Hash{rf.Op.Fact})
		sts = append(sts, sufst)
	}

	if p.WithPolicy {
		pl := isaac.DefaultNetworkPolicy()
		_ = pl.SetMaxOperationsInProposal(p.MaxOps)
		sts = append(sts, base.NewBaseState(h, isaac.NetworkPolicyStateKey, isaac.NewNetworkPolicyStateValue(pl),
			previous(isaac.NetworkPolicyStateKey), []util.Hash{rf.Op.Fact}))
	}

	tw, err := fixedtree.NewWriter(base.StateFixedtreeHint, uint64(len(sts)))
	if err != nil {
		return nil, nil, err
	}

	for i := range sts {
		if err := tw.Add(uint64(i), fixedtree.NewBaseNode(sts[i].Hash().String())); err != nil {
			return nil, nil, err
		}
	}

	if err := tw.Write(func(uint64, fixedtree.Node) error { return nil }); err != nil {
		return nil, nil, err
	}

	tree, err := tw.Tree()
	if err != nil {
		return nil, nil, err
	}

	var prevblock, suffrage util.Hash

	switch {
	case h <= base.GenesisHeight:
	case int(h-1) < len(e.M.Blocks):
		prevblock = e.M.Blocks[h-1].Map.Manifest().Hash()
	default:
		prevblock = gen.H(label + "/previous")
	}

	switch pb := prior.lastProof(); {
	case sufst != nil:
		suffrage = sufst.Hash()
	case pb != nil:
		suffrage = pb.Suf.Hash()
	default:
		suffrage = gen.H(label + "/suffrage")
	}

	bm := isaacblock.NewBlockMap()
	bm.SetManifest(isaac.NewManifest(h, prevblock, gen.H(label+"/proposal"), gen.H(label+"/operationstree"), tree.Root(), suffrage,
		e.M.Blocks[0].Map.Manifest().ProposedAt()))

	for _, t := range []base.BlockItemType{base.BlockItemProposal, base.BlockItemVoteproofs, base.BlockItemOperations,
		base.BlockItemOperationsTree, base.BlockItemStates, base.BlockItemStatesTree} {
		if err := bm.SetItem(isaacblock.NewBlockMapItem(t, gen.H(label+"/checksum/"+t.String()).String())); err != nil {
			return nil, nil, err
		}
	}

	if err := bm.Sign(e.W.Local.Address(), e.W.Local.Privatekey(), e.W.NetworkID); err != nil {
		return nil, nil, err
	}

	if err := bm.IsValid(e.W.NetworkID); err != nil {
		return nil, nil, errors.WithMessage(err, "block map of the refused block")
	}

	rf.Marks = append(rf.Marks, bm.Manifest().Hash().String())

	bw, err := e.W.DB.NewBlockWriteDatabase(h)
	if err != nil {
		return nil, nil, err
	}

	setProof := func() error {
		if sufst == nil {
			return nil
		}

		proof, err := tree.Proof(sufst.Hash().String())
		if err != nil {
			return err
		}

		return bw.SetSuffrageProof(isaacblock.NewSuffrageProof(bm, sufst, proof))
	}

	var steps []func() error

	setContent := []func() error{
		func() error { return bw.SetStates(sts) },
		func() error { return bw.SetOperations([]util.Hash{rf.Op.Op}) },
	}

	if p.Importer {
		steps = append([]func() error{func() error { return bw.SetBlockMap(bm) }}, setContent...)
		steps = append(steps, setProof, bw.Write)
	} else {
		steps = append(setContent, bw.Write, func() error { return bw.SetBlockMap(bm) }, setProof)
	}

	for _, f := range steps {
		if err := f(); err != nil {
			_ = bw.Cancel()

			return nil, nil, errors.WithMessage(err, "write the block write database")
		}
	}

	merr = e.W.DB.MergeBlockWriteDatabase(bw)
	if merr != nil {
		_ = bw.Cancel() // isaacblock.Writer.Cancel / BlockImporter.CancelImport after a failed save
	}

	return rf, merr, nil
}

// c20RefusedVisible finds the first read that changed over the reopen and whose answer after reopening holds content of a
// refused block write database (a special case of the before/after equality, reported under its own root cause).
func c20RefusedVisible(before, after dbSnap, refused []*c20Refused) (name string, va, vb []byte, rf *c20Refused, found bool) {
	for i := 0; i < len(before) && i < len(after); i++ {
		if before[i].Name != after[i].Name || bytes.Equal(before[i].Value, after[i].Value) {
			continue
		}

		for _, x := range refused {
			for _, mark := range x.Marks {
				if bytes.Contains(after[i].Value, []byte(mark)) && !bytes.Contains(before[i].Value, []byte(mark)) {
					return before[i].Name, before[i].Value, after[i].Value, x, true
				}
			}
		}
	}

	return "", nil, nil, nil, false
}

// c20Sig names the root cause of a before/after difference.
func c20Sig(name string, before, after []byte) string {
	switch {
	case strings.Contains(name, "SuffrageProofBytes") && strings.Contains(string(after), "body(0)=") && !strings.Contains(string(before), "body(0)="):
		return "last-proof-bytes-empty-body"
	case strings.HasPrefix(name, "pool."):
		return "reopen-pool"
	case strings.Contains(name, "SuffrageProof"):
		return "reopen-suffrage-proof"
	case strings.Contains(name, "BlockMap"):
		return "reopen-blockmap"
	case strings.Contains(name, "Operation"):
		return "reopen-operation"
	case strings.Contains(name, "State"):
		return "reopen-state"
	case strings.Contains(name, "Policy"):
		return "reopen-policy"
	default:
		return "reopen-other"
	}
}

func TestC20(t *testing.T) {
	r := ev.Start(t, "C20")
	defer r.Finish()
	r.Rule("histories of 5..N drawn steps over a production-path chain (3-5 genesis nodes; blocks with filler states, candidate/join/disjoin, " +
		"policy changes, not-in-state operations, empty and 350-key blocks; state caches 0/3/4096; mem storage, thorough also on-disk leveldb): " +
		"next block, MergeAllPermanent, Center.RemoveBlocks(last | any unmerged height | merged or absent height = no-op) followed by the removal " +
		"of the block files like launch.removePrevBlockFunc, refused merge (a complete second block write database - states of shared and own " +
		"keys, an operation, optionally suffrage proof and policy, signed block map, written in Writer or BlockImporter call order - of the last " +
		"height, of a lower height or of a height with a gap is handed to MergeBlockWriteDatabase, which answers with an error; 3 of 4 are " +
		"followed by a reopen at once, the others stay on the storage while the history goes on), pool writes (operations, proposals, " +
		"INIT/ACCEPT ballots, expel operations, empty " +
		"heights). After every block, every merge and every RemoveBlocks (before a new block of the removed height exists): snapshot of every " +
		"read of the center, of the permanent database and of the pool (objects re-encoded with the JSON encoder; *Bytes reads as encoder hint + " +
		"meta + body; block maps, proofs and states of removed heights stay in the list of reads), close pool/center/storage, reopen the same " +
		"storage, snapshot again, compare byte for byte (whether the answers are the right ones is C19's business); keys, heights, suffrage " +
		"heights and operations of refused block write databases are part of the reads. non-trivial: a reopen with " +
		"a suffrage proof in the permanent store and >= 1 unmerged temp, or a reopen right after an effective RemoveBlocks, or the first reopen " +
		"after a refused merge of a height that is held as a temp; distinct by " +
		"(genesis size, cache, storage, step list)")
	r.Floor(int64(r.N(15, 400)))
	r.Assume("quiescent points only: no block write or merge is in flight when the storage is closed",
		"TempPool.LastVoteproofs is kept in memory only by design and is not part of the stored pool contents",
		"goleveldb (mem and file storage) is trusted",
		"RemoveBlocks never takes the genesis block (the chain could not go on); after an effective removal the harness removes the block files "+
			"of the removed heights like launch.removePrevBlockFunc does",
		"a block write database the center refused is cancelled by its owner (Writer.Cancel / BlockImporter.CancelImport) and never offered again; "+
			"whether MergeBlockWriteDatabase refuses what it has to refuse is C19's business")

	maxSteps := r.N(12, 20)
	r.Checks(60, 2400)
	r.ShrinkTime(60 * time.Second)

	rapid.Check(t, func(rt *rapid.T) {
		nsuf := rapid.IntRange(3, 5).Draw(rt, "genesisNodes")
		cache := rapid.SampledFrom([]int{0, 3, 4096, 4096}).Draw(rt, "cache")
		nsteps := rapid.IntRange(5, maxSteps).Draw(rt, "steps")
		file := r.Thorough() && rapid.IntRange(0, 3).Draw(rt, "fileStorage") == 0

		e, err := dbNewEnv(dbEnvOpts{NSuffrage: nsuf, Cache: cache, File: file})
		if err != nil {
			rt.Fatalf("harness: new env: %+v", err)
		}
		defer e.Close()

		hist := &c19Hist{}
		hist.add("genesis(n=%d,cache=%d,file=%v)", nsuf, cache, file)

		newPool := func() *isaacdatabase.TempPool {
			pool, err := isaacdatabase.NewTempPool(e.W.St, e.W.Encs, e.W.Enc, cache)
			if err != nil {
				r.Violation(rt, "reopen-error", "opening the pool failed: %v\nhistory: %s", err, hist)
			}

			return pool
		}

		pool := newPool()
		items := &c20PoolItems{}

		var nontrivial bool

		nreopen, ncompared, nremoved, nrefused := 0, 0, 0, 0
		justRemoved := base.NilHeight // argument of an effective RemoveBlocks since the last reopen
		justRefused := false          // a block write database of a height held as a temp was refused since the last reopen

		var refused []*c20Refused

		ever := &c20Ever{MaxH: base.NilHeight, MaxSufH: base.NilHeight, Keys: map[string]struct{}{}}
		ever.note(e.M.last())

		snapshot := func() dbSnap {
			ops := e.AllOps[:len(e.AllOps):len(e.AllOps)]
			for _, rf := range refused {
				ops = append(ops, rf.Op)
			}

			s := dbSnapshotReads(e, "center.", e.W.DB, e.M, ops)
			s = append(s, c20EverSnapshot(e, "center.", e.W.DB, e.M, ever)...)
			s = append(s, dbSnapshotReads(e, "perm.", e.W.Perm, e.M, ops)...)
			s = append(s, c20EverSnapshot(e, "perm.", e.W.Perm, e.M, ever)...)
			s = append(s, c20PoolSnapshot(e, pool, items)...)

			return s
		}

		reopenAndCompare := func() {
			before := snapshot()

			if err := pool.Close(); err != nil {
				rt.Fatalf("harness: close pool: %+v", err)
			}

			if err := e.Reopen(); err != nil {
				r.Violation(rt, "reopen-error", "reopening the storage failed: %v\nhistory: %s", err, hist)
			}

			pool = newPool()
			after := snapshot()
			nreopen++
			ncompared += len(before)

			hist.add("reopen")

			// a refused block write database was never stored: what the storage answers after a reopen is what it answered before
			// closing, not the refused block (a special case of the equality below, reported under its own root cause)
			if len(refused) > 0 {
				if name, va, vb, rf, found := c20RefusedVisible(before, after, refused); found {
					r.Violation(rt, "refused-block-visible-after-reopen", "%s answers with content of the block write database of height %d that "+
						"MergeBlockWriteDatabase refused (%s; last=%d, permanent store holds <= %d) after close+reopen: %s\nhistory: %s",
						name, rf.H, rf.Kind, e.M.lastHeight(), e.PermLast, dbDiffCtx(va, vb), hist)
				}
			}

			// removal is durable: what RemoveBlocks made unreadable stays unreadable over a reopen (a special case of the equality
			// below, reported under its own root cause)
			if len(ever.Removed) > 0 {
				if name, vb, found := c20Resurrected(before, after); found {
					r.Violation(rt, "removed-readable-after-reopen", "%s was not found before closing and is answered after close+reopen; RemoveBlocks was "+
						"called with %v (last=%d, permanent store holds <= %d): after: %s\nhistory: %s",
						name, ever.Removed, e.M.lastHeight(), e.PermLast, dbShort(vb), hist)
				}
			}

			if name, va, vb, differ := dbSnapDiff(before, after); differ {
				r.Violation(rt, c20Sig(name, va, vb), "%s differs after close+reopen (last=%d, permanent store holds <= %d): %s\nhistory: %s",
					name, e.M.lastHeight(), e.PermLast, dbDiffCtx(va, vb), hist)
			}

			if pb := e.M.lastProof(); pb != nil && pb.H <= e.PermLast && e.oldestTemp() > base.NilHeight {
				nontrivial = true
			}

			if justRemoved > base.NilHeight {
				nontrivial = true
				justRemoved = base.NilHeight
			}

			if justRefused {
				nontrivial = true
				justRefused = false
			}
		}

		reopenAndCompare()

		for i := 0; i < nsteps; i++ {
			switch act := rapid.SampledFrom([]string{"block", "block", "block", "block", "merge", "merge", "pool", "remove", "refused"}).Draw(rt, "act"); act {
			case "block":
				big := rapid.IntRange(0, 24).Draw(rt, "big") == 0
				p := dbDrawBlock(rt, e, big)

				if err := e.NextBlock(p.Ops, p.Expels, p.Kinds); err != nil {
					rt.Fatalf("harness: next block %v: %+v\nhistory: %s", p.Kinds, err, hist)
				}

				ever.note(e.M.last())
				hist.add("block%d%v", e.M.lastHeight(), p.Kinds)
				reopenAndCompare()
			case "remove":
				last := e.M.lastHeight()

				var h base.Height

				switch rapid.IntRange(0, 5).Draw(rt, "removeWhich") {
				case 0:
					// merged, absent or not yet existing height: nothing to remove
					h = base.Height(rapid.IntRange(0, int(last)+2).Draw(rt, "any"))
				case 1, 2:
					if e.oldestTemp() > base.NilHeight {
						h = e.oldestTemp() + base.Height(rapid.IntRange(0, int(last-e.oldestTemp())).Draw(rt, "temp"))
					} else {
						h = last
					}
				default:
					h = last
				}

				if h == base.GenesisHeight {
					h = last + 1 // never drop the genesis block: the chain could not go on
				}

				removed, err := e.W.DB.RemoveBlocks(h)
				if err != nil {
					r.Violation(rt, "remove-error", "RemoveBlocks(%d) failed: %v\nhistory: %s", h, err, hist)
				}

				if removed {
					if h <= e.PermLast || h > last {
						// whether RemoveBlocks answers right is C19's business; the model cannot follow such an answer
						rt.Fatalf("harness: RemoveBlocks(%d) answered true; last=%d, permanent store holds <= %d\nhistory: %s", h, last, e.PermLast, hist)
					}

					if err := e.dropFrom(h); err != nil {
						rt.Fatalf("harness: %+v", err)
					}

					ever.Removed = append(ever.Removed, h)
					justRemoved = h
					nremoved++
				}

				hist.add("remove(%d)=%v", h, removed)
				reopenAndCompare()
			case "refused":
				last := e.M.lastHeight()
				p := c20RefusedPlan{H: last, Kind: "same-height"}

				switch which := rapid.SampledFrom([]string{"same", "same", "lower", "gap"}).Draw(rt, "refusedWhich"); {
				case which == "lower" && last > base.GenesisHeight:
					p.H, p.Kind = base.Height(rapid.IntRange(0, int(last)-1).Draw(rt, "lower")), "lower-height"
				case which == "gap":
					p.H, p.Kind = last+2+base.Height(rapid.IntRange(0, 1).Draw(rt, "gap")), "height-gap"
				}

				p.Keys = rapid.SliceOfNDistinct(rapid.IntRange(0, dbKeyPool-1), 0, 3, rapid.ID[int]).Draw(rt, "refusedKeys")
				p.WithSuf = rapid.Bool().Draw(rt, "refusedSuffrage")
				p.WithPolicy = rapid.IntRange(0, 2).Draw(rt, "refusedPolicy") == 0
				p.MaxOps = uint64(rapid.IntRange(401, 500).Draw(rt, "refusedMaxops"))
				p.Importer = rapid.Bool().Draw(rt, "refusedImporterOrder")
				reopenNow := rapid.IntRange(0, 3).Draw(rt, "refusedReopenNow") > 0

				rf, merr, err := c20OfferRefused(e, p)
				if err != nil {
					rt.Fatalf("harness: refused block write database of height %d: %+v\nhistory: %s", p.H, err, hist)
				}

				if merr == nil {
					// whether MergeBlockWriteDatabase answers right is C19's business; the model cannot follow such an answer
					rt.Fatalf("harness: MergeBlockWriteDatabase accepted a block write database of height %d; last=%d, permanent store holds <= %d\nhistory: %s",
						p.H, last, e.PermLast, hist)
				}

				refused = append(refused, rf)
				ever.noteRefused(rf)
				nrefused++

				if p.H > e.PermLast && p.H <= last {
					justRefused = true
				}

				hist.add("refused(%s h=%d keys=%v suf=%v policy=%v importer=%v)", p.Kind, p.H, p.Keys, rf.SufH > base.NilHeight, p.WithPolicy, p.Importer)

				if reopenNow {
					reopenAndCompare()
				}
			case "merge":
				if err := e.MergeAll(); err != nil {
					r.Violation(rt, "merge-error", "MergeAllPermanent failed: %v\nhistory: %s", err, hist)
				}

				hist.add("merge(perm<=%d)", e.PermLast)
				reopenAndCompare()
			case "pool":
				next := e.M.lastHeight() + 1
				members := e.M.members()

				var voters []base.LocalNode
				for _, m := range members {
					voters = append(voters, dbLocalOf(m.Address()))
				}

				switch kind := rapid.SampledFrom([]string{"op", "op", "proposal", "initballot", "acceptballot", "expel", "empty"}).Draw(rt, "poolKind"); kind {
				case "op":
					op := chain.NewFillerOperation(e.label("poolop"), []string{dbKey(rapid.IntRange(0, dbKeyPool-1).Draw(rt, "k"))}, []string{"pool"}, gen.Local(9))

					if _, err := pool.SetOperation(context.Background(), op); err != nil {
						rt.Fatalf("harness: SetOperation: %+v", err)
					}

					items.Ops = append(items.Ops, op)
				case "proposal":
					op := chain.NewFillerOperation(e.label("propop"), []string{dbKey(0)}, []string{"x"}, gen.Local(9))
					pr := gen.Proposal(base.NewPoint(next, base.Round(rapid.IntRange(0, 3).Draw(rt, "round"))), voters[0], e.W.Last().Manifest().Hash(),
						[][2]util.Hash{{op.Hash(), op.Fact().Hash()}})

					if _, err := pool.SetProposal(pr); err != nil {
						rt.Fatalf("harness: SetProposal: %+v", err)
					}

					items.Proposals = append(items.Proposals, pr)
				case "initballot":
					point := base.NewPoint(next, base.Round(rapid.IntRange(0, 3).Draw(rt, "round")))
					prev := e.W.Last().Manifest()
					afact := isaac.NewACCEPTBallotFact(base.NewPoint(prev.Height(), 0), gen.H("proposal-of-prev"), prev.Hash(), nil)
					avp := gen.FullACCEPTVoteproof(afact, voters, e.W.Threshold, nil)
					fact := isaac.NewINITBallotFact(point, prev.Hash(), gen.H(e.label("proposal")), nil)
					bl := isaac.NewINITBallot(avp, gen.SignINIT(fact, voters[0]), nil)

					if _, err := pool.SetBallot(bl); err != nil {
						rt.Fatalf("harness: SetBallot: %+v", err)
					}

					items.Ballots = append(items.Ballots, bl)
				case "acceptballot":
					point := base.NewPoint(next, base.Round(rapid.IntRange(0, 3).Draw(rt, "round")))
					prev := e.W.Last().Manifest()
					ifact := isaac.NewINITBallotFact(point, prev.Hash(), gen.H(e.label("proposal")), nil)
					ivp := gen.FullINITVoteproof(ifact, voters, e.W.Threshold, nil)
					fact := isaac.NewACCEPTBallotFact(point, ifact.Proposal(), gen.H(e.label("newblock")), nil)
					bl := isaac.NewACCEPTBallot(ivp, gen.SignACCEPT(fact, voters[0]), nil)

					if _, err := pool.SetBallot(bl); err != nil {
						rt.Fatalf("harness: SetBallot: %+v", err)
					}

					items.Ballots = append(items.Ballots, bl)
				case "expel":
					if len(voters) < 2 {
						break
					}

					start := base.Height(rapid.IntRange(1, 8).Draw(rt, "start"))
					end := start + base.Height(rapid.IntRange(0, 4).Draw(rt, "len"))
					ex := gen.Expel(voters[len(voters)-1].Address(), start, end, voters[:len(voters)-1])

					if err := pool.SetSuffrageExpelOperation(ex); err != nil {
						rt.Fatalf("harness: SetSuffrageExpelOperation: %+v", err)
					}

					items.Expels = append(items.Expels, ex)
				default:
					h := base.Height(rapid.IntRange(0, 12).Draw(rt, "emptyHeight"))

					if _, err := pool.AddEmptyHeight(h); err != nil {
						rt.Fatalf("harness: AddEmptyHeight: %+v", err)
					}

					items.Empty = append(items.Empty, h)
				}

				hist.add("pool")
			}
		}

		reopenAndCompare()
		_ = pool.Close()

		nch, _ := e.M.suffrageChanges()
		npool := len(items.Ops) + len(items.Proposals) + len(items.Ballots) + len(items.Expels) + len(items.Empty)

		classes := []string{fmt.Sprintf("cache:%d", cache), fmt.Sprintf("suffrage-changes:%d", min(nch, 4)), fmt.Sprintf("storage-file:%v", file)}
		if nontrivial {
			classes = append(classes, "nontrivial")
		}

		if npool > 0 {
			classes = append(classes, "with-pool-contents")
		}

		if e.PermLast >= base.GenesisHeight {
			classes = append(classes, "with-permanent-merge")
		}

		if nremoved > 0 {
			classes = append(classes, "with-remove")
		}

		if nrefused > 0 {
			classes = append(classes, "with-refused-merge")
		}

		r.Class("reopens", int64(nreopen))
		r.Class("effective-removes", int64(nremoved))
		r.Class("refused-merges", int64(nrefused))
		r.Class("compared-reads", int64(ncompared))
		r.Class("settle-timeouts", int64(e.SettleTimeouts))
		r.Case(hist.String(), nontrivial, classes...)

		if nontrivial && r.WantSample() {
			r.Sample(map[string]any{"genesis_nodes": nsuf, "cache": cache, "file_storage": file, "history": hist.steps, "reopens": nreopen, "pool_items": npool})
		}
	})
}
