package p_db

import (
	"context"
	"fmt"
	"strings"
	"sync"
	"sync/atomic"
	"testing"
	"time"

	"github.com/alicebob/miniredis/v2"
	"github.com/redis/go-redis/v9"
	"github.com/spikeekips/mitum/base"
	"github.com/spikeekips/mitum/isaac"
	isaacdatabase "github.com/spikeekips/mitum/isaac/database"
	leveldbstorage "github.com/spikeekips/mitum/storage/leveldb"
	redisstorage "github.com/spikeekips/mitum/storage/redis"
	"pgregory.net/rapid"
	"verif/internal/ev"
)

// C26: the Redis-backed permanent store behaves like the leveldb one.
//
// One production-path chain; the center's permanent database is a tee that hands every temp database to a
// LeveldbPermanent and to a RedisPermanent (Redis served in-process by miniredis). After every merge and after
// reopening both stores every read of isaac.PermanentDatabase (objects and raw *Bytes) is compared between the two.

var (
	c26Once   sync.Once
	c26Server *miniredis.Miniredis
	c26Err    error
	c26Seq    atomic.Int64
)

func c26Redis() (*miniredis.Miniredis, error) {
	c26Once.Do(func() {
		c26Server, c26Err = miniredis.Run()
	})

	return c26Server, c26Err
}

type c26Stores struct {
	prefix string
	ldb    *isaacdatabase.LeveldbPermanent
	rdb    *isaacdatabase.RedisPermanent
}

// c26Tee is the permanent database of the center: reads are served by the leveldb store, every merge goes to both.
type c26Tee struct {
	isaac.PermanentDatabase
	s *c26Stores
}

func (t *c26Tee) MergeTempDatabase(ctx context.Context, temp isaac.TempDatabase) error {
	if err := t.s.ldb.MergeTempDatabase(ctx, temp); err != nil {
		return err
	}

	return t.s.rdb.MergeTempDatabase(ctx, temp)
}

func (s *c26Stores) open(e *dbEnv, st *leveldbstorage.Storage) (isaac.PermanentDatabase, error) {
	srv, err := c26Redis()
	if err != nil {
		return nil, err
	}

	if s.rdb != nil {
		_ = s.rdb.Close()
	}

	ldb, err := isaacdatabase.NewLeveldbPermanent(st, e.W.Encs, e.W.Enc, e.Cache)
	if err != nil {
		return nil, err
	}

	rst, err := redisstorage.NewStorage(context.Background(), &redis.Options{Network: "tcp", Addr: srv.Addr()}, s.prefix)
	if err != nil {
		return nil, err
	}

	rdb, err := isaacdatabase.NewRedisPermanent(rst, e.W.Encs, e.W.Enc, e.Cache)
	if err != nil {
		return nil, err
	}

	s.ldb, s.rdb = ldb, rdb

	return &c26Tee{PermanentDatabase: ldb, s: s}, nil
}

func c26Class(name string) string {
	switch {
	case strings.Contains(name, "SuffrageProof"):
		return "suffrage-proof"
	case strings.Contains(name, "BlockMap"):
		return "blockmap"
	case strings.Contains(name, "Operation"):
		return "operation"
	case strings.Contains(name, "State"):
		return "state"
	case strings.Contains(name, "Policy"):
		return "policy"
	default:
		return "other"
	}
}

func TestC26(t *testing.T) {
	r := ev.Start(t, "C26")
	defer r.Finish()
	r.Rule("histories of 6..N drawn steps over a production-path chain (3-5 genesis nodes; blocks with filler states over a 7-key pool, " +
		"candidate/join/disjoin, policy changes, not-in-state operations, empty and 350-key blocks; state caches 0/3/4096): next block, " +
		"MergeAllPermanent (every temp database is merged into a LeveldbPermanent and a RedisPermanent on an in-process miniredis), " +
		"close+reopen of both stores; one case in three is a long chain (up to ~25 blocks). After every merge and every reopen a snapshot of every isaac.PermanentDatabase read (LastBlockMap[Bytes], " +
		"BlockMap[Bytes] 0..last+1, LastSuffrageProof[Bytes], SuffrageProof[Bytes] 0..max+1, SuffrageProofByBlockHeight 0..last+1, State[Bytes] " +
		"for all keys + an absent key, ExistsInStateOperation/ExistsKnownOperation for every operation ever proposed, LastNetworkPolicy) of the " +
		"Redis store must equal the leveldb store's snapshot byte for byte; on a difference both are compared with the committed-blocks model " +
		"to name the side that is wrong. non-trivial: >= 3 merged blocks, a suffrage change that is not in the last merged block and a " +
		"by-block-height query strictly between two changes; distinct by (genesis size, cache, step list)")
	r.Floor(int64(r.N(12, 300)))
	r.Assume("miniredis v2.33 stands in for a Redis server (SET/GET/EXISTS, ZADD NX, ZRANGE BYLEX REV LIMIT as documented by Redis)",
		"the verdict is the difference between the two stores; the model only names the side that is wrong",
		"permanent databases are read directly through isaac.PermanentDatabase, as the statement says (the center asks them only for what no temp database holds)")

	maxSteps := r.N(18, 26)
	r.Checks(40, 1500)
	r.ShrinkTime(60 * time.Second)

	rapid.Check(t, func(rt *rapid.T) {
		nsuf := rapid.IntRange(3, 5).Draw(rt, "genesisNodes")
		cache := rapid.SampledFrom([]int{0, 3, 4096, 4096}).Draw(rt, "cache")
		nsteps := rapid.IntRange(6, maxSteps).Draw(rt, "steps")

		// one case in three is a long chain (two-digit heights reach the permanent stores: key ordering in Redis is lexical)
		long := rapid.IntRange(0, 2).Draw(rt, "long") == 0
		if long {
			nsteps = rapid.IntRange(maxSteps, maxSteps+8).Draw(rt, "longSteps")
		}

		stores := &c26Stores{prefix: fmt.Sprintf("c26-%d-%d", r.Shard, c26Seq.Add(1))}

		e, err := dbNewEnv(dbEnvOpts{NSuffrage: nsuf, Cache: cache, NewPerm: stores.open})
		if err != nil {
			rt.Fatalf("harness: new env: %+v", err)
		}

		defer func() {
			_ = stores.rdb.Clean()
			_ = stores.rdb.Close()
			e.Close()
		}()

		hist := &c19Hist{}
		hist.add("genesis(n=%d,cache=%d)", nsuf, cache)

		var nontrivial, didReopen, over10 bool

		ncompared, ncompares := 0, 0

		compare := func(reopened bool) {
			m := e.M.prefix(int(e.PermLast) + 1)

			a := dbSnapshotReads(e, "", stores.ldb, m, e.AllOps)
			b := dbSnapshotReads(e, "", stores.rdb, m, e.AllOps)
			ncompared += len(a)
			ncompares++

			if name, va, vb, differ := dbSnapDiff(a, b); differ {
				// which side disagrees with the committed chain?
				side, sig := "differs", c26Class(name)

				for _, x := range []struct {
					what string
					rd   dbReader
				}{{"leveldb", stores.ldb}, {"redis", stores.rdb}} {
					found := ""

					dbCheckReads(x.rd, m, dbDecoder{e}, dbReadCtx{What: x.what + "-perm", OldestTmp: base.NilHeight, Reopened: reopened, AllOps: e.AllOps},
						func(s, _ string, _ ...any) {
							if found == "" {
								found = s
							}
						})

					if found != "" {
						side, sig = x.what, found

						break
					}
				}

				r.Violation(rt, side+":"+sig, "%s: the leveldb and the Redis permanent database answer differently (permanent stores hold blocks 0..%d, reopened=%v): %s\n  (before = leveldb, after = redis; side that disagrees with the committed chain: %s)\nhistory: %s",
					name, e.PermLast, reopened, dbDiffCtx(va, vb), side, hist)
			}

			if e.PermLast >= 2 {
				_, hs := m.suffrageChanges()
				notLast := false

				for _, h := range hs {
					if h < e.PermLast && h > base.GenesisHeight {
						notLast = true
					}
				}

				between := 0

				for h := base.GenesisHeight; h <= e.PermLast; h++ {
					if len(hs) > 1 && h > hs[0] && h < hs[len(hs)-1] {
						is := false
						for _, x := range hs {
							if x == h {
								is = true
							}
						}

						if !is {
							between++
						}
					}
				}

				if notLast && between > 0 {
					nontrivial = true
				}
			}

			if e.PermLast >= 10 {
				over10 = true
			}
		}

		for i := 0; i < nsteps; i++ {
			acts := []string{"block", "block", "block", "block", "block", "block", "merge", "merge", "reopen"}
			if long {
				acts = append(acts, "block", "block", "block", "block", "block", "block")
			}

			switch act := rapid.SampledFrom(acts).Draw(rt, "act"); act {
			case "block":
				big := rapid.IntRange(0, 24).Draw(rt, "big") == 0
				p := dbDrawBlock(rt, e, big)

				if err := e.NextBlock(p.Ops, p.Expels, p.Kinds); err != nil {
					rt.Fatalf("harness: next block %v: %+v\nhistory: %s", p.Kinds, err, hist)
				}

				hist.add("block%d%v", e.M.lastHeight(), p.Kinds)
			case "merge":
				if err := e.MergeAll(); err != nil {
					r.Violation(rt, "merge-error", "MergeAllPermanent into leveldb+redis failed: %v\nhistory: %s", err, hist)
				}

				hist.add("merge(perm<=%d)", e.PermLast)
				compare(false)
			case "reopen":
				if err := e.Reopen(); err != nil {
					r.Violation(rt, "reopen-error", "reopening the stores failed: %v\nhistory: %s", err, hist)
				}

				hist.add("reopen")
				didReopen = true
				compare(true)
			}
		}

		if err := e.MergeAll(); err != nil {
			r.Violation(rt, "merge-error", "MergeAllPermanent into leveldb+redis failed: %v\nhistory: %s", err, hist)
		}

		hist.add("merge(perm<=%d)", e.PermLast)
		compare(false)

		if err := e.Reopen(); err != nil {
			r.Violation(rt, "reopen-error", "reopening the stores failed: %v\nhistory: %s", err, hist)
		}

		hist.add("reopen")
		compare(true)

		nch, _ := e.M.suffrageChanges()

		classes := []string{fmt.Sprintf("cache:%d", cache), fmt.Sprintf("suffrage-changes:%d", min(nch, 4))}
		if nontrivial {
			classes = append(classes, "nontrivial")
		}

		if didReopen {
			classes = append(classes, "with-mid-history-reopen")
		}

		if over10 {
			classes = append(classes, "merged-height>=10")
		}

		r.Class("compares", int64(ncompares))
		r.Class("compared-reads", int64(ncompared))
		r.Class("settle-timeouts", int64(e.SettleTimeouts))
		r.Case(hist.String(), nontrivial, classes...)

		if nontrivial && r.WantSample() {
			r.Sample(map[string]any{"genesis_nodes": nsuf, "cache": cache, "history": hist.steps, "compares": ncompares})
		}
	})
}
