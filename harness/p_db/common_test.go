package p_db

// Shared fixtures of the database checks (C19, C20, C26): a chain-builder world whose storage can be closed and
// reopened, the "list of committed blocks" reference model (filled from the block files on the local fs and from
// the proposals the harness built itself - never from the database under test), a drawn block generator and the
// read comparison used by all three properties.

import (
	"bytes"
	"encoding/json"
	"fmt"
	"os"
	"runtime"
	"sort"
	"strings"
	"time"

	"github.com/pkg/errors"
	"github.com/spikeekips/mitum/base"
	"github.com/spikeekips/mitum/isaac"
	isaacblock "github.com/spikeekips/mitum/isaac/block"
	isaacdatabase "github.com/spikeekips/mitum/isaac/database"
	leveldbstorage "github.com/spikeekips/mitum/storage/leveldb"
	"github.com/spikeekips/mitum/util"
	"github.com/spikeekips/mitum/util/fixedtree"
	leveldbOpt "github.com/syndtr/goleveldb/leveldb/opt"
	leveldbStorage "github.com/syndtr/goleveldb/leveldb/storage"
	"pgregory.net/rapid"
	"verif/internal/chain"
	"verif/internal/ev"
	"verif/internal/gen"
)

// ---- reference model: the committed blocks

type dbBlock struct {
	H       base.Height
	Map     base.BlockMap
	States  map[string]base.State // states written by this block (from the block's states file)
	Known   []util.Hash           // operation hashes listed in the block's proposal
	InState []util.Hash           // fact hashes processed into a state (operations tree)
	NotIn   []util.Hash           // fact hashes processed but not in state
	Suf     base.State            // suffrage state written by this block (nil: the block did not change the suffrage)
	SufH    base.Height           // suffrage height of Suf
	Policy  base.NetworkPolicy    // network policy written by this block (nil: unchanged)
	Kinds   []string
}

type dbModel struct {
	Blocks []*dbBlock
}

func (m *dbModel) last() *dbBlock { return m.Blocks[len(m.Blocks)-1] }

func (m *dbModel) lastHeight() base.Height {
	if len(m.Blocks) < 1 {
		return base.NilHeight
	}

	return m.last().H
}

// prefix is the model of the first n blocks (what a store that holds blocks 0..n-1 must answer).
func (m *dbModel) prefix(n int) *dbModel {
	if n > len(m.Blocks) {
		n = len(m.Blocks)
	}

	return &dbModel{Blocks: m.Blocks[:n]}
}

func (m *dbModel) state(key string) (base.State, bool) {
	for i := len(m.Blocks) - 1; i >= 0; i-- {
		if st, ok := m.Blocks[i].States[key]; ok {
			return st, true
		}
	}

	return nil, false
}

// proofByBlockHeight: the block whose suffrage proof answers a query by block height h.
func (m *dbModel) proofByBlockHeight(h base.Height) *dbBlock {
	if h < base.GenesisHeight || h > m.lastHeight() {
		return nil
	}

	for i := len(m.Blocks) - 1; i >= 0; i-- {
		if b := m.Blocks[i]; b.H <= h && b.Suf != nil {
			return b
		}
	}

	return nil
}

func (m *dbModel) proofBySuffrageHeight(sh base.Height) *dbBlock {
	for i := range m.Blocks {
		if b := m.Blocks[i]; b.Suf != nil && b.SufH == sh {
			return b
		}
	}

	return nil
}

func (m *dbModel) lastProof() *dbBlock {
	for i := len(m.Blocks) - 1; i >= 0; i-- {
		if m.Blocks[i].Suf != nil {
			return m.Blocks[i]
		}
	}

	return nil
}

func (m *dbModel) maxSuffrageHeight() base.Height {
	if b := m.lastProof(); b != nil {
		return b.SufH
	}

	return base.NilHeight
}

func (m *dbModel) policy() base.NetworkPolicy {
	for i := len(m.Blocks) - 1; i >= 0; i-- {
		if m.Blocks[i].Policy != nil {
			return m.Blocks[i].Policy
		}
	}

	return nil
}

func (m *dbModel) suffrageChanges() (n int, heights []base.Height) {
	for _, b := range m.Blocks {
		if b.Suf != nil {
			n++
			heights = append(heights, b.H)
		}
	}

	return n, heights
}

func (m *dbModel) stateKeys() []string {
	set := map[string]struct{}{}
	for _, b := range m.Blocks {
		for k := range b.States {
			set[k] = struct{}{}
		}
	}

	keys := make([]string, 0, len(set))
	for k := range set {
		keys = append(keys, k)
	}

	sort.Strings(keys)

	return keys
}

type dbOpRef struct {
	Op      util.Hash // operation hash (nil for fact-only entries)
	Fact    util.Hash
	InState bool
	H       base.Height
}

func (m *dbModel) inStateFacts() map[string]bool {
	r := map[string]bool{}
	for _, b := range m.Blocks {
		for _, f := range b.InState {
			r[f.String()] = true
		}
	}

	return r
}

func (m *dbModel) knownOps() map[string]bool {
	r := map[string]bool{}
	for _, b := range m.Blocks {
		for _, f := range b.Known {
			r[f.String()] = true
		}
	}

	return r
}

// members / candidates as the model's states say (the generator never asks the database under test)
func (m *dbModel) members() []base.SuffrageNodeStateValue {
	b := m.lastProof()
	if b == nil {
		return nil
	}

	v, err := base.LoadSuffrageNodesStateValue(b.Suf)
	if err != nil {
		return nil
	}

	return v.Nodes()
}

func (m *dbModel) candidates() []base.SuffrageCandidateStateValue {
	st, found := m.state(isaac.SuffrageCandidateStateKey)
	if !found {
		return nil
	}

	cs, err := base.LoadNodesFromSuffrageCandidatesState(st)
	if err != nil {
		return nil
	}

	return cs
}

// ---- world with reopenable storage

type dbEnv struct {
	W              *chain.World
	M              *dbModel
	str            leveldbStorage.Storage // goleveldb storage under W.St; survives close/reopen
	dir            string                 // directory of a file storage ("" for mem)
	Cache          int                    // state cache size of the permanent database and of block-write databases
	PermLast       base.Height            // harness bookkeeping: last height merged into the permanent store
	AllOps         []dbOpRef              // every operation ever put in a block (also of removed blocks)
	seq            int
	opener         func(st *leveldbstorage.Storage) (isaac.PermanentDatabase, *isaacdatabase.Center, error)
	baseGoroutines int
	SettleTimeouts int // settle() waits that hit their bound (speed only)
}

// dbOpen opens permanent database + center like launch.LoadDatabase does, with the state caches production turns on
// (isaac.Params.StateCacheSize, default 4096) when cache > 0.
func dbOpen(e *dbEnv, st *leveldbstorage.Storage, perm isaac.PermanentDatabase) (isaac.PermanentDatabase, *isaacdatabase.Center, error) {
	encs, enc := e.W.Encs, e.W.Enc
	cache := e.Cache

	if perm == nil {
		p, err := isaacdatabase.NewLeveldbPermanent(st, encs, enc, cache)
		if err != nil {
			return nil, nil, err
		}

		perm = p
	}

	db, err := isaacdatabase.NewCenter(st, encs, enc, perm, func(h base.Height) (isaac.BlockWriteDatabase, error) {
		bw := isaacdatabase.NewLeveldbBlockWrite(h, st, encs, enc)
		if cache > 0 {
			bw.SetStateCache(util.NewLFUGCache[string, [2]interface{}](cache)) // launch.NewBlockWriterFunc
		}

		return bw, nil
	})
	if err != nil {
		return nil, nil, err
	}

	return perm, db, nil
}

type dbEnvOpts struct {
	NSuffrage int
	Cache     int
	File      bool
	// NewPerm, if set, builds the permanent database used by the center (C26: a tee over leveldb + redis)
	NewPerm func(e *dbEnv, st *leveldbstorage.Storage) (isaac.PermanentDatabase, error)
}

func dbNewEnv(o dbEnvOpts) (*dbEnv, error) {
	e := &dbEnv{M: &dbModel{}, Cache: o.Cache, PermLast: base.NilHeight}

	switch {
	case o.File:
		dir, err := os.MkdirTemp("", "verif-db")
		if err != nil {
			return nil, err
		}

		e.dir = dir

		str, err := leveldbStorage.OpenFile(dir, false)
		if err != nil {
			return nil, err
		}

		e.str = str
	default:
		e.str = leveldbStorage.NewMemStorage()
	}

	st, err := leveldbstorage.NewStorage(e.str, e.ldbOpts())
	if err != nil {
		return nil, err
	}

	w, err := chain.New(chain.Opts{NSuffrage: o.NSuffrage, Storage: st})
	if err != nil {
		return nil, err
	}

	e.W = w

	e.opener = func(st *leveldbstorage.Storage) (isaac.PermanentDatabase, *isaacdatabase.Center, error) {
		var perm isaac.PermanentDatabase

		if o.NewPerm != nil {
			p, err := o.NewPerm(e, st)
			if err != nil {
				return nil, nil, err
			}

			perm = p
		}

		return dbOpen(e, st, perm)
	}

	// chain.New opened its own (cache-less) center for the genesis block; attach ours to the same storage. The genesis
	// block is still a temp database (the genesis generator's MergeAllPermanent keeps the last one).
	perm, db, err := e.opener(st)
	if err != nil {
		return nil, err
	}

	w.Perm, w.DB = perm, db
	e.baseGoroutines = runtime.NumGoroutine()

	if err := e.record([]base.Operation(nil), []string{"genesis"}); err != nil {
		return nil, err
	}

	return e, nil
}

// ldbOpts: production opens goleveldb with default options (4 MiB write buffer, allocated and cleared on every open); the
// mem-storage cases use a small write buffer so that the many reopens stay cheap. File-storage cases use the defaults.
func (e *dbEnv) ldbOpts() *leveldbOpt.Options {
	if e.dir != "" {
		return nil
	}

	return &leveldbOpt.Options{WriteBuffer: 256 << 10}
}

// settle waits until the goroutines a read left behind are gone. Center.dig (ExistsInStateOperation/ExistsKnownOperation)
// returns as soon as one temp database answers and leaves its other worker goroutines running; closing goleveldb under
// such a straggler panics inside goleveldb (nil table-cache value), which would be the harness closing a store that is
// not quiescent. The wait is bounded and only affects speed: when the count does not come back to the baseline (the
// process legitimately owns more goroutines now) the baseline is raised.
func (e *dbEnv) settle() {
	for i := 0; i < 800; i++ {
		if runtime.NumGoroutine() <= e.baseGoroutines {
			return
		}

		time.Sleep(250 * time.Microsecond)
	}

	// The count did not come back. On a loaded machine the stragglers may simply not have been scheduled yet: as long as a
	// goroutine is still inside the database code (its stack says so) the store is not quiescent and must not be closed.
	for i := 0; i < 4000 && dbStragglers(); i++ {
		time.Sleep(5 * time.Millisecond)
	}

	e.baseGoroutines = runtime.NumGoroutine()
	e.SettleTimeouts++
}

// dbStragglers: some goroutine other than the caller is running code of the center or of the leveldb storage.
func dbStragglers() bool {
	buf := make([]byte, 1<<20)
	buf = buf[:runtime.Stack(buf, true)]

	stacks := bytes.Split(buf, []byte("\n\n"))
	if len(stacks) < 2 {
		return false
	}

	for _, s := range stacks[1:] { // the first one is the calling goroutine
		if bytes.Contains(s, []byte("isaac/database.(*Center).dig")) || bytes.Contains(s, []byte("mitum/storage/leveldb.(*")) {
			return true
		}
	}

	return false
}

func (e *dbEnv) Close() {
	e.settle()
	e.W.Close()
	_ = e.W.St.Close()

	if e.dir != "" {
		_ = os.RemoveAll(e.dir)
	}
}

// Reopen closes the storage and opens it again (same goleveldb storage object for mem, same directory for file).
func (e *dbEnv) Reopen() error {
	e.settle()

	_ = e.W.DB.Close()

	if err := e.W.St.Close(); err != nil {
		return errors.WithMessage(err, "close storage")
	}

	if e.dir != "" {
		str, err := leveldbStorage.OpenFile(e.dir, false)
		if err != nil {
			return errors.WithMessage(err, "open file storage")
		}

		e.str = str
	}

	st, err := leveldbstorage.NewStorage(e.str, e.ldbOpts())
	if err != nil {
		return errors.WithMessage(err, "reopen storage")
	}

	perm, db, err := e.opener(st)
	if err != nil {
		return errors.WithMessage(err, "reopen database")
	}

	e.W.St, e.W.Perm, e.W.DB = st, perm, db
	e.baseGoroutines = runtime.NumGoroutine()

	return nil
}

// record reads the just committed last block from the local fs into the model.
func (e *dbEnv) record(ops []base.Operation, kinds []string) error {
	w := e.W
	bm := w.Last()
	h := bm.Manifest().Height()

	b := &dbBlock{H: h, Map: bm, States: map[string]base.State{}, SufH: base.NilHeight, Kinds: kinds}

	if _, found := bm.Item(base.BlockItemStates); found {
		sts, err := w.BlockStates(h)
		if err != nil {
			return errors.WithMessage(err, "read block states")
		}

		if len(sts) < 1 {
			return errors.Errorf("block %d lists a states item but no state could be read", h)
		}

		for _, st := range sts {
			b.States[st.Key()] = st

			switch {
			case st.Key() == isaac.SuffrageStateKey:
				v, err := base.LoadSuffrageNodesStateValue(st)
				if err != nil {
					return err
				}

				b.Suf, b.SufH = st, v.Height()
			case st.Key() == isaac.NetworkPolicyStateKey:
				v, ok := st.Value().(base.NetworkPolicyStateValue)
				if !ok {
					return errors.Errorf("policy state with %T", st.Value())
				}

				b.Policy = v.Policy()
			}
		}
	}

	if _, found := bm.Item(base.BlockItemOperationsTree); found {
		tr, found, err := w.OperationsTree(h)
		if err != nil || !found {
			return errors.Errorf("operations tree: found=%v %v", found, err)
		}

		if err := tr.Traverse(func(_ uint64, n fixedtree.Node) (bool, error) {
			on, ok := n.(base.OperationFixedtreeNode)
			if !ok {
				return false, errors.Errorf("operations tree node %T", n)
			}

			if on.InState() {
				b.InState = append(b.InState, on.Operation())
			} else {
				b.NotIn = append(b.NotIn, on.Operation())
			}

			return true, nil
		}); err != nil {
			return err
		}
	}

	if h == base.GenesisHeight {
		// the genesis proposal was built by launch.GenesisBlockGenerator: take its operations from the block files
		gops, err := w.BlockOperations(h)
		if err != nil {
			return errors.WithMessage(err, "read genesis operations")
		}

		ops = gops
	}

	ins := map[string]bool{}
	for _, f := range b.InState {
		ins[f.String()] = true
	}

	// known operations of a block = the operations its operations tree records (an operation whose Process() step answers
	// with a reason is dropped by DefaultProposalProcessor.doProcessOperation without any record; it is then part of the
	// proposal but not of the block)
	recorded := map[string]bool{}
	for _, f := range b.InState {
		recorded[f.String()] = true
	}

	for _, f := range b.NotIn {
		recorded[f.String()] = true
	}

	nrec := 0

	for _, op := range ops {
		if recorded[op.Fact().Hash().String()] {
			b.Known = append(b.Known, op.Hash())
			nrec++
		}

		e.AllOps = append(e.AllOps, dbOpRef{Op: op.Hash(), Fact: op.Fact().Hash(), InState: ins[op.Fact().Hash().String()], H: h})
	}

	if nrec != len(recorded) {
		return errors.Errorf("block %d: operations tree has %d nodes, only %d match a proposed operation", h, len(recorded), nrec)
	}

	e.M.Blocks = append(e.M.Blocks, b)

	return nil
}

// NextBlock commits a block through the production path and records it in the model.
func (e *dbEnv) NextBlock(ops []base.Operation, expels []base.SuffrageExpelOperation, kinds []string) error {
	if _, err := e.W.NextBlock(ops, expels, chain.ProcOpts{MaxWorkerSize: 4}); err != nil {
		return err
	}

	return e.record(ops, kinds)
}

// MergeAll = Center.MergeAllPermanent; every temp database but the newest goes to the permanent store.
func (e *dbEnv) MergeAll() error {
	if err := e.W.DB.MergeAllPermanent(); err != nil {
		return err
	}

	if l := e.M.lastHeight() - 1; l > e.PermLast {
		e.PermLast = l
	}

	return nil
}

// dropFrom forgets blocks >= h in the model, the chain builder and the local fs (what launch's removePrevBlockFunc does
// after Center.RemoveBlocks).
func (e *dbEnv) dropFrom(h base.Height) error {
	n := 0
	for n < len(e.M.Blocks) && e.M.Blocks[n].H < h {
		n++
	}

	e.M.Blocks = e.M.Blocks[:n]
	e.W.Maps = e.W.Maps[:n]

	if _, err := isaacblock.RemoveBlocksFromLocalFS(e.W.Root, h); err != nil {
		return errors.WithMessage(err, "remove blocks from local fs")
	}

	// isaac.BlockItemReaders caches the item-file index per height: start with fresh readers or the model would be filled
	// from the index of the removed block
	e.W.Readers.Close()

	e.W.Readers = isaac.NewBlockItemReaders(e.W.Root, e.W.Encs, nil)
	if err := e.W.Readers.Add(isaacblock.LocalFSWriterHint, isaacblock.NewDefaultItemReaderFunc(3)); err != nil {
		return err
	}

	return nil
}

func (e *dbEnv) label(kind string) string {
	e.seq++

	return fmt.Sprintf("%s-%d", kind, e.seq)
}

// ---- drawn blocks

const dbKeyPool = 7

func dbKey(i int) string { return fmt.Sprintf("key%02d", i) }

type dbPlan struct {
	Ops    []base.Operation
	Expels []base.SuffrageExpelOperation
	Kinds  []string
}

func dbLocalOf(a base.Address) base.LocalNode { return gen.LocalByAddress(a) }

// dbDrawBlock draws the content of the next block from what the model says about suffrage and candidates. wantSuffrage
// biases towards a block that changes the suffrage.
func dbDrawBlock(rt *rapid.T, e *dbEnv, big bool) dbPlan {
	var p dbPlan

	members := e.M.members()
	cands := e.M.candidates()
	next := e.M.lastHeight() + 1

	var memberLocals []base.LocalNode
	for _, m := range members {
		memberLocals = append(memberLocals, dbLocalOf(m.Address()))
	}

	isMember := func(a base.Address) bool {
		for _, m := range members {
			if m.Address().Equal(a) {
				return true
			}
		}

		return false
	}

	var liveCands []base.SuffrageCandidateStateValue
	for _, c := range cands {
		if c.Deadline() >= next && !isMember(c.Address()) {
			liveCands = append(liveCands, c)
		}
	}

	kinds := []string{"filler", "filler", "suffrage", "suffrage", "suffrage", "policy", "notinstate", "empty", "mixed"}
	kind := rapid.SampledFrom(kinds).Draw(rt, "blockKind")

	filler := func(n int) {
		var keys, vals []string

		seen := map[int]bool{}
		for i := 0; i < n; i++ {
			k := rapid.IntRange(0, dbKeyPool-1).Draw(rt, "key")
			if seen[k] {
				continue
			}

			seen[k] = true
			keys = append(keys, dbKey(k))
			vals = append(vals, fmt.Sprintf("v%d-%d", next, rapid.IntRange(0, 99).Draw(rt, "val")))
		}

		p.Ops = append(p.Ops, chain.NewFillerOperation(e.label("fill"), keys, vals, gen.Local(9)))
		p.Kinds = append(p.Kinds, fmt.Sprintf("filler%d", len(keys)))
	}

	suffrage := func() {
		// disjoin needs a remaining suffrage; join needs a live candidate; otherwise register a candidate
		var choices []string
		if len(members) > 2 {
			choices = append(choices, "disjoin", "disjoin")
		}

		if len(liveCands) > 0 {
			choices = append(choices, "join", "join", "join")
		}

		if len(members)+len(liveCands) < 7 {
			choices = append(choices, "candidate")
		}

		if len(choices) < 1 {
			filler(1)

			return
		}

		switch rapid.SampledFrom(choices).Draw(rt, "suffrageOp") {
		case "disjoin":
			m := members[rapid.IntRange(0, len(members)-1).Draw(rt, "who")]
			if m.Address().Equal(e.W.Local.Address()) && len(members) > 1 {
				// keep the block signer in the suffrage: take another one
				for _, x := range members {
					if !x.Address().Equal(e.W.Local.Address()) {
						m = x

						break
					}
				}
			}

			p.Ops = append(p.Ops, chain.DisjoinOp(e.label("disjoin"), m.Address(), m.Start(), dbLocalOf(m.Address())))
			p.Kinds = append(p.Kinds, "disjoin")
		case "join":
			c := liveCands[rapid.IntRange(0, len(liveCands)-1).Draw(rt, "who")]
			signers := append([]base.LocalNode{dbLocalOf(c.Address())}, memberLocals...)
			p.Ops = append(p.Ops, chain.JoinOp(e.label("join"), c.Address(), c.Start(), signers))
			p.Kinds = append(p.Kinds, "join")
		default:
			// a node that is neither member nor candidate
			for i := 0; i < 12; i++ {
				n := gen.Local(i)

				used := isMember(n.Address())
				for _, c := range cands {
					if c.Address().Equal(n.Address()) && c.Deadline() >= next {
						used = true
					}
				}

				if !used {
					p.Ops = append(p.Ops, chain.CandidateOp(e.label("cand"), n, n))
					p.Kinds = append(p.Kinds, "candidate")

					return
				}
			}

			filler(1)
		}
	}

	policy := func() {
		pl := isaac.DefaultNetworkPolicy()
		_ = pl.SetMaxOperationsInProposal(uint64(rapid.IntRange(50, 400).Draw(rt, "maxops")))
		_ = pl.SetMaxSuffrageSize(uint64(rapid.IntRange(20, 40).Draw(rt, "maxsuf")))
		p.Ops = append(p.Ops, chain.PolicyOp(e.label("policy"), pl, memberLocals))
		p.Kinds = append(p.Kinds, "policy")
	}

	notInState := func() {
		// join of a node that is no candidate: pre-processed with a reason, recorded in the block, not in state.
		// (An operation whose Process() step answers with a reason is dropped by the proposal processor without any record
		// and a block made only of such operations cannot be built at all - not used here.)
		n := gen.Local(15)
		p.Ops = append(p.Ops, chain.JoinOp(e.label("badjoin"), n.Address(), next, append([]base.LocalNode{n}, memberLocals...)))
		p.Kinds = append(p.Kinds, "badjoin")
	}

	switch kind {
	case "filler":
		filler(rapid.IntRange(1, 4).Draw(rt, "nkeys"))
	case "suffrage":
		suffrage()
	case "policy":
		policy()
	case "notinstate":
		notInState()
	case "empty":
		p.Kinds = append(p.Kinds, "empty")
	default:
		filler(rapid.IntRange(1, 3).Draw(rt, "nkeys"))
		suffrage()

		if rapid.Bool().Draw(rt, "withBad") {
			notInState()
		}
	}

	if big {
		// more keys than one permanent-merge batch (333) and one block-write batch (128)
		var keys, vals []string
		for i := 0; i < 350; i++ {
			keys = append(keys, fmt.Sprintf("big%03d", i))
			vals = append(vals, fmt.Sprintf("b%d-%d", next, i))
		}

		p.Ops = append(p.Ops, chain.NewFillerOperation(e.label("big"), keys, vals, gen.Local(9)))
		p.Kinds = append(p.Kinds, "big350")
	}

	return p
}

// ---- reads

// dbReader is the read side shared by isaac.Database (the center) and isaac.PermanentDatabase.
type dbReader interface {
	BlockMap(base.Height) (base.BlockMap, bool, error)
	BlockMapBytes(base.Height) (string, []byte, []byte, bool, error)
	LastBlockMap() (base.BlockMap, bool, error)
	LastBlockMapBytes() (string, []byte, []byte, bool, error)
	LastSuffrageProof() (base.SuffrageProof, bool, error)
	SuffrageProof(base.Height) (base.SuffrageProof, bool, error)
	SuffrageProofBytes(base.Height) (string, []byte, []byte, bool, error)
	SuffrageProofByBlockHeight(base.Height) (base.SuffrageProof, bool, error)
	LastNetworkPolicy() base.NetworkPolicy
	State(string) (base.State, bool, error)
	StateBytes(string) (string, []byte, []byte, bool, error)
	ExistsInStateOperation(util.Hash) (bool, error)
	ExistsKnownOperation(util.Hash) (bool, error)
}

func dbLastSuffrageProofBytes(rd dbReader) (enchint string, meta, body []byte, found bool, lastheight base.Height, err error) {
	switch x := rd.(type) {
	case interface {
		LastSuffrageProofBytes() (string, []byte, []byte, bool, base.Height, error)
	}:
		return x.LastSuffrageProofBytes()
	case interface {
		LastSuffrageProofBytes() (string, []byte, []byte, bool, error)
	}:
		enchint, meta, body, found, err = x.LastSuffrageProofBytes()

		return enchint, meta, body, found, base.NilHeight - 1, err
	default:
		return "", nil, nil, false, base.NilHeight, errors.Errorf("no LastSuffrageProofBytes on %T", rd)
	}
}

func dbProofID(p base.SuffrageProof) string {
	if p == nil {
		return "<nil>"
	}

	return fmt.Sprintf("block=%d manifest=%s state=%s sufheight=%d", p.Map().Manifest().Height(), p.Map().Manifest().Hash(), p.State().Hash(), p.SuffrageHeight())
}

func dbWantProofID(b *dbBlock) string {
	if b == nil {
		return "<not found>"
	}

	return fmt.Sprintf("block=%d manifest=%s state=%s sufheight=%d", b.H, b.Map.Manifest().Hash(), b.Suf.Hash(), b.SufH)
}

func dbStateID(st base.State) string {
	if st == nil {
		return "<nil>"
	}

	return fmt.Sprintf("%s@%d hash=%s", st.Key(), st.Height(), st.Hash())
}

// dbReadCtx says where the reads go and what the harness knows about the store layout (only used to name root causes and
// to classify cases; never for the expected answers).
type dbReadCtx struct {
	What      string      // "center" | "leveldb-perm" | "redis-perm"
	OldestTmp base.Height // oldest temp height (NilHeight: no temps / not a center)
	Reopened  bool        // the store was reopened since the last merge or block
	Extra     []util.Hash // extra hashes that no block contains
	AllOps    []dbOpRef
}

type dbReadStats struct {
	Reads            int
	BelowTemps       int // by-block-height queries below the oldest temp
	BetweenChanges   int // by-block-height queries strictly between two suffrage changes
	AbsentKeys       int
	OverwrittenKeys  int
	BeyondMaxSufQ    int
	ProofInPermQuery int
}

// dbCheckReads compares every read of rd with model m. viol reports a violation (root-cause signature, message).
func dbCheckReads(rd dbReader, m *dbModel, encs dbDecoder, c dbReadCtx, viol func(sig, format string, a ...any)) dbReadStats {
	var s dbReadStats

	last := m.lastHeight()
	what := c.What

	fail := func(sig string, err error, format string, a ...any) {
		viol(sig, "%s: %s: unexpected error: %v", what, fmt.Sprintf(format, a...), err)
	}

	// --- block maps
	for h := base.GenesisHeight - 1; h <= last+1; h++ {
		s.Reads += 2

		var want base.BlockMap
		if h >= base.GenesisHeight && h <= last {
			want = m.Blocks[h].Map
		}

		switch got, found, err := rd.BlockMap(h); {
		case err != nil:
			fail("blockmap-read-error", err, "BlockMap(%d)", h)
		case found != (want != nil):
			viol("blockmap-found", "%s: BlockMap(%d) found=%v, committed chain has last=%d", what, h, found, last)
		case found && !got.Manifest().Hash().Equal(want.Manifest().Hash()):
			viol("blockmap-mismatch", "%s: BlockMap(%d) returned manifest %s of height %d, committed %s", what, h, got.Manifest().Hash(), got.Manifest().Height(), want.Manifest().Hash())
		}

		switch enchint, _, body, found, err := rd.BlockMapBytes(h); {
		case err != nil:
			fail("blockmap-read-error", err, "BlockMapBytes(%d)", h)
		case found != (want != nil):
			viol("blockmap-found", "%s: BlockMapBytes(%d) found=%v, committed chain has last=%d", what, h, found, last)
		case found:
			var got base.BlockMap
			if err := encs.decodeBlockMap(enchint, body, &got); err != nil {
				viol("blockmap-bytes-undecodable", "%s: BlockMapBytes(%d) body (%d bytes, enc %q) does not decode: %v", what, h, len(body), enchint, err)
			} else if !got.Manifest().Hash().Equal(want.Manifest().Hash()) {
				viol("blockmap-mismatch", "%s: BlockMapBytes(%d) holds manifest %s, committed %s", what, h, got.Manifest().Hash(), want.Manifest().Hash())
			}
		}
	}

	s.Reads += 2

	switch got, found, err := rd.LastBlockMap(); {
	case err != nil:
		fail("blockmap-read-error", err, "LastBlockMap")
	case found != (last >= base.GenesisHeight):
		viol("last-blockmap", "%s: LastBlockMap found=%v, committed last=%d", what, found, last)
	case found && !got.Manifest().Hash().Equal(m.last().Map.Manifest().Hash()):
		viol("last-blockmap", "%s: LastBlockMap is height %d (%s), committed last is %d (%s)", what, got.Manifest().Height(), got.Manifest().Hash(), last, m.last().Map.Manifest().Hash())
	}

	switch enchint, _, body, found, err := rd.LastBlockMapBytes(); {
	case err != nil:
		fail("blockmap-read-error", err, "LastBlockMapBytes")
	case found != (last >= base.GenesisHeight):
		viol("last-blockmap", "%s: LastBlockMapBytes found=%v, committed last=%d", what, found, last)
	case found:
		var got base.BlockMap
		if err := encs.decodeBlockMap(enchint, body, &got); err != nil {
			viol("blockmap-bytes-undecodable", "%s: LastBlockMapBytes body (%d bytes) does not decode: %v", what, len(body), err)
		} else if !got.Manifest().Hash().Equal(m.last().Map.Manifest().Hash()) {
			viol("last-blockmap", "%s: LastBlockMapBytes holds height %d, committed last is %d", what, got.Manifest().Height(), last)
		}
	}

	// --- suffrage proofs
	nchanges, changeHeights := m.suffrageChanges()
	_ = nchanges

	wantLast := m.lastProof()

	s.Reads += 2

	switch got, found, err := rd.LastSuffrageProof(); {
	case err != nil:
		fail("proof-read-error", err, "LastSuffrageProof")
	case found != (wantLast != nil) || (found && dbProofID(got) != dbWantProofID(wantLast)):
		viol("last-proof", "%s: LastSuffrageProof found=%v %s, committed chain says %s", what, found, dbProofID(got), dbWantProofID(wantLast))
	}

	switch enchint, _, body, found, lh, err := dbLastSuffrageProofBytes(rd); {
	case err != nil:
		fail("proof-read-error", err, "LastSuffrageProofBytes")
	case found != (wantLast != nil):
		viol("last-proof", "%s: LastSuffrageProofBytes found=%v, committed chain says %s", what, found, dbWantProofID(wantLast))
	case found:
		var got base.SuffrageProof

		switch err := encs.decodeProof(enchint, body, &got); {
		case err != nil && len(body) < 1:
			viol("last-proof-bytes-empty-body", "%s: LastSuffrageProofBytes returned found=true with an empty body (enc %q); the last proof is %s (reopened=%v)", what, enchint, dbWantProofID(wantLast), c.Reopened)
		case err != nil:
			viol("proof-bytes-undecodable", "%s: LastSuffrageProofBytes body (%d bytes) does not decode: %v", what, len(body), err)
		case dbProofID(got) != dbWantProofID(wantLast):
			viol("last-proof", "%s: LastSuffrageProofBytes holds %s, committed chain says %s", what, dbProofID(got), dbWantProofID(wantLast))
		}

		if lh != base.NilHeight-1 && lh != last {
			viol("last-proof-lastheight", "%s: LastSuffrageProofBytes reports last height %d, committed last is %d", what, lh, last)
		}
	}

	maxsh := m.maxSuffrageHeight()

	for sh := base.GenesisHeight - 1; sh <= maxsh+2; sh++ {
		s.Reads += 2

		want := m.proofBySuffrageHeight(sh)
		if sh > maxsh {
			s.BeyondMaxSufQ++
		}

		if want != nil && c.OldestTmp > base.NilHeight && want.H < c.OldestTmp {
			s.ProofInPermQuery++
		}

		sig := "proof-by-suffrage-height"
		if want == nil && sh > maxsh {
			sig = "proof-by-suffrage-height-beyond-last"
		}

		switch got, found, err := rd.SuffrageProof(sh); {
		case err != nil:
			fail("proof-read-error", err, "SuffrageProof(%d)", sh)
		case found != (want != nil) || (found && dbProofID(got) != dbWantProofID(want)):
			viol(sig, "%s: SuffrageProof(suffrage height %d) found=%v %s, committed chain says %s (max suffrage height %d)", what, sh, found, dbProofID(got), dbWantProofID(want), maxsh)
		}

		switch enchint, _, body, found, err := rd.SuffrageProofBytes(sh); {
		case err != nil:
			fail("proof-read-error", err, "SuffrageProofBytes(%d)", sh)
		case found != (want != nil):
			viol(sig, "%s: SuffrageProofBytes(suffrage height %d) found=%v, committed chain says %s (max suffrage height %d)", what, sh, found, dbWantProofID(want), maxsh)
		case found:
			var got base.SuffrageProof

			switch err := encs.decodeProof(enchint, body, &got); {
			case err != nil && len(body) < 1:
				viol("last-proof-bytes-empty-body", "%s: SuffrageProofBytes(%d) returned found=true with an empty body; the proof is %s (reopened=%v)", what, sh, dbWantProofID(want), c.Reopened)
			case err != nil:
				viol("proof-bytes-undecodable", "%s: SuffrageProofBytes(%d) body (%d bytes) does not decode: %v", what, sh, len(body), err)
			case dbProofID(got) != dbWantProofID(want):
				viol(sig, "%s: SuffrageProofBytes(suffrage height %d) holds %s, committed chain says %s", what, sh, dbProofID(got), dbWantProofID(want))
			}
		}
	}

	for h := base.GenesisHeight; h <= last+1; h++ {
		s.Reads++

		want := m.proofByBlockHeight(h)

		below := c.OldestTmp > base.NilHeight && h < c.OldestTmp
		if below {
			s.BelowTemps++
		}

		if len(changeHeights) > 1 && h > changeHeights[0] && h < changeHeights[len(changeHeights)-1] {
			between := true
			for _, ch := range changeHeights {
				if ch == h {
					between = false
				}
			}

			if between {
				s.BetweenChanges++
			}
		}

		sig := "proof-by-block-height"
		if below {
			sig = "proof-by-block-height-below-temps"
		}

		switch got, found, err := rd.SuffrageProofByBlockHeight(h); {
		case err != nil:
			fail("proof-read-error", err, "SuffrageProofByBlockHeight(%d)", h)
		case found != (want != nil) || (found && dbProofID(got) != dbWantProofID(want)):
			viol(sig, "%s: SuffrageProofByBlockHeight(%d) found=%v %s, committed chain says %s (suffrage changed at blocks %v, last=%d, oldest temp=%d)",
				what, h, found, dbProofID(got), dbWantProofID(want), changeHeights, last, c.OldestTmp)
		}
	}

	// --- network policy
	s.Reads++

	switch got, want := rd.LastNetworkPolicy(), m.policy(); {
	case (got == nil) != (want == nil):
		viol("policy", "%s: LastNetworkPolicy nil=%v, committed chain nil=%v", what, got == nil, want == nil)
	case got != nil && !bytes.Equal(got.HashBytes(), want.HashBytes()):
		viol("policy", "%s: LastNetworkPolicy differs from the last committed policy: max operations %d vs %d", what, got.MaxOperationsInProposal(), want.MaxOperationsInProposal())
	}

	// --- states
	keys := m.stateKeys()
	present := map[string]bool{}

	for _, k := range keys {
		present[k] = true
	}

	for i := 0; i < dbKeyPool; i++ {
		if k := dbKey(i); !present[k] {
			keys = append(keys, k)
		}
	}

	keys = append(keys, "never-written-key", isaac.SuffrageCandidateStateKey)

	nbig := 0

	for _, k := range keys {
		if strings.HasPrefix(k, "big") {
			if nbig++; nbig%37 != 1 {
				continue
			}
		}

		s.Reads += 2

		want, wfound := m.state(k)
		if !wfound {
			s.AbsentKeys++
		} else if want.Previous() != nil {
			s.OverwrittenKeys++
		}

		switch got, found, err := rd.State(k); {
		case err != nil:
			fail("state-read-error", err, "State(%q)", k)
		case found != wfound:
			viol("state-found", "%s: State(%q) found=%v, committed chain found=%v (%s)", what, k, found, wfound, dbStateID(want))
		case found && (!got.Hash().Equal(want.Hash()) || got.Height() != want.Height()):
			sig := "state-mismatch"
			if got.Height() < want.Height() {
				sig = "state-stale"
			}

			viol(sig, "%s: State(%q) returned %s, committed chain has %s", what, k, dbStateID(got), dbStateID(want))
		}

		switch enchint, _, body, found, err := rd.StateBytes(k); {
		case err != nil:
			fail("state-read-error", err, "StateBytes(%q)", k)
		case found != wfound:
			viol("state-found", "%s: StateBytes(%q) found=%v, committed chain found=%v", what, k, found, wfound)
		case found:
			var got base.State
			if err := encs.decodeState(enchint, body, &got); err != nil {
				viol("state-bytes-undecodable", "%s: StateBytes(%q) body (%d bytes) does not decode: %v", what, k, len(body), err)
			} else if !got.Hash().Equal(want.Hash()) || got.Height() != want.Height() {
				sig := "state-mismatch"
				if got.Height() < want.Height() {
					sig = "state-stale"
				}

				viol(sig, "%s: StateBytes(%q) holds %s, committed chain has %s", what, k, dbStateID(got), dbStateID(want))
			}
		}
	}

	// --- operations
	ins, known := m.inStateFacts(), m.knownOps()

	for _, op := range c.AllOps {
		s.Reads += 2

		switch got, err := rd.ExistsInStateOperation(op.Fact); {
		case err != nil:
			fail("operation-read-error", err, "ExistsInStateOperation(%s)", op.Fact)
		case got != ins[op.Fact.String()]:
			viol("instate-operation", "%s: ExistsInStateOperation(fact %s of block %d) = %v, committed chain says %v", what, op.Fact, op.H, got, ins[op.Fact.String()])
		}

		switch got, err := rd.ExistsKnownOperation(op.Op); {
		case err != nil:
			fail("operation-read-error", err, "ExistsKnownOperation(%s)", op.Op)
		case got != known[op.Op.String()]:
			viol("known-operation", "%s: ExistsKnownOperation(operation %s of block %d) = %v, committed chain says %v", what, op.Op, op.H, got, known[op.Op.String()])
		}

		// an operation hash is not a fact hash and vice versa
		if got, err := rd.ExistsInStateOperation(op.Op); err == nil && got && !ins[op.Op.String()] {
			viol("instate-operation", "%s: ExistsInStateOperation(operation hash %s) = true, but no such fact is in state", what, op.Op)
		}
	}

	for _, h := range c.Extra {
		s.Reads += 2

		if got, err := rd.ExistsInStateOperation(h); err != nil || got {
			viol("instate-operation", "%s: ExistsInStateOperation(unknown %s) = %v %v", what, h, got, err)
		}

		if got, err := rd.ExistsKnownOperation(h); err != nil || got {
			viol("known-operation", "%s: ExistsKnownOperation(unknown %s) = %v %v", what, h, got, err)
		}
	}

	return s
}

// dbDecoder decodes the *Bytes answers with the same frame decoder the network handlers' clients use.
type dbDecoder struct {
	e *dbEnv
}

func (d dbDecoder) decodeBlockMap(enchint string, body []byte, v *base.BlockMap) error {
	return isaacdatabase.DecodeFrame(d.e.W.Encs, enchint, body, v)
}

func (d dbDecoder) decodeProof(enchint string, body []byte, v *base.SuffrageProof) error {
	if len(body) < 1 {
		return errors.Errorf("empty body")
	}

	return isaacdatabase.DecodeFrame(d.e.W.Encs, enchint, body, v)
}

func (d dbDecoder) decodeState(enchint string, body []byte, v *base.State) error {
	return isaacdatabase.DecodeFrame(d.e.W.Encs, enchint, body, v)
}

// oldestTemp is the harness' view of the center layout: blocks above PermLast are temps.
func (e *dbEnv) oldestTemp() base.Height {
	if e.PermLast >= e.M.lastHeight() {
		return base.NilHeight
	}

	return e.PermLast + 1
}

func (e *dbEnv) centerCtx(reopened bool) dbReadCtx {
	return dbReadCtx{What: "center", OldestTmp: e.oldestTemp(), Reopened: reopened, AllOps: e.AllOps,
		Extra: []util.Hash{gen.H("no-such-operation"), gen.H("no-such-operation-2")}}
}

// dbViol adapts ev.Rec.Violation.
func dbViol(t ev.TB, r *ev.Rec, hist func() string) func(sig, format string, a ...any) {
	return func(sig, format string, a ...any) {
		r.Violation(t, sig, "%s\nhistory: %s", fmt.Sprintf(format, a...), hist())
	}
}

// ---- snapshots (C20, C26): every read rendered to bytes, in a fixed order

type dbSnapEntry struct {
	Name  string
	Value []byte
}

type dbSnap []dbSnapEntry

func (s *dbSnap) add(name string, v []byte) { *s = append(*s, dbSnapEntry{Name: name, Value: v}) }

func dbBytesTriple(enchint string, meta, body []byte, found bool, err error) []byte {
	if err != nil {
		return []byte("error: " + err.Error())
	}

	if !found {
		return []byte("<not found>")
	}

	return []byte(fmt.Sprintf("enc=%q meta=%x body(%d)=%s", enchint, meta, len(body), body))
}

func (e *dbEnv) marshal(v any, found bool, err error) []byte {
	if err != nil {
		return []byte("error: " + err.Error())
	}

	if !found {
		return []byte("<not found>")
	}

	b, err := e.W.Enc.Marshal(v)
	if err != nil {
		return []byte("marshal error: " + err.Error())
	}

	// the encoder does not sort the keys of Go maps (e.g. the items of a block map): canonical form = keys sorted
	var x any

	d := json.NewDecoder(bytes.NewReader(b))
	d.UseNumber()

	if err := d.Decode(&x); err != nil {
		return b
	}

	if c, err := json.Marshal(x); err == nil {
		return c
	}

	return b
}

// dbSnapshotReads renders every read of rd (object reads re-encoded with the JSON encoder, *Bytes reads raw).
// lastHeight/maxSuf/keys/ops say what to ask for; they come from the model.
func dbSnapshotReads(e *dbEnv, prefix string, rd dbReader, m *dbModel, ops []dbOpRef) dbSnap {
	var s dbSnap

	last := m.lastHeight()

	bm, found, err := rd.LastBlockMap()
	s.add(prefix+"LastBlockMap", e.marshal(bm, found, err))
	s.add(prefix+"LastBlockMapBytes", dbBytesTriple(rd.LastBlockMapBytes()))

	for h := base.GenesisHeight; h <= last+1; h++ {
		bm, found, err := rd.BlockMap(h)
		s.add(fmt.Sprintf("%sBlockMap(%d)", prefix, h), e.marshal(bm, found, err))
		s.add(fmt.Sprintf("%sBlockMapBytes(%d)", prefix, h), dbBytesTriple(rd.BlockMapBytes(h)))
	}

	proof, found, err := rd.LastSuffrageProof()
	s.add(prefix+"LastSuffrageProof", e.marshal(proof, found, err))

	{
		enchint, meta, body, found, lh, err := dbLastSuffrageProofBytes(rd)
		s.add(prefix+"LastSuffrageProofBytes", append(dbBytesTriple(enchint, meta, body, found, err), []byte(fmt.Sprintf(" lastheight=%d", lh))...))
	}

	for sh := base.GenesisHeight; sh <= m.maxSuffrageHeight()+1; sh++ {
		proof, found, err := rd.SuffrageProof(sh)
		s.add(fmt.Sprintf("%sSuffrageProof(%d)", prefix, sh), e.marshal(proof, found, err))
		s.add(fmt.Sprintf("%sSuffrageProofBytes(%d)", prefix, sh), dbBytesTriple(rd.SuffrageProofBytes(sh)))
	}

	for h := base.GenesisHeight; h <= last+1; h++ {
		proof, found, err := rd.SuffrageProofByBlockHeight(h)
		s.add(fmt.Sprintf("%sSuffrageProofByBlockHeight(%d)", prefix, h), e.marshal(proof, found, err))
	}

	policy := rd.LastNetworkPolicy()
	s.add(prefix+"LastNetworkPolicy", e.marshal(policy, policy != nil, nil))

	keys := append(m.stateKeys(), "never-written-key")
	nbig := 0

	for _, k := range keys {
		if strings.HasPrefix(k, "big") {
			if nbig++; nbig%37 != 1 {
				continue
			}
		}

		st, found, err := rd.State(k)
		s.add(fmt.Sprintf("%sState(%s)", prefix, k), e.marshal(st, found, err))
		s.add(fmt.Sprintf("%sStateBytes(%s)", prefix, k), dbBytesTriple(rd.StateBytes(k)))
	}

	for _, op := range ops {
		a, err := rd.ExistsInStateOperation(op.Fact)
		s.add(fmt.Sprintf("%sExistsInStateOperation(%s)", prefix, op.Fact), []byte(fmt.Sprint(a, err)))
		b, err := rd.ExistsKnownOperation(op.Op)
		s.add(fmt.Sprintf("%sExistsKnownOperation(%s)", prefix, op.Op), []byte(fmt.Sprint(b, err)))
	}

	return s
}

// dbSnapDiff returns the first entry that differs (by position and name, then value).
func dbSnapDiff(a, b dbSnap) (name string, va, vb []byte, differ bool) {
	for i := 0; i < len(a) && i < len(b); i++ {
		if a[i].Name != b[i].Name {
			return a[i].Name + " / " + b[i].Name, []byte("<entry>"), []byte("<other entry>"), true
		}

		if !bytes.Equal(a[i].Value, b[i].Value) {
			return a[i].Name, a[i].Value, b[i].Value, true
		}
	}

	if len(a) != len(b) {
		return "<length>", []byte(fmt.Sprint(len(a))), []byte(fmt.Sprint(len(b))), true
	}

	return "", nil, nil, false
}

func dbShort(b []byte) string {
	if len(b) <= 220 {
		return string(b)
	}

	return fmt.Sprintf("%s...(%d bytes)...%s", b[:140], len(b), b[len(b)-60:])
}

// dbDiffCtx renders both values around their first differing byte.
func dbDiffCtx(a, b []byte) string {
	i := 0
	for i < len(a) && i < len(b) && a[i] == b[i] {
		i++
	}

	cut := func(x []byte) string {
		lo, hi := i-70, i+110
		if lo < 0 {
			lo = 0
		}

		if hi > len(x) {
			hi = len(x)
		}

		if lo > hi {
			lo = hi
		}

		return fmt.Sprintf("(%d bytes) ...%s...", len(x), x[lo:hi])
	}

	return fmt.Sprintf("first difference at byte %d\n  before: %s\n  after : %s", i, cut(a), cut(b))
}
