package p_db

import (
	"context"
	"testing"

	"github.com/redis/go-redis/v9"
	"github.com/spikeekips/mitum/base"
	"github.com/spikeekips/mitum/isaac"
	isaacdatabase "github.com/spikeekips/mitum/isaac/database"
	leveldbstorage "github.com/spikeekips/mitum/storage/leveldb"
	redisstorage "github.com/spikeekips/mitum/storage/redis"
	"verif/internal/chain"
)

func TestZZRedisCenter(t *testing.T) {
	srv, err := c26Redis()
	if err != nil {
		t.Fatal(err)
	}

	e, err := dbNewEnv(dbEnvOpts{NSuffrage: 3, Cache: 4096, NewPerm: func(e *dbEnv, st *leveldbstorage.Storage) (isaac.PermanentDatabase, error) {
		rst, err := redisstorage.NewStorage(context.Background(), &redis.Options{Network: "tcp", Addr: srv.Addr()}, "zz-center")
		if err != nil {
			return nil, err
		}

		return isaacdatabase.NewRedisPermanent(rst, e.W.Encs, e.W.Enc, e.Cache)
	}})
	if err != nil {
		t.Fatalf("%+v", err)
	}
	defer e.Close()

	var members []base.LocalNode
	for _, m := range e.M.members() {
		members = append(members, dbLocalOf(m.Address()))
	}

	must := func(err error) {
		if err != nil {
			t.Fatalf("%+v", err)
		}
	}

	must(e.NextBlock(nil, nil, nil)) // 1
	must(e.MergeAll())               // perm <= 0 (genesis policy)
	pl := isaac.DefaultNetworkPolicy()
	_ = pl.SetMaxOperationsInProposal(77)
	must(e.NextBlock([]base.Operation{chain.PolicyOp("p", pl, members)}, nil, nil)) // 2: policy change
	must(e.Reopen())                                                                   // restart: redis perm caches the policy state of block 0
	must(e.NextBlock(nil, nil, nil))                                                   // 3
	must(e.MergeAll())                                                                 // perm <= 2

	st, found, err := e.W.DB.State(isaac.NetworkPolicyStateKey)
	want, _ := e.M.state(isaac.NetworkPolicyStateKey)
	t.Logf("Center.State(network_policy): found=%v err=%v height=%d; committed chain: height=%d", found, err, st.Height(), want.Height())
	t.Logf("LastNetworkPolicy max ops = %d", e.W.DB.LastNetworkPolicy().MaxOperationsInProposal())
}
