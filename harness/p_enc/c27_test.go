package p_enc

import (
	"bytes"
	"encoding/json"
	"fmt"
	"net/url"
	"reflect"
	"sort"
	"strings"
	"testing"
	"time"

	"github.com/spikeekips/mitum/base"
	"github.com/spikeekips/mitum/isaac"
	isaacnetwork "github.com/spikeekips/mitum/isaac/network"
	isaacoperation "github.com/spikeekips/mitum/isaac/operation"
	isaacstates "github.com/spikeekips/mitum/isaac/states"
	"github.com/spikeekips/mitum/launch"
	"github.com/spikeekips/mitum/network/quicmemberlist"
	"github.com/spikeekips/mitum/network/quicstream"
	quicstreamheader "github.com/spikeekips/mitum/network/quicstream/header"
	"github.com/spikeekips/mitum/util"
	"github.com/spikeekips/mitum/util/fixedtree"
	"github.com/spikeekips/mitum/util/hint"
	"pgregory.net/rapid"
	"verif/internal/ev"
	"verif/internal/gen"
)

// ---------------------------------------------------------------------------------------------------------------------
// catalog: one entry per registered hint (some hints have several construction paths)

type c27Entry struct {
	Name string
	Gen  func(rt *rapid.T) encObj
}

func c27Obj(kind string, v any, variant string, nontrivial bool, want *bool) encObj {
	return encObj{V: v, Kind: kind, Variant: variant, Nontrivial: nontrivial, WantValid: want}
}

func c27MustJSON(v any) []byte {
	b, err := util.MarshalJSON(v)
	if err != nil {
		panic(err)
	}

	return b
}

// c27Crafted builds an object whose constructor is unexported by decoding a JSON document assembled from properly
// marshaled parts (the way a peer would deliver it). A decode error here is a harness error.
func c27Crafted(rt *rapid.T, ht hint.Hint, fields map[string]any) any {
	_, enc := gen.Encoders()

	m := map[string]json.RawMessage{"_hint": c27MustJSON(ht.String())}
	for k, v := range fields {
		if raw, ok := v.(json.RawMessage); ok {
			m[k] = raw

			continue
		}

		m[k] = c27MustJSON(v)
	}

	b := c27MustJSON(m)

	v, err := enc.Decode(b)
	if err != nil {
		rt.Fatalf("harness: crafted %s does not decode: %+v\n%s", ht, err, b)
	}

	return v
}

func c27Catalog() []c27Entry {
	var cat []c27Entry
	add := func(name string, g func(rt *rapid.T) encObj) { cat = append(cat, c27Entry{Name: name, Gen: g}) }

	// ---- ballot facts (stand-alone)
	for _, k := range []encFactKind{encFactINIT, encFactSuffrageConfirm, encFactEmptyProposal} {
		k := k
		add(encFactKindNames[k]+"-ballot-fact", func(rt *rapid.T) encObj {
			point := encPoint(rt, 0)
			nx := 0
			if k != encFactEmptyProposal {
				nx = rapid.IntRange(0, 2).Draw(rt, "nExpelFacts")
			}

			if k == encFactSuffrageConfirm && nx == 0 && rapid.IntRange(0, 3).Draw(rt, "keepEmpty") != 0 {
				nx = 1
			}

			expels, _, xd := encExpels(rt, point.Height(), nx)
			f := encINITFact(k, point, encHash(rt, "prev"), encHash(rt, "proposal"), gen.ExpelFactHashes(expels))
			valid := !(k == encFactSuffrageConfirm && nx == 0)

			return c27Obj(encFactKindNames[k]+"-ballot-fact", f, fmt.Sprintf("%v %s", point, xd), nx > 0 || k == encFactEmptyProposal, &valid)
		})
	}

	for _, k := range []encFactKind{encFactACCEPT, encFactEmptyOperations, encFactNotProcessed} {
		k := k
		add(encFactKindNames[k]+"-ballot-fact", func(rt *rapid.T) encObj {
			point := encPoint(rt, 0)
			nx := 0
			if k == encFactACCEPT {
				nx = rapid.IntRange(0, 2).Draw(rt, "nExpelFacts")
			}

			expels, _, xd := encExpels(rt, point.Height(), nx)
			f := encACCEPTFact(k, point, encHash(rt, "proposal"), encHash(rt, "newblock"), gen.ExpelFactHashes(expels))

			return c27Obj(encFactKindNames[k]+"-ballot-fact", f, fmt.Sprintf("%v %s", point, xd), nx > 0 || k != encFactACCEPT, encTrue())
		})
	}

	// ---- ballot sign facts
	add("init-ballot-sign-fact", func(rt *rapid.T) encObj {
		k := rapid.SampledFrom([]encFactKind{encFactINIT, encFactSuffrageConfirm, encFactEmptyProposal}).Draw(rt, "factKind")
		point := encPoint(rt, 1)
		nx := 0
		if k == encFactSuffrageConfirm {
			nx = rapid.IntRange(1, 2).Draw(rt, "nExpelFacts")
		} else if k == encFactINIT {
			nx = rapid.IntRange(0, 2).Draw(rt, "nExpelFacts")
		}

		expels, _, xd := encExpels(rt, point.Height(), nx)
		f := encINITFact(k, point, encHash(rt, "prev"), encHash(rt, "proposal"), gen.ExpelFactHashes(expels))
		s := encNodeIdx(rt, "signer")

		return c27Obj("init-ballot-sign-fact", gen.SignINIT(f, gen.Local(s)), fmt.Sprintf("%s %v %s s%d", encFactKindNames[k], point, xd, s),
			k != encFactINIT || nx > 0, encTrue())
	})
	add("accept-ballot-sign-fact", func(rt *rapid.T) encObj {
		k := rapid.SampledFrom([]encFactKind{encFactACCEPT, encFactEmptyOperations, encFactNotProcessed}).Draw(rt, "factKind")
		point := encPoint(rt, 1)
		nx := 0
		if k == encFactACCEPT {
			nx = rapid.IntRange(0, 2).Draw(rt, "nExpelFacts")
		}

		expels, _, xd := encExpels(rt, point.Height(), nx)
		f := encACCEPTFact(k, point, encHash(rt, "proposal"), encHash(rt, "newblock"), gen.ExpelFactHashes(expels))
		s := encNodeIdx(rt, "signer")

		return c27Obj("accept-ballot-sign-fact", gen.SignACCEPT(f, gen.Local(s)), fmt.Sprintf("%s %v %s s%d", encFactKindNames[k], point, xd, s),
			k != encFactACCEPT || nx > 0, encTrue())
	})

	// ---- voteproofs
	for _, mode := range []string{"majority+draw", "expel", "stuck"} {
		mode := mode
		add("init-voteproof:"+mode, func(rt *rapid.T) encObj {
			m := mode
			if m == "majority+draw" {
				m = rapid.SampledFrom([]string{"majority", "draw"}).Draw(rt, "vpMode")
			}

			vp := encINITVoteproof(rt, encPoint(rt, 1), m, encHash(rt, "prev"), encHash(rt, "proposal"))

			return c27Obj(vp.Kind, vp.VP, vp.Desc, m != "majority", encTrue())
		})
		add("accept-voteproof:"+mode, func(rt *rapid.T) encObj {
			m := mode
			if m == "majority+draw" {
				m = rapid.SampledFrom([]string{"majority", "draw"}).Draw(rt, "vpMode")
			}

			vp := encACCEPTVoteproof(rt, encPoint(rt, 1), m, encHash(rt, "proposal"), encHash(rt, "newblock"))

			return c27Obj(vp.Kind, vp.VP, vp.Desc, m != "majority", encTrue())
		})
	}

	// invalid-but-well-formed voteproofs (validity must survive the round trip in both directions)
	add("voteproof:invalid", func(rt *rapid.T) encObj {
		point := encPoint(rt, 1)
		prev, proposal := encHash(rt, "prev"), encHash(rt, "proposal")

		switch rapid.IntRange(0, 3).Draw(rt, "invalidHow") {
		case 0: // an expelled node voted
			expels, targets, xd := encExpels(rt, point.Height(), 1)
			fact := isaac.NewINITBallotFact(point, prev, proposal, gen.ExpelFactHashes(expels))
			voters := encSubset(rt, "voters", 2, encNodes, nil)

			var t int
			for t = range targets {
			}

			found := false
			for _, v := range voters {
				found = found || v == t
			}

			if !found {
				voters = append(voters, t)
			}

			vp := gen.FullINITVoteproof(fact, encLocals(voters), base.Threshold(67), expels)

			return c27Obj("init-expel-voteproof", vp, "invalid expelled-voted "+xd, true, encFalse())
		case 1: // not finished
			fact := isaac.NewACCEPTBallotFact(point, proposal, encHash(rt, "newblock"), nil)
			vp := isaac.NewACCEPTVoteproof(point)
			_ = vp.SetMajority(fact).SetSignFacts([]base.BallotSignFact{gen.SignACCEPT(fact, gen.Local(0))}).SetThreshold(base.Threshold(67))

			return c27Obj("accept-voteproof", vp, "invalid not-finished", true, encFalse())
		case 2: // signed for another network
			fact := isaac.NewINITBallotFact(point, prev, proposal, nil)
			sf := isaac.NewINITBallotSignFact(fact)
			n := gen.Local(encNodeIdx(rt, "signer"))

			if err := sf.NodeSign(n.Privatekey(), base.NetworkID("another-network"), n.Address()); err != nil {
				panic(err)
			}

			vp := gen.INITVoteproof(point, fact, []base.BallotSignFact{sf}, base.Threshold(67), nil)

			return c27Obj("init-voteproof", vp, "invalid other-network", true, encFalse())
		default: // stuck voteproof without expels
			fact := isaac.NewINITBallotFact(point, prev, proposal, nil)
			vp := isaac.NewINITStuckVoteproof(point)
			_ = vp.SetSignFacts([]base.BallotSignFact{gen.SignINIT(fact, gen.Local(1))})
			_ = vp.Finish()

			return c27Obj("init-stuck-voteproof", vp, "invalid stuck-no-expels", true, encFalse())
		}
	})

	// ---- ballots
	for _, shape := range []string{"next-height", "next-round-init", "next-round-accept", "expels", "suffrage-confirm", "empty-proposal"} {
		shape := shape
		add("init-ballot:"+shape, func(rt *rapid.T) encObj {
			bl := encINITBallot(rt, shape)

			return c27Obj(bl.Kind, bl.Ballot, bl.Desc, shape != "next-height", encTrue())
		})
	}

	for _, shape := range []string{"plain", "expels", "empty-operations", "not-processed"} {
		shape := shape
		add("accept-ballot:"+shape, func(rt *rapid.T) encObj {
			bl := encACCEPTBallot(rt, shape)

			return c27Obj(bl.Kind, bl.Ballot, bl.Desc, shape != "plain", encTrue())
		})
	}

	add("ballot:invalid", func(rt *rapid.T) encObj {
		// INIT ballot of round 0 that carries an INIT voteproof, or an ACCEPT ballot whose voteproof is for another point
		point := encPoint(rt, 2)
		prev, proposal := encHash(rt, "prev"), encHash(rt, "proposal")
		signer := gen.Local(encNodeIdx(rt, "ballotSigner"))

		if rapid.Bool().Draw(rt, "acceptSide") {
			ivp := encINITVoteproof(rt, base.NewPoint(point.Height()-1, 0), "majority", prev, proposal)
			sf := gen.SignACCEPT(isaac.NewACCEPTBallotFact(point, proposal, encHash(rt, "newblock"), nil), signer)

			return c27Obj("accept-ballot", isaac.NewACCEPTBallot(ivp.VP.(base.INITVoteproof), sf, nil), "invalid point-mismatch "+ivp.Desc, true, encFalse())
		}

		point = base.NewPoint(point.Height(), 0)
		ivp := encINITVoteproof(rt, point, "draw", prev, proposal)
		sf := gen.SignINIT(isaac.NewINITBallotFact(point, prev, proposal, nil), signer)

		return c27Obj("init-ballot", isaac.NewINITBallot(ivp.VP, sf, nil), "invalid round0-with-init-voteproof "+ivp.Desc, true, encFalse())
	})

	// ---- proposals
	add("proposal-fact", func(rt *rapid.T) encObj {
		pr, d, nt := c27Proposal(rt)

		return c27Obj("proposal-fact", pr.Fact(), d, nt, encTrue())
	})
	add("proposal-sign-fact", func(rt *rapid.T) encObj {
		pr, d, nt := c27Proposal(rt)

		return c27Obj("proposal-sign-fact", pr, d, nt, encTrue())
	})

	// ---- operations and their facts
	for _, kind := range []string{"candidate", "join", "disjoin", "expel", "policy", "genesis-policy", "genesis-join"} {
		kind := kind
		add("operation:"+kind, func(rt *rapid.T) encObj {
			op := encOperation(rt, kind)

			return c27Obj(op.Kind, op.Op, op.Desc, strings.Contains(op.Desc, "signed-at") || strings.Contains(op.Desc, "."), encTrue())
		})
		add("operation-fact:"+kind, func(rt *rapid.T) encObj {
			op := encOperation(rt, kind)

			return c27Obj(strings.Replace(op.Kind, "-operation", "-fact", 1), op.Op.Fact(), op.Desc, true, encTrue())
		})
	}

	add("operation:invalid", func(rt *rapid.T) encObj {
		// join not signed by the candidate / expel signed only by its target
		if rapid.Bool().Draw(rt, "expelSide") {
			t := encNodeIdx(rt, "target")
			fact := isaac.NewSuffrageExpelFact(gen.Local(t).Address(), 3, 5, "verif")
			op := isaac.NewSuffrageExpelOperation(fact)
			_ = op.NodeSign(gen.Local(t).Privatekey(), gen.NetworkID, gen.Local(t).Address())

			return c27Obj("suffrage-expel-operation", op, fmt.Sprintf("invalid self-signed t%d", t), true, encFalse())
		}

		c := encNodeIdx(rt, "candidate")
		o := (c + 1) % encNodes
		fact := isaacoperation.NewSuffrageJoinFact(encToken(rt), gen.Local(c).Address(), 3)
		op := isaacoperation.NewSuffrageJoin(fact)
		_ = op.NodeSign(gen.Local(o).Privatekey(), gen.NetworkID, gen.Local(o).Address())

		return c27Obj("suffrage-join-operation", op, fmt.Sprintf("invalid not-by-candidate c%d", c), true, encFalse())
	})

	// ---- states and state values
	for _, vk := range []string{"suffrage", "candidates", "policy"} {
		vk := vk
		add("base-state:"+vk, func(rt *rapid.T) encObj {
			st, d := encState(rt, encPoint(rt, 0).Height(), vk)

			return c27Obj("base-state", st, d, strings.Contains(d, "prev"), encTrue())
		})
	}

	add("suffrage-nodes-state-value", func(rt *rapid.T) encObj {
		v, d := encSuffrageNodesValue(rt)

		return c27Obj("suffrage-nodes-state-value", v, d, len(v.Nodes()) > 1, encTrue())
	})
	add("suffrage-node-state-value", func(rt *rapid.T) encObj {
		m := encNodeIdx(rt, "node")
		h := base.Height(rapid.Int64Range(0, 1<<40).Draw(rt, "start"))
		v := isaac.NewSuffrageNodeStateValue(isaac.NewNode(gen.Local(m).Publickey(), gen.Local(m).Address()), h)

		return c27Obj("suffrage-node-state-value", v, fmt.Sprintf("n%d@%d", m, h), h > 0, encTrue())
	})
	add("suffrage-candidates-state-value", func(rt *rapid.T) encObj {
		v, d := encCandidatesValue(rt)

		return c27Obj("suffrage-candidates-state-value", v, d, len(v.Nodes()) > 0, nil)
	})
	add("suffrage-candidate-state-value", func(rt *rapid.T) encObj {
		m := encNodeIdx(rt, "node")
		s := base.Height(rapid.Int64Range(0, 9).Draw(rt, "start"))
		d := base.Height(rapid.Int64Range(0, 12).Draw(rt, "deadline"))
		v := isaac.NewSuffrageCandidateStateValue(isaac.NewNode(gen.Local(m).Publickey(), gen.Local(m).Address()), s, d)
		valid := s < d

		return c27Obj("suffrage-candidate-state-value", v, fmt.Sprintf("n%d %d..%d", m, s, d), true, &valid)
	})
	add("network-policy-state-value", func(rt *rapid.T) encObj {
		p := encPolicy(rt)

		return c27Obj("network-policy-state-value", isaac.NewNetworkPolicyStateValue(p), fmt.Sprintf("%x", p.HashBytes()), true, encTrue())
	})
	add("network-policy", func(rt *rapid.T) encObj {
		p := encPolicy(rt)

		return c27Obj("network-policy", p, fmt.Sprintf("%x", p.HashBytes()), true, encTrue())
	})
	add("fixed-suffrage-candidate-limiter-rule", func(rt *rapid.T) encObj {
		l := rapid.Uint64Range(0, 1<<63).Draw(rt, "limit")

		return c27Obj("fixed-suffrage-candidate-limiter-rule", isaac.NewFixedSuffrageCandidateLimiterRule(l), fmt.Sprint(l), l > 1<<53, encTrue())
	})

	// ---- manifest, block map, block item files, suffrage proof
	add("manifest", func(rt *rapid.T) encObj {
		m, d := encManifest(rt, encPoint(rt, 0).Height())

		return c27Obj("manifest", m, d, strings.Contains(d, "true"), encTrue())
	})
	add("blockmap", func(rt *rapid.T) encObj {
		mf, d := encManifest(rt, encPoint(rt, 0).Height())
		m, md := encBlockMap(rt, mf)

		return c27Obj("blockmap", m, d+" "+md, true, encTrue())
	})
	add("block-item-file", func(rt *rapid.T) encObj {
		cf := rapid.SampledFrom([]string{"", "gz", "xz"}).Draw(rt, "compress")

		switch rapid.IntRange(0, 2).Draw(rt, "fileKind") {
		case 0:
			name := rapid.SampledFrom([]string{"proposal.json", "a/b/voteproofs.ndjson.gz", "map.json"}).Draw(rt, "name")

			return c27Obj("block-item-file", isaac.NewLocalFSBlockItemFile(name, cf), "localfs "+name+" "+cf, cf != "", encTrue())
		case 1:
			name := rapid.SampledFrom([]string{"/tmp/x/proposal.json", "rel/states.ndjson.gz"}).Draw(rt, "name")

			return c27Obj("block-item-file", isaac.NewFileBlockItemFile(name, cf), "file "+name+" "+cf, cf != "", encTrue())
		default:
			u := encURL(rt)

			return c27Obj("block-item-file", isaac.NewBlockItemFile(u, cf), "url "+u.String()+" "+cf, true, nil)
		}
	})
	add("block-item-files", func(rt *rapid.T) encObj {
		items := map[base.BlockItemType]base.BlockItemFile{}
		types := []base.BlockItemType{base.BlockItemMap, base.BlockItemProposal, base.BlockItemVoteproofs, base.BlockItemOperations,
			base.BlockItemOperationsTree, base.BlockItemStates, base.BlockItemStatesTree}
		n := rapid.IntRange(0, len(types)).Draw(rt, "nItems")

		for _, t := range types[:n] {
			if rapid.Bool().Draw(rt, "remote") {
				items[t] = isaac.NewBlockItemFile(encURL(rt), "")
			} else {
				items[t] = isaac.NewLocalFSBlockItemFile(string(t)+".json", "")
			}
		}

		valid := n >= 3

		return c27Obj("block-item-files", isaac.NewBlockItemFiles(items), fmt.Sprintf("items%d", n), n > 3, func() *bool {
			if !valid {
				return encFalse()
			}

			return nil // remote urls may be judged either way; only "same verdict" is checked
		}())
	})
	add("suffrage-proof", func(rt *rapid.T) encObj {
		p, d := encSuffrageProof(rt)

		return c27Obj("suffrage-proof", p, d, true, encTrue())
	})

	// ---- tree nodes, nodes, keys, address, reason error
	add("operation-fixedtree-node", func(rt *rapid.T) encObj {
		reason := rapid.SampledFrom([]string{"", "not allowed", "reason \"q\" é"}).Draw(rt, "reason")
		h := encHash(rt, "fact")

		var n base.OperationFixedtreeNode
		in := rapid.Bool().Draw(rt, "inState")

		if in {
			n = base.NewInStateOperationFixedtreeNode(h, reason)
		} else {
			n = base.NewNotInStateOperationFixedtreeNode(h, reason)
		}

		o := c27Obj("operation-fixedtree-node", c27TreeNode(rt, base.OperationFixedtreeHint, n), fmt.Sprintf("in%v %q", in, reason), reason != "" || !in, encTrue())
		o.DecodeHint = &base.OperationFixedtreeHint

		return o
	})
	add("state-fixedtree-node", func(rt *rapid.T) encObj {
		n := fixedtree.NewBaseNode(encHash(rt, "state").String())

		o := c27Obj("state-fixedtree-node", c27TreeNode(rt, base.StateFixedtreeHint, n), "node", true, encTrue())
		o.DecodeHint = &base.StateFixedtreeHint

		return o
	})
	add("node", func(rt *rapid.T) encObj {
		m := encNodeIdx(rt, "node")

		return c27Obj("node", isaac.NewNode(gen.Local(m).Publickey(), gen.Local(m).Address()), fmt.Sprint(m), true, encTrue())
	})
	add("operation-process-reason-error", func(rt *rapid.T) encObj {
		s := rapid.SampledFrom([]string{"x", "candidate already in suffrage", "msg \"q\" é<>&"}).Draw(rt, "msg")

		return c27Obj("operation-process-reason-error", base.NewBaseOperationProcessReason(s), s, len(s) > 1, nil)
	})

	// ---- params / node infos
	add("params", func(rt *rapid.T) encObj {
		p, d := c27Params(rt)

		return c27Obj("params", p, d, d != "default", encTrue())
	})
	add("node-info", func(rt *rapid.T) encObj {
		local := gen.Local(encNodeIdx(rt, "local"))
		u := isaacnetwork.NewNodeInfoUpdater(gen.NetworkID, isaac.NewNode(local.Publickey(), local.Address()),
			util.MustNewVersion(rapid.SampledFrom([]string{"v0.0.1", "v1.2.3-rc1+build5"}).Draw(rt, "version")))

		// launch.PNodeInfo sets state, conn info and local params at once; manifest, suffrage and policy follow with the first block
		p, pd := c27Params(rt)
		_ = u.SetLocalParams(p)
		_ = u.SetConnInfo(encConnInfo(rt).String())
		_ = u.SetConsensusState(rapid.SampledFrom([]isaacstates.StateType{isaacstates.StateConsensus, isaacstates.StateSyncing, isaacstates.StateBooting}).Draw(rt, "state"))

		full := rapid.IntRange(0, 3).Draw(rt, "full") != 0
		d := "no-block-yet " + pd

		if full {
			mf, md := encManifest(rt, encPoint(rt, 0).Height())
			_ = u.SetLastManifest(mf)
			_ = u.SetNetworkPolicy(encPolicy(rt))
			_ = u.SetSuffrageHeight(base.Height(rapid.Int64Range(0, 9).Draw(rt, "sufHeight")))

			members := encSubset(rt, "consensusNodes", 1, encNodes, nil)
			nodes := make([]base.Node, len(members))

			for i, m := range members {
				nodes[i] = isaac.NewNode(gen.Local(m).Publickey(), gen.Local(m).Address())
			}

			_ = u.SetConsensusNodes(nodes)

			if rapid.Bool().Draw(rt, "hasLastVote") {
				_ = u.SetLastVote(base.NewStagePoint(encPoint(rt, 1), base.StageACCEPT), base.VoteResultMajority)
			}

			d = fmt.Sprintf("full %s %s m%s", md, pd, encIdxString(members))
		}

		return c27Obj("node-info", u.NodeInfo(), d, full, nil)
	})
	add("default-node-info", func(rt *rapid.T) encObj {
		id := rapid.SampledFrom([]string{"01HZX", "node-0"}).Draw(rt, "id")
		v := launch.NewDefaultNodeInfo(id, gen.NetworkID, util.MustNewVersion("v0.0.1"))

		if rapid.Bool().Draw(rt, "restarted") {
			return c27Obj("default-node-info", v.UpdateLastStartedAt(), id+" restarted", true, encTrue())
		}

		return c27Obj("default-node-info", v, id, false, encTrue())
	})

	// ---- isaac network request/response headers
	hdr := func(name string, g func(rt *rapid.T) (any, string, bool)) {
		add(name, func(rt *rapid.T) encObj {
			v, d, nt := g(rt)

			// every request header may carry a client id
			if rapid.Bool().Draw(rt, "withClientID") {
				if s, ok := c27SetClientID(v, rapid.SampledFrom([]string{"client-a", "c \"q\""}).Draw(rt, "clientID")); ok {
					v = s
					d += " cid"
					nt = true
				}
			}

			return c27Obj(name, v, d, nt, nil)
		})
	}

	pub := func(rt *rapid.T) base.Publickey { return gen.Local(encNodeIdx(rt, "aclUser")).Publickey() }
	addr := func(rt *rapid.T) base.Address { return gen.Local(encNodeIdx(rt, "address")).Address() }

	hdr("operation-header", func(rt *rapid.T) (any, string, bool) {
		return isaacnetwork.NewOperationRequestHeader(encHash(rt, "op")), "h", false
	})
	hdr("send-operation-header", func(rt *rapid.T) (any, string, bool) { return isaacnetwork.NewSendOperationRequestHeader(), "", false })
	hdr("request-proposal-header", func(rt *rapid.T) (any, string, bool) {
		p := encPoint(rt, 0)

		var prev util.Hash
		if rapid.Bool().Draw(rt, "hasPrev") {
			prev = encHash(rt, "prev")
		}

		return isaacnetwork.NewRequestProposalRequestHeader(p, addr(rt), prev), fmt.Sprintf("%v prev%v", p, prev != nil), prev != nil
	})
	hdr("proposal-header", func(rt *rapid.T) (any, string, bool) {
		return isaacnetwork.NewProposalRequestHeader(encHash(rt, "proposal")), "h", false
	})
	hdr("last-suffrage-proof-header", func(rt *rapid.T) (any, string, bool) {
		if rapid.Bool().Draw(rt, "hasState") {
			return isaacnetwork.NewLastSuffrageProofRequestHeader(encHash(rt, "state")), "state", true
		}

		return isaacnetwork.NewLastSuffrageProofRequestHeader(nil), "nil", false
	})
	hdr("suffrage-proof-header", func(rt *rapid.T) (any, string, bool) {
		h := encPoint(rt, 0).Height()

		return isaacnetwork.NewSuffrageProofRequestHeader(h), fmt.Sprint(h), h > 6
	})
	hdr("last-blockmap-header", func(rt *rapid.T) (any, string, bool) {
		if rapid.Bool().Draw(rt, "hasManifest") {
			return isaacnetwork.NewLastBlockMapRequestHeader(encHash(rt, "manifest")), "manifest", true
		}

		return isaacnetwork.NewLastBlockMapRequestHeader(nil), "nil", false
	})
	hdr("blockmap-header", func(rt *rapid.T) (any, string, bool) {
		h := encPoint(rt, 0).Height()

		return isaacnetwork.NewBlockMapRequestHeader(h), fmt.Sprint(h), h > 6
	})
	hdr("block-item-header", func(rt *rapid.T) (any, string, bool) {
		h := encPoint(rt, 0).Height()
		t := rapid.SampledFrom([]base.BlockItemType{base.BlockItemMap, base.BlockItemProposal, base.BlockItemStatesTree, "unknown"}).Draw(rt, "item")

		return isaacnetwork.NewBlockItemRequestHeader(h, t), fmt.Sprintf("%d %s", h, t), true
	})
	hdr("block-item-files-header", func(rt *rapid.T) (any, string, bool) {
		h := encPoint(rt, 0).Height()

		return isaacnetwork.NewBlockItemFilesRequestHeader(h, pub(rt)), fmt.Sprint(h), true
	})
	hdr("node-challenge-header", func(rt *rapid.T) (any, string, bool) {
		input := rapid.SliceOfN(rapid.Byte(), 0, 40).Draw(rt, "input")
		if len(input) == 0 {
			input = nil // callers pass a random challenge or nothing; an empty non-nil slice is not something they build
		}
		if rapid.Bool().Draw(rt, "withMe") {
			return isaacnetwork.NewNodeChallengeRequestHeader(input, addr(rt), pub(rt)), fmt.Sprintf("in%d me", len(input)), true
		}

		return isaacnetwork.NewNodeChallengeRequestHeader(input, nil, nil), fmt.Sprintf("in%d", len(input)), len(input) > 0
	})
	hdr("suffrage-node-conninfo-header", func(rt *rapid.T) (any, string, bool) {
		return isaacnetwork.NewSuffrageNodeConnInfoRequestHeader(), "", false
	})
	hdr("sync-source-conninfo-header", func(rt *rapid.T) (any, string, bool) {
		return isaacnetwork.NewSyncSourceConnInfoRequestHeader(), "", false
	})
	hdr("state-header", func(rt *rapid.T) (any, string, bool) {
		key := rapid.SampledFrom([]string{"suffrage", "network_policy", "k \"q\" é", ""}).Draw(rt, "key")
		if rapid.Bool().Draw(rt, "hasHash") {
			return isaacnetwork.NewStateRequestHeader(key, encHash(rt, "state")), key + " h", true
		}

		return isaacnetwork.NewStateRequestHeader(key, nil), key, false
	})
	hdr("exists-instate-operation-header", func(rt *rapid.T) (any, string, bool) {
		return isaacnetwork.NewExistsInStateOperationRequestHeader(encHash(rt, "fact")), "h", false
	})
	hdr("node-info-header", func(rt *rapid.T) (any, string, bool) { return isaacnetwork.NewNodeInfoRequestHeader(), "", false })
	hdr("send-ballots-header", func(rt *rapid.T) (any, string, bool) { return isaacnetwork.NewSendBallotsHeader(), "", false })
	hdr("set-allow-consensus-header", func(rt *rapid.T) (any, string, bool) {
		a := rapid.Bool().Draw(rt, "allow")

		return isaacnetwork.NewSetAllowConsensusHeader(a), fmt.Sprint(a), a
	})
	hdr("stream-operations-header", func(rt *rapid.T) (any, string, bool) {
		off := rapid.SliceOfN(rapid.Byte(), 0, 20).Draw(rt, "offset")
		if len(off) == 0 && rapid.Bool().Draw(rt, "nilOffset") {
			off = nil
		}

		return isaacnetwork.NewStreamOperationsHeader(off), fmt.Sprintf("off%d nil%v", len(off), off == nil), len(off) > 0
	})
	hdr("start-handover-header", func(rt *rapid.T) (any, string, bool) {
		return isaacnetwork.NewStartHandoverHeader(encConnInfo(rt), addr(rt), pub(rt)), "ci", true
	})
	hdr("check-handover-header", func(rt *rapid.T) (any, string, bool) {
		return isaacnetwork.NewCheckHandoverHeader(encConnInfo(rt), addr(rt), pub(rt)), "ci", true
	})
	hdr("ask-handover-header", func(rt *rapid.T) (any, string, bool) {
		return isaacnetwork.NewAskHandoverHeader(encConnInfo(rt), addr(rt)), "ci", true
	})
	hdr("ask-handover-response-header", func(rt *rapid.T) (any, string, bool) {
		ok, err := rapid.Bool().Draw(rt, "ok"), encErr(rt)
		id := rapid.SampledFrom([]string{"", "broker-1"}).Draw(rt, "id")

		return isaacnetwork.NewAskHandoverResponseHeader(ok, err, id), fmt.Sprintf("%v %v %q", ok, err != nil, id), err != nil || id != ""
	})
	hdr("cancel-handover-header", func(rt *rapid.T) (any, string, bool) { return isaacnetwork.NewCancelHandoverHeader(pub(rt)), "", true })
	hdr("handover-message-header", func(rt *rapid.T) (any, string, bool) { return isaacnetwork.NewHandoverMessageHeader(), "", false })
	hdr("check-handover-x-header", func(rt *rapid.T) (any, string, bool) { return isaacnetwork.NewCheckHandoverXHeader(addr(rt)), "", true })
	hdr("block-item-response-header", func(rt *rapid.T) (any, string, bool) {
		ok, err := rapid.Bool().Draw(rt, "ok"), encErr(rt)
		cf := rapid.SampledFrom([]string{"", "gz"}).Draw(rt, "compress")

		if rapid.Bool().Draw(rt, "hasURI") {
			u := encURL(rt)

			return isaacnetwork.NewBlockItemResponseHeader(ok, err, u, cf), fmt.Sprintf("%v %v %s %s", ok, err != nil, u.String(), cf), true
		}

		return isaacnetwork.NewBlockItemResponseHeader(ok, err, url.URL{}, cf), fmt.Sprintf("%v %v nouri %s", ok, err != nil, cf), err != nil || cf != ""
	})
	hdr("default-response-header", func(rt *rapid.T) (any, string, bool) {
		ok, err := rapid.Bool().Draw(rt, "ok"), encErr(rt)

		return quicstreamheader.NewDefaultResponseHeader(ok, err), fmt.Sprintf("%v %v", ok, err != nil), err != nil
	})

	// ---- launch headers
	hdr("event-logging-header", func(rt *rapid.T) (any, string, bool) {
		name := rapid.SampledFrom([]launch.EventLoggerName{launch.AllEventLogger, launch.UnknownEventLogger, "node_rw"}).Draw(rt, "name")
		offs := [2]int64{rapid.Int64Range(0, 9).Draw(rt, "off0"), rapid.Int64Range(0, 9).Draw(rt, "off1")}
		lim := rapid.Uint64Range(0, 1<<40).Draw(rt, "limit")
		srt := rapid.Bool().Draw(rt, "sort")

		return launch.NewEventLoggingHeader(name, offs, lim, srt, pub(rt)), fmt.Sprintf("%s %v %d %v", name, offs, lim, srt), true
	})
	hdr("read-node-header", func(rt *rapid.T) (any, string, bool) {
		key := rapid.SampledFrom([]string{"states.allow_consensus", "design._source", ""}).Draw(rt, "key")

		return launch.NewReadNodeHeader(key, pub(rt)), key, key != ""
	})
	hdr("write-node-header", func(rt *rapid.T) (any, string, bool) {
		key := rapid.SampledFrom([]string{"states.allow_consensus", "parameters.isaac.threshold", ""}).Draw(rt, "key")

		return launch.NewWriteNodeHeader(key, pub(rt)), key, key != ""
	})

	// ---- memberlist messages
	add("conninfo-broadcast-message", func(rt *rapid.T) encObj {
		id := rapid.SampledFrom([]string{"", "id-1"}).Draw(rt, "id")

		return c27Obj("conninfo-broadcast-message", quicmemberlist.NewConnInfoBroadcastMessage(id, encConnInfo(rt)), id, id != "", nil)
	})
	add("callback-broadcast-message-header", func(rt *rapid.T) encObj {
		id := rapid.SampledFrom([]string{"", "id-1"}).Draw(rt, "id")
		v := quicmemberlist.NewCallbackBroadcastMessageHeader(id, quicstream.HashPrefix(quicstream.HandlerName(rapid.SampledFrom([]string{"a", "callback"}).Draw(rt, "prefix"))))

		return c27Obj("callback-broadcast-message-header", v, id, id != "", nil)
	})
	add("ensure-broadcast-message-header", func(rt *rapid.T) encObj {
		id := rapid.SampledFrom([]string{"", "id-1", "id \"q\""}).Draw(rt, "id")
		n := gen.Local(encNodeIdx(rt, "signer"))

		v, err := quicmemberlist.NewEnsureBroadcastMessageHeader(id, quicstream.HashPrefix("ensure"), n.Address(), n.Privatekey(), gen.NetworkID)
		if err != nil {
			panic(err)
		}

		return c27Obj("ensure-broadcast-message-header", v, id, id != "", nil)
	})
	add("memberlist-member", func(rt *rapid.T) encObj {
		n := gen.Local(encNodeIdx(rt, "node"))
		ci := encConnInfo(rt)
		publish := ""

		if rapid.Bool().Draw(rt, "publish") {
			publish = rapid.SampledFrom([]string{"localhost:4321", "10.1.2.3:4321"}).Draw(rt, "publishAddr")
		}

		v, err := quicmemberlist.NewMember(rapid.SampledFrom([]string{"name-a", "n"}).Draw(rt, "name"), ci.UDPAddr(), n.Address(), n.Publickey(), publish, ci.TLSInsecure())
		if err != nil {
			panic(err)
		}

		return c27Obj("memberlist-member", v, fmt.Sprintf("%s pub%q", ci.String(), publish), publish != "", nil)
	})
	add("missing-ballots-request-message", func(rt *rapid.T) encObj {
		members := encSubset(rt, "nodes", 0, 4, nil)
		nodes := make([]base.Address, len(members))

		for i, m := range members {
			nodes[i] = gen.Local(m).Address()
		}

		sp := base.NewStagePoint(encPoint(rt, 0), rapid.SampledFrom([]base.Stage{base.StageINIT, base.StageACCEPT}).Draw(rt, "stage"))

		return c27Obj("missing-ballots-request-message", isaacstates.NewMissingBallotsRequestsMessage(sp, nodes, encConnInfo(rt)),
			fmt.Sprintf("%v n%s", sp, encIdxString(members)), len(members) > 0, nil)
	})

	// ---- handover messages (only Cancel has an exported constructor; the rest arrive as JSON)
	add("handover-cancel-message", func(rt *rapid.T) encObj {
		err := encErr(rt)
		id := rapid.SampledFrom([]string{"", "ho-1"}).Draw(rt, "id")

		return c27Obj("handover-cancel-message", isaacstates.NewHandoverMessageCancel(id, err), fmt.Sprintf("%q %v", id, err != nil), err != nil, nil)
	})
	add("handover-challenge-response-message", func(rt *rapid.T) encObj {
		sp := base.NewStagePoint(encPoint(rt, 0), base.StageINIT)
		f := map[string]any{"id": "ho-1", "point": sp, "ok": rapid.Bool().Draw(rt, "ok")}

		if e := encErr(rt); e != nil {
			f["error"] = e.Error()
		}

		return c27Obj("handover-challenge-response-message", c27Crafted(rt, isaacstates.HandoverMessageChallengeResponseHint, f), fmt.Sprintf("%v %d", sp, len(f)), len(f) > 3, nil)
	})
	add("handover-challenge-stagepoint-message", func(rt *rapid.T) encObj {
		sp := base.NewStagePoint(encPoint(rt, 0), base.StageACCEPT)

		return c27Obj("handover-challenge-stagepoint-message",
			c27Crafted(rt, isaacstates.HandoverMessageChallengeStagePointHint, map[string]any{"id": "ho-2", "point": sp}), fmt.Sprint(sp), true, nil)
	})
	add("handover-challenge-blockmap-message", func(rt *rapid.T) encObj {
		mf, d := encManifest(rt, encPoint(rt, 0).Height())
		m, md := encBlockMap(rt, mf)
		sp := base.NewStagePoint(base.NewPoint(mf.Height(), 0), base.StageACCEPT)

		return c27Obj("handover-challenge-blockmap-message",
			c27Crafted(rt, isaacstates.HandoverMessageChallengeBlockMapHint, map[string]any{"id": "ho-3", "point": sp, "blockmap": m}), d+" "+md, true, nil)
	})
	add("handover-finish-message", func(rt *rapid.T) encObj {
		pr, d, _ := c27Proposal(rt)
		f := map[string]any{"id": "ho-4", "proposal": pr}
		withVP := rapid.Bool().Draw(rt, "withVoteproof")

		if withVP {
			ivp := encINITVoteproof(rt, pr.Point(), rapid.SampledFrom([]string{"majority", "expel"}).Draw(rt, "vpMode"), encHash(rt, "prev"), pr.Fact().Hash())
			f["voteproof"] = ivp.VP
			d += " " + ivp.Desc
		}

		return c27Obj("handover-finish-message", c27Crafted(rt, isaacstates.HandoverMessageFinishHint, f), d, withVP, nil)
	})
	add("handover-data-message", func(rt *rapid.T) encObj {
		var (
			data any
			dt   isaacstates.HandoverMessageDataType
			d    string
		)

		switch rapid.IntRange(0, 5).Draw(rt, "dataType") {
		case 0:
			vp := encACCEPTVoteproof(rt, encPoint(rt, 1), rapid.SampledFrom([]string{"majority", "draw", "expel"}).Draw(rt, "vpMode"), encHash(rt, "proposal"), encHash(rt, "newblock"))
			data, dt, d = vp.VP, isaacstates.HandoverMessageDataTypeVoteproof, vp.Desc
		case 1:
			pr, pd, _ := c27Proposal(rt)
			ivp := encINITVoteproof(rt, pr.Point(), "majority", encHash(rt, "prev"), pr.Fact().Hash())
			data, dt, d = []any{pr, ivp.VP}, isaacstates.HandoverMessageDataTypeINITVoteproof, pd+" "+ivp.Desc
		case 2:
			bl := encACCEPTBallot(rt, rapid.SampledFrom([]string{"plain", "expels"}).Draw(rt, "shape"))
			data, dt, d = bl.Ballot, isaacstates.HandoverMessageDataTypeBallot, bl.Desc
		case 3:
			pr, pd, _ := c27Proposal(rt)
			data, dt, d = pr, isaacstates.HandoverMessageDataTypeProposal, pd
		case 4:
			op := encOperation(rt, rapid.SampledFrom([]string{"candidate", "join", "policy"}).Draw(rt, "opKind"))
			data, dt, d = op.Op, isaacstates.HandoverMessageDataTypeOperation, op.Desc
		default:
			op := encOperation(rt, "expel")
			data, dt, d = op.Op, isaacstates.HandoverMessageDataTypeSuffrageVoting, op.Desc
		}

		return c27Obj("handover-data-message", c27Crafted(rt, isaacstates.HandoverMessageDataHint, map[string]any{"id": "ho-5", "data_type": dt, "data": data}),
			string(dt)+" "+d, true, nil)
	})

	return cat
}

// ---------------------------------------------------------------------------------------------------------------------
// helpers

func c27Proposal(rt *rapid.T) (isaac.ProposalSignFact, string, bool) {
	point := encPoint(rt, 0)

	var prev util.Hash
	if point.Height() > base.GenesisHeight {
		prev = encHash(rt, "prev")
	}

	nops := rapid.IntRange(0, 4).Draw(rt, "nProposalOps")
	ops := make([][2]util.Hash, nops)

	for i := range ops {
		ops[i] = [2]util.Hash{gen.H(fmt.Sprintf("op-%d-%d", i, rapid.IntRange(0, 3).Draw(rt, "op"))), gen.H(fmt.Sprintf("fact-%d-%d", i, rapid.IntRange(0, 3).Draw(rt, "fact")))}
	}

	if nops == 0 && rapid.Bool().Draw(rt, "nilOps") {
		ops = nil
	}

	p := encNodeIdx(rt, "proposer")

	return gen.Proposal(point, gen.Local(p), prev, ops), fmt.Sprintf("%v p%d ops%d nil%v", point, p, nops, ops == nil), nops > 0
}

// c27TreeNode runs the node through a real tree writer so that it carries its hash like nodes read from block files.
func c27TreeNode(rt *rapid.T, ht hint.Hint, n fixedtree.Node) fixedtree.Node {
	size := rapid.IntRange(1, 4).Draw(rt, "treeSize")

	w, err := fixedtree.NewWriter(ht, uint64(size))
	if err != nil {
		panic(err)
	}

	for i := 0; i < size; i++ {
		var node fixedtree.Node = fixedtree.NewBaseNode(gen.H(fmt.Sprintf("filler-%d", i)).String())
		if i == size-1 {
			node = n
		}

		if err := w.Add(uint64(i), node); err != nil {
			panic(err)
		}
	}

	tr, err := w.Tree()
	if err != nil {
		panic(err)
	}

	return tr.Node(uint64(size - 1))
}

func c27Params(rt *rapid.T) (*isaac.Params, string) {
	p := isaac.DefaultParams(gen.NetworkID)
	if rapid.Bool().Draw(rt, "paramsDefault") {
		return p, "default"
	}

	th := base.Threshold(rapid.SampledFrom([]float64{67, 100, 66.7, 51.25}).Draw(rt, "pThreshold"))
	d := func(label string) time.Duration {
		return time.Duration(rapid.SampledFrom([]int64{1, 2, 333_000_000, 3_000_000_000, 90_000_000_000, 3_600_000_000_001}).Draw(rt, label))
	}

	must := func(err error) {
		if err != nil {
			panic(err)
		}
	}

	d1, d2, d3, d4, d5 := d("d1"), d("d2"), d("d3"), d("d4"), d("d5")
	must(p.SetThreshold(th))
	must(p.SetIntervalBroadcastBallot(d1))
	must(p.SetWaitPreparingINITBallot(d2))
	must(p.SetBallotStuckWait(d3))
	must(p.SetBallotStuckResolveAfter(d4))
	must(p.SetMinWaitNextBlockINITBallot(d5))

	n := rapid.Uint64Range(1, 1<<40).Draw(rt, "maxTry")
	sc := rapid.IntRange(0, 1<<30).Draw(rt, "stateCache")
	oc := rapid.IntRange(0, 1<<30).Draw(rt, "opCache")
	must(p.SetMaxTryHandoverYBrokerSyncData(n))
	must(p.SetStateCacheSize(sc))
	must(p.SetOperationPoolCacheSize(oc))

	return p, fmt.Sprintf("th%v %v %v %v %v %v %d %d %d", th, d1, d2, d3, d4, d5, n, sc, oc)
}

func c27SetClientID(v any, id string) (any, bool) {
	p := reflect.New(reflect.TypeOf(v))
	p.Elem().Set(reflect.ValueOf(v))

	m := p.MethodByName("SetClientID")
	if !m.IsValid() {
		return v, false
	}

	m.Call([]reflect.Value{reflect.ValueOf(id)})

	return p.Elem().Interface(), true
}

type c27IsValider interface{ IsValid([]byte) error }

type c27NetworkIDIsValider interface {
	IsValid(base.NetworkID) error
}

type c27ValidAdapter struct{ v c27NetworkIDIsValider }

func (a c27ValidAdapter) IsValid(b []byte) error { return a.v.IsValid(base.NetworkID(b)) }

// c27AsIsValider finds the validity method of v (a few types spell the parameter base.NetworkID).
func c27AsIsValider(v any) (c27IsValider, bool) {
	switch t := v.(type) {
	case c27IsValider:
		return t, true
	case c27NetworkIDIsValider:
		return c27ValidAdapter{v: t}, true
	default:
		return nil, false
	}
}

func c27Validity(t ev.TB, r *ev.Rec, what string, v any, networkID []byte) (valid bool, err error, has bool) {
	iv, ok := c27AsIsValider(v)
	if !ok {
		return false, nil, false
	}

	defer func() {
		if x := recover(); x != nil {
			if r.Failed() {
				panic(x)
			}

			r.Violation(t, "panic-isvalid", "%s: IsValid panicked: %v", what, x)
		}
	}()

	err = iv.IsValid(networkID)

	return err == nil, err, true
}

// c27Diff returns the JSON paths (array indices elided) at which a and b differ, with the two leaf renderings.
func c27Diff(a, b any, path string, out *[][3]string) {
	switch at := a.(type) {
	case map[string]any:
		bt, ok := b.(map[string]any)
		if !ok {
			*out = append(*out, [3]string{path, c27Leaf(a), c27Leaf(b)})

			return
		}

		keys := map[string]bool{}
		for k := range at {
			keys[k] = true
		}

		for k := range bt {
			keys[k] = true
		}

		ks := make([]string, 0, len(keys))
		for k := range keys {
			ks = append(ks, k)
		}

		sort.Strings(ks)

		for _, k := range ks {
			av, aok := at[k]
			bv, bok := bt[k]

			switch {
			case !aok:
				*out = append(*out, [3]string{path + "." + k, "<absent>", c27Leaf(bv)})
			case !bok:
				*out = append(*out, [3]string{path + "." + k, c27Leaf(av), "<absent>"})
			default:
				c27Diff(av, bv, path+"."+k, out)
			}
		}
	case []any:
		bt, ok := b.([]any)
		if !ok || len(at) != len(bt) {
			*out = append(*out, [3]string{path, c27Leaf(a), c27Leaf(b)})

			return
		}

		for i := range at {
			c27Diff(at[i], bt[i], path+"[]", out)
		}
	default:
		if !reflect.DeepEqual(a, b) {
			*out = append(*out, [3]string{path, c27Leaf(a), c27Leaf(b)})
		}
	}
}

func c27Leaf(v any) string {
	b, _ := json.Marshal(v)
	if len(b) > 80 {
		return string(b[:80]) + "…"
	}

	return string(b)
}

func c27ParseJSON(b []byte) (any, error) {
	d := json.NewDecoder(bytes.NewReader(b))
	d.UseNumber()

	var v any
	err := d.Decode(&v)

	return v, err
}

// c27ReencodeSignature names the root cause of a byte difference between the first and the second encoding.
func c27ReencodeSignature(b1, b2 []byte) (sig, detail string) {
	v1, err1 := c27ParseJSON(b1)
	v2, err2 := c27ParseJSON(b2)

	if err1 != nil || err2 != nil {
		return "reencode-differs", "unparseable"
	}

	var diffs [][3]string
	c27Diff(v1, v2, "", &diffs)

	if len(diffs) == 0 {
		return "map-key-order-nondeterministic", "same JSON value, different bytes (object keys in another order)"
	}

	field := func(p string) string {
		p = strings.TrimSuffix(p, "[]")
		if i := strings.LastIndex(p, "."); i >= 0 {
			return p[i+1:]
		}

		return p
	}

	allTime, allNil := true, true

	for _, d := range diffs {
		var s1, s2 string
		t1ok := json.Unmarshal([]byte(d[1]), &s1) == nil
		t2ok := json.Unmarshal([]byte(d[2]), &s2) == nil

		isTime := false
		if t1ok && t2ok {
			t1, e1 := time.Parse(time.RFC3339Nano, s1)
			t2, e2 := time.Parse(time.RFC3339Nano, s2)
			isTime = e1 == nil && e2 == nil && t1.Truncate(time.Millisecond).Equal(t2.Truncate(time.Millisecond))
		}

		allTime = allTime && isTime
		allNil = allNil && ((d[1] == "null" && d[2] == "[]") || (d[1] == "[]" && d[2] == "null") || (d[1] == "null" && d[2] == "{}"))
	}

	detail = fmt.Sprintf("%d differing leaves:", len(diffs))
	for i, d := range diffs {
		if i == 4 {
			detail += " …"

			break
		}

		detail += fmt.Sprintf(" %s: %s -> %s;", d[0], d[1], d[2])
	}

	switch {
	case allTime:
		return "subms-time-not-normalized:" + field(diffs[0][0]), detail
	case allNil:
		return "nil-reencoded-as-empty:" + field(diffs[0][0]), detail
	default:
		return "reencode-differs:" + field(diffs[0][0]), detail
	}
}

var c27HintRe = func() func([]byte) []string {
	return func(b []byte) []string {
		var out []string

		var walk func(v any)
		walk = func(v any) {
			switch t := v.(type) {
			case map[string]any:
				if h, ok := t["_hint"].(string); ok {
					out = append(out, h)
				}

				for _, x := range t {
					walk(x)
				}
			case []any:
				for _, x := range t {
					walk(x)
				}
			}
		}

		if v, err := c27ParseJSON(b); err == nil {
			walk(v)
		}

		return out
	}
}()

// c27RoundTrip is the oracle: Marshal -> Decode (hint lookup) -> same type, same Hash()/HashBytes(), same IsValid verdict
// (for the right and for a foreign network id) -> Marshal again gives the same bytes.
func c27RoundTrip(t ev.TB, r *ev.Rec, o encObj, topHints, nestedHints map[string]int) (b1 []byte) {
	_, enc := gen.Encoders()
	what := o.Kind + " {" + o.Variant + "}"
	kindSig := o.Kind // per-type suffix of the signatures: a codec defect is a defect of one type's MarshalJSON/DecodeJSON pair

	guard := func(stage string, f func()) {
		defer func() {
			if x := recover(); x != nil {
				if r.Failed() {
					panic(x)
				}

				r.Violation(t, "panic-"+stage, "%s: %s panicked: %v", what, stage, x)
			}
		}()

		f()
	}

	var err error

	guard("marshal", func() { b1, err = enc.Marshal(o.V) })

	if err != nil {
		r.Violation(t, "marshal-error", "%s: Marshal failed: %v", what, err)

		return nil
	}

	// the encoding of one object must not change from call to call (otherwise "the same bytes" is meaningless)
	for i := 0; i < 4; i++ {
		var bi []byte

		guard("marshal", func() { bi, err = enc.Marshal(o.V) })

		if err == nil && !bytes.Equal(b1, bi) {
			sig, detail := c27ReencodeSignature(b1, bi)
			r.Violation(t, sig, "%s: two Marshal calls on the same object give different bytes: %s", what, detail)

			break
		}
	}

	if hr, ok := o.V.(hint.Hinter); ok {
		topHints[hr.Hint().String()]++
	} else if o.DecodeHint != nil {
		topHints[o.DecodeHint.String()]++
	}

	for _, h := range c27HintRe(b1) {
		nestedHints[h]++
	}

	var y any

	guard("decode", func() {
		if o.DecodeHint != nil {
			y, err = enc.DecodeWithHint(b1, *o.DecodeHint)

			return
		}

		y, err = enc.Decode(b1)
	})

	if err != nil {
		sig := "decode-error:" + kindSig

		hr, isHinter := o.V.(hint.Hinter)
		top, _ := c27ParseJSON(b1)
		m, _ := top.(map[string]any)
		_, hasHint := m["_hint"]

		switch {
		case isHinter && !hasHint:
			sig = "encoding-lacks-hint:" + hr.Hint().Type().String()
		case strings.Contains(err.Error(), "parsing time"):
			sig = "decode-error-time-format"
		}

		r.Violation(t, sig, "%s: the encoder cannot decode its own encoding: %v\n%s", what, err, c27Short(b1))

		if !(isHinter && !hasHint) {
			return b1
		}

		// known finding: keep exploring with the hint supplied from outside
		guard("decode", func() { y, err = enc.DecodeWithHint(b1, hr.Hint()) })

		if err != nil {
			r.Violation(t, "decode-error", "%s: cannot decode even with the hint supplied: %v\n%s", what, err, c27Short(b1))

			return b1
		}
	}

	if y == nil {
		r.Violation(t, "decode-nil", "%s: Decode returned nil for %s", what, c27Short(b1))

		return b1
	}

	// real callers of a stand-alone *Params set the network id after decoding (it is not part of the encoding)
	if p, ok := y.(*isaac.Params); ok {
		if x, ok := o.V.(*isaac.Params); ok {
			_ = p.SetNetworkID(x.NetworkID())
		}
	}

	if reflect.TypeOf(o.V) != reflect.TypeOf(y) {
		r.Violation(t, "type-changed:"+kindSig, "%s: decoded type %T, encoded type %T", what, y, o.V)
	}

	if hx, ok := o.V.(util.Hasher); ok {
		hy := y.(util.Hasher) //nolint:forcetypeassert // same type

		var a, b util.Hash
		guard("hash", func() { a, b = hx.Hash(), hy.Hash() })

		switch {
		case a == nil && b == nil:
		case a == nil || b == nil || !a.Equal(b):
			r.Violation(t, "hash-changed:"+kindSig, "%s: Hash() %v became %v after decoding\n%s", what, a, b, c27Short(b1))
		}
	}

	if hx, ok := o.V.(util.HashByter); ok {
		hy := y.(util.HashByter) //nolint:forcetypeassert // same type

		var a, b []byte
		guard("hashbytes", func() { a, b = hx.HashBytes(), hy.HashBytes() })

		if !bytes.Equal(a, b) {
			r.Violation(t, "hashbytes-changed:"+kindSig, "%s: HashBytes() changed after decoding (%d -> %d bytes)\n%s", what, len(a), len(b), c27Short(b1))
		}
	}

	for _, nid := range [][]byte{gen.NetworkID, []byte("foreign-network-id")} {
		vx, ex, has := c27Validity(t, r, what, o.V, nid)
		if !has {
			break
		}

		vy, ey, _ := c27Validity(t, r, what, y, nid)
		if vx != vy {
			r.Violation(t, "validity-changed:"+kindSig, "%s: IsValid(%q) before: %v; after decoding: %v\n%s", what, nid, ex, ey, c27Short(b1))
		}
	}

	var b2 []byte

	guard("remarshal", func() { b2, err = enc.Marshal(y) })

	if err != nil {
		r.Violation(t, "remarshal-error", "%s: Marshal of the decoded object failed: %v", what, err)

		return b1
	}

	if !bytes.Equal(b1, b2) {
		sig, detail := c27ReencodeSignature(b1, b2)
		r.Violation(t, sig, "%s: re-encoding the decoded object gives different bytes: %s", what, detail)
	}

	return b1
}

// c27WantSample spreads the few evidence samples over different kinds of objects.
func c27WantSample(r *ev.Rec, entry string) bool {
	switch entry {
	case "init-ballot:suffrage-confirm", "accept-voteproof:stuck", "operation:expel", "suffrage-proof", "handover-data-message":
		return r.WantSample()
	default:
		return false
	}
}

func c27Short(b []byte) string {
	if len(b) > 1500 {
		return string(b[:1500]) + "…"
	}

	return string(b)
}

// c27StringHinted covers the three registered types that travel as hint-suffixed strings rather than JSON objects.
func c27StringHinted(t ev.TB, r *ev.Rec, rt *rapid.T, topHints map[string]int) (string, string) {
	_, enc := gen.Encoders()
	n := gen.Local(encNodeIdx(rt, "node"))

	type textual interface {
		String() string
		IsValid([]byte) error
	}

	var (
		x    textual
		size int
		kind string
	)

	switch rapid.IntRange(0, 2).Draw(rt, "stringKind") {
	case 0:
		x, size, kind = n.Privatekey(), base.PKKeyTypeSize, "mprivatekey"
	case 1:
		x, size, kind = n.Publickey(), base.PKKeyTypeSize, "mpublickey"
	default:
		x, size, kind = n.Address(), base.AddressTypeSize, "string-address"
	}

	s1 := x.String()

	y, err := enc.DecodeWithFixedHintType(s1, size)
	if err != nil {
		r.Violation(t, "decode-error", "%s %q: %v", kind, s1, err)

		return kind, s1
	}

	if reflect.TypeOf(x) != reflect.TypeOf(y) {
		r.Violation(t, "type-changed:"+kind, "%s: decoded type %T, encoded type %T", kind, y, x)
	}

	yt := y.(textual) //nolint:forcetypeassert // same type

	if s2 := yt.String(); s1 != s2 {
		r.Violation(t, "reencode-differs:"+kind, "%s: %q re-encodes as %q", kind, s1, s2)
	}

	if (x.IsValid(nil) == nil) != (yt.IsValid(nil) == nil) {
		r.Violation(t, "validity-changed:"+kind, "%s: %q validity changed", kind, s1)
	}

	// inside JSON: "<string>" must marshal to the same text
	b, err := enc.Marshal(x)
	if err != nil || string(b) != fmt.Sprintf("%q", s1) {
		r.Violation(t, "reencode-differs:"+kind, "%s: Marshal gives %s (err %v), String() %q", kind, b, err, s1)
	}

	if hr, ok := y.(hint.Hinter); ok {
		topHints[hr.Hint().String()]++
	}

	return kind, s1
}

func TestC27(t *testing.T) {
	r := ev.Start(t, "C27")
	defer r.Finish()

	cat := c27Catalog()

	r.Rule(fmt.Sprintf("a case draws one of %d catalog entries (every hint of launch.Hinters and SupportedProposalOperationFactHinters, several construction paths "+
		"for ballots/voteproofs/operations) and builds the object through the exported constructors with real secp256k1 signatures over 6 nodes: heights 0..6 and "+
		"beyond 2^53, rounds 0..3, 0..2 expels, INIT/ACCEPT x {majority, draw, expel, stuck} voteproofs, suffrage-confirm / empty-proposal / empty-operations / "+
		"not-processed facts, hand-signed operations with drawn signing times (whole second, .x00, sub-millisecond), invalid-but-well-formed variants; types with "+
		"unexported constructors (5 handover messages) are first decoded from JSON assembled from marshaled parts. Oracle: Marshal -> Encoder.Decode (hint lookup) -> "+
		"same Go type, equal Hash()/HashBytes(), equal IsValid verdict under the right and a foreign network id, byte-identical second Marshal. "+
		"non-trivial: optional parts populated (expels, embedded voteproof, operations, client id, error text, non-default parameters, drawn signing time); "+
		"distinct by (entry, drawn shape)", len(cat)))
	r.Floor(int64(2 * len(cat)))
	r.Assume(
		"states carry at least one operation hash (BaseStateValueMerger.CloseValue refuses to build one without)",
		"a stand-alone *isaac.Params gets its network id from the caller after decoding, as NodeInfo.DecodeJSON does; the id is deliberately not in the encoding",
		"MajoritySuffrageCandidateLimiterRule is not registered in launch.Hinters and is therefore outside the property",
		"randomness inside mitum constructors (voteproof id, EmptyProposal nonce, time.Now in signs/proposals) is not controlled; it never enters the verdict or the fingerprint",
	)

	topHints, nestedHints := map[string]int{}, map[string]int{}

	r.ShrinkTime(20 * time.Second)

	// one rapid run per catalog entry, so that every registered type gets the same number of cases
	for i := range cat {
		if r.Failed() {
			break
		}

		e := cat[i]

		t.Run(e.Name, func(t *testing.T) {
			r.Checks(40, 2000)
			rapid.Check(t, func(rt *rapid.T) {
				o := e.Gen(rt)

				if o.WantValid != nil {
					if iv, ok := c27AsIsValider(o.V); ok {
						err := iv.IsValid(gen.NetworkID)
						if (err == nil) != *o.WantValid {
							rt.Fatalf("harness: generator %s {%s} promised valid=%v but IsValid says: %+v", e.Name, o.Variant, *o.WantValid, err)
						}
					}
				}

				b1 := c27RoundTrip(rt, r, o, topHints, nestedHints)

				validity := "validity:unchecked"
				if iv, ok := c27AsIsValider(o.V); ok {
					if iv.IsValid(gen.NetworkID) == nil {
						validity = "valid"
					} else {
						validity = "invalid"
					}
				}

				nt := "trivial"
				if o.Nontrivial {
					nt = "nontrivial"
				}

				r.Case(e.Name+"|"+o.Variant, o.Nontrivial, "kind:"+o.Kind, validity, nt)

				if o.Nontrivial && len(b1) < 6000 && c27WantSample(r, e.Name) {
					r.Sample(map[string]any{"entry": e.Name, "kind": o.Kind, "shape": o.Variant, "validity": validity, "encoded": json.RawMessage(b1)})
				}
			})
		})
	}

	if !r.Failed() {
		t.Run("string-hinted", func(t *testing.T) {
			r.Checks(40, 400)
			rapid.Check(t, func(rt *rapid.T) {
				kind, s := c27StringHinted(rt, r, rt, topHints)
				r.Case("string|"+s, true, "kind:"+kind, "valid", "nontrivial")
			})
		})
	}

	// ---- coverage of the registered hints
	var all []string
	for _, d := range launch.Hinters {
		all = append(all, d.Hint.String())
	}

	for _, d := range launch.SupportedProposalOperationFactHinters {
		all = append(all, d.Hint.String())
	}

	var uncoveredTop, uncovered []string

	for _, h := range all {
		if topHints[h] == 0 {
			uncoveredTop = append(uncoveredTop, h)

			if nestedHints[h] == 0 {
				uncovered = append(uncovered, h)
			}
		}
	}

	sort.Strings(uncovered)
	sort.Strings(uncoveredTop)
	r.Extra("hints", fmt.Sprintf("%d registered by launch.LoadHinters; %d round-tripped as the top-level object; %d seen only nested inside another object; %d never generated",
		len(all), len(all)-len(uncoveredTop), len(uncoveredTop)-len(uncovered), len(uncovered)))
	r.Extra("hints_uncovered", uncovered)

	if !r.Failed() && len(uncovered) > 0 {
		t.Fatalf("harness: registered hints never generated: %v", uncovered)
	}
}

var _ = isaacoperation.SuffrageJoinHint
