package p_enc

import (
	"bytes"
	"encoding/hex"
	"encoding/json"
	"fmt"
	"math/big"
	"sort"
	"strings"
	"testing"
	"time"

	"github.com/spikeekips/mitum/base"
	"github.com/spikeekips/mitum/isaac"
	isaacoperation "github.com/spikeekips/mitum/isaac/operation"
	"github.com/spikeekips/mitum/launch"
	"github.com/spikeekips/mitum/util"
	"pgregory.net/rapid"
	"verif/internal/ev"
	"verif/internal/gen"
)

// ---------------------------------------------------------------------------------------------------------------------
// JSON tree helpers (encoding/json with UseNumber: integers survive untouched)

type c28Path []any // string keys and int indexes

func (p c28Path) String() string {
	var sb strings.Builder

	for _, e := range p {
		switch t := e.(type) {
		case string:
			sb.WriteString("." + t)
		case int:
			sb.WriteString(fmt.Sprintf("[%d]", t))
		}
	}

	return sb.String()
}

func (p c28Path) key() string {
	for i := len(p) - 1; i >= 0; i-- {
		if s, ok := p[i].(string); ok {
			return s
		}
	}

	return ""
}

func c28Get(root any, p c28Path) any {
	cur := root

	for _, e := range p {
		switch t := e.(type) {
		case string:
			cur = cur.(map[string]any)[t]
		case int:
			cur = cur.([]any)[t]
		}
	}

	return cur
}

func c28Clone(v any) any {
	switch t := v.(type) {
	case map[string]any:
		m := make(map[string]any, len(t))
		for k, x := range t {
			m[k] = c28Clone(x)
		}

		return m
	case []any:
		s := make([]any, len(t))
		for i := range t {
			s[i] = c28Clone(t[i])
		}

		return s
	default:
		return v
	}
}

// c28With returns a deep copy of root with the value at p replaced.
func c28With(root any, p c28Path, nv any) any {
	if len(p) == 0 {
		return nv
	}

	cp := c28Clone(root)
	parent := c28Get(cp, p[:len(p)-1])

	switch t := p[len(p)-1].(type) {
	case string:
		parent.(map[string]any)[t] = nv
	case int:
		parent.([]any)[t] = nv
	}

	return cp
}

func c28IsSignedRegion(m map[string]any) bool {
	if _, ok := m["fact"]; ok {
		_, a := m["sign"]
		_, b := m["signs"]

		return a || b
	}

	// state: not signed by itself, but its hash (which block maps and suffrage proofs sign over) commits to all of it
	if _, ok := m["operations"]; ok {
		_, a := m["hash"]
		_, b := m["key"]
		_, c := m["value"]

		if a && b && c {
			return true
		}
	}

	// block map: the node sign is inlined next to manifest and items
	_, a := m["manifest"]
	_, b := m["items"]
	_, c := m["signature"]

	return a && b && c
}

type c28Site struct {
	Path  c28Path
	Array bool // an array inside a signed region (structural mutations)
}

// c28Sites lists every leaf (and every array) that lies inside a signed region, in a canonical order.
func c28Sites(v any, p c28Path, in bool, out *[]c28Site) {
	switch t := v.(type) {
	case map[string]any:
		in = in || c28IsSignedRegion(t)

		keys := make([]string, 0, len(t))
		for k := range t {
			keys = append(keys, k)
		}

		sort.Strings(keys)

		for _, k := range keys {
			c28Sites(t[k], append(append(c28Path(nil), p...), k), in, out)
		}
	case []any:
		if in && len(t) > 0 {
			*out = append(*out, c28Site{Path: append(c28Path(nil), p...), Array: true})
		}

		for i := range t {
			c28Sites(t[i], append(append(c28Path(nil), p...), i), in, out)
		}
	default:
		if in {
			*out = append(*out, c28Site{Path: append(c28Path(nil), p...)})
		}
	}
}

// c28StateHeightSite: the height of a state is positional, not content: the state hash does not cover it, and wherever
// a state is accepted it is compared with the height of the manifest it belongs to (base.IsValidStatesTreeWithManifest,
// isaacblock.SuffrageProof.IsValid). The statement speaks of signed content; the site is left alone (see Assume).
func c28StateHeightSite(kind string, s c28Site) bool {
	return kind == "state" && len(s.Path) == 1 && s.Path.key() == "height"
}

// c28HintedAncestor returns the type part of the `_hint` of the nearest enclosing object that has one.
func c28HintedAncestor(root any, p c28Path) string {
	for i := len(p); i >= 0; i-- {
		if m, ok := c28Get(root, p[:i]).(map[string]any); ok {
			if h, ok := m["_hint"].(string); ok {
				if j := strings.LastIndex(h, "-v"); j > 0 {
					return h[:j]
				}

				return h
			}
		}
	}

	return ""
}

// ---------------------------------------------------------------------------------------------------------------------
// mutations

type c28Mutation struct {
	Path c28Path
	What string
	Tree any
}

var c28AllHints = func() []string {
	var hs []string
	for _, d := range launch.Hinters {
		hs = append(hs, d.Hint.String())
	}

	for _, d := range launch.SupportedProposalOperationFactHinters {
		hs = append(hs, d.Hint.String())
	}

	sort.Strings(hs)

	return hs
}()

func c28FlipChar(rt *rapid.T, s string) (string, bool) {
	if len(s) == 0 {
		return "x", true
	}

	for try := 0; try < 8; try++ {
		i := rapid.IntRange(0, len(s)-1).Draw(rt, "charAt")
		c := s[i]

		var alphabet string

		switch {
		case c >= '0' && c <= '9':
			alphabet = "0123456789"
		case c >= 'a' && c <= 'f':
			alphabet = "abcdef"
		case c >= 'g' && c <= 'z':
			alphabet = "ghijkmnopqrstuvwxyz"
		case c >= 'A' && c <= 'Z':
			alphabet = "ABCDEFGHJKLMNPQRSTUVWXYZ"
		default:
			continue
		}

		n := alphabet[rapid.IntRange(0, len(alphabet)-1).Draw(rt, "charTo")]
		if n == c {
			n = alphabet[(strings.IndexByte(alphabet, c)+1)%len(alphabet)]
		}

		return s[:i] + string(n) + s[i+1:], true
	}

	return s + "x", true
}

var c28CurveN, _ = new(big.Int).SetString("FFFFFFFFFFFFFFFFFFFFFFFFFFFFFFFEBAAEDCE6AF48A03BBFD25E8CD0364141", 16)

// c28MalleableTwin rewrites a DER ECDSA signature (r,s) as (r, n-s): another encoding of a valid signature for the same
// message and key unless the verifier insists on the low-S form.
func c28MalleableTwin(hexsig string) (string, bool) {
	b, err := hex.DecodeString(hexsig)
	if err != nil || len(b) < 8 || b[0] != 0x30 || b[2] != 0x02 {
		return "", false
	}

	rl := int(b[3])
	if 4+rl+2 > len(b) || b[4+rl] != 0x02 {
		return "", false
	}

	r := b[4 : 4+rl]
	sl := int(b[5+rl])

	if 6+rl+sl != len(b) {
		return "", false
	}

	s := new(big.Int).SetBytes(b[6+rl:])
	ns := new(big.Int).Sub(c28CurveN, s)

	if ns.Sign() <= 0 {
		return "", false
	}

	sb := ns.Bytes()
	if sb[0]&0x80 != 0 {
		sb = append([]byte{0}, sb...)
	}

	out := []byte{0x30, byte(2 + rl + 2 + len(sb)), 0x02, byte(rl)}
	out = append(out, r...)
	out = append(out, 0x02, byte(len(sb)))
	out = append(out, sb...)

	return hex.EncodeToString(out), true
}

// c28TimeShifts: one unit of every clock/calendar component of a time.
var c28TimeShifts = []struct {
	name string
	d    time.Duration
	y, m int
}{
	{"1s", time.Second, 0, 0}, {"1m", time.Minute, 0, 0}, {"1h", time.Hour, 0, 0}, {"12h", 12 * time.Hour, 0, 0},
	{"24h", 24 * time.Hour, 0, 0}, {"1month", 0, 0, 1}, {"1year", 0, 1, 0}, {"100years", 0, 100, 0},
}

// c28Mutate produces the mutations of one site. Every mutation changes the meaning of exactly one field (or the order /
// membership of one array).
func c28Mutate(rt *rapid.T, root any, site c28Site, hintSwaps bool) []c28Mutation {
	var out []c28Mutation
	add := func(what string, nv any) {
		out = append(out, c28Mutation{Path: site.Path, What: what, Tree: c28With(root, site.Path, nv)})
	}

	cur := c28Get(root, site.Path)
	key := site.Path.key()

	if site.Array {
		arr := cur.([]any) //nolint:forcetypeassert // site.Array

		i := rapid.IntRange(0, len(arr)-1).Draw(rt, "dropAt")
		dropped := append(append([]any(nil), arr[:i]...), arr[i+1:]...)
		add(fmt.Sprintf("drop element %d of %d", i, len(arr)), dropped)

		add(fmt.Sprintf("duplicate element %d", i), append(append([]any(nil), arr...), c28Clone(arr[i])))

		if len(arr) > 1 {
			j := (i + 1 + rapid.IntRange(0, len(arr)-2).Draw(rt, "swapWith")) % len(arr)
			sw := append([]any(nil), arr...)
			sw[i], sw[j] = sw[j], sw[i]

			if !jsonEqual(sw[i], sw[j]) {
				add(fmt.Sprintf("swap elements %d and %d", i, j), sw)
			}
		}

		return out
	}

	switch t := cur.(type) {
	case nil:
		// an absent optional hash (previous block of a genesis object, empty tree root) becomes present
		add("null -> hash", gen.H("c28-injected").String())
	case bool:
		add(fmt.Sprintf("%v -> %v", t, !t), !t)
	case json.Number:
		if n, err := t.Int64(); err == nil {
			add(fmt.Sprintf("%d -> %d", n, n+1), json.Number(fmt.Sprint(n+1)))
		} else if f, err := t.Float64(); err == nil {
			add(fmt.Sprintf("%v -> %v", f, f+1), json.Number(fmt.Sprint(f+1)))
		}
	case string:
		switch {
		case key == "_hint":
			if !hintSwaps {
				return nil
			}

			for _, h := range c28AllHints {
				if h != t {
					add("kind "+t+" -> "+h, h)
				}
			}
		default:
			if tm, err := time.Parse(time.RFC3339Nano, t); err == nil && len(t) >= 20 {
				// times are content at mitum's millisecond precision (localtime.Normalize)
				add("time +1ms", tm.Add(time.Millisecond).Format(time.RFC3339Nano))

				// one unit of every calendar/clock component in both directions (a byte form of the time that drops
				// or folds a component - seconds, 12-hour clock, date only - is only visible on the matching shift),
				// plus a free millisecond-aligned offset
				for k := 0; k < 2; k++ {
					i := rapid.IntRange(0, len(c28TimeShifts)).Draw(rt, "timeshift")
					sign := time.Duration(1 - 2*rapid.IntRange(0, 1).Draw(rt, "timeshiftsign"))

					if i == len(c28TimeShifts) {
						d := sign * time.Duration(rapid.Int64Range(1, 400*24*3600*1000).Draw(rt, "timeshiftms")) * time.Millisecond
						add("time "+d.String(), tm.Add(d).Format(time.RFC3339Nano))

						continue
					}

					sh := c28TimeShifts[i]
					n := tm.Add(sign*sh.d).AddDate(int(sign)*sh.y, int(sign)*sh.m, 0)

					if n.Equal(tm) {
						continue
					}

					add(fmt.Sprintf("time %+d*%s", sign, sh.name), n.Format(time.RFC3339Nano))
				}

				return out
			}

			if s, ok := c28FlipChar(rt, t); ok {
				add(fmt.Sprintf("%q -> %q", c28Trunc(t), c28Trunc(s)), s)
			}

			switch key {
			case "signer", "publickey":
				for i := 0; i < encNodes; i++ {
					if o := gen.Local(i).Publickey().String(); o != t {
						add("key of another node", o)

						break
					}
				}
			case "node", "address", "proposer", "candidate":
				for i := 0; i < encNodes; i++ {
					if o := gen.Local(i).Address().String(); o != t {
						add("address of another node", o)

						break
					}
				}
			case "type":
				// block map item: relabel the item as another item type that the map does not have yet
				if len(site.Path) >= 3 && site.Path[len(site.Path)-3] == "items" {
					items, _ := c28Get(root, site.Path[:len(site.Path)-2]).(map[string]any)

					for _, o := range []string{"map", "proposal", "operations", "operations_tree", "states", "states_tree", "voteproofs"} {
						if _, found := items[o]; !found {
							add("item relabelled "+t+" -> "+o, o)

							break
						}
					}
				}
			case "signature":
				if tw, ok := c28MalleableTwin(t); ok {
					add("ecdsa twin (r, n-s)", tw)
				}
			}
		}
	}

	return out
}

func jsonEqual(a, b any) bool {
	x, _ := json.Marshal(a)
	y, _ := json.Marshal(b)

	return bytes.Equal(x, y)
}

func c28Trunc(s string) string {
	if len(s) > 24 {
		return s[:10] + "…" + s[len(s)-10:]
	}

	return s
}

// c28Signature maps an accepted mutation to the defect that lets it through.
func c28Signature(root any, m c28Mutation, topKind string) string {
	key := m.Path.key()
	anc := c28HintedAncestor(root, m.Path)
	ps := m.Path.String()

	if key == "_hint" {
		from, _ := c28Get(root, m.Path).(string)

		switch {
		case strings.Contains(from, "ballot-fact"):
			return "fact-kind-not-hashed:ballot"
		case strings.HasPrefix(from, "suffrage-join-fact"), strings.HasPrefix(from, "suffrage-disjoin-fact"):
			return "fact-kind-not-hashed:suffrage-join-disjoin"
		case strings.Contains(from, "network-policy-fact"):
			return "fact-kind-not-hashed:network-policy"
		default:
			return "kind-swap-accepted:" + anc
		}
	}

	switch {
	case anc == "empty-proposal-init-ballot-fact":
		return "empty-proposal-fact-hash-unchecked"
	case anc == "suffrage-expel-fact" && key == "reason":
		return "expel-reason-not-hashed"
	case anc == "manifest" && topKind == "blockmap":
		return "manifest-hash-unchecked"
	case topKind == "blockmap" && strings.Contains(ps, ".items.") && key == "type":
		return "blockmap-item-type-unsigned"
	case key == "signature" && strings.HasPrefix(m.What, "ecdsa twin"):
		return "ecdsa-signature-malleable"
	default:
		return "accepted:" + anc + "." + key
	}
}

// ---------------------------------------------------------------------------------------------------------------------
// signed objects

type c28Signed struct {
	Kind string
	V    any
	Desc string
}

var c28Kinds = []string{
	"init-ballot-sign-fact", "accept-ballot-sign-fact", "init-ballot", "accept-ballot", "proposal-sign-fact",
	"op:candidate", "op:join", "op:disjoin", "op:expel", "op:policy", "op:genesis-policy", "op:genesis-join", "blockmap", "state",
}

func c28Gen(rt *rapid.T, kind string) c28Signed {
	switch kind {
	case "init-ballot-sign-fact":
		k := rapid.SampledFrom([]encFactKind{encFactINIT, encFactSuffrageConfirm, encFactEmptyProposal}).Draw(rt, "factKind")
		point := encPoint(rt, 1)
		nx := 0

		if k == encFactSuffrageConfirm {
			nx = rapid.IntRange(1, 2).Draw(rt, "nExpelFacts")
		} else if k == encFactINIT {
			nx = rapid.IntRange(0, 2).Draw(rt, "nExpelFacts")
		}

		expels, _, xd := encExpels(rt, point.Height(), nx)
		f := encINITFact(k, point, encHash(rt, "prev"), encHash(rt, "proposal"), gen.ExpelFactHashes(expels))
		s := encNodeIdx(rt, "signer")

		return c28Signed{Kind: kind, V: gen.SignINIT(f, gen.Local(s)), Desc: fmt.Sprintf("%s %v %s s%d", encFactKindNames[k], point, xd, s)}
	case "accept-ballot-sign-fact":
		k := rapid.SampledFrom([]encFactKind{encFactACCEPT, encFactEmptyOperations, encFactNotProcessed}).Draw(rt, "factKind")
		point := encPoint(rt, 1)
		nx := 0

		if k == encFactACCEPT {
			nx = rapid.IntRange(0, 2).Draw(rt, "nExpelFacts")
		}

		expels, _, xd := encExpels(rt, point.Height(), nx)
		f := encACCEPTFact(k, point, encHash(rt, "proposal"), encHash(rt, "newblock"), gen.ExpelFactHashes(expels))
		s := encNodeIdx(rt, "signer")

		return c28Signed{Kind: kind, V: gen.SignACCEPT(f, gen.Local(s)), Desc: fmt.Sprintf("%s %v %s s%d", encFactKindNames[k], point, xd, s)}
	case "init-ballot":
		shape := rapid.SampledFrom([]string{"next-height", "next-round-init", "next-round-accept", "expels", "suffrage-confirm", "empty-proposal"}).Draw(rt, "shape")
		bl := encINITBallot(rt, shape)

		return c28Signed{Kind: kind, V: bl.Ballot, Desc: bl.Desc}
	case "accept-ballot":
		shape := rapid.SampledFrom([]string{"plain", "expels", "empty-operations", "not-processed"}).Draw(rt, "shape")
		bl := encACCEPTBallot(rt, shape)

		return c28Signed{Kind: kind, V: bl.Ballot, Desc: bl.Desc}
	case "proposal-sign-fact":
		pr, d, _ := c27Proposal(rt)

		return c28Signed{Kind: kind, V: pr, Desc: d}
	case "state":
		vk := rapid.SampledFrom([]string{"suffrage", "candidates", "policy"}).Draw(rt, "stateValueKind")
		st, d := encState(rt, encPoint(rt, 0).Height(), vk)

		return c28Signed{Kind: kind, V: st, Desc: vk + " " + d}
	case "blockmap":
		mf, d := encManifest(rt, encPoint(rt, 0).Height())
		m, md := encBlockMap(rt, mf)

		return c28Signed{Kind: kind, V: m, Desc: d + " " + md}
	default:
		op := encOperation(rt, strings.TrimPrefix(kind, "op:"))

		return c28Signed{Kind: kind, V: op.Op, Desc: op.Desc}
	}
}

func c28SameRole(kind string, y any) bool {
	var ok bool

	switch {
	case strings.HasSuffix(kind, "ballot-sign-fact"):
		_, ok = y.(base.BallotSignFact)
	case strings.HasSuffix(kind, "-ballot"):
		_, ok = y.(base.Ballot)
	case kind == "proposal-sign-fact":
		_, ok = y.(base.ProposalSignFact)
	case kind == "blockmap":
		_, ok = y.(base.BlockMap)
	case kind == "state":
		_, ok = y.(base.State)
	default:
		_, ok = y.(base.Operation)
	}

	return ok
}

type c28Counters struct {
	mutations, undecodable, invalid, noop, accepted int
}

// c28Try applies one mutation: the mutated document must fail to decode, or fail IsValid, or be a no-op (the decoded
// object re-encodes to the same JSON value as the decoded original does; canon is that value - comparing with what the
// decoder makes of the untouched document keeps C27's nil-vs-empty and key-order findings out of this check).
func c28Try(t ev.TB, r *ev.Rec, so c28Signed, root any, canon any, m c28Mutation, cnt *c28Counters) {
	_, enc := gen.Encoders()
	cnt.mutations++

	bm, err := json.Marshal(m.Tree)
	if err != nil {
		t.Fatalf("harness: cannot marshal the mutated tree: %v", err)
	}

	var (
		y     any
		derr  error
		verr  error
		valid bool
	)

	func() {
		defer func() {
			if x := recover(); x != nil {
				if r.Failed() {
					panic(x)
				}

				// a panic on hostile input is not what this property is about; it does reject the input
				derr = fmt.Errorf("panic: %v", x)
			}
		}()

		y, derr = enc.Decode(bm)
		if derr != nil || y == nil {
			if derr == nil {
				derr = fmt.Errorf("decoded to nil")
			}

			return
		}

		// the receiver assigns the decoded value to the interface it expects (encoder.Decode -> util.SetInterfaceValue);
		// a document that now decodes to something of another role is rejected there
		if !c28SameRole(so.Kind, y) {
			derr = fmt.Errorf("decoded to %T, which is not what a receiver of %s accepts", y, so.Kind)

			return
		}

		iv, ok := c27AsIsValider(y)
		if !ok {
			derr = fmt.Errorf("decoded to %T without IsValid", y)

			return
		}

		verr = iv.IsValid(gen.NetworkID)
		valid = verr == nil
	}()

	switch {
	case derr != nil:
		cnt.undecodable++

		return
	case !valid:
		cnt.invalid++

		return
	}

	b2, err := enc.Marshal(y)
	if err == nil {
		// compare as JSON values: the encoder does not fix the order of map keys (C27 reports that)
		v2, e2 := c27ParseJSON(b2)

		if e2 == nil {
			var diffs [][3]string
			c27Diff(canon, v2, "", &diffs)

			if len(diffs) == 0 {
				cnt.noop++

				if m.What != "identity" {
					r.Class("no-op:"+c28HintedAncestor(root, m.Path)+"."+m.Path.key(), 1)
				}

				return
			}
		}
	}

	cnt.accepted++

	r.Violation(t, c28Signature(root, m, so.Kind), "%s {%s}: changing %s (%s) is not detected: the mutated object decodes and IsValid(networkID) passes\nmutated: %s",
		so.Kind, so.Desc, m.Path, m.What, c27Short(bm))
}

func TestC28(t *testing.T) {
	r := ev.Start(t, "C28")
	defer r.Finish()

	r.Rule("signed objects built with real keys over 6 nodes (INIT/ACCEPT ballot sign facts with all six fact kinds, INIT/ACCEPT ballots in 10 shapes incl. expels, " +
		"suffrage-confirm and embedded voteproofs, proposals with 0..4 operations, the 7 operation kinds with 1..5 node signs, block maps with 2..6 items, states " +
		"(suffrage / candidates / policy value, with and without previous hash, 1..3 operations); the object is " +
		"marshaled, parsed into a JSON tree, and every leaf inside a signed region (an object with fact+sign(s), a block map, or a state: its hash commits to all of it) is changed once: number+1, bool flipped, " +
		"null->hash, one character of a string replaced within its class, time +1ms/+1h, signer/node replaced by another real node's, signature replaced by its ECDSA " +
		"twin (r,n-s), `_hint` replaced by every other registered hint; arrays lose / duplicate / swap an element. Each mutated document must fail to decode, fail " +
		"IsValid(networkID), or be a no-op (re-encodes to the original value). Also: IsValid under a foreign network id must fail; facts of different kinds built from " +
		"identical field values must have different hashes. non-trivial: an object for which at least one mutation decoded successfully; distinct by (kind, shape)")
	r.Floor(40)
	r.Assume(
		"only content inside signed regions is mutated: a voteproof's own id / threshold / finished_at and a ballot's expel list are not signed by anybody",
		"a state is taken as the content its hash commits to (previous, key, value, operations) plus the hash itself; its height is positional and is compared with the manifest's height wherever a state is accepted, so it is not mutated",
		"times are content at millisecond precision (mitum signs localtime.Normalize(t)); sub-millisecond digits are not mutated",
		"case changes in hex strings and other re-spellings that decode to the same value are no-ops by the re-encoding rule",
		"a mutated document that makes the decoder panic counts as rejected here (robustness of decoders is C18/C29/C30 territory)",
	)

	var total c28Counters

	r.ShrinkTime(20 * time.Second)

	// ---- A. leaf mutations
	for _, kind := range c28Kinds {
		if r.Failed() {
			break
		}

		kind := kind

		t.Run(kind, func(t *testing.T) {
			r.Checks(20, 1500)
			rapid.Check(t, func(rt *rapid.T) {
				_, enc := gen.Encoders()
				so := c28Gen(rt, kind)

				iv, ok := c27AsIsValider(so.V)
				if !ok {
					rt.Fatalf("harness: %T has no IsValid", so.V)
				}

				if err := iv.IsValid(gen.NetworkID); err != nil {
					rt.Fatalf("harness: generated %s {%s} is not valid: %+v", kind, so.Desc, err)
				}

				// verification under a different network id
				for _, other := range [][]byte{[]byte("verif-networl"), []byte("verif-network2"), []byte("x")} {
					if kind == "state" {
						break // a state carries no signature of its own; the network id is bound by the block map that signs over its tree
					}

					if err := iv.IsValid(other); err == nil {
						r.Violation(rt, "network-id-not-bound:"+kind, "%s {%s}: IsValid(%q) passes for an object signed for %q", kind, so.Desc, other, gen.NetworkID)
					}
				}

				b1, err := enc.Marshal(so.V)
				if err != nil {
					rt.Fatalf("harness: marshal: %v", err)
				}

				root, err := c27ParseJSON(b1)
				if err != nil {
					rt.Fatalf("harness: parse: %v", err)
				}

				// canonical form: what the decoder makes of the untouched document
				y0, err := enc.Decode(b1)
				if err != nil {
					rt.Fatalf("harness: the unmodified document of %s does not decode (C27 territory): %v", kind, err)
				}

				b0, err := enc.Marshal(y0)
				if err != nil {
					rt.Fatalf("harness: marshal: %v", err)
				}

				canon, err := c27ParseJSON(b0)
				if err != nil {
					rt.Fatalf("harness: parse: %v", err)
				}

				// sanity: the untouched tree must come out as a valid no-op, otherwise every verdict below would be meaningless
				{
					var cnt c28Counters
					c28Try(rt, r, so, root, canon, c28Mutation{What: "identity", Tree: root}, &cnt)

					if cnt.noop != 1 {
						rt.Fatalf("harness: the unmodified document of %s {%s} is not a valid no-op (%+v)\n%s", kind, so.Desc, cnt, c27Short(b1))
					}
				}

				var sites []c28Site
				c28Sites(root, nil, false, &sites)

				if len(sites) == 0 {
					rt.Fatalf("harness: no signed region found in %s", c27Short(b1))
				}

				// every site of the object's own region; a drawn sample of the sites in nested regions (embedded voteproof, expels)
				var own, nested []c28Site

				for _, s := range sites {
					first, _ := s.Path[0].(string)
					if first == "voteproof" || first == "expels" {
						nested = append(nested, s)
					} else {
						own = append(own, s)
					}
				}

				if len(nested) > 0 {
					n := rapid.IntRange(1, 10).Draw(rt, "nNested")
					if n > len(nested) {
						n = len(nested)
					}

					perm := rapid.Permutation(nested).Draw(rt, "nestedSites")
					own = append(own, perm[:n]...)
				}

				hintSwaps := rapid.IntRange(0, 3).Draw(rt, "hintSwaps") == 0

				var cnt c28Counters

				for _, s := range own {
					if c28StateHeightSite(kind, s) {
						continue
					}

					for _, m := range c28Mutate(rt, root, s, hintSwaps) {
						c28Try(rt, r, so, root, canon, m, &cnt)
					}
				}

				if r.Failed() {
					return
				}

				total.mutations += cnt.mutations
				total.undecodable += cnt.undecodable
				total.invalid += cnt.invalid
				total.noop += cnt.noop
				total.accepted += cnt.accepted

				r.Class("mutations", int64(cnt.mutations))
				r.Class("mutation:undecodable", int64(cnt.undecodable))
				r.Class("mutation:decoded-then-invalid", int64(cnt.invalid))
				r.Class("mutation:no-op", int64(cnt.noop))
				r.Class("mutation:accepted(known)", int64(cnt.accepted))

				nontrivial := cnt.invalid+cnt.noop+cnt.accepted > 0
				hs := "no-hint-swaps"

				if hintSwaps {
					hs = "hint-swaps"
				}

				r.Case(kind+"|"+so.Desc+"|"+hs, nontrivial, "kind:"+kind, hs)

				if nontrivial && r.WantSample() && len(b1) < 5000 && (kind == "op:expel" || kind == "accept-ballot-sign-fact" || kind == "blockmap" || kind == "proposal-sign-fact") {
					r.Sample(map[string]any{"kind": kind, "shape": so.Desc, "sites_mutated": len(own), "mutations": cnt.mutations, "undecodable": cnt.undecodable,
						"decoded_then_invalid": cnt.invalid, "no_op": cnt.noop, "accepted": cnt.accepted, "object": json.RawMessage(b1)})
				}
			})
		})
	}

	// ---- B. facts of different kinds with identical field values must not share a hash
	if !r.Failed() {
		t.Run("kind-pairs", func(t *testing.T) {
			r.Checks(60, 3000)
			rapid.Check(t, func(rt *rapid.T) {
				c28KindPairs(rt, r)
			})
		})
	}
}

func c28KindPairs(rt *rapid.T, r *ev.Rec) {
	point := encPoint(rt, 1)
	prev, proposal := encHash(rt, "prev"), encHash(rt, "proposal")
	nx := rapid.IntRange(0, 2).Draw(rt, "nExpelFacts")
	expels, _, xd := encExpels(rt, point.Height(), nx)
	xh := gen.ExpelFactHashes(expels)
	token := encToken(rt)
	n := gen.Local(encNodeIdx(rt, "node"))
	start := encPoint(rt, 1).Height()
	policy := encPolicy(rt)

	type kf struct {
		kind string
		fact base.Fact
	}

	var groups [][]kf

	// INIT side: same point / previous block / proposal / expel facts
	groups = append(groups, []kf{
		{"init-ballot-fact", isaac.NewINITBallotFact(point, prev, proposal, xh)},
		{"suffrage-confirm-ballot-fact", isaac.NewSuffrageConfirmBallotFact(point, prev, proposal, xh)},
	})

	// ACCEPT side: the two marker facts draw their own block hash, so the plain fact is built with the same one
	eo := isaac.NewEmptyOperationsACCEPTBallotFact(point, proposal)
	np := isaac.NewNotProcessedACCEPTBallotFact(point, proposal)
	groups = append(groups,
		[]kf{{"empty-operations-accept-ballot-fact", eo}, {"accept-ballot-fact", isaac.NewACCEPTBallotFact(point, proposal, eo.NewBlock(), nil)}},
		[]kf{{"not-processed-accept-ballot-fact", np}, {"accept-ballot-fact", isaac.NewACCEPTBallotFact(point, proposal, np.NewBlock(), nil)}},
	)

	// operations
	gp := isaacoperation.NewGenesisNetworkPolicyFact(policy)
	groups = append(groups,
		[]kf{
			{"suffrage-join-fact", isaacoperation.NewSuffrageJoinFact(token, n.Address(), start)},
			{"suffrage-disjoin-fact", isaacoperation.NewSuffrageDisjoinFact(token, n.Address(), start)},
		},
		[]kf{
			{"genesis-network-policy-fact", gp},
			{"network-policy-fact", isaacoperation.NewNetworkPolicyFact(gp.Token(), policy)},
		},
		// different shapes, same token: must differ trivially (control group)
		[]kf{
			{"suffrage-candidate-fact", isaacoperation.NewSuffrageCandidateFact(token, n.Address(), n.Publickey())},
			{"suffrage-join-fact", isaacoperation.NewSuffrageJoinFact(token, n.Address(), start)},
			{"suffrage-expel-fact", isaac.NewSuffrageExpelFact(n.Address(), start, start, "verif")},
			{"proposal-fact", isaac.NewProposalFact(point, n.Address(), prev, nil)},
		},
	)

	for _, g := range groups {
		for i := range g {
			if err := g[i].fact.IsValid(gen.NetworkID); err != nil && !(g[i].kind == "suffrage-confirm-ballot-fact" && nx == 0) {
				rt.Fatalf("harness: %s is not valid: %+v", g[i].kind, err)
			}

			for j := i + 1; j < len(g); j++ {
				if g[i].fact.Hash().Equal(g[j].fact.Hash()) {
					fam := "ballot"

					switch {
					case strings.Contains(g[i].kind, "join"):
						fam = "suffrage-join-disjoin"
					case strings.Contains(g[i].kind, "policy"):
						fam = "network-policy"
					}

					r.Violation(rt, "fact-kind-not-hashed:"+fam, "%s and %s built from the same field values share the hash %s", g[i].kind, g[j].kind, g[i].fact.Hash())
				}
			}
		}
	}

	r.Case(fmt.Sprintf("pairs|%v|%s|%x|%s|%d|%x", point, xd, []byte(token), n.Address(), start, policy.HashBytes()), true, "kind:kind-pairs")
}

var _ = util.ErrInvalid
