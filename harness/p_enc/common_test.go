// Package p_enc: checks for C27 (JSON round trip of every hinted object) and C28 (signed objects detect changes).
//
// common_test.go holds the object generators shared by both checks (prefix enc). Everything is built through the
// exported constructors of mitum and signed with real keys (verif/internal/gen caches nodes and signatures).
package p_enc

import (
	"fmt"
	"net"
	"net/url"
	"sort"
	"strings"
	"time"

	"github.com/pkg/errors"
	"github.com/spikeekips/mitum/base"
	"github.com/spikeekips/mitum/isaac"
	isaacblock "github.com/spikeekips/mitum/isaac/block"
	isaacoperation "github.com/spikeekips/mitum/isaac/operation"
	"github.com/spikeekips/mitum/network/quicstream"
	"github.com/spikeekips/mitum/util"
	"github.com/spikeekips/mitum/util/fixedtree"
	"github.com/spikeekips/mitum/util/hint"
	"github.com/spikeekips/mitum/util/localtime"
	"pgregory.net/rapid"
	"verif/internal/gen"
)

const encNodes = 6

// encObj is one generated object plus what the evidence needs to know about it.
type encObj struct {
	V          any
	Kind       string   // catalog entry (one per registered hint, or per hint + construction path)
	Variant    string   // canonical descriptor of the drawn shape (fingerprint material; no times, no random ids)
	Nontrivial bool     // optional parts populated
	WantValid  *bool    // when set: the harness asserts IsValid(networkID)==nil (or !=nil) before the round trip
	Classes    []string // histogram classes
	// DecodeHint: set for the two tree-node types, whose encoding carries no hint because the block file header names it;
	// the reader decodes them with Encoder.DecodeWithHint (isaac/block/localfs_writer.go unmarshalIndexedTreeNode).
	DecodeHint *hint.Hint
}

func encTrue() *bool  { b := true; return &b }
func encFalse() *bool { b := false; return &b }

func encPoint(rt *rapid.T, minHeight int64) base.Point {
	h := rapid.Int64Range(minHeight, 6).Draw(rt, "height")
	if rapid.IntRange(0, 19).Draw(rt, "bigHeight") == 0 {
		h = rapid.SampledFrom([]int64{33, 1 << 20, 1<<53 + 1, 1<<62 + 7}).Draw(rt, "height64")
	}

	r := rapid.Uint64Range(0, 3).Draw(rt, "round")
	if h == 0 {
		r = 0 // the genesis point has no later rounds (base.Point.IsValid)
	}

	return base.NewPoint(base.Height(h), base.Round(r))
}

func encHash(rt *rapid.T, label string) util.Hash {
	return gen.H(fmt.Sprintf("%s-%d", label, rapid.IntRange(0, 5).Draw(rt, label)))
}

func encNodeIdx(rt *rapid.T, label string) int {
	return rapid.IntRange(0, encNodes-1).Draw(rt, label)
}

// encSubset draws a subset of 0..encNodes-1 with between lo and hi members, excluding `not`, in drawn order.
func encSubset(rt *rapid.T, label string, lo, hi int, not map[int]bool) []int {
	var pool []int
	for i := 0; i < encNodes; i++ {
		if !not[i] {
			pool = append(pool, i)
		}
	}

	if hi > len(pool) {
		hi = len(pool)
	}

	if lo > hi {
		lo = hi
	}

	perm := rapid.Permutation(pool).Draw(rt, label+"Perm")
	n := rapid.IntRange(lo, hi).Draw(rt, label+"N")

	return perm[:n]
}

func encLocals(idx []int) []base.LocalNode {
	ls := make([]base.LocalNode, len(idx))
	for i := range idx {
		ls[i] = gen.Local(idx[i])
	}

	return ls
}

func encIdxString(idx []int) string {
	ss := make([]string, len(idx))
	for i := range idx {
		ss[i] = fmt.Sprint(idx[i])
	}

	return strings.Join(ss, ".")
}

// encExpels draws k expel operations (distinct targets) valid at height h, signed by nodes outside the target set.
func encExpels(rt *rapid.T, h base.Height, k int) (ops []base.SuffrageExpelOperation, targets map[int]bool, desc string) {
	targets = map[int]bool{}
	if k < 1 {
		return nil, targets, "x0"
	}

	ts := encSubset(rt, "expelTargets", k, k, nil)
	for _, t := range ts {
		targets[t] = true
	}

	start := h
	if start <= base.GenesisHeight {
		start = base.GenesisHeight + 1
	}

	ops = make([]base.SuffrageExpelOperation, len(ts))
	ds := make([]string, len(ts))

	for i, t := range ts {
		signers := encSubset(rt, fmt.Sprintf("expelSigners%d", i), 1, 3, targets)
		s := start
		if s > base.GenesisHeight+1 && rapid.Bool().Draw(rt, "expelEarlier") {
			s--
		}

		ops[i] = gen.Expel(gen.Local(t).Address(), s, h+base.Height(rapid.Int64Range(0, 3).Draw(rt, "expelSpan")), encLocals(signers))
		ds[i] = fmt.Sprintf("%d<-%s", t, encIdxString(signers))
	}

	sort.Strings(ds)

	return ops, targets, "x" + strings.Join(ds, ",")
}

// ---- ballot facts

type encFactKind int

const (
	encFactINIT encFactKind = iota
	encFactSuffrageConfirm
	encFactEmptyProposal
	encFactACCEPT
	encFactEmptyOperations
	encFactNotProcessed
)

var encFactKindNames = []string{"init", "suffrage-confirm", "empty-proposal", "accept", "empty-operations", "not-processed"}

func encINITFact(kind encFactKind, point base.Point, prev, proposal util.Hash, expelfacts []util.Hash) base.INITBallotFact {
	switch kind {
	case encFactSuffrageConfirm:
		return isaac.NewSuffrageConfirmBallotFact(point, prev, proposal, expelfacts)
	case encFactEmptyProposal:
		return isaac.NewEmptyProposalINITBallotFact(point, prev, proposal)
	default:
		return isaac.NewINITBallotFact(point, prev, proposal, expelfacts)
	}
}

func encACCEPTFact(kind encFactKind, point base.Point, proposal, newblock util.Hash, expelfacts []util.Hash) base.ACCEPTBallotFact {
	switch kind {
	case encFactEmptyOperations:
		return isaac.NewEmptyOperationsACCEPTBallotFact(point, proposal)
	case encFactNotProcessed:
		return isaac.NewNotProcessedACCEPTBallotFact(point, proposal)
	default:
		return isaac.NewACCEPTBallotFact(point, proposal, newblock, expelfacts)
	}
}

// ---- voteproofs

type encVP struct {
	VP       base.Voteproof
	Expels   []base.SuffrageExpelOperation
	Desc     string
	Kind     string
	Valid    bool
	Majority base.BallotFact
}

// encINITVoteproof builds an INIT voteproof at point. mode: "majority", "draw", "expel", "stuck".
func encINITVoteproof(rt *rapid.T, point base.Point, mode string, prev, proposal util.Hash) encVP {
	th := base.Threshold(rapid.SampledFrom([]float64{67, 60, 100, 66.7, 66.67, 51.25, 99.999, 75.55}).Draw(rt, "threshold"))

	switch mode {
	case "expel", "stuck":
		k := rapid.IntRange(1, 2).Draw(rt, "nExpels")
		expels, targets, xd := encExpels(rt, point.Height(), k)
		voters := encSubset(rt, "voters", 1, encNodes, targets)

		if mode == "stuck" {
			sfs := make([]base.BallotSignFact, len(voters))
			for i, v := range voters {
				// stuck: voters disagree
				f := isaac.NewINITBallotFact(point, prev, gen.H(fmt.Sprintf("stuck-proposal-%d", i%2)), gen.ExpelFactHashes(expels))
				sfs[i] = gen.SignINIT(f, gen.Local(v))
			}

			return encVP{VP: gen.INITStuckVoteproof(point, sfs, expels), Expels: expels, Kind: "init-stuck-voteproof", Valid: true,
				Desc: fmt.Sprintf("stuck v%s %s", encIdxString(voters), xd)}
		}

		fact := isaac.NewINITBallotFact(point, prev, proposal, gen.ExpelFactHashes(expels))

		return encVP{VP: gen.FullINITVoteproof(fact, encLocals(voters), th, expels), Expels: expels, Kind: "init-expel-voteproof", Valid: true,
			Majority: fact, Desc: fmt.Sprintf("expel v%s %s th%v", encIdxString(voters), xd, th)}
	case "draw":
		voters := encSubset(rt, "voters", 2, encNodes, nil)
		sfs := make([]base.BallotSignFact, len(voters))

		for i, v := range voters {
			f := isaac.NewINITBallotFact(point, prev, gen.H(fmt.Sprintf("draw-proposal-%d", i)), nil)
			sfs[i] = gen.SignINIT(f, gen.Local(v))
		}

		return encVP{VP: gen.INITVoteproof(point, nil, sfs, th, nil), Kind: "init-voteproof", Valid: true,
			Desc: fmt.Sprintf("draw v%s th%v", encIdxString(voters), th)}
	default:
		voters := encSubset(rt, "voters", 1, encNodes, nil)
		fact := isaac.NewINITBallotFact(point, prev, proposal, nil)

		// minority votes for another fact, at drawn positions among the sign facts (also first): a voteproof keeps whatever order
		// the ballotbox collected its sign facts in
		used := map[int]bool{}
		for _, v := range voters {
			used[v] = true
		}

		minority := encSubset(rt, "minority", 0, 2, used)
		if len(minority) < 1 {
			return encVP{VP: gen.FullINITVoteproof(fact, encLocals(voters), th, nil), Kind: "init-voteproof", Valid: true, Majority: fact,
				Desc: fmt.Sprintf("majority v%s th%v", encIdxString(voters), th)}
		}

		sfs := make([]base.BallotSignFact, 0, len(voters)+len(minority))
		for _, v := range voters {
			sfs = append(sfs, gen.SignINIT(fact, gen.Local(v)))
		}

		other := isaac.NewINITBallotFact(point, prev, gen.H("minority-proposal"), nil)
		for _, v := range minority {
			sfs = append(sfs, gen.SignINIT(other, gen.Local(v)))
		}

		sfs = rapid.Permutation(sfs).Draw(rt, "signFactOrder")

		return encVP{VP: gen.INITVoteproof(point, fact, sfs, th, nil), Kind: "init-voteproof", Valid: true, Majority: fact,
			Desc: fmt.Sprintf("majority v%s minority v%s th%v", encIdxString(voters), encIdxString(minority), th)}
	}
}

func encACCEPTVoteproof(rt *rapid.T, point base.Point, mode string, proposal, newblock util.Hash) encVP {
	th := base.Threshold(rapid.SampledFrom([]float64{67, 60, 100, 66.7, 66.67, 51.25, 99.999, 75.55}).Draw(rt, "threshold"))

	switch mode {
	case "expel", "stuck":
		k := rapid.IntRange(1, 2).Draw(rt, "nExpels")
		expels, targets, xd := encExpels(rt, point.Height(), k)
		voters := encSubset(rt, "voters", 1, encNodes, targets)

		if mode == "stuck" {
			sfs := make([]base.BallotSignFact, len(voters))
			for i, v := range voters {
				f := isaac.NewACCEPTBallotFact(point, proposal, gen.H(fmt.Sprintf("stuck-block-%d", i%2)), gen.ExpelFactHashes(expels))
				sfs[i] = gen.SignACCEPT(f, gen.Local(v))
			}

			return encVP{VP: gen.ACCEPTStuckVoteproof(point, sfs, expels), Expels: expels, Kind: "accept-stuck-voteproof", Valid: true,
				Desc: fmt.Sprintf("stuck v%s %s", encIdxString(voters), xd)}
		}

		fact := isaac.NewACCEPTBallotFact(point, proposal, newblock, gen.ExpelFactHashes(expels))

		return encVP{VP: gen.FullACCEPTVoteproof(fact, encLocals(voters), th, expels), Expels: expels, Kind: "accept-expel-voteproof", Valid: true,
			Majority: fact, Desc: fmt.Sprintf("expel v%s %s th%v", encIdxString(voters), xd, th)}
	case "draw":
		voters := encSubset(rt, "voters", 2, encNodes, nil)
		sfs := make([]base.BallotSignFact, len(voters))

		for i, v := range voters {
			f := isaac.NewACCEPTBallotFact(point, proposal, gen.H(fmt.Sprintf("draw-block-%d", i)), nil)
			sfs[i] = gen.SignACCEPT(f, gen.Local(v))
		}

		return encVP{VP: gen.ACCEPTVoteproof(point, nil, sfs, th, nil), Kind: "accept-voteproof", Valid: true,
			Desc: fmt.Sprintf("draw v%s th%v", encIdxString(voters), th)}
	default:
		voters := encSubset(rt, "voters", 1, encNodes, nil)
		fact := isaac.NewACCEPTBallotFact(point, proposal, newblock, nil)

		used := map[int]bool{}
		for _, v := range voters {
			used[v] = true
		}

		minority := encSubset(rt, "minority", 0, 2, used)
		if len(minority) < 1 {
			return encVP{VP: gen.FullACCEPTVoteproof(fact, encLocals(voters), th, nil), Kind: "accept-voteproof", Valid: true, Majority: fact,
				Desc: fmt.Sprintf("majority v%s th%v", encIdxString(voters), th)}
		}

		sfs := make([]base.BallotSignFact, 0, len(voters)+len(minority))
		for _, v := range voters {
			sfs = append(sfs, gen.SignACCEPT(fact, gen.Local(v)))
		}

		other := isaac.NewACCEPTBallotFact(point, proposal, gen.H("minority-block"), nil)
		for _, v := range minority {
			sfs = append(sfs, gen.SignACCEPT(other, gen.Local(v)))
		}

		sfs = rapid.Permutation(sfs).Draw(rt, "signFactOrder")

		return encVP{VP: gen.ACCEPTVoteproof(point, fact, sfs, th, nil), Kind: "accept-voteproof", Valid: true, Majority: fact,
			Desc: fmt.Sprintf("majority v%s minority v%s th%v", encIdxString(voters), encIdxString(minority), th)}
	}
}

// ---- ballots (valid by construction; the caller asserts it)

type encBallot struct {
	Ballot base.Ballot
	Kind   string
	Desc   string
}

// encINITBallot: shape in {"next-height", "next-round-init", "next-round-accept", "expels", "suffrage-confirm", "empty-proposal"}.
func encINITBallot(rt *rapid.T, shape string) encBallot {
	signer := gen.Local(encNodeIdx(rt, "ballotSigner"))
	prev := encHash(rt, "prev")
	proposal := encHash(rt, "proposal")

	switch shape {
	case "next-round-init", "next-round-accept":
		point := encPoint(rt, 1)
		point = base.NewPoint(point.Height(), point.Round()+1)
		prevround := base.NewPoint(point.Height(), point.Round()-1)

		var vp encVP
		if shape == "next-round-init" {
			vp = encINITVoteproof(rt, prevround, "draw", prev, proposal)
		} else {
			vp = encACCEPTVoteproof(rt, prevround, "draw", proposal, encHash(rt, "newblock"))
		}

		fact := isaac.NewINITBallotFact(point, prev, proposal, nil)
		sf := gen.SignINIT(fact, signer)

		return encBallot{Ballot: isaac.NewINITBallot(vp.VP, sf, nil), Kind: "init-ballot", Desc: shape + " " + vp.Desc}
	case "expels":
		point := encPoint(rt, 2)
		point = base.NewPoint(point.Height(), 0)
		avp := encACCEPTVoteproof(rt, base.NewPoint(point.Height()-1, base.Round(rapid.Uint64Range(0, 2).Draw(rt, "prevRound"))), "majority", encHash(rt, "prevProposal"), prev)
		expels, targets, xd := encExpels(rt, point.Height(), rapid.IntRange(1, 2).Draw(rt, "nBallotExpels"))

		for targets[encIndexOf(signer)] {
			signer = gen.Local((encIndexOf(signer) + 1) % encNodes)
		}

		fact := isaac.NewINITBallotFact(point, prev, proposal, gen.ExpelFactHashes(expels))
		sf := gen.SignINIT(fact, signer)

		return encBallot{Ballot: isaac.NewINITBallot(avp.VP, sf, append([]base.SuffrageExpelOperation(nil), expels...)), Kind: "init-ballot",
			Desc: "expels " + xd + " " + avp.Desc}
	case "suffrage-confirm":
		point := encPoint(rt, 1)
		ivp := encINITVoteproof(rt, point, "expel", prev, proposal)
		fact := isaac.NewSuffrageConfirmBallotFact(point, prev, proposal, gen.ExpelFactHashes(ivp.Expels))
		sf := gen.SignINIT(fact, signer)

		return encBallot{Ballot: isaac.NewINITBallot(ivp.VP, sf, nil), Kind: "init-ballot", Desc: "suffrage-confirm " + ivp.Desc}
	case "empty-proposal":
		point := encPoint(rt, 2)
		point = base.NewPoint(point.Height(), 0)
		avp := encACCEPTVoteproof(rt, base.NewPoint(point.Height()-1, 0), "majority", encHash(rt, "prevProposal"), prev)
		fact := isaac.NewEmptyProposalINITBallotFact(point, prev, proposal)
		sf := gen.SignINIT(fact, signer)

		return encBallot{Ballot: isaac.NewINITBallot(avp.VP, sf, nil), Kind: "init-ballot", Desc: "empty-proposal " + avp.Desc}
	default: // next-height
		point := encPoint(rt, 2)
		point = base.NewPoint(point.Height(), 0)
		avp := encACCEPTVoteproof(rt, base.NewPoint(point.Height()-1, base.Round(rapid.Uint64Range(0, 2).Draw(rt, "prevRound"))),
			rapid.SampledFrom([]string{"majority", "expel"}).Draw(rt, "avpMode"), encHash(rt, "prevProposal"), prev)
		fact := isaac.NewINITBallotFact(point, prev, proposal, nil)
		sf := gen.SignINIT(fact, signer)

		return encBallot{Ballot: isaac.NewINITBallot(avp.VP, sf, nil), Kind: "init-ballot", Desc: "next-height " + avp.Desc}
	}
}

func encIndexOf(n base.LocalNode) int {
	for i := 0; i < encNodes; i++ {
		if gen.Local(i).Address().Equal(n.Address()) {
			return i
		}
	}

	return -1
}

// encACCEPTBallot: shape in {"plain", "expels", "empty-operations", "not-processed"}.
func encACCEPTBallot(rt *rapid.T, shape string) encBallot {
	point := encPoint(rt, 1)
	prev := encHash(rt, "prev")
	proposal := encHash(rt, "proposal")
	newblock := encHash(rt, "newblock")
	signer := gen.Local(encNodeIdx(rt, "ballotSigner"))

	switch shape {
	case "expels":
		ivp := encINITVoteproof(rt, point, "expel", prev, proposal)

		targets := map[int]bool{}
		for i := range ivp.Expels {
			targets[encIndexOf(gen.LocalByAddress(ivp.Expels[i].ExpelFact().Node()))] = true
		}

		for targets[encIndexOf(signer)] {
			signer = gen.Local((encIndexOf(signer) + 1) % encNodes)
		}

		fact := isaac.NewACCEPTBallotFact(point, proposal, newblock, gen.ExpelFactHashes(ivp.Expels))
		sf := gen.SignACCEPT(fact, signer)

		return encBallot{Ballot: isaac.NewACCEPTBallot(ivp.VP.(base.INITVoteproof), sf, append([]base.SuffrageExpelOperation(nil), ivp.Expels...)),
			Kind: "accept-ballot", Desc: "expels " + ivp.Desc}
	case "empty-operations", "not-processed":
		ivp := encINITVoteproof(rt, point, "majority", prev, proposal)

		k := encFactEmptyOperations
		if shape == "not-processed" {
			k = encFactNotProcessed
		}

		sf := gen.SignACCEPT(encACCEPTFact(k, point, proposal, nil, nil), signer)

		return encBallot{Ballot: isaac.NewACCEPTBallot(ivp.VP.(base.INITVoteproof), sf, nil), Kind: "accept-ballot", Desc: shape + " " + ivp.Desc}
	default:
		ivp := encINITVoteproof(rt, point, "majority", prev, proposal)
		sf := gen.SignACCEPT(isaac.NewACCEPTBallotFact(point, proposal, newblock, nil), signer)

		return encBallot{Ballot: isaac.NewACCEPTBallot(ivp.VP.(base.INITVoteproof), sf, nil), Kind: "accept-ballot", Desc: "plain " + ivp.Desc}
	}
}

// ---- times and hand-made signs (same formula as base.NewBaseNodeSignFromBytes but with a drawn signing time; the harness
// asserts that the resulting operation is valid, so a wrong formula is a harness error, never a verdict)

func encTime(rt *rapid.T, label string) (time.Time, string) {
	sec := rapid.Int64Range(1_600_000_000, 1_900_000_000).Draw(rt, label+"Sec")
	cls := rapid.SampledFrom([]string{"ms", "ms", "ms", "whole-second", "sub-ms", "ms-x00"}).Draw(rt, label+"Class")

	var nsec int64

	switch cls {
	case "whole-second":
	case "sub-ms":
		nsec = rapid.Int64Range(1, 999).Draw(rt, label+"Ms")*1_000_000 + rapid.Int64Range(1, 999_999).Draw(rt, label+"Ns")
	case "ms-x00":
		nsec = rapid.Int64Range(1, 9).Draw(rt, label+"Ms100") * 100_000_000
	default:
		nsec = rapid.Int64Range(1, 999).Draw(rt, label+"Ms") * 1_000_000
	}

	return time.Unix(sec, nsec).UTC(), cls
}

func encNodeSignAt(node base.LocalNode, facthash util.Hash, at time.Time) base.BaseNodeSign {
	msg := util.ConcatBytesSlice(
		gen.NetworkID,
		util.ConcatByters(node.Address(), util.BytesToByter(facthash.Bytes())),
		localtime.New(at).Bytes(),
	)

	sig, err := node.Privatekey().Sign(msg)
	if err != nil {
		panic(err)
	}

	return base.NewBaseNodeSign(node.Address(), node.Publickey(), sig, at)
}

// ---- operations

type encOp struct {
	Op   base.Operation
	Kind string
	Desc string
}

type encNodeSigner interface {
	NodeSign(base.Privatekey, base.NetworkID, base.Address) error
	SetNodeSigns([]base.NodeSign) error
}

func encSignNodeOp(rt *rapid.T, op encNodeSigner, facthash util.Hash, signers []int) string {
	if rapid.IntRange(0, 2).Draw(rt, "handSigned") == 0 {
		signs := make([]base.NodeSign, len(signers))
		cls := make([]string, len(signers))

		for i, s := range signers {
			at, c := encTime(rt, fmt.Sprintf("signedAt%d", i))
			signs[i] = encNodeSignAt(gen.Local(s), facthash, at)
			cls[i] = c
		}

		if err := op.SetNodeSigns(signs); err != nil {
			panic(err)
		}

		return "signed-at:" + strings.Join(cls, ",")
	}

	for _, s := range signers {
		n := gen.Local(s)
		if err := op.NodeSign(n.Privatekey(), gen.NetworkID, n.Address()); err != nil {
			panic(err)
		}
	}

	return "signed-now"
}

func encToken(rt *rapid.T) base.Token {
	return base.Token(rapid.SliceOfN(rapid.Byte(), 1, 24).Draw(rt, "token"))
}

func encPolicy(rt *rapid.T) isaac.NetworkPolicy {
	p := isaac.DefaultNetworkPolicy()
	if rapid.Bool().Draw(rt, "policyDefault") {
		return p
	}

	p.SetMaxOperationsInProposal(rapid.Uint64Range(1, 1<<40).Draw(rt, "maxOps"))
	p.SetSuffrageCandidateLifespan(base.Height(rapid.Int64Range(1, 1<<40).Draw(rt, "candLife")))
	p.SetMaxSuffrageSize(rapid.Uint64Range(1, 1<<20).Draw(rt, "maxSuf"))
	p.SetSuffrageExpelLifespan(base.Height(rapid.Int64Range(0, 1<<20).Draw(rt, "expelLife")))
	p.SetEmptyProposalNoBlock(rapid.Bool().Draw(rt, "emptyNoBlock"))
	p.SetSuffrageCandidateLimiterRule(isaac.NewFixedSuffrageCandidateLimiterRule(rapid.Uint64Range(0, 1<<33).Draw(rt, "limit")))

	return p
}

// encOperation: kind in {"candidate","join","disjoin","expel","policy","genesis-policy","genesis-join"}.
func encOperation(rt *rapid.T, kind string) encOp {
	switch kind {
	case "candidate":
		c := encNodeIdx(rt, "candidate")
		others := encSubset(rt, "coSigners", 0, 2, map[int]bool{c: true})
		signers := append([]int{c}, others...)
		fact := isaacoperation.NewSuffrageCandidateFact(encToken(rt), gen.Local(c).Address(), gen.Local(c).Publickey())
		op := isaacoperation.NewSuffrageCandidate(fact)
		sd := encSignNodeOp(rt, &op, fact.Hash(), signers)

		return encOp{Op: op, Kind: "suffrage-candidate-operation", Desc: fmt.Sprintf("c%d s%s %s", c, encIdxString(signers), sd)}
	case "join":
		c := encNodeIdx(rt, "candidate")
		others := encSubset(rt, "coSigners", 0, 4, map[int]bool{c: true})
		signers := append(others, c)
		fact := isaacoperation.NewSuffrageJoinFact(encToken(rt), gen.Local(c).Address(), encPoint(rt, 1).Height())
		op := isaacoperation.NewSuffrageJoin(fact)
		sd := encSignNodeOp(rt, &op, fact.Hash(), signers)

		return encOp{Op: op, Kind: "suffrage-join-operation", Desc: fmt.Sprintf("c%d s%s %s", c, encIdxString(signers), sd)}
	case "disjoin":
		c := encNodeIdx(rt, "node")
		fact := isaacoperation.NewSuffrageDisjoinFact(encToken(rt), gen.Local(c).Address(), encPoint(rt, 1).Height())
		op := isaacoperation.NewSuffrageDisjoin(fact)
		sd := encSignNodeOp(rt, &op, fact.Hash(), []int{c})

		return encOp{Op: op, Kind: "suffrage-disjoin-operation", Desc: fmt.Sprintf("n%d %s", c, sd)}
	case "expel":
		t := encNodeIdx(rt, "target")
		signers := encSubset(rt, "signers", 1, 4, map[int]bool{t: true})
		start := encPoint(rt, 1).Height()
		fact := isaac.NewSuffrageExpelFact(gen.Local(t).Address(), start, start+base.Height(rapid.Int64Range(0, 5).Draw(rt, "span")),
			rapid.SampledFrom([]string{"verif", "no vote", "x", "reason with \"quotes\" and é"}).Draw(rt, "reason"))
		op := isaac.NewSuffrageExpelOperation(fact)
		sd := encSignNodeOp(rt, &op, fact.Hash(), signers)

		return encOp{Op: op, Kind: "suffrage-expel-operation", Desc: fmt.Sprintf("t%d s%s %s", t, encIdxString(signers), sd)}
	case "policy":
		signers := encSubset(rt, "signers", 1, 4, nil)
		fact := isaacoperation.NewNetworkPolicyFact(encToken(rt), encPolicy(rt))
		op := isaacoperation.NewNetworkPolicy(fact)
		sd := encSignNodeOp(rt, &op, fact.Hash(), signers)

		return encOp{Op: op, Kind: "network-policy-operation", Desc: fmt.Sprintf("s%s %s", encIdxString(signers), sd)}
	case "genesis-policy":
		fact := isaacoperation.NewGenesisNetworkPolicyFact(encPolicy(rt))
		op := isaacoperation.NewGenesisNetworkPolicy(fact)
		s := encNodeIdx(rt, "signer")

		if err := op.Sign(gen.Local(s).Privatekey(), gen.NetworkID); err != nil {
			panic(err)
		}

		return encOp{Op: op, Kind: "genesis-network-policy-operation", Desc: fmt.Sprintf("s%d", s)}
	default: // genesis-join
		members := encSubset(rt, "members", 1, encNodes, nil)
		nodes := make([]base.Node, len(members))

		for i, m := range members {
			nodes[i] = isaac.NewNode(gen.Local(m).Publickey(), gen.Local(m).Address())
		}

		fact := isaacoperation.NewSuffrageGenesisJoinFact(nodes, gen.NetworkID)
		op := isaacoperation.NewSuffrageGenesisJoin(fact)
		s := encNodeIdx(rt, "signer")

		if err := op.Sign(gen.Local(s).Privatekey(), gen.NetworkID); err != nil {
			panic(err)
		}

		return encOp{Op: op, Kind: "suffrage-genesis-join-operation", Desc: fmt.Sprintf("m%s s%d", encIdxString(members), s)}
	}
}

// ---- states, manifests, block maps, suffrage proofs

func encSuffrageNodesValue(rt *rapid.T) (isaac.SuffrageNodesStateValue, string) {
	members := encSubset(rt, "members", 1, encNodes, nil)
	nodes := make([]base.SuffrageNodeStateValue, len(members))

	for i, m := range members {
		nodes[i] = isaac.NewSuffrageNodeStateValue(isaac.NewNode(gen.Local(m).Publickey(), gen.Local(m).Address()),
			base.Height(rapid.Int64Range(0, 9).Draw(rt, "start")))
	}

	h := base.Height(rapid.Int64Range(0, 9).Draw(rt, "sufHeight"))

	return isaac.NewSuffrageNodesStateValue(h, nodes), fmt.Sprintf("suf@%d m%s", h, encIdxString(members))
}

func encCandidatesValue(rt *rapid.T) (isaac.SuffrageCandidatesStateValue, string) {
	members := encSubset(rt, "candidates", 0, 4, nil)
	nodes := make([]base.SuffrageCandidateStateValue, len(members))

	for i, m := range members {
		start := base.Height(rapid.Int64Range(0, 9).Draw(rt, "start"))
		nodes[i] = isaac.NewSuffrageCandidateStateValue(isaac.NewNode(gen.Local(m).Publickey(), gen.Local(m).Address()),
			start, start+base.Height(rapid.Int64Range(1, 1<<20).Draw(rt, "life")))
	}

	return isaac.NewSuffrageCandidatesStateValue(nodes), fmt.Sprintf("cand m%s", encIdxString(members))
}

// encState: a state as the mergers produce it (at least one operation hash).
func encState(rt *rapid.T, height base.Height, valueKind string) (base.BaseState, string) {
	var (
		v    base.StateValue
		key  string
		desc string
	)

	switch valueKind {
	case "candidates":
		v, desc = encCandidatesValue(rt)
		key = isaac.SuffrageCandidateStateKey
	case "policy":
		v = isaac.NewNetworkPolicyStateValue(encPolicy(rt))
		key = isaac.NetworkPolicyStateKey
		desc = "policy"
	default:
		v, desc = encSuffrageNodesValue(rt)
		key = isaac.SuffrageStateKey
	}

	var previous util.Hash
	if rapid.Bool().Draw(rt, "hasPrevious") {
		previous = encHash(rt, "previousState")
		desc += " prev"
	}

	nops := rapid.IntRange(1, 3).Draw(rt, "nStateOps")
	ops := make([]util.Hash, nops)

	for i := range ops {
		ops[i] = gen.H(fmt.Sprintf("state-op-%d-%d", i, rapid.IntRange(0, 3).Draw(rt, "stateOp")))
	}

	return base.NewBaseState(height, key, v, previous, ops), fmt.Sprintf("%s ops%d", desc, nops)
}

func encManifest(rt *rapid.T, height base.Height) (isaac.Manifest, string) {
	opt := func(label string) util.Hash {
		if rapid.Bool().Draw(rt, "has"+label) {
			return encHash(rt, label)
		}

		return nil
	}

	var previous util.Hash
	if height > base.GenesisHeight {
		previous = encHash(rt, "previousManifest")
	}

	at, cls := encTime(rt, "proposedAt")
	ot, st, su := opt("OpsTree"), opt("StatesTree"), opt("Suffrage")
	m := isaac.NewManifest(height, previous, encHash(rt, "proposal"), ot, st, su, at)

	return m, fmt.Sprintf("h%d ot%v st%v su%v at:%s", height, ot != nil, st != nil, su != nil, cls)
}

func encBlockMap(rt *rapid.T, manifest base.Manifest) (isaacblock.BlockMap, string) {
	m := isaacblock.NewBlockMap()
	m.SetManifest(manifest)

	types := []base.BlockItemType{base.BlockItemProposal, base.BlockItemVoteproofs}
	if manifest.OperationsTree() != nil || rapid.Bool().Draw(rt, "withOps") {
		types = append(types, base.BlockItemOperations, base.BlockItemOperationsTree)
	}

	if manifest.StatesTree() != nil || rapid.Bool().Draw(rt, "withStates") {
		types = append(types, base.BlockItemStates, base.BlockItemStatesTree)
	}

	for i, t := range types {
		if err := m.SetItem(isaacblock.NewBlockMapItem(t, fmt.Sprintf("checksum-%d-%d", i, rapid.IntRange(0, 99).Draw(rt, "checksum")))); err != nil {
			panic(err)
		}
	}

	s := encNodeIdx(rt, "mapSigner")
	if err := m.Sign(gen.Local(s).Address(), gen.Local(s).Privatekey(), gen.NetworkID); err != nil {
		panic(err)
	}

	return m, fmt.Sprintf("items%d s%d", len(types), s)
}

func encSuffrageProof(rt *rapid.T) (isaacblock.SuffrageProof, string) {
	height := encPoint(rt, 0).Height()
	st, sd := encState(rt, height, "suffrage")

	n := rapid.IntRange(1, 6).Draw(rt, "treeSize")
	at := rapid.IntRange(0, n-1).Draw(rt, "stateAt")

	w, err := fixedtree.NewWriter(base.StateFixedtreeHint, uint64(n))
	if err != nil {
		panic(err)
	}

	for i := 0; i < n; i++ {
		key := gen.H(fmt.Sprintf("other-state-%d", i)).String()
		if i == at {
			key = st.Hash().String()
		}

		if err := w.Add(uint64(i), fixedtree.NewBaseNode(key)); err != nil {
			panic(err)
		}
	}

	tr, err := w.Tree()
	if err != nil {
		panic(err)
	}

	proof, err := tr.Proof(st.Hash().String())
	if err != nil {
		panic(err)
	}

	manifest := isaac.NewManifest(height, func() util.Hash {
		if height > base.GenesisHeight {
			return encHash(rt, "previousManifest")
		}

		return nil
	}(), encHash(rt, "proposal"), nil, tr.Root(), st.Hash(), func() time.Time { t, _ := encTime(rt, "proposedAt"); return t }())

	m, md := encBlockMap(rt, manifest)

	return isaacblock.NewSuffrageProof(m, st, proof), fmt.Sprintf("h%d tree%d@%d %s %s", height, n, at, sd, md)
}

// ---- misc values

func encConnInfo(rt *rapid.T) quicstream.ConnInfo {
	ip := net.IPv4(byte(rapid.IntRange(1, 223).Draw(rt, "ip0")), byte(rapid.IntRange(0, 255).Draw(rt, "ip1")), 0, byte(rapid.IntRange(1, 254).Draw(rt, "ip3")))
	if rapid.IntRange(0, 4).Draw(rt, "ipv6") == 0 {
		ip = net.ParseIP(fmt.Sprintf("2001:db8::%x", rapid.IntRange(1, 65535).Draw(rt, "ip6")))
	}

	return quicstream.UnsafeConnInfo(&net.UDPAddr{IP: ip, Port: rapid.IntRange(1, 65535).Draw(rt, "port")}, rapid.Bool().Draw(rt, "tlsinsecure"))
}

func encURL(rt *rapid.T) url.URL {
	s := rapid.SampledFrom([]string{
		"https://a.example/b/c.json.gz",
		"http://10.0.0.1:8080/x?y=1&z=%20",
		"file:///tmp/a%20b.json",
		"localfs:///3/proposal.json",
		"https://user:pw@host/p#frag",
	}).Draw(rt, "url")

	u, err := url.Parse(s)
	if err != nil {
		panic(err)
	}

	return *u
}

func encErr(rt *rapid.T) error {
	switch rapid.IntRange(0, 2).Draw(rt, "err") {
	case 0:
		return nil
	case 1:
		return errors.Errorf("plain error")
	default:
		return errors.Errorf("error with \"quotes\", \\ and unicode é世 <&>")
	}
}
