package p_enc

import (
	"fmt"
	"testing"
	"time"

	"github.com/spikeekips/mitum/base"
	"github.com/spikeekips/mitum/isaac"
	"github.com/spikeekips/mitum/util"
	"github.com/spikeekips/mitum/util/localtime"
	"verif/internal/gen"
)

func TestProbe(t *testing.T) {
	_, enc := gen.Encoders()
	fact := isaac.NewINITBallotFact(base.NewPoint(3, 0), gen.H("a"), gen.H("b"), nil)
	vp := gen.FullINITVoteproof(fact, gen.Locals(2), 67, nil)
	b1, _ := enc.Marshal(vp)
	y, err := enc.Decode(b1)
	fmt.Println(err)
	b2, _ := enc.Marshal(y)
	fmt.Println(string(b1)[:200])
	fmt.Println(string(b2)[:200])
	fmt.Println(util.RFC3339(time.Unix(1600000000, 0).UTC()))
	fmt.Println(util.RFC3339(time.Unix(1600000000, 100_000_000).UTC()))
	bb, _ := enc.Marshal(localtime.New(time.Unix(1600000000, 0).UTC()))
	fmt.Println(string(bb))
}
