package p_isaaca

import (
	"fmt"
	"runtime"
	"strings"
	"sync"
	"sync/atomic"
	"testing"
	"time"

	"github.com/spikeekips/mitum/base"
	"github.com/spikeekips/mitum/isaac"
	isaacstates "github.com/spikeekips/mitum/isaac/states"
	"github.com/spikeekips/mitum/util"
	"github.com/spikeekips/mitum/util/valuehash"
	"pgregory.net/rapid"
	"verif/internal/ev"
	"verif/internal/gen"
)

// ---- model of a position and the safety relation, written from the property statement only

// c06Pos is a consensus position as a voteproof can create it: (height, round, stage, majority?, suffrage-confirm?).
type c06Pos struct {
	H    int64
	R    uint64
	St   base.Stage
	Maj  bool
	SC   bool
	Zero bool // "no position yet"
}

func (p c06Pos) sp() base.StagePoint { return base.NewStagePoint(base.RawPoint(p.H, p.R), p.St) }

func (p c06Pos) String() string {
	if p.Zero {
		return "-"
	}

	s := fmt.Sprintf("h%dr%d%s", p.H, p.R, p.St)
	if p.Maj {
		s += "+maj"
	}

	if p.SC {
		s += "+sc"
	}

	return s
}

func c06StageRank(s base.Stage) int {
	switch s {
	case base.StageINIT:
		return 0
	case base.StageACCEPT:
		return 1
	default:
		return -1
	}
}

// c06CmpSP orders stage points inside and across heights: height, then round, then INIT < ACCEPT.
func c06CmpSP(a, b c06Pos) int {
	switch {
	case a.H != b.H:
		if a.H < b.H {
			return -1
		}

		return 1
	case a.R != b.R:
		if a.R < b.R {
			return -1
		}

		return 1
	default:
		return c06StageRank(a.St) - c06StageRank(b.St)
	}
}

// c06Allowed: may the judged position move from last to cand? viaVoteproof=false is the ballot path (a ballot carries no
// majority flag). Returns the root-cause word for a forbidden move.
func c06Allowed(last, cand c06Pos, viaVoteproof bool) (bool, string) {
	if last.Zero {
		return true, ""
	}

	if cand.H < last.H {
		return false, "lower-height" // never to a lower height; lower heights are always rejected
	}

	if cand.H > last.H {
		return true, ""
	}

	switch c := c06CmpSP(cand, last); {
	case c > 0:
		return true, ""
	case c < 0:
		// earlier round or stage inside the height: only to take a suffrage-confirm result while the current position
		// is not a majority
		if cand.SC && !last.Maj {
			return true, ""
		}

		return false, "backward-not-sc"
	default:
		// same stage point: a suffrage-confirm result is another position than the plain INIT result; otherwise only a
		// majority result may replace a non-majority one
		if cand.SC && !last.SC {
			return true, ""
		}

		if viaVoteproof && cand.Maj && !last.Maj {
			return true, ""
		}

		return false, "same-point-retake"
	}
}

// event flags of one judged step
const (
	c06EvBackward = 1 << iota
	c06EvSameMaj
	c06EvSameSC
	c06EvLowerRejected
	c06EvRetakeAfterBackward
	c06EvFill
	c06EvShadowed
	c06EvBallotAccepted
	c06EvEarlierSCBallot // a suffrage-confirm ballot of an earlier round/stage was accepted while the position is not a majority
	c06EvCounted         // the position moved because the box counted ballots (not by SetLastPoint*)
)

func c06ClassifyAccepted(last, cand c06Pos) uint {
	if last.Zero || cand.H != last.H {
		return 0
	}

	switch c := c06CmpSP(cand, last); {
	case c < 0:
		return c06EvBackward
	case c == 0 && cand.SC && !last.SC:
		return c06EvSameSC
	case c == 0:
		return c06EvSameMaj
	default:
		return 0
	}
}

func c06Nontrivial(evs uint) bool {
	return evs&(c06EvBackward|c06EvSameMaj|c06EvSameSC|c06EvLowerRejected) != 0
}

// ---- real objects (cached; one signing node is enough, the holders look at point/result/majority only)

var c06NetworkID = base.NetworkID([]byte("verif-c06-network"))

type c06Objs struct {
	sync.Mutex
	node isaac.LocalNode
	vps  map[c06Pos]base.Voteproof
	sfs  map[c06Pos]base.BallotSignFact
}

var c06objs = func() *c06Objs {
	priv, err := base.NewMPrivatekeyFromSeed("verif-c06-signing-node-seed-000000000000")
	if err != nil {
		panic(err)
	}

	return &c06Objs{
		node: isaac.NewLocalNode(priv, base.NewStringAddress("c06-local")),
		vps:  map[c06Pos]base.Voteproof{},
		sfs:  map[c06Pos]base.BallotSignFact{},
	}
}()

func c06Hash(s string) util.Hash { return valuehash.NewSHA256([]byte(s)) }

func (o *c06Objs) fact(p c06Pos) base.BallotFact {
	point := base.RawPoint(p.H, p.R)
	tag := p.sp().String()

	switch {
	case p.St == base.StageINIT && p.SC:
		return isaac.NewSuffrageConfirmBallotFact(point, c06Hash("prev"+tag), c06Hash("pr"+tag), []util.Hash{c06Hash("expel" + tag)})
	case p.St == base.StageINIT:
		return isaac.NewINITBallotFact(point, c06Hash("prev"+tag), c06Hash("pr"+tag), nil)
	default:
		return isaac.NewACCEPTBallotFact(point, c06Hash("pr"+tag), c06Hash("blk"+tag), nil)
	}
}

// signfact returns the signed ballot fact for (stage point, suffrage-confirm?) — Maj is ignored.
func (o *c06Objs) signfact(p c06Pos) base.BallotSignFact {
	p.Maj = false

	o.Lock()
	defer o.Unlock()

	if sf, ok := o.sfs[p]; ok {
		return sf
	}

	var sf base.BallotSignFact

	switch f := o.fact(p).(type) {
	case base.INITBallotFact:
		x := isaac.NewINITBallotSignFact(f)
		if err := x.NodeSign(o.node.Privatekey(), c06NetworkID, o.node.Address()); err != nil {
			panic(err)
		}

		sf = x
	case base.ACCEPTBallotFact:
		x := isaac.NewACCEPTBallotSignFact(f)
		if err := x.NodeSign(o.node.Privatekey(), c06NetworkID, o.node.Address()); err != nil {
			panic(err)
		}

		sf = x
	default:
		panic("unknown fact")
	}

	o.sfs[p] = sf

	return sf
}

// vp returns the (cached) real voteproof that creates position p.
func (o *c06Objs) vp(p c06Pos) base.Voteproof {
	sf := o.signfact(p)

	o.Lock()
	defer o.Unlock()

	if vp, ok := o.vps[p]; ok {
		return vp
	}

	var vp base.Voteproof

	switch p.St {
	case base.StageINIT:
		x := isaac.NewINITVoteproof(base.RawPoint(p.H, p.R))
		_ = x.SetSignFacts([]base.BallotSignFact{sf}).SetThreshold(base.Threshold(67))

		if p.Maj {
			_ = x.SetMajority(sf.Fact().(base.BallotFact))
		}

		_ = x.Finish()
		vp = x
	default:
		x := isaac.NewACCEPTVoteproof(base.RawPoint(p.H, p.R))
		_ = x.SetSignFacts([]base.BallotSignFact{sf}).SetThreshold(base.Threshold(67))

		if p.Maj {
			_ = x.SetMajority(sf.Fact().(base.BallotFact))
		}

		_ = x.Finish()
		vp = x
	}

	o.vps[p] = vp

	return vp
}

func c06LastPoint(t ev.TB, p c06Pos) isaac.LastPoint {
	if p.Zero {
		return isaac.LastPoint{}
	}

	lp, err := isaac.NewLastPoint(p.sp(), p.Maj, p.SC)
	if err != nil {
		t.Fatalf("NewLastPoint(%v): %v", p, err)
	}

	return lp
}

func c06PosOfLastPoint(lp isaac.LastPoint) c06Pos {
	if lp.IsZero() {
		return c06Pos{Zero: true}
	}

	return c06Pos{H: lp.Height().Int64(), R: lp.Round().Uint64(), St: lp.Stage(), Maj: lp.IsMajority(), SC: lp.IsSuffrageConfirm()}
}

// c06PosOfVoteproof reads a position off a voteproof without the code under test.
func c06PosOfVoteproof(vp base.Voteproof) c06Pos {
	if vp == nil {
		return c06Pos{Zero: true}
	}

	p := c06Pos{H: vp.Point().Height().Int64(), R: vp.Point().Round().Uint64(), St: vp.Point().Stage()}
	p.Maj = vp.Result() == base.VoteResultMajority

	if m := vp.Majority(); m != nil {
		_, p.SC = m.(isaac.SuffrageConfirmBallotFact)
	}

	return p
}

// c06Positions: all positions over the heights and rounds that a voteproof can create (sc => INIT and majority).
func c06Positions(heights []int64, rounds []uint64) []c06Pos {
	var ps []c06Pos

	for _, h := range heights {
		for _, r := range rounds {
			ps = append(ps,
				c06Pos{H: h, R: r, St: base.StageINIT},
				c06Pos{H: h, R: r, St: base.StageINIT, Maj: true},
				c06Pos{H: h, R: r, St: base.StageINIT, Maj: true, SC: true},
				c06Pos{H: h, R: r, St: base.StageACCEPT},
				c06Pos{H: h, R: r, St: base.StageACCEPT, Maj: true},
			)
		}
	}

	return ps
}

// c06Ballots: all ballot candidates (stage point, sc?) over the domain; sc only with INIT.
func c06Ballots(heights []int64, rounds []uint64) []c06Pos {
	var ps []c06Pos

	for _, h := range heights {
		for _, r := range rounds {
			ps = append(ps,
				c06Pos{H: h, R: r, St: base.StageINIT},
				c06Pos{H: h, R: r, St: base.StageINIT, SC: true},
				c06Pos{H: h, R: r, St: base.StageACCEPT},
			)
		}
	}

	return ps
}

func c06Seq(ps []c06Pos) string {
	ss := make([]string, len(ps))
	for i := range ps {
		ss[i] = ps[i].String()
	}

	return strings.Join(ss, " > ")
}

// ---- holder 1: the ballotbox position (SetLastPoint / SetLastPointFromVoteproof / the ballot gate of VoteSignFact)

var c06Boxes atomic.Int64

func c06NewBox() *isaacstates.Ballotbox {
	c06Boxes.Add(1)

	return isaacstates.NewBallotbox(
		c06objs.node.Address(),
		func() base.Threshold { return base.Threshold(67) },
		func(base.Height) (base.Suffrage, bool, error) { return nil, false, nil }, // suffrage not known yet: ballots are held, not counted
	)
}

// c06BoxSet applies one update to the box and judges the move of the position against the statement.
func c06BoxSet(t ev.TB, r *ev.Rec, box *isaacstates.Ballotbox, cand c06Pos, fromVoteproof bool, hist string) (moved bool, evs uint) {
	prev := c06PosOfLastPoint(box.LastPoint())

	var ret bool

	api := "SetLastPoint"
	if fromVoteproof {
		api = "SetLastPointFromVoteproof"
		ret = box.SetLastPointFromVoteproof(c06objs.vp(cand))
	} else {
		ret = box.SetLastPoint(c06LastPoint(t, cand))
	}

	after := c06PosOfLastPoint(box.LastPoint())

	switch {
	case after == prev:
		if !prev.Zero && cand.H < prev.H {
			evs |= c06EvLowerRejected
		}

		return false, evs
	case after != cand:
		r.Violation(t, "ballotbox-position-foreign", "Ballotbox.%s(%v) after [%s]: position moved from %v to %v, which is not the update", api, cand, hist, prev, after)
	case !ret:
		r.Violation(t, "ballotbox-rejected-but-moved", "Ballotbox.%s(%v) after [%s] returned false but the position moved from %v to %v", api, cand, hist, prev, after)
	}

	if ok, why := c06Allowed(prev, after, true); !ok {
		r.Violation(t, "ballotbox-set-"+why, "Ballotbox.%s(%v) after [%s]: position moved from %v to %v (%s)", api, cand, hist, prev, after, why)
	}

	return true, evs | c06ClassifyAccepted(prev, after)
}

// c06BoxBallot offers one ballot (signed fact) to the box and judges the gate.
func c06BoxBallot(t ev.TB, r *ev.Rec, box *isaacstates.Ballotbox, cand c06Pos, hist string) (evs uint) {
	prev := c06PosOfLastPoint(box.LastPoint())

	voted, err := box.VoteSignFact(c06objs.signfact(cand))
	if err != nil {
		t.Fatalf("VoteSignFact(%v): %v", cand, err)
	}

	if after := c06PosOfLastPoint(box.LastPoint()); after != prev {
		r.Violation(t, "ballotbox-ballot-moved-position", "a held ballot %v after [%s] moved the position from %v to %v", cand, hist, prev, after)
	}

	if !voted {
		if !prev.Zero && cand.H < prev.H {
			evs |= c06EvLowerRejected
		}

		return evs
	}

	if ok, why := c06Allowed(prev, cand, false); !ok {
		r.Violation(t, "ballotbox-ballot-"+why, "Ballotbox.VoteSignFact accepted ballot %v while the position is %v after [%s] (%s)", cand, prev, hist, why)
	}

	return evs | c06EvBallotAccepted | c06ClassifyAccepted(prev, cand)
}

type c06Counters struct {
	n, nt  int64
	byEv   [10]int64
	sample []map[string]any
}

func (c *c06Counters) add(evs uint) {
	c.n++

	if c06Nontrivial(evs) {
		c.nt++
	}

	for i := range c.byEv {
		if evs&(1<<i) != 0 {
			c.byEv[i]++
		}
	}
}

var c06EvNames = [10]string{"accepted-backward-sc", "same-point-majority-replaces", "same-point-sc-result", "lower-height-rejected",
	"retake-after-backward(flagged)", "lvps-fill-missing", "lvps-accepted-but-cap-unchanged", "ballot-accepted",
	"sc-ballot-of-earlier-round-accepted", "position-moved-by-counting"}

func (c *c06Counters) flush(r *ev.Rec, part string) {
	r.CaseN(c.n, c.nt, "part:"+part)

	for i := range c.byEv {
		if c.byEv[i] > 0 {
			r.Class(part+":"+c06EvNames[i], c.byEv[i])
		}
	}
}

// c06BoxDFS enumerates every accepted sequence of updates up to maxDepth through a real Ballotbox. box is positioned
// after prefix. Rejected updates leave the box unchanged (that is checked), so one box serves all candidates until one
// is accepted; the moved box is handed to the next level and a fresh one is built by replaying the accepted prefix.
func c06BoxDFS(t ev.TB, r *ev.Rec, box *isaacstates.Ballotbox, ps, ballots []c06Pos, prefix []c06Pos, maxDepth int, fromVoteproof bool, cnt *c06Counters) {
	build := func() *isaacstates.Ballotbox {
		box := c06NewBox()

		for i := range prefix {
			if moved, _ := c06BoxSet(t, r, box, prefix[i], fromVoteproof, c06Seq(prefix[:i])); !moved {
				t.Fatalf("replay of accepted prefix %s not deterministic", c06Seq(prefix))
			}
		}

		return box
	}

	hist := c06Seq(prefix)

	for _, b := range ballots {
		cnt.add(c06BoxBallot(t, r, box, b, hist))
	}

	for i, cand := range ps {
		if box == nil {
			box = build()
		}

		moved, evs := c06BoxSet(t, r, box, cand, fromVoteproof, hist)
		cnt.add(evs)

		if c06Nontrivial(evs) && len(cnt.sample) < 1 && len(prefix) > 0 {
			cnt.sample = append(cnt.sample, map[string]any{"holder": "ballotbox", "history": hist, "update": cand.String(), "accepted": moved})
		}

		if !moved {
			continue
		}

		if len(prefix)+1 < maxDepth {
			c06BoxDFS(t, r, box, ps, ballots, append(prefix[:len(prefix):len(prefix)], cand), maxDepth, fromVoteproof, cnt)
		}

		box = nil
		_ = i
	}
}

// ---- holder 2: LastVoteproofsHandler (position = Last().Cap())

type c06Lvps struct {
	h     *isaac.LastVoteproofsHandler
	run   map[c06Pos]struct{} // positions taken since the last allowed backward move
	taken map[c06Pos]struct{} // positions ever taken
	// model is the position of the last update the store took as new (IsNew and Set both true), kept by the harness
	// without reading Last().Cap(): the statement speaks about the sequence of accepted updates, so this sequence is
	// judged on its own and the store's reported position has to follow it.
	model c06Pos
	took  bool // the last step was taken as a new position
}

func c06NewLvps() *c06Lvps {
	return &c06Lvps{
		h: isaac.NewLastVoteproofsHandler(), run: map[c06Pos]struct{}{}, taken: map[c06Pos]struct{}{},
		model: c06Pos{Zero: true},
	}
}

func (x *c06Lvps) pos() c06Pos { return c06PosOfVoteproof(x.h.Last().Cap()) }

// step: IsNew + Set of one voteproof, judged against the statement.
func (x *c06Lvps) step(t ev.TB, r *ev.Rec, cand c06Pos, hist func() string) (evs uint) {
	prev := x.pos()
	vp := c06objs.vp(cand)

	isnew := x.h.IsNew(vp)
	isnew2 := x.h.Last().IsNew(vp)

	if isnew || isnew2 {
		if ok, why := c06Allowed(prev, cand, true); !ok {
			r.Violation(t, "lvps-isnew-"+why, "LastVoteproofs IsNew(%v)=%v/%v while the position is %v after [%s] (%s)", cand, isnew, isnew2, prev, hist(), why)
		}
	}

	if isnew || isnew2 {
		// ... and against the last update the store itself accepted, whatever Cap() reports now
		if ok, why := c06Allowed(x.model, cand, true); !ok {
			r.Violation(t, "lvps-isnew-"+why, "LastVoteproofs IsNew(%v)=%v/%v after [%s] although the last accepted update was %v (Cap() reports %v) (%s)", cand, isnew, isnew2, hist(), x.model, prev, why)
		}
	}

	ret := x.h.Set(vp)
	after := x.pos()
	x.took = false

	// the store took the voteproof as a new position (not a fill of a missing older voteproof, which is never "new")
	if took := ret && (isnew || (after != prev && after == cand)); took {
		model := x.model
		x.model = cand
		x.took = true

		if ok, why := c06Allowed(model, cand, true); !ok {
			r.Violation(t, "lvps-taken-"+why, "LastVoteproofsHandler.Set(%v)=true (IsNew=%v) after [%s]: the sequence of accepted updates goes %v -> %v (%s; Cap() reported %v before, %v after)", cand, isnew, hist(), model, cand, why, prev, after)
		}

		if after != cand {
			// the judged-against position must be the update that was just accepted; a Cap() that stays at (or falls to) an
			// older voteproof lets the same position be taken again and earlier rounds be taken without a suffrage confirm
			evs |= c06EvShadowed

			r.Violation(t, "lvps-cap-stale-voteproof", "LastVoteproofsHandler.Set(%v)=true (IsNew=%v) after [%s]: the update was accepted as new but Last().Cap() reports %v (before: %v), not the accepted position", cand, isnew, hist(), after, prev)
		}
	}

	if after == prev {
		if !prev.Zero && cand.H < prev.H {
			evs |= c06EvLowerRejected
		}

		if ret && !isnew {
			evs |= c06EvFill
		}

		return evs
	}

	// the position moved
	if ok, why := c06Allowed(prev, after, true); !ok {
		sig := "lvps-set-" + why
		if after != cand {
			sig = "lvps-cap-stale-voteproof" // the store now reports an older voteproof of the other stage, not the one it accepted
		}

		r.Violation(t, sig, "LastVoteproofsHandler.Set(%v)=%v (IsNew=%v) after [%s]: Last().Cap() moved from %v to %v (%s)", cand, ret, isnew, hist(), prev, after, why)

		// (known finding: keep exploring; this step is not judged further)
		clear(x.run)
		x.run[after] = struct{}{}
		x.taken[after] = struct{}{}

		return evs
	}

	if !ret {
		r.Violation(t, "lvps-rejected-but-moved", "LastVoteproofsHandler.Set(%v) returned false after [%s] but Last().Cap() moved from %v to %v", cand, hist(), prev, after)
	}

	cl := c06ClassifyAccepted(prev, after)
	evs |= cl

	if cl&c06EvBackward != 0 {
		clear(x.run)
	} else if _, found := x.run[after]; found {
		r.Violation(t, "lvps-position-taken-twice", "LastVoteproofsHandler after [%s] + Set(%v): position %v taken twice with no suffrage-confirm move in between", hist(), cand, after)
	} else if _, found := x.taken[after]; found {
		evs |= c06EvRetakeAfterBackward
	}

	x.run[after] = struct{}{}
	x.taken[after] = struct{}{}

	return evs
}

func c06LvpsSeq(t ev.TB, r *ev.Rec, seq []c06Pos) (evs uint) {
	x := c06NewLvps()

	for i := range seq {
		i := i
		evs |= x.step(t, r, seq[i], func() string { return c06Seq(seq[:i]) })
	}

	return evs
}

// c06LvpsAll drives every sequence of exactly n updates (accepted or not: a rejected Set may still fill the store).
func c06LvpsAll(t ev.TB, r *ev.Rec, ps []c06Pos, n int, mine func(int) bool, cnt *c06Counters) {
	seq := make([]c06Pos, n)
	idx := make([]int, n)

	for first := range ps {
		if !mine(first) {
			continue
		}

		for i := range idx {
			idx[i] = 0
		}

		idx[0] = first

		for {
			for i := range seq {
				seq[i] = ps[idx[i]]
			}

			evs := c06LvpsSeq(t, r, seq)
			cnt.add(evs)

			if c06Nontrivial(evs) && evs&c06EvBackward != 0 && len(cnt.sample) < 2 {
				cnt.sample = append(cnt.sample, map[string]any{"holder": "last-voteproofs", "sequence": c06Seq(seq)})
			}

			// next (positions 1..n-1 count, position 0 is fixed)
			k := n - 1
			for k >= 1 {
				idx[k]++
				if idx[k] < len(ps) {
					break
				}

				idx[k] = 0
				k--
			}

			if k < 1 {
				break
			}
		}
	}
}

// c06RoundChangePrefixes: every prefix (length >= minLen) of the voteproof histories a node sees while height h goes
// through up to `rounds` rounds, optionally after the ACCEPT majority of h-1. A round ends without a block in one of
// the ways consensus can end it: INIT draw; INIT majority then ACCEPT draw; INIT majority, suffrage-confirm INIT
// majority, ACCEPT draw; ACCEPT draw alone (the INIT voteproof never reached this node). The next round's INIT follows.
func c06RoundChangePrefixes(h int64, rounds uint64, minLen int) [][]c06Pos {
	var out [][]c06Pos

	seen := map[string]struct{}{}

	add := func(seq []c06Pos) {
		if len(seq) < minLen {
			return
		}

		k := c06Seq(seq)
		if _, found := seen[k]; found {
			return
		}

		seen[k] = struct{}{}
		out = append(out, append([]c06Pos(nil), seq...))
	}

	var walk func(seq []c06Pos, rd uint64)

	walk = func(seq []c06Pos, rd uint64) {
		if rd >= rounds {
			return
		}

		idraw := c06Pos{H: h, R: rd, St: base.StageINIT}
		imaj := c06Pos{H: h, R: rd, St: base.StageINIT, Maj: true}
		isc := c06Pos{H: h, R: rd, St: base.StageINIT, Maj: true, SC: true}
		adraw := c06Pos{H: h, R: rd, St: base.StageACCEPT}

		for _, round := range [][]c06Pos{
			{idraw},
			{imaj, adraw},
			{imaj, isc, adraw},
			{adraw},
		} {
			cur := seq

			for _, p := range round {
				cur = append(cur[:len(cur):len(cur)], p)
				add(cur)
			}

			walk(cur, rd+1)
		}
	}

	walk(nil, 0)
	walk([]c06Pos{{H: h - 1, R: 0, St: base.StageACCEPT, Maj: true}}, 0)

	return out
}

// c06LvpsRoundChanges: after every round-change prefix, every probe update (and every second probe; in the quick tier
// only behind a first probe that the store accepted) on a fresh LastVoteproofsHandler.
func c06LvpsRoundChanges(t ev.TB, r *ev.Rec, prefixes [][]c06Pos, ps []c06Pos, allPairs bool, mine func(int) bool, cnt *c06Counters) {
	run := func(prefix []c06Pos, probes ...c06Pos) (evs uint, tookFirst bool) {
		seq := append(prefix[:len(prefix):len(prefix)], probes...)
		x := c06NewLvps()

		for i := range seq {
			i := i

			evs |= x.step(t, r, seq[i], func() string { return c06Seq(seq[:i]) })

			if i == len(prefix) {
				tookFirst = x.took
			}
		}

		return evs, tookFirst
	}

	for i, prefix := range prefixes {
		if !mine(i) {
			continue
		}

		for _, a := range ps {
			evs, took := run(prefix, a)

			if !allPairs {
				cnt.add(evs)
			}

			if !took && !allPairs {
				continue
			}

			for _, b := range ps {
				evs, _ := run(prefix, a, b)
				cnt.add(evs)

				if c06Nontrivial(evs) && evs&c06EvBackward != 0 && len(cnt.sample) < 1 && len(prefix) >= 5 {
					cnt.sample = append(cnt.sample, map[string]any{"holder": "last-voteproofs(round changes)", "sequence": c06Seq(append(prefix[:len(prefix):len(prefix)], a, b))})
				}
			}
		}
	}
}

// ---- holder 1 once more, driven the way launch drives it: real signed ballots of a 4-node suffrage through Vote and
// Count, so that the position is moved by the box itself (countVoterecords) and not only by SetLastPoint*

const (
	c06WN      = 4 // suffrage size; threshold 67 => 3 votes; node 3 is the expel target, node 0 the box's local node
	c06WExpel  = 3
	c06WSettle = 90 * time.Second
)

var c06WTh = base.Threshold(67)

// c06Ballot describes one ballot. Kind: init (INIT ballot, fact variant V, carrying the ACCEPT voteproof that ended the
// previous height / round), initI (round > 0: carrying the INIT draw of the previous round), initExpel (with an expel
// operation), sc (suffrage-confirm INIT ballot carrying the plain INIT majority voteproof with expels of its own
// point), accept (fact variant V, carrying the INIT majority voteproof of its point), acceptExpel.
type c06Ballot struct {
	Kind string
	H    int64
	R    uint64
	V    int
	Node int
}

func (d c06Ballot) String() string {
	s := fmt.Sprintf("%s(%d,%d)n%d", d.Kind, d.H, d.R, d.Node)
	if d.V != 0 {
		s += fmt.Sprintf("v%d", d.V)
	}

	return s
}

func (d c06Ballot) pos() c06Pos {
	p := c06Pos{H: d.H, R: d.R, St: base.StageINIT, SC: d.Kind == "sc"}
	if strings.HasPrefix(d.Kind, "accept") {
		p.St = base.StageACCEPT
	}

	return p
}

func c06WLocals() []base.LocalNode { return gen.Locals(c06WN) }

func c06WLive() []base.LocalNode { return gen.Locals(c06WN)[:c06WExpel] }

func c06WBlock(h int64) util.Hash { return gen.H(fmt.Sprintf("c06-block-%d", h)) }

func c06WExpels(h int64) []base.SuffrageExpelOperation {
	return []base.SuffrageExpelOperation{gen.Expel(gen.Local(c06WExpel).Address(), base.Height(h), base.Height(h)+1, c06WLive())}
}

func c06WInitFact(h int64, r uint64, v int, expelfacts []util.Hash) isaac.INITBallotFact {
	return isaac.NewINITBallotFact(base.RawPoint(h, r), c06WBlock(h-1), gen.H(fmt.Sprintf("c06-prop-%d-%d-%d", h, r, v)), expelfacts)
}

func c06WSCFact(h int64, r uint64) isaac.SuffrageConfirmBallotFact {
	return isaac.NewSuffrageConfirmBallotFact(base.RawPoint(h, r), c06WBlock(h-1), gen.H(fmt.Sprintf("c06-prop-%d-%d-0", h, r)),
		gen.ExpelFactHashes(c06WExpels(h)))
}

func c06WAcceptFact(h int64, r uint64, v int, expelfacts []util.Hash) isaac.ACCEPTBallotFact {
	nb := c06WBlock(h)
	if v != 0 {
		nb = gen.H(fmt.Sprintf("c06-block-%d-x%d", h, v))
	}

	return isaac.NewACCEPTBallotFact(base.RawPoint(h, r), gen.H(fmt.Sprintf("c06-prop-%d-%d-0", h, r)), nb, expelfacts)
}

var (
	c06WMu      sync.Mutex
	c06WVps     = map[string]base.Voteproof{}
	c06WBallots = map[c06Ballot]base.Ballot{} // nil: not constructible / not valid
	c06WInvalid atomic.Int64
)

// c06WVP: the real voteproofs of the world. kind: Amaj, Adraw, Idraw, Imaj, Iexpel (INIT majority with expels), Isc.
func c06WVP(kind string, h int64, r uint64) base.Voteproof {
	k := fmt.Sprintf("%s/%d/%d", kind, h, r)

	c06WMu.Lock()
	defer c06WMu.Unlock()

	if vp, found := c06WVps[k]; found {
		return vp
	}

	var vp base.Voteproof

	all := c06WLocals()

	switch kind {
	case "Amaj":
		vp = gen.FullACCEPTVoteproof(c06WAcceptFact(h, r, 0, nil), all, c06WTh, nil)
	case "Adraw":
		sfs := make([]base.BallotSignFact, len(all))
		for i := range all {
			sfs[i] = gen.SignACCEPT(c06WAcceptFact(h, r, 100+i, nil), all[i])
		}

		vp = gen.ACCEPTVoteproof(base.RawPoint(h, r), nil, sfs, c06WTh, nil)
	case "Idraw":
		sfs := make([]base.BallotSignFact, len(all))
		for i := range all {
			sfs[i] = gen.SignINIT(c06WInitFact(h, r, 100+i, nil), all[i])
		}

		vp = gen.INITVoteproof(base.RawPoint(h, r), nil, sfs, c06WTh, nil)
	case "Imaj":
		vp = gen.FullINITVoteproof(c06WInitFact(h, r, 0, nil), all, c06WTh, nil)
	case "Iexpel":
		ex := c06WExpels(h)
		vp = gen.FullINITVoteproof(c06WInitFact(h, r, 0, gen.ExpelFactHashes(ex)), c06WLive(), c06WTh, ex)
	case "Isc":
		vp = gen.FullINITVoteproof(c06WSCFact(h, r), c06WLive(), c06WTh, nil)
	default:
		panic("unknown voteproof kind " + kind)
	}

	c06WVps[k] = vp

	return vp
}

// c06WVPOf: the world's voteproof that creates position p.
func c06WVPOf(p c06Pos) base.Voteproof {
	switch {
	case p.St == base.StageACCEPT && p.Maj:
		return c06WVP("Amaj", p.H, p.R)
	case p.St == base.StageACCEPT:
		return c06WVP("Adraw", p.H, p.R)
	case p.SC:
		return c06WVP("Isc", p.H, p.R)
	case p.Maj:
		return c06WVP("Imaj", p.H, p.R)
	default:
		return c06WVP("Idraw", p.H, p.R)
	}
}

// c06WBallot builds (cached) the ballot; ok=false when the descriptor is not constructible or the ballot is not valid
// (launch drops invalid ballots before the ballotbox: they are not part of the input domain).
func c06WBallot(d c06Ballot) (base.Ballot, bool) {
	c06WMu.Lock()
	bl, found := c06WBallots[d]
	c06WMu.Unlock()

	if found {
		return bl, bl != nil
	}

	bl = c06WBuildBallot(d)
	if bl != nil {
		if err := bl.IsValid(gen.NetworkID); err != nil {
			c06WInvalid.Add(1)

			bl = nil
		}
	}

	c06WMu.Lock()
	c06WBallots[d] = bl
	c06WMu.Unlock()

	return bl, bl != nil
}

func c06WBuildBallot(d c06Ballot) base.Ballot {
	if d.H < 2 || d.Node < 0 || d.Node >= c06WN {
		return nil
	}

	node := gen.Local(d.Node)

	var prev base.Voteproof

	switch {
	case d.Kind == "initI" && d.R == 0:
		return nil
	case d.Kind == "initI":
		prev = c06WVP("Idraw", d.H, d.R-1)
	case d.R == 0:
		prev = c06WVP("Amaj", d.H-1, 0)
	default:
		prev = c06WVP("Adraw", d.H, d.R-1)
	}

	switch d.Kind {
	case "init", "initI":
		return isaac.NewINITBallot(prev, gen.SignINIT(c06WInitFact(d.H, d.R, d.V, nil), node), nil)
	case "initExpel":
		ex := c06WExpels(d.H)

		return isaac.NewINITBallot(prev, gen.SignINIT(c06WInitFact(d.H, d.R, d.V, gen.ExpelFactHashes(ex)), node), ex)
	case "sc":
		if d.V != 0 {
			return nil
		}

		return isaac.NewINITBallot(c06WVP("Iexpel", d.H, d.R), gen.SignINIT(c06WSCFact(d.H, d.R), node), nil)
	case "accept":
		return isaac.NewACCEPTBallot(c06WVP("Imaj", d.H, d.R).(base.INITVoteproof), gen.SignACCEPT(c06WAcceptFact(d.H, d.R, d.V, nil), node), nil)
	case "acceptExpel":
		ex := c06WExpels(d.H)

		return isaac.NewACCEPTBallot(c06WVP("Iexpel", d.H, d.R).(base.INITVoteproof), gen.SignACCEPT(c06WAcceptFact(d.H, d.R, d.V, gen.ExpelFactHashes(ex)), node), ex)
	default:
		return nil
	}
}

// c06Op is one step of a history: a single ballot, a quorum of one fact (the three live nodes vote it, one after the
// other), a split (every node votes another fact: a draw), Count(), or SetLastPointFromVoteproof (what launch does
// once with the stored last voteproof).
type c06Op struct {
	Op  string // vote, quorum, split, count, setvp
	B   c06Ballot
	Set c06Pos
}

func (o c06Op) String() string {
	switch o.Op {
	case "vote":
		return o.B.String()
	case "quorum":
		return fmt.Sprintf("quorum:%s(%d,%d)", o.B.Kind, o.B.H, o.B.R)
	case "split":
		return fmt.Sprintf("split:%s(%d,%d)", o.B.Kind, o.B.H, o.B.R)
	case "setvp":
		return "set:" + o.Set.String()
	default:
		return o.Op
	}
}

type c06World struct {
	t     ev.TB
	r     *ev.Rec
	box   *isaacstates.Ballotbox
	baseG int
	hist  []string
	run   map[c06Pos]struct{} // positions taken since the last allowed backward move
	taken map[c06Pos]struct{}
	evs   uint
	votes int
}

var c06Worlds, c06WVotes atomic.Int64

func c06NewWorld(t ev.TB, r *ev.Rec) *c06World {
	c06Worlds.Add(1)

	suf := gen.Suffrage(c06WLocals())

	w := &c06World{t: t, r: r, run: map[c06Pos]struct{}{}, taken: map[c06Pos]struct{}{}}
	w.box = isaacstates.NewBallotbox(gen.Local(0).Address(),
		func() base.Threshold { return c06WTh },
		func(base.Height) (base.Suffrage, bool, error) { return suf, true, nil },
	)
	// an INIT draw with a pending expel is held at the first count and given out at the next one, whatever the clock says
	w.box.SetCountAfter(0)
	w.baseG = runtime.NumGoroutine()

	return w
}

func (w *c06World) history() string { return strings.Join(w.hist, " ; ") }

// settle waits until the goroutines the box started for the last call (the deferred counting of Vote, the new-ballot
// callback) are gone, so that the position is read at a quiescent point and every step sees at most the moves of its
// own call. A wait that does not end is a harness problem (inconclusive), never a verdict.
func (w *c06World) settle() {
	var deadline time.Time

	for i := 0; ; i++ {
		if runtime.NumGoroutine() <= w.baseG {
			return
		}

		switch {
		case i < 200:
			runtime.Gosched()
		case i == 200:
			deadline = time.Now().Add(c06WSettle)

			fallthrough
		default:
			if time.Now().After(deadline) {
				w.t.Fatalf("harness precondition: the goroutines of Ballotbox.Vote did not finish within %v after [%s] (%d goroutines, %d at the start)",
					c06WSettle, w.history(), runtime.NumGoroutine(), w.baseG)
			}

			time.Sleep(20 * time.Microsecond)
		}
	}
}

// judge reads the position after a settled step and compares the move with the statement.
func (w *c06World) judge(prev c06Pos, step string, counted bool) {
	// voteproofs the box handed out during the step: none for a height below the position the step started from
	for {
		var vp base.Voteproof

		select {
		case vp = <-w.box.Voteproof():
		default:
		}

		if vp == nil {
			break
		}

		if !prev.Zero && vp.Point().Height().Int64() < prev.H {
			w.r.Violation(w.t, "ballotbox-voteproof-lower-height", "Ballotbox after [%s] + %s handed out voteproof %v while the position was %v", w.history(), step, c06PosOfVoteproof(vp), prev)
		}
	}

	after := c06PosOfLastPoint(w.box.LastPoint())
	if after == prev {
		return
	}

	if counted {
		w.evs |= c06EvCounted
	}

	if ok, why := c06Allowed(prev, after, true); !ok {
		w.r.Violation(w.t, "ballotbox-counted-"+why, "Ballotbox after [%s] + %s: position moved from %v to %v (%s)", w.history(), step, prev, after, why)
	}

	cl := c06ClassifyAccepted(prev, after)
	w.evs |= cl

	if cl&c06EvBackward != 0 {
		clear(w.run)
	} else if _, found := w.run[after]; found {
		w.r.Violation(w.t, "ballotbox-position-taken-twice", "Ballotbox after [%s] + %s: position %v taken twice with no suffrage-confirm move in between", w.history(), step, after)
	} else if _, found := w.taken[after]; found {
		w.evs |= c06EvRetakeAfterBackward
	}

	w.run[after] = struct{}{}
	w.taken[after] = struct{}{}
}

func (w *c06World) vote(d c06Ballot) {
	bl, ok := c06WBallot(d)
	if !ok {
		return
	}

	prev := c06PosOfLastPoint(w.box.LastPoint())
	cand := d.pos()

	voted, err := w.box.Vote(bl)
	if err != nil {
		w.t.Fatalf("harness precondition: Vote(%v) after [%s]: %v", d, w.history(), err)
	}

	w.votes++
	w.settle()

	switch {
	case voted:
		// the ballot gate, judged against the position the ballot met
		if ok, why := c06Allowed(prev, cand, false); !ok {
			w.r.Violation(w.t, "ballotbox-vote-"+why, "Ballotbox.Vote accepted ballot %v while the position is %v after [%s] (%s)", d, prev, w.history(), why)
		}

		w.evs |= c06EvBallotAccepted

		if !prev.Zero && cand.H == prev.H && c06CmpSP(cand, prev) < 0 {
			w.evs |= c06EvEarlierSCBallot
		}
	case !prev.Zero && cand.H < prev.H:
		w.evs |= c06EvLowerRejected
	}

	w.judge(prev, "Vote("+d.String()+")", true)
	w.hist = append(w.hist, d.String())
}

func (w *c06World) apply(o c06Op) {
	switch o.Op {
	case "vote":
		w.vote(o.B)
	case "quorum":
		for i := 0; i < c06WExpel; i++ {
			b := o.B
			b.Node = i
			w.vote(b)
		}
	case "split":
		for i := 0; i < c06WN; i++ {
			b := o.B
			b.Node, b.V = i, 100+i
			w.vote(b)
		}
	case "count":
		prev := c06PosOfLastPoint(w.box.LastPoint())
		_ = w.box.Count()
		w.settle()
		w.judge(prev, "Count()", true)
		w.hist = append(w.hist, "count")
	case "setvp":
		prev := c06PosOfLastPoint(w.box.LastPoint())
		ret := w.box.SetLastPointFromVoteproof(c06WVPOf(o.Set))
		after := c06PosOfLastPoint(w.box.LastPoint())

		if !ret && after != prev {
			w.r.Violation(w.t, "ballotbox-rejected-but-moved", "Ballotbox.SetLastPointFromVoteproof(%v) after [%s] returned false but the position moved from %v to %v", o.Set, w.history(), prev, after)
		}

		if after == prev && !prev.Zero && o.Set.H < prev.H {
			w.evs |= c06EvLowerRejected
		}

		w.judge(prev, "SetLastPointFromVoteproof("+o.Set.String()+")", false)
		w.hist = append(w.hist, o.String())
	default:
		w.t.Fatalf("unknown op %q", o.Op)
	}
}

func (w *c06World) done() { c06WVotes.Add(int64(w.votes)) }

// c06WorldOps: the alphabet of the exhaustive part at one height. full: single ballots of every kind (two fact variants
// of init / accept) by node 0 and node 1, quorums of every kind, splits, Count. Not full: single init / sc / accept
// ballots by node 0, quorums of init / sc / accept, splits, Count. (Every Ballotbox allocates a 1 MiB voteproof channel,
// which bounds the number of histories the quick tier can afford.)
func c06WorldOps(h int64, rounds []uint64, full bool) []c06Op {
	type kv struct {
		kind string
		v    int
	}

	singles := []kv{{"init", 0}, {"sc", 0}, {"accept", 0}}
	quorums := []string{"init", "sc", "accept"}
	nodes := 1

	if full {
		singles = []kv{{"init", 0}, {"init", 1}, {"initExpel", 0}, {"sc", 0}, {"accept", 0}, {"accept", 1}, {"acceptExpel", 0}}
		quorums = []string{"init", "initExpel", "sc", "accept", "acceptExpel"}
		nodes = 2
	}

	var ops []c06Op

	for _, rd := range rounds {
		for _, k := range singles {
			for node := 0; node < nodes; node++ {
				ops = append(ops, c06Op{Op: "vote", B: c06Ballot{Kind: k.kind, H: h, R: rd, V: k.v, Node: node}})
			}
		}

		for _, kind := range quorums {
			ops = append(ops, c06Op{Op: "quorum", B: c06Ballot{Kind: kind, H: h, R: rd}})
		}

		for _, kind := range []string{"init", "accept"} {
			ops = append(ops, c06Op{Op: "split", B: c06Ballot{Kind: kind, H: h, R: rd}})
		}
	}

	return append(ops, c06Op{Op: "count"})
}

// c06WorldAll: from every start (no position, or one SetLastPointFromVoteproof) every sequence of depth ops.
func c06WorldAll(t ev.TB, r *ev.Rec, starts []c06Pos, ops []c06Op, depth int, mine func(int) bool, cnt *c06Counters) {
	idx := make([]int, depth)
	n := 0

	for _, start := range starts {
		for first := range ops {
			n++

			if !mine(n) {
				continue
			}

			for i := range idx {
				idx[i] = 0
			}

			idx[0] = first

			for {
				w := c06NewWorld(t, r)

				if !start.Zero {
					w.apply(c06Op{Op: "setvp", Set: start})
				}

				for i := range idx {
					w.apply(ops[idx[i]])
				}

				w.done()
				cnt.add(w.evs)

				if w.evs&c06EvEarlierSCBallot != 0 && w.evs&c06EvCounted != 0 && len(cnt.sample) < 2 {
					cnt.sample = append(cnt.sample, map[string]any{"holder": "ballotbox(real ballots)", "history": w.history(), "position": c06PosOfLastPoint(w.box.LastPoint()).String()})
				}

				k := depth - 1
				for k >= 1 {
					idx[k]++
					if idx[k] < len(ops) {
						break
					}

					idx[k] = 0
					k--
				}

				if k < 1 {
					break
				}
			}
		}
	}
}

// c06DrawOp draws the next step of a generated history relative to the box's current position.
func c06DrawOp(rt *rapid.T, cur c06Pos, minH, maxH int64, maxR uint64) c06Op {
	if cur.Zero {
		cur = c06Pos{H: minH + 1, St: base.StageINIT}
	}

	h, rd := cur.H, cur.R

	switch rapid.IntRange(0, 11).Draw(rt, "at") {
	case 0, 1, 2, 3: // the current point
	case 4, 5: // the next round
		rd++
	case 6, 7, 8: // an earlier (or the same) round
		rd = rapid.Uint64Range(0, cur.R).Draw(rt, "earlier")
	case 9: // the next height
		h, rd = h+1, 0
	case 10: // a lower height
		h, rd = h-1, rapid.Uint64Range(0, maxR).Draw(rt, "r")
	default:
		h, rd = rapid.Int64Range(minH, maxH).Draw(rt, "h"), rapid.Uint64Range(0, maxR).Draw(rt, "r")
	}

	if h < minH {
		h = minH
	}

	if h > maxH {
		h = maxH
	}

	if rd > maxR {
		rd = maxR
	}

	switch k := rapid.IntRange(0, 19).Draw(rt, "op"); {
	case k < 10:
		b := c06Ballot{
			Kind: rapid.SampledFrom([]string{"init", "init", "initI", "initExpel", "sc", "sc", "accept", "accept", "acceptExpel"}).Draw(rt, "kind"),
			H:    h, R: rd, Node: rapid.IntRange(0, c06WN-1).Draw(rt, "node"),
		}

		if b.Kind != "sc" && rapid.IntRange(0, 3).Draw(rt, "conflict") == 0 {
			b.V = rapid.IntRange(1, 2).Draw(rt, "v")
		}

		return c06Op{Op: "vote", B: b}
	case k < 14:
		return c06Op{Op: "quorum", B: c06Ballot{Kind: rapid.SampledFrom([]string{"init", "initExpel", "sc", "accept", "acceptExpel"}).Draw(rt, "kind"), H: h, R: rd}}
	case k < 17:
		return c06Op{Op: "split", B: c06Ballot{Kind: rapid.SampledFrom([]string{"init", "accept"}).Draw(rt, "kind"), H: h, R: rd}}
	case k < 18:
		return c06Op{Op: "count"}
	default:
		p := c06Pos{H: h, R: rd, St: rapid.SampledFrom([]base.Stage{base.StageINIT, base.StageACCEPT}).Draw(rt, "st"), Maj: rapid.Bool().Draw(rt, "maj")}
		if p.St == base.StageINIT && p.Maj {
			p.SC = rapid.Bool().Draw(rt, "sc")
		}

		return c06Op{Op: "setvp", Set: p}
	}
}

// ---- rapid: long sequences over a larger domain through both holders

func c06DrawCand(rt *rapid.T, cur c06Pos, maxH int64, maxR uint64) c06Pos {
	norm := func(p c06Pos) c06Pos {
		if p.H < 1 {
			p.H = 1
		}

		if p.H > maxH {
			p.H = maxH
		}

		if p.R > maxR {
			p.R = maxR
		}

		if p.SC {
			p.St = base.StageINIT
			p.Maj = true
		}

		p.Zero = false

		return p
	}

	if cur.Zero {
		cur = c06Pos{H: 1, St: base.StageINIT}
	}

	maj := rapid.Bool().Draw(rt, "maj")

	switch rapid.IntRange(0, 11).Draw(rt, "kind") {
	case 0: // what consensus does next: INIT -> ACCEPT of the point; ACCEPT majority -> next height; ACCEPT draw -> next round
		switch {
		case cur.St == base.StageINIT:
			return norm(c06Pos{H: cur.H, R: cur.R, St: base.StageACCEPT, Maj: maj})
		case !cur.Maj:
			return norm(c06Pos{H: cur.H, R: cur.R + 1, St: base.StageINIT, Maj: maj})
		}

		return norm(c06Pos{H: cur.H + 1, St: base.StageINIT, Maj: maj})
	case 1: // next round
		return norm(c06Pos{H: cur.H, R: cur.R + 1, St: base.StageINIT, Maj: maj})
	case 2: // next height
		return norm(c06Pos{H: cur.H + 1, St: base.StageINIT, Maj: maj})
	case 3: // suffrage confirm at the same point
		return norm(c06Pos{H: cur.H, R: cur.R, SC: true})
	case 4: // suffrage confirm of an earlier or equal round
		return norm(c06Pos{H: cur.H, R: rapid.Uint64Range(0, cur.R).Draw(rt, "scround"), SC: true})
	case 5: // the same stage point again
		return norm(c06Pos{H: cur.H, R: cur.R, St: cur.St, Maj: maj})
	case 6: // earlier round, plain
		return norm(c06Pos{H: cur.H, R: rapid.Uint64Range(0, cur.R).Draw(rt, "backround"), St: rapid.SampledFrom([]base.Stage{base.StageINIT, base.StageACCEPT}).Draw(rt, "st"), Maj: maj})
	case 7: // lower height
		return norm(c06Pos{H: cur.H - 1, R: rapid.Uint64Range(0, maxR).Draw(rt, "r"), St: rapid.SampledFrom([]base.Stage{base.StageINIT, base.StageACCEPT}).Draw(rt, "st"), Maj: maj, SC: rapid.Bool().Draw(rt, "sc")})
	case 8: // ACCEPT of the previous height (what fillMissing looks for)
		return norm(c06Pos{H: cur.H - 1, R: rapid.Uint64Range(0, maxR).Draw(rt, "r"), St: base.StageACCEPT, Maj: true})
	default:
		return norm(c06Pos{
			H: rapid.Int64Range(1, maxH).Draw(rt, "h"), R: rapid.Uint64Range(0, maxR).Draw(rt, "r"),
			St: rapid.SampledFrom([]base.Stage{base.StageINIT, base.StageACCEPT}).Draw(rt, "st"), Maj: maj,
			SC: rapid.IntRange(0, 3).Draw(rt, "sc") == 0,
		})
	}
}

func TestC06(t *testing.T) {
	r := ev.Start(t, "C06")
	defer r.Finish()
	r.Rule("positions (height,round,stage,majority,suffrage-confirm) as voteproofs create them (sc => INIT and majority). " +
		"A exhaustive: every ordered pair (last incl. none, candidate) over 3 heights x 3 rounds through LastPoint.Before, IsNewBallot, IsNewVoteproofbyPoint, IsNewVoteproof(real voteproof); " +
		"B exhaustive: every accepted update sequence up to length 2 (quick) / 3 (thorough), and 3 / 4 over 2 heights x 2 rounds, through a real Ballotbox (SetLastPoint and SetLastPointFromVoteproof) plus every ballot offered to VoteSignFact in every reached state; " +
		"C exhaustive: every sequence of 3 (quick) / 4 (thorough; 5 over 2 heights x 2 rounds) Set calls on a real LastVoteproofsHandler, position read from Last().Cap(); " +
		"E exhaustive: every prefix (3 or more voteproofs; 4 or more in thorough) of the histories of one height going through up to 3 rounds (each round ended by INIT draw | INIT majority, ACCEPT draw | INIT majority, suffrage-confirm INIT, ACCEPT draw | ACCEPT draw alone; optionally behind the ACCEPT majority of the previous height), followed by every update and every second update (quick: second update only behind an accepted first one) on a real LastVoteproofsHandler; " +
		"D rapid: sequences of 3..30 updates over 5 heights x 4 rounds fed to both holders, candidates drawn relative to the current position. " +
		"F exhaustive: a real Ballotbox with a known 4-node suffrage (threshold 67, one expel target) fed real signed valid ballots through Vote: from every start (no position, ACCEPT majority of the previous height, every position of the height over 2 rounds; 3 in thorough) every single step (thorough: every 2 steps) of the full alphabet (single init / conflicting init / init+expel / suffrage-confirm / accept / conflicting accept / accept+expel ballot of every round by node 0 or 1, the ballots carrying the voteproofs real ballots carry; a quorum of three such ballots; a split of four conflicting ballots = draw; Count) and every 2 steps (thorough: 3) of the reduced alphabet (single init / suffrage-confirm / accept ballot by node 0, quorums of these, splits, Count); the position LastPoint() is read after every ballot at a quiescent point; " +
		"G rapid: histories of 5..60 such steps over 4 heights x 4 rounds (ballots at the current / next / earlier rounds, next and lower heights, all four signers, INIT ballots carrying the ACCEPT draw or the INIT draw of the previous round, SetLastPointFromVoteproof in between) through one Ballotbox. " +
		"Every move of a judged position is compared with the relation written from the statement; for the LastVoteproofsHandler additionally the sequence of updates it accepted as new (IsNew and Set true) is judged by the same relation without reading Cap(), and Cap() must be the accepted update. " +
		"non-trivial: the case contains an accepted backward (suffrage-confirm) move, a same-stage-point replacement, or a rejected lower-height input; " +
		"exhaustive parts are distinct by construction, rapid cases by the sequence")
	r.Floor(500)
	r.MaxSamples(6)
	r.Exhaustive(true)
	r.Assume(
		"positions are restricted to those NewLastPointFromVoteproof can produce (suffrage-confirm => INIT and majority)",
		"safety only: nothing is demanded to be accepted",
		"'never taken twice' is judged inside runs without an allowed backward (suffrage-confirm) move; a position taken again after such a move is counted as class retake-after-backward(flagged): the relation is memoryless, so the statement's own backward exception implies it",
		"LastVoteproofsHandler.Set returning true for a voteproof that IsNew refused, while Last().Cap() stays put (fillMissing), is not a move of the position; Set returning true for a voteproof that IsNew accepted is an accepted update and must become Last().Cap()",
		"ForceSetLast (sync/handover reset) is outside the statement",
		"F/G: the same relation is applied to every move of Ballotbox.LastPoint() that the box makes itself while counting ballots; an accepted ballot (Vote true) is judged against the position it met; a voteproof handed out for a height below the position the step started from is a violation; only ballots that pass IsValid are offered (launch drops the others before the box)",
		"F/G: the position is read after the goroutines started by Vote have finished (goroutine count back at its start value), so every step shows the moves of its own call only; this wait decides nothing (a wait that never ends is reported as a harness problem); SetCountAfter(0) makes the hold of an INIT draw with pending expels independent of the clock",
	)

	// speed only: every Ballotbox allocates a 1 MiB voteproof channel and the live heap of this test is small, so the
	// collector would run every few boxes and the scavenger would hand the memory back to the OS in between. An untouched
	// allocation that stays alive raises the heap goal; the freed channels are then reused while still mapped.
	ballast := make([]byte, 64<<20)
	defer runtime.KeepAlive(ballast)

	heights := []int64{1, 2, 3}
	rounds := []uint64{0, 1, 2}
	ps := c06Positions(heights, rounds)
	ballots := c06Ballots(heights, rounds)

	// ---- R. shrunk past failures, replayed first (plain sequences, no library)
	t.Run("R-regress", func(t *testing.T) {
		if !r.Mine(0) {
			return
		}

		var cnt c06Counters

		I := func(h int64, rd uint64, maj, sc bool) c06Pos {
			return c06Pos{H: h, R: rd, St: base.StageINIT, Maj: maj, SC: sc}
		}
		A := func(h int64, rd uint64, maj bool) c06Pos { return c06Pos{H: h, R: rd, St: base.StageACCEPT, Maj: maj} }

		for _, seq := range [][]c06Pos{
			{A(1, 0, false), I(1, 1, false, false), I(1, 0, true, true)},                                      // late suffrage-confirm voteproof of round 0: Cap() fell back to ACCEPT(1,0)
			{A(1, 0, false), A(1, 1, false), I(1, 2, false, false), I(1, 0, true, true)},                      // ... to ACCEPT(1,1)
			{I(1, 0, true, false), A(1, 0, false), I(1, 0, true, true), A(1, 0, true)},                        // sc voteproof at the point of a drawn ACCEPT
			{I(2, 0, true, false), A(1, 0, true), A(2, 0, false), I(2, 1, false, false), I(2, 0, true, true)}, // with a filled previous-height ACCEPT
			{I(1, 0, true, false), A(1, 0, false), I(1, 1, true, false), I(1, 1, true, false), A(1, 0, true)}, // round change behind a stored ACCEPT draw: INIT(1,1) once, then nothing of round 0 without suffrage confirm
			{A(1, 0, false), I(1, 1, false, false), A(1, 1, false), I(1, 2, true, false), I(1, 2, true, false), A(1, 1, true), A(1, 0, true)},
		} {
			cnt.add(c06LvpsSeq(t, r, seq))
		}

		cnt.flush(r, "R")
	})

	if t.Failed() {
		return
	}

	// ---- A. the step relation, every ordered pair
	t.Run("A-step-relation", func(t *testing.T) {
		var cnt c06Counters

		lasts := append([]c06Pos{{Zero: true}}, ps...)

		for i, last := range lasts {
			if !r.Mine(i) {
				continue
			}

			lp := c06LastPoint(t, last)

			if got := c06PosOfLastPoint(lp); got != last {
				t.Fatalf("position round trip: %v != %v", got, last)
			}

			for _, cand := range ballots {
				ok, why := c06Allowed(last, cand, false)
				before := lp.Before(cand.sp(), cand.SC)
				isnew := isaac.IsNewBallot(lp, cand.sp(), cand.SC)

				if (before || isnew) && !ok {
					r.Violation(t, "step-ballot-"+why, "last=%v ballot=%v: Before=%v IsNewBallot=%v (%s)", last, cand, before, isnew, why)
				}

				var evs uint

				switch {
				case before || isnew:
					evs = c06ClassifyAccepted(last, cand)
				case !last.Zero && cand.H < last.H:
					evs = c06EvLowerRejected
				}

				cnt.add(evs)
			}

			for _, cand := range ps {
				ok, why := c06Allowed(last, cand, true)
				bypoint := isaac.IsNewVoteproofbyPoint(lp, cand.sp(), cand.Maj, cand.SC)
				byvp := isaac.IsNewVoteproof(lp, c06objs.vp(cand))

				if (bypoint || byvp) && !ok {
					r.Violation(t, "step-voteproof-"+why, "last=%v voteproof=%v: IsNewVoteproofbyPoint=%v IsNewVoteproof=%v (%s)", last, cand, bypoint, byvp, why)
				}

				// the real voteproof must create exactly the position it was built for
				if flp, err := isaac.NewLastPointFromVoteproof(c06objs.vp(cand)); err != nil || c06PosOfLastPoint(flp) != cand {
					t.Fatalf("NewLastPointFromVoteproof(%v) = %v, %v", cand, c06PosOfLastPoint(flp), err)
				}

				var evs uint

				switch {
				case bypoint || byvp:
					evs = c06ClassifyAccepted(last, cand)
				case !last.Zero && cand.H < last.H:
					evs = c06EvLowerRejected
				}

				cnt.add(evs)

				if c06Nontrivial(evs) && evs&c06EvLowerRejected == 0 && len(cnt.sample) < 1 {
					cnt.sample = append(cnt.sample, map[string]any{"holder": "step-relation", "last": last.String(), "voteproof": cand.String(), "accepted": true})
				}
			}
		}

		cnt.flush(r, "A")

		for _, s := range cnt.sample {
			r.Sample(s)
		}
	})

	if t.Failed() {
		return
	}

	// ---- B. ballotbox, all accepted sequences
	t.Run("B-ballotbox", func(t *testing.T) {
		var cnt c06Counters

		small := c06Positions([]int64{1, 2}, []uint64{0, 1})
		smallBallots := c06Ballots([]int64{1, 2}, []uint64{0, 1})

		for _, dom := range []struct {
			ps, ballots []c06Pos
			depth       int
		}{
			{ps, ballots, r.N(2, 3)},         // 45 positions
			{small, smallBallots, r.N(3, 4)}, // 20 positions, one level deeper
		} {
			for _, fromVoteproof := range []bool{false, true} {
				// the empty box belongs to shard 0; then shard by the first accepted update
				if r.Mine(0) {
					box := c06NewBox()
					for _, b := range dom.ballots {
						cnt.add(c06BoxBallot(t, r, box, b, ""))
					}
				}

				for i, first := range dom.ps {
					if !r.Mine(i) {
						continue
					}

					box := c06NewBox()
					if moved, _ := c06BoxSet(t, r, box, first, fromVoteproof, ""); !moved {
						r.Violation(t, "ballotbox-first-update-refused", "an empty Ballotbox refused %v", first) // not reachable for a sane holder; keeps B honest
					}

					cnt.add(0)
					c06BoxDFS(t, r, box, dom.ps, dom.ballots, []c06Pos{first}, dom.depth, fromVoteproof, &cnt)
				}
			}
		}

		cnt.flush(r, "B")
		r.Extra("ballotboxes_built", c06Boxes.Load())

		for _, s := range cnt.sample {
			r.Sample(s)
		}
	})

	if t.Failed() {
		return
	}

	// ---- C. last-voteproofs store, all sequences
	t.Run("C-last-voteproofs", func(t *testing.T) {
		var cnt c06Counters

		c06LvpsAll(t, r, ps, r.N(3, 4), r.Mine, &cnt)

		if r.Thorough() {
			small := c06Positions([]int64{1, 2}, []uint64{0, 1})
			c06LvpsAll(t, r, small, 5, r.Mine, &cnt)
		}

		cnt.flush(r, "C")

		for _, s := range cnt.sample {
			r.Sample(s)
		}
	})

	if t.Failed() {
		return
	}

	// ---- E. last-voteproofs store behind round changes inside one height (draws), deeper than C reaches
	t.Run("E-round-changes", func(t *testing.T) {
		var cnt c06Counters

		// sequences are longer than any of C (prefix >= 3 + probe(s) in quick, >= 4 + two probes in thorough)
		prefixes := c06RoundChangePrefixes(2, 3, r.N(3, 4))
		c06LvpsRoundChanges(t, r, prefixes, ps, r.Thorough(), r.Mine, &cnt)

		cnt.flush(r, "E")
		r.Extra("round_change_prefixes", len(prefixes))

		for _, s := range cnt.sample {
			r.Sample(s)
		}
	})

	if t.Failed() {
		return
	}

	// ---- F. ballotbox driven by real ballots: the position is moved by the box's own counting
	t.Run("F-ballotbox-counting", func(t *testing.T) {
		var cnt c06Counters

		const h = 33

		frounds := []uint64{0, 1}
		if r.Thorough() {
			frounds = []uint64{0, 1, 2}
		}

		// starts: no position; the ACCEPT majority of the previous height (what launch sets from the stored last
		// voteproof); every position of the height
		starts := append([]c06Pos{{Zero: true}, {H: h - 1, St: base.StageACCEPT, Maj: true}}, c06Positions([]int64{h}, frounds)...)
		// the full alphabet one step shorter than the reduced one
		c06WorldAll(t, r, starts, c06WorldOps(h, frounds, true), r.N(1, 2), r.Mine, &cnt)
		c06WorldAll(t, r, starts, c06WorldOps(h, frounds, false), r.N(2, 3), r.Mine, &cnt)

		cnt.flush(r, "F")
		r.Extra("ballotbox_worlds", c06Worlds.Load())
		r.Extra("ballotbox_votes", c06WVotes.Load())
		r.Extra("ballots_invalid_skipped", c06WInvalid.Load())

		for _, s := range cnt.sample {
			r.Sample(s)
		}
	})

	if t.Failed() {
		return
	}

	// ---- D. rapid sequences through both holders
	r.Checks(1500, 200000)
	r.ShrinkTime(20 * time.Second)
	rapid.Check(t, func(rt *rapid.T) {
		const maxH, maxR = 5, 3

		n := rapid.IntRange(3, 30).Draw(rt, "n")
		box := c06NewBox()
		lv := c06NewLvps()

		var seq []c06Pos

		var evs uint

		var desc strings.Builder

		for i := 0; i < n; i++ {
			// follow one of the two holders, or the last update the store accepted
			cur := lv.pos()

			switch rapid.IntRange(0, 3).Draw(rt, "follow") {
			case 0, 1:
				cur = c06PosOfLastPoint(box.LastPoint())
			case 2:
				cur = lv.model
			}

			cand := c06DrawCand(rt, cur, maxH, maxR)
			op := rapid.IntRange(0, 3).Draw(rt, "op")
			hist := c06Seq(seq)

			switch op {
			case 0:
				_, e := c06BoxSet(rt, r, box, cand, false, hist)
				evs |= e
			case 1:
				_, e := c06BoxSet(rt, r, box, cand, true, hist)
				evs |= e
			case 2:
				evs |= c06BoxBallot(rt, r, box, cand, hist)
			default:
				// both holders see the voteproof, like States.newVoteproof -> handlers and launch -> ballotbox
				_, e := c06BoxSet(rt, r, box, cand, true, hist)
				evs |= e
			}

			if op != 2 {
				evs |= lv.step(rt, r, cand, func() string { return hist })
			}

			seq = append(seq, cand)
			fmt.Fprintf(&desc, "%d%s|", op, cand)
		}

		var classes []string

		for i := range c06EvNames {
			if evs&(1<<i) != 0 {
				classes = append(classes, "D:"+c06EvNames[i])
			}
		}

		nontrivial := c06Nontrivial(evs)
		r.Case(desc.String(), nontrivial, append(classes, "part:D")...)

		if nontrivial && evs&c06EvBackward != 0 && r.WantSample() {
			r.Sample(map[string]any{"holder": "both(rapid)", "ops(0,1,3=set 2=ballot)+updates": desc.String()})
		}
	})

	if t.Failed() {
		return
	}

	// ---- G. rapid histories of real ballots through one Ballotbox: votes of every kind at the current, next, earlier
	// rounds and other heights, quorums, draws, Count, SetLastPointFromVoteproof
	r.Checks(300, 40000)
	rapid.Check(t, func(rt *rapid.T) {
		const minH, maxH, maxR = 32, 35, 3

		w := c06NewWorld(rt, r)

		if rapid.IntRange(0, 3).Draw(rt, "start") != 0 {
			w.apply(c06Op{Op: "setvp", Set: c06Pos{H: minH, St: base.StageACCEPT, Maj: true}})
		}

		n := rapid.IntRange(5, 60).Draw(rt, "n")

		for i := 0; i < n; i++ {
			w.apply(c06DrawOp(rt, c06PosOfLastPoint(w.box.LastPoint()), minH, maxH, maxR))
		}

		w.done()

		var classes []string

		for i := range c06EvNames {
			if w.evs&(1<<i) != 0 {
				classes = append(classes, "G:"+c06EvNames[i])
			}
		}

		nontrivial := c06Nontrivial(w.evs)
		r.Case("G|"+w.history(), nontrivial, append(classes, "part:G")...)

		if nontrivial && w.evs&c06EvBackward != 0 && w.evs&c06EvCounted != 0 && r.WantSample() {
			r.Sample(map[string]any{"holder": "ballotbox(real ballots, rapid)", "history": w.history()})
		}
	})

	r.Extra("ballotbox_worlds", c06Worlds.Load())
	r.Extra("ballotbox_votes", c06WVotes.Load())
	r.Extra("ballots_invalid_skipped", c06WInvalid.Load())
}
