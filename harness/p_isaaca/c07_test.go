package p_isaaca

import (
	"context"
	"fmt"
	"strings"
	"sync"
	"testing"
	"time"

	"github.com/pkg/errors"
	"github.com/spikeekips/mitum/base"
	"github.com/spikeekips/mitum/isaac"
	"github.com/spikeekips/mitum/util"
	"github.com/spikeekips/mitum/util/valuehash"
	"pgregory.net/rapid"
	"verif/internal/ev"
)

var c07NetworkID = base.NetworkID([]byte("verif-c07-network"))

// ---- keys (cached: key derivation dominates otherwise)

var (
	c07KeysOnce sync.Once
	c07Keys     []base.Privatekey
)

const c07MaxNodes = 64

func c07Key(i int) base.Privatekey {
	c07KeysOnce.Do(func() {
		c07Keys = make([]base.Privatekey, c07MaxNodes+1)

		for i := range c07Keys {
			priv, err := base.NewMPrivatekeyFromSeed(fmt.Sprintf("verif-c07-node-key-seed-%032d", i))
			if err != nil {
				panic(err)
			}

			c07Keys[i] = priv
		}
	})

	return c07Keys[i]
}

// ---- a plain proposal pool (what the selector needs from the node's pool)

type c07Pool struct {
	sync.Mutex
	byfact  map[string]base.ProposalSignFact
	bypoint map[string]base.ProposalSignFact
}

func c07NewPool() *c07Pool {
	return &c07Pool{byfact: map[string]base.ProposalSignFact{}, bypoint: map[string]base.ProposalSignFact{}}
}

func (*c07Pool) key(point base.Point, proposer base.Address, prev util.Hash) string {
	return point.String() + "/" + proposer.String() + "/" + prev.String()
}

func (p *c07Pool) Proposal(h util.Hash) (base.ProposalSignFact, bool, error) {
	p.Lock()
	defer p.Unlock()

	pr, found := p.byfact[h.String()]

	return pr, found, nil
}

func (p *c07Pool) ProposalBytes(util.Hash) (string, []byte, []byte, bool, error) {
	return "", nil, nil, false, nil
}

func (p *c07Pool) ProposalByPoint(point base.Point, proposer base.Address, prev util.Hash) (base.ProposalSignFact, bool, error) {
	p.Lock()
	defer p.Unlock()

	pr, found := p.bypoint[p.key(point, proposer, prev)]

	return pr, found, nil
}

func (p *c07Pool) SetProposal(pr base.ProposalSignFact) (bool, error) {
	p.Lock()
	defer p.Unlock()

	k := pr.Fact().Hash().String()
	if _, found := p.byfact[k]; found {
		return false, nil
	}

	p.byfact[k] = pr
	p.bypoint[p.key(pr.Point(), pr.ProposalFact().Proposer(), pr.ProposalFact().PreviousBlock())] = pr

	return true, nil
}

// ---- generators

// c07Names draws n distinct valid address names from a small alphabet, so that prefixes, case and punctuation
// orderings all occur.
func c07Names(rt *rapid.T, n int) []string {
	const inner = "aAbB01-_.zZ9"
	const edge = "aAbB01zZ9"

	seen := map[string]struct{}{}
	names := make([]string, 0, n)

	for len(names) < n {
		l := rapid.IntRange(3, 5).Draw(rt, "namelen")
		b := make([]byte, l)

		for i := range b {
			al := inner
			if i == 0 || i == l-1 {
				al = edge
			}

			b[i] = al[rapid.IntRange(0, len(al)-1).Draw(rt, "ch")]
		}

		s := string(b)
		if _, dup := seen[s]; dup {
			// make it unique deterministically (still valid: digits at the end)
			s = fmt.Sprintf("%s%d", s, len(names))
			if _, dup := seen[s]; dup {
				continue
			}
		}

		seen[s] = struct{}{}
		names = append(names, s)
	}

	return names
}

type c07View struct {
	Perm  []int // order in which this node's suffrage source lists the nodes
	Local int   // index of the suffrage member this view runs on; -1: a node outside the suffrage
}

type c07Result struct {
	selected base.Address
	asked    []base.Address
	err      error
	panicked any
	elapsed  time.Duration
}

func c07RunView(nodes []isaac.LocalNode, outsider isaac.LocalNode, v c07View, point base.Point, prev util.Hash) (res c07Result) {
	started := time.Now()

	defer func() {
		res.elapsed = time.Since(started)

		if x := recover(); x != nil {
			res.panicked = x
		}
	}()

	local := outsider
	if v.Local >= 0 {
		local = nodes[v.Local]
	}

	pool := c07NewPool()

	var askedLock sync.Mutex

	args := isaac.NewBaseProposalSelectorArgs()
	args.Pool = pool
	args.ProposerSelectFunc = isaac.NewBlockBasedProposerSelector().Select
	args.Maker = isaac.NewProposalMaker(local, c07NetworkID, nil, pool, nil)
	args.GetNodesFunc = func(base.Height) ([]base.Node, bool, error) {
		listed := make([]base.Node, len(v.Perm)) // a fresh slice each call, in this node's order

		for i, j := range v.Perm {
			listed[i] = nodes[j]
		}

		return listed, true, nil
	}
	args.RequestFunc = func(_ context.Context, point base.Point, proposer base.Node, prev util.Hash) (base.ProposalSignFact, bool, error) {
		askedLock.Lock()
		res.asked = append(res.asked, proposer.Address())
		askedLock.Unlock()

		for i := range nodes {
			if !nodes[i].Address().Equal(proposer.Address()) {
				continue
			}

			sf := isaac.NewProposalSignFact(isaac.NewProposalFact(point, nodes[i].Address(), prev, nil))
			if err := sf.Sign(nodes[i].Privatekey(), c07NetworkID); err != nil {
				return nil, false, err
			}

			return sf, true, nil
		}

		return nil, false, errors.Errorf("asked a node outside the suffrage, %q", proposer.Address())
	}
	args.MinProposerWait = time.Second * 40
	args.TimeoutRequest = func() time.Duration { return time.Second * 30 }

	pr, err := isaac.NewBaseProposalSelector(local, args).Select(context.Background(), point, prev, 0)
	if err != nil {
		res.err = err

		return res
	}

	res.selected = pr.ProposalFact().Proposer()

	return res
}

func TestC07(t *testing.T) {
	r := ev.Start(t, "C07")
	defer r.Finish()
	r.Rule("suffrages of 1..64 nodes with distinct addresses over a small alphabet (prefixes, case, punctuation), random point and previous-block hash; " +
		"8 node views per case, each listing the suffrage in its own drawn permutation and running on a drawn member (or an outsider), all driven through BaseProposalSelector.Select " +
		"with BlockBasedProposerSelector; the request stub answers with a valid proposal signed by whoever is asked, so the proposer of the returned proposal is the selected one. " +
		"All views must select the same node and it must be a suffrage member; BlockBasedProposerSelector.Select alone must answer with an element of its input, twice the same. " +
		"non-trivial: >= 3 nodes and at least two views with different list orders; distinct by (addresses, point, previous block, permutations)")
	r.Floor(100)
	r.Assume(
		"suffrage node addresses are distinct (NewSuffrage rejects duplicates)",
		"no request fails or times out (stubs answer at once; waits are 30-40 s), so only the first-choice proposer path is judged; a case slower than 10 s is discarded, not judged",
	)

	r.Checks(300, 5000)
	r.ShrinkTime(60 * time.Second)
	rapid.Check(t, func(rt *rapid.T) {
		var n int

		switch rapid.IntRange(0, 9).Draw(rt, "nclass") {
		case 0:
			n = 1
		case 1, 2:
			n = 2
		case 3:
			n = 3
		case 4, 5, 6:
			n = rapid.IntRange(4, 8).Draw(rt, "n")
		case 7, 8:
			n = rapid.IntRange(9, 32).Draw(rt, "n")
		default:
			n = rapid.IntRange(33, c07MaxNodes).Draw(rt, "n")
		}

		names := c07Names(rt, n)
		nodes := make([]isaac.LocalNode, n)

		for i := range nodes {
			nodes[i] = isaac.NewLocalNode(c07Key(i), base.NewStringAddress(names[i]))

			if err := nodes[i].Address().IsValid(nil); err != nil {
				rt.Fatalf("generator made an invalid address %q: %v", names[i], err)
			}
		}

		outsider := isaac.NewLocalNode(c07Key(c07MaxNodes), base.NewStringAddress("outsider-node"))

		height := rapid.OneOf(rapid.Int64Range(1, 40), rapid.Int64Range(1, 1<<40)).Draw(rt, "height")
		round := rapid.OneOf(rapid.Uint64Range(0, 5), rapid.Uint64Range(0, 1<<20)).Draw(rt, "round")
		point := base.RawPoint(height, round)
		prev := valuehash.NewBytes(rapid.SliceOfN(rapid.Byte(), 32, 32).Draw(rt, "prev"))

		const nviews = 8

		views := make([]c07View, nviews)
		orders := map[string]struct{}{}

		for i := range views {
			idx := make([]int, n)
			for j := range idx {
				idx[j] = j
			}

			switch rapid.IntRange(0, 5).Draw(rt, "permkind") {
			case 0: // as generated
			case 1: // reversed
				for a, b := 0, n-1; a < b; a, b = a+1, b-1 {
					idx[a], idx[b] = idx[b], idx[a]
				}
			case 2: // rotated
				k := rapid.IntRange(0, n-1).Draw(rt, "rot")
				idx = append(idx[k:], idx[:k]...)
			default:
				idx = rapid.Permutation(idx).Draw(rt, "perm")
			}

			views[i] = c07View{Perm: idx, Local: rapid.IntRange(-1, n-1).Draw(rt, "local")}
			orders[fmt.Sprint(idx)] = struct{}{}
		}

		// ---- the selector function alone: an element of its input, and the same one when asked again
		func() {
			defer func() {
				if x := recover(); x != nil {
					if r.Failed() {
						panic(x)
					}

					r.Violation(rt, "proposer-select-panic", "BlockBasedProposerSelector.Select panicked for %d nodes point=%v prev=%v: %v", n, point, prev, x)
				}
			}()

			sel := isaac.NewBlockBasedProposerSelector()

			for _, v := range views[:2] {
				listed := make([]base.Node, n)
				for i, j := range v.Perm {
					listed[i] = nodes[j]
				}

				a, err := sel.Select(context.Background(), point, listed, prev)
				if err != nil {
					rt.Fatalf("BlockBasedProposerSelector.Select: %v", err)
				}

				b, _ := sel.Select(context.Background(), point, append([]base.Node(nil), listed...), prev)

				member := false

				for i := range nodes {
					if a != nil && nodes[i].Address().Equal(a.Address()) && nodes[i].Publickey().Equal(a.Publickey()) {
						member = true
					}
				}

				if !member {
					r.Violation(rt, "proposer-not-member", "BlockBasedProposerSelector.Select returned %v, not one of the %d nodes it was given", a, n)
				}

				if b == nil || !a.Address().Equal(b.Address()) {
					r.Violation(rt, "proposer-not-deterministic", "BlockBasedProposerSelector.Select answered %v then %v for the same input", a, b)
				}
			}
		}()

		// ---- all views, concurrently (everything is drawn by now)
		results := make([]c07Result, nviews)

		var wg sync.WaitGroup

		for i := range views {
			wg.Add(1)

			go func(i int) {
				defer wg.Done()

				results[i] = c07RunView(nodes, outsider, views[i], point, prev)
			}(i)
		}

		wg.Wait()

		desc := func() string {
			var sb strings.Builder

			fmt.Fprintf(&sb, "suffrage=%v point=%v prev=%v", names, point, prev)

			for i := range views {
				who := "?"
				if results[i].selected != nil {
					who = results[i].selected.String()
				}

				fmt.Fprintf(&sb, "\n  view %d order=%v local=%d -> %s", i, views[i].Perm, views[i].Local, who)
			}

			return sb.String()
		}

		slow := false

		for i := range results {
			if results[i].elapsed > 10*time.Second {
				slow = true
			}
		}

		if slow {
			r.Case("slow", false, "discarded:slow")

			return
		}

		for i := range results {
			res := results[i]

			switch {
			case res.panicked != nil:
				r.Violation(rt, "proposer-select-panic", "BaseProposalSelector.Select panicked in view %d: %v\n%s", i, res.panicked, desc())
			case res.err != nil:
				rt.Fatalf("view %d: Select failed (not judged): %+v\n%s", i, res.err, desc())
			case len(res.asked) > 1, len(res.asked) == 1 && !res.asked[0].Equal(res.selected):
				rt.Fatalf("view %d: the retry path ran without any failure injected (asked %v, got %v)\n%s", i, res.asked, res.selected, desc())
			}

			member := false

			for j := range nodes {
				if nodes[j].Address().Equal(res.selected) {
					member = true
				}
			}

			if !member {
				r.Violation(rt, "proposer-not-member", "view %d selected %v which is not a suffrage member\n%s", i, res.selected, desc())
			}

			if !res.selected.Equal(results[0].selected) {
				r.Violation(rt, "proposer-differs-by-order", "views 0 and %d select different proposers (%v, %v) for the same point, previous block and suffrage\n%s",
					i, results[0].selected, res.selected, desc())
			}
		}

		nontrivial := n >= 3 && len(orders) >= 2

		var nclass string

		switch {
		case n <= 3:
			nclass = fmt.Sprintf("n:%d", n)
		case n <= 8:
			nclass = "n:4-8"
		case n <= 32:
			nclass = "n:9-32"
		default:
			nclass = "n:33-64"
		}

		selfsel := "selected-is-a-view-local:no"

		for i := range views {
			if views[i].Local >= 0 && nodes[views[i].Local].Address().Equal(results[i].selected) {
				selfsel = "selected-is-a-view-local:yes"
			}
		}

		fp := fmt.Sprintf("%v|%v|%v|%v", names, point, prev, views)
		r.Case(fp, nontrivial, nclass, fmt.Sprintf("orders:%d", len(orders)), selfsel)

		if nontrivial && r.WantSample() {
			perms := make([][]int, 0, 3)
			for i := 0; i < 3; i++ {
				perms = append(perms, views[i].Perm)
			}

			r.Sample(map[string]any{
				"suffrage": names, "height": height, "round": round, "previous_block": prev.String(),
				"first_3_view_orders": perms, "selected": results[0].selected.String(),
			})
		}
	})
}
