package p_isaaca

import (
	"context"
	"fmt"
	"math"
	"math/bits"
	"net"
	"sort"
	"strings"
	"sync"
	"testing"
	"time"

	"github.com/pkg/errors"
	"github.com/spikeekips/mitum/base"
	"github.com/spikeekips/mitum/isaac"
	"github.com/spikeekips/mitum/network/quicstream"
	"github.com/spikeekips/mitum/util"
	"github.com/spikeekips/mitum/util/valuehash"
	"pgregory.net/rapid"
	"verif/internal/ev"
)

var (
	c07NetworkID      = base.NetworkID([]byte("verif-c07-network"))
	c07OtherNetworkID = base.NetworkID([]byte("verif-c07-another-network"))
)

// ---- keys (cached: key derivation dominates otherwise)

var (
	c07KeysOnce sync.Once
	c07Keys     []base.Privatekey
)

const c07MaxNodes = 64

const c07MaxByteSum = 32 * 255 // largest byte sum of a 32 byte previous-block hash

// c07Add3 adds three uint64 without loss: (carry, low 64 bits).
func c07Add3(a, b, c uint64) (hi, lo uint64) {
	lo, c0 := bits.Add64(a, b, 0)
	lo, c1 := bits.Add64(lo, c, 0)

	return c0 + c1, lo
}

func c07Key(i int) base.Privatekey {
	c07KeysOnce.Do(func() {
		c07Keys = make([]base.Privatekey, c07MaxNodes+2) // + the outsider and the forger

		for i := range c07Keys {
			priv, err := base.NewMPrivatekeyFromSeed(fmt.Sprintf("verif-c07-node-key-seed-%032d", i))
			if err != nil {
				panic(err)
			}

			c07Keys[i] = priv
		}
	})

	return c07Keys[i]
}

// ---- a plain proposal pool (what the selector needs from the node's pool)

type c07Pool struct {
	sync.Mutex
	byfact  map[string]base.ProposalSignFact
	bypoint map[string]base.ProposalSignFact
}

func c07NewPool() *c07Pool {
	return &c07Pool{byfact: map[string]base.ProposalSignFact{}, bypoint: map[string]base.ProposalSignFact{}}
}

func (*c07Pool) key(point base.Point, proposer base.Address, prev util.Hash) string {
	return point.String() + "/" + proposer.String() + "/" + prev.String()
}

func (p *c07Pool) Proposal(h util.Hash) (base.ProposalSignFact, bool, error) {
	p.Lock()
	defer p.Unlock()

	pr, found := p.byfact[h.String()]

	return pr, found, nil
}

func (p *c07Pool) ProposalBytes(util.Hash) (string, []byte, []byte, bool, error) {
	return "", nil, nil, false, nil
}

func (p *c07Pool) ProposalByPoint(point base.Point, proposer base.Address, prev util.Hash) (base.ProposalSignFact, bool, error) {
	p.Lock()
	defer p.Unlock()

	pr, found := p.bypoint[p.key(point, proposer, prev)]

	return pr, found, nil
}

func (p *c07Pool) SetProposal(pr base.ProposalSignFact) (bool, error) {
	p.Lock()
	defer p.Unlock()

	k := pr.Fact().Hash().String()
	if _, found := p.byfact[k]; found {
		return false, nil
	}

	p.byfact[k] = pr
	p.bypoint[p.key(pr.Point(), pr.ProposalFact().Proposer(), pr.ProposalFact().PreviousBlock())] = pr

	return true, nil
}

// ---- generators

// c07Names draws n distinct valid address names from a small alphabet, so that prefixes, case and punctuation
// orderings all occur.
func c07Names(rt *rapid.T, n int) []string {
	const inner = "aAbB01-_.zZ9"
	const edge = "aAbB01zZ9"

	seen := map[string]struct{}{}
	names := make([]string, 0, n)

	for len(names) < n {
		l := rapid.IntRange(3, 5).Draw(rt, "namelen")
		b := make([]byte, l)

		for i := range b {
			al := inner
			if i == 0 || i == l-1 {
				al = edge
			}

			b[i] = al[rapid.IntRange(0, len(al)-1).Draw(rt, "ch")]
		}

		s := string(b)
		if _, dup := seen[s]; dup {
			// make it unique deterministically (still valid: digits at the end)
			s = fmt.Sprintf("%s%d", s, len(names))
			if _, dup := seen[s]; dup {
				continue
			}
		}

		seen[s] = struct{}{}
		names = append(names, s)
	}

	return names
}

// ---- peers: what the nodes asked for the selected proposer's proposal answer

const (
	c07Honest       = iota // the proposal of the asked proposer, signed with its key
	c07None                // "not found"
	c07Error               // the request fails
	c07ForgeAddr           // names another address, signed with the asked proposer's key
	c07ForgeKey            // names the asked proposer, signed with another key
	c07ForgeBoth           // names another address, signed with that other node's key
	c07WrongPoint          // the asked proposer's own proposal, for another point
	c07WrongNetwork        // names the asked proposer, signed with its key for another network id (signature does not verify)
	c07NKinds
)

var c07KindNames = [c07NKinds]string{"honest", "none", "error", "forge-addr", "forge-key", "forge-both", "wrong-point", "wrong-network"}

type c07Peer struct {
	First int // answer kind when asked for the first-choice proposer
	Rest  int // answer kind when asked for any other candidate
	Other int // whose identity a forging answer borrows: a suffrage member index; -1 (or the asked node itself): a node outside the suffrage
}

const (
	c07ModeHonest  = iota // one peer, honest (every request is answered at once)
	c07ModeMixed          // 1..4 peers of any kind
	c07ModeStarved        // 1..3 peers, none of which has an honest answer for the first-choice proposer
)

type c07View struct {
	Perm   []int // order in which this node's suffrage source lists the nodes
	Local  int   // index of the suffrage member this view runs on; -1: a node outside the suffrage
	Mode   int
	Peers  []c07Peer
	Pooled bool // the first-choice proposer's proposal is already in this node's pool
}

// c07Starved: the view can not get the genuine proposal of proposer p: p is remote, not pooled, and no peer answers
// honestly for it.
func (v c07View) c07Starved(nodes []isaac.LocalNode, p base.Address) bool {
	if v.Pooled || (v.Local >= 0 && nodes[v.Local].Address().Equal(p)) {
		return false
	}

	for i := range v.Peers {
		if v.Peers[i].First == c07Honest {
			return false
		}
	}

	return true
}

type c07Result struct {
	pr         base.ProposalSignFact
	selected   base.Address
	asked      []base.Address
	served     [c07NKinds]int
	pool       []base.ProposalSignFact
	err        error
	harnessErr error
	panicked   any
	elapsed    time.Duration
}

// c07Client is the network client the production request function (launch: isaac.ConcurrentRequestProposal over the
// alive members) talks to; only RequestProposal is ever called.
type c07Client struct {
	isaac.NetworkClient
	f func(quicstream.ConnInfo, base.Point, base.Address, util.Hash) (base.ProposalSignFact, bool, error)
}

func (c c07Client) RequestProposal(
	_ context.Context, ci quicstream.ConnInfo, point base.Point, proposer base.Address, prev util.Hash,
) (base.ProposalSignFact, bool, error) {
	return c.f(ci, point, proposer, prev)
}

const c07PortBase = 4000

func c07Sign(point base.Point, addr base.Address, key base.Privatekey, nid base.NetworkID, prev util.Hash) (base.ProposalSignFact, error) {
	sf := isaac.NewProposalSignFact(isaac.NewProposalFact(point, addr, prev, nil))
	if err := sf.Sign(key, nid); err != nil {
		return nil, err
	}

	return sf, nil
}

func c07Answer(kind int, asked, other base.LocalNode, point base.Point, prev util.Hash) (base.ProposalSignFact, bool, error) {
	addr, key, nid, pt := asked.Address(), asked.Privatekey(), c07NetworkID, point

	switch kind {
	case c07None:
		return nil, false, nil
	case c07Error:
		return nil, false, errors.Errorf("peer is down")
	case c07ForgeAddr:
		addr = other.Address()
	case c07ForgeKey:
		key = other.Privatekey()
	case c07ForgeBoth:
		addr, key = other.Address(), other.Privatekey()
	case c07WrongPoint:
		pt = point.NextRound()
	case c07WrongNetwork:
		nid = c07OtherNetworkID
	}

	sf, err := c07Sign(pt, addr, key, nid, prev)
	if err != nil {
		return nil, false, err
	}

	return sf, true, nil
}

// c07Forged judges one proposal a node came out with (or keeps in its pool) for (point, prev) against the statement:
// it names a member of the suffrage (or, for what a node made itself, that node) and is signed, for this network, with
// that node's key, for the asked point. Returns "" when it is fine.
func c07Forged(pr base.ProposalSignFact, nodes []isaac.LocalNode, local base.LocalNode, point base.Point) (sig, why string) {
	if pr == nil || pr.ProposalFact() == nil || len(pr.Signs()) < 1 {
		return "proposal-not-signed-by-proposer", "empty or unsigned proposal"
	}

	named := pr.ProposalFact().Proposer()

	var id base.LocalNode

	for i := range nodes {
		if nodes[i].Address().Equal(named) {
			id = nodes[i]
		}
	}

	if id == nil && local.Address().Equal(named) {
		id = local
	}

	switch {
	case id == nil:
		return "proposer-not-member", fmt.Sprintf("names %v as proposer, which is not a suffrage member", named)
	case !pr.Signs()[0].Signer().Equal(id.Publickey()):
		return "proposal-not-signed-by-proposer", fmt.Sprintf("names %v as proposer but is signed with another node's key", named)
	case pr.IsValid(c07NetworkID) != nil:
		return "proposal-not-signed-by-proposer", fmt.Sprintf("names %v as proposer but its signature does not verify", named)
	case !pr.Point().Equal(point):
		return "proposal-wrong-point", fmt.Sprintf("is for point %v", pr.Point())
	default:
		return "", ""
	}
}

// c07RunView runs Select once on one node. first is the proposer the peers' First answer kind (and Pooled) refer to.
// short: use waits short enough for the fall-back path (next candidates, own proposal) to run; no verdict depends on them.
func c07RunView(
	nodes []isaac.LocalNode, outsider, forger isaac.LocalNode, v c07View, point base.Point, prev util.Hash,
	first base.LocalNode, short bool,
) (res c07Result) {
	started := time.Now()

	defer func() {
		res.elapsed = time.Since(started)

		if x := recover(); x != nil {
			res.panicked = x
		}
	}()

	local := outsider
	if v.Local >= 0 {
		local = nodes[v.Local]
	}

	pool := c07NewPool()

	if v.Pooled && first != nil {
		sf, err := c07Sign(point, first.Address(), first.Privatekey(), c07NetworkID, prev)
		if err != nil {
			res.harnessErr = err

			return res
		}

		_, _ = pool.SetProposal(sf)
	}

	var lock sync.Mutex

	type answer struct {
		pr    base.ProposalSignFact
		found bool
		err   error
	}

	answers := map[string]answer{}

	cis := make([]quicstream.ConnInfo, len(v.Peers))
	for i := range cis {
		cis[i] = quicstream.UnsafeConnInfo(&net.UDPAddr{IP: net.IPv4(127, 0, 0, 1), Port: c07PortBase + i}, true)
	}

	done := false // set (under lock) once Select has returned: requests still in flight no longer touch res

	client := c07Client{f: func(ci quicstream.ConnInfo, point base.Point, proposer base.Address, prev util.Hash) (base.ProposalSignFact, bool, error) {
		lock.Lock()
		defer lock.Unlock()

		if done {
			return nil, false, errors.Errorf("closed")
		}

		pi := ci.UDPAddr().Port - c07PortBase
		if pi < 0 || pi >= len(v.Peers) {
			res.harnessErr = errors.Errorf("unknown peer %v", ci)

			return nil, false, res.harnessErr
		}

		var asked base.LocalNode

		for i := range nodes {
			if nodes[i].Address().Equal(proposer) {
				asked = nodes[i]
			}
		}

		if asked == nil {
			res.harnessErr = errors.Errorf("asked for a node outside the suffrage, %q", proposer)

			return nil, false, res.harnessErr
		}

		kind := v.Peers[pi].Rest
		if first == nil || asked.Address().Equal(first.Address()) {
			kind = v.Peers[pi].First
		}

		res.served[kind]++

		k := fmt.Sprintf("%d/%s", pi, proposer)
		if a, found := answers[k]; found {
			return a.pr, a.found, a.err
		}

		var other base.LocalNode = forger
		if o := v.Peers[pi].Other; o >= 0 && o < len(nodes) && !nodes[o].Address().Equal(proposer) {
			other = nodes[o]
		}

		var a answer
		a.pr, a.found, a.err = c07Answer(kind, asked, other, point, prev)
		answers[k] = a

		return a.pr, a.found, a.err
	}}

	args := isaac.NewBaseProposalSelectorArgs()
	args.Pool = pool
	args.ProposerSelectFunc = isaac.NewBlockBasedProposerSelector().Select
	args.Maker = isaac.NewProposalMaker(local, c07NetworkID, nil, pool, nil)
	args.GetNodesFunc = func(base.Height) ([]base.Node, bool, error) {
		listed := make([]base.Node, len(v.Perm)) // a fresh slice each call, in this node's order

		for i, j := range v.Perm {
			listed[i] = nodes[j]
		}

		return listed, true, nil
	}
	args.RequestFunc = func(ctx context.Context, point base.Point, proposer base.Node, prev util.Hash) (base.ProposalSignFact, bool, error) {
		lock.Lock()
		if done {
			lock.Unlock()

			return nil, false, errors.Errorf("closed")
		}

		if len(res.asked) < 1 || !res.asked[len(res.asked)-1].Equal(proposer.Address()) {
			res.asked = append(res.asked, proposer.Address())
		}
		lock.Unlock()

		// as launch wires it: ask the alive members concurrently, take the first expected answer
		return isaac.ConcurrentRequestProposal(ctx, point, proposer, prev, client, cis, c07NetworkID)
	}
	args.MinProposerWait = time.Second * 40
	args.TimeoutRequest = func() time.Duration { return time.Second * 30 }

	if short {
		args.MinProposerWait = time.Millisecond * 60
		args.RequestProposalInterval = time.Millisecond * 10
	}

	pr, err := isaac.NewBaseProposalSelector(local, args).Select(context.Background(), point, prev, 0)

	lock.Lock()
	done = true
	lock.Unlock()

	pool.Lock()
	keys := make([]string, 0, len(pool.byfact))
	for k := range pool.byfact {
		keys = append(keys, k)
	}

	sort.Strings(keys)

	for _, k := range keys {
		res.pool = append(res.pool, pool.byfact[k])
	}
	pool.Unlock()

	if err != nil {
		res.err = err

		return res
	}

	res.pr = pr
	res.selected = pr.ProposalFact().Proposer()

	return res
}

func TestC07(t *testing.T) {
	r := ev.Start(t, "C07")
	defer r.Finish()
	r.Rule("suffrages of 1..64 nodes with distinct addresses over a small alphabet (prefixes, case, punctuation), random point and previous-block hash " +
		"(heights from small up to math.MaxInt64, rounds from 0 up to math.MaxUint64, both also within a hash's byte sum of 2^63 resp. the end of their range; hashes with random, low and high byte sums); " +
		"8 node views per case, each listing the suffrage in its own drawn permutation and running on a drawn member (or an outsider), all driven through BaseProposalSelector.Select " +
		"with BlockBasedProposerSelector and, as request function, isaac.ConcurrentRequestProposal (the production wiring) over 1..4 stub peers. In half of the cases every view, otherwise views 0,1 and half of the others, have one honest peer " +
		"(a valid proposal signed by whoever is asked); the others have peers that, per peer, answer for the first-choice proposer and for later candidates with one of: honest, not-found, error, " +
		"another address signed with the asked proposer's key, the asked proposer's address signed with another (member or outsider) key, another node's own proposal, the proposer's proposal for another point, " +
		"a signature for another network id; optionally the genuine proposal is already pooled. " +
		"All views that can obtain the first-choice proposer's genuine proposal must return it, the same for all, from a suffrage member; every view, also one that can not (it falls to the next candidates or its own proposal), " +
		"must return and pool only proposals that name a suffrage member (or the node itself) and are signed with that node's key for the asked point. " +
		"BlockBasedProposerSelector.Select alone must answer with an element of its input, twice the same. " +
		"non-trivial: >= 3 nodes and at least two views with different list orders; distinct by (addresses, point, previous block, views)")
	r.Floor(100)
	r.Assume(
		"suffrage node addresses are distinct (NewSuffrage rejects duplicates)",
		"views whose peers include an honest answer for the first-choice proposer (or that run on it, or have it pooled) use waits of 30-40 s and stubs answer at once; a case slower than 10 s is discarded, not judged",
		"views without any genuine answer for the first-choice proposer use short waits (60 ms) so that the fall-back path runs; which candidate they end with depends on timing and is not judged, "+
			"only that what they return and pool is a genuine proposal of a member (or their own)",
		"a node outside the suffrage that falls back to its own proposal is not judged for membership (real callers run the selector on suffrage members only)",
		"forging peers are other nodes: they can sign with any key they hold except in combination (address, key) of the asked proposer; a proposal with the right proposer and key but another previous block is not generated",
	)

	r.Checks(300, 5000)
	r.ShrinkTime(60 * time.Second)
	rapid.Check(t, func(rt *rapid.T) {
		var n int

		switch rapid.IntRange(0, 9).Draw(rt, "nclass") {
		case 0:
			n = 1
		case 1, 2:
			n = 2
		case 3:
			n = 3
		case 4, 5, 6:
			n = rapid.IntRange(4, 8).Draw(rt, "n")
		case 7, 8:
			n = rapid.IntRange(9, 32).Draw(rt, "n")
		default:
			n = rapid.IntRange(33, c07MaxNodes).Draw(rt, "n")
		}

		names := c07Names(rt, n)
		nodes := make([]isaac.LocalNode, n)

		for i := range nodes {
			nodes[i] = isaac.NewLocalNode(c07Key(i), base.NewStringAddress(names[i]))

			if err := nodes[i].Address().IsValid(nil); err != nil {
				rt.Fatalf("generator made an invalid address %q: %v", names[i], err)
			}
		}

		outsider := isaac.NewLocalNode(c07Key(c07MaxNodes), base.NewStringAddress("outsider-node"))
		forger := isaac.NewLocalNode(c07Key(c07MaxNodes+1), base.NewStringAddress("forger-node"))

		// Valid points are all of base.Height >= genesis (int64) x base.Round (uint64): besides ordinary values, draw the
		// ends of both ranges and the neighbourhood of 2^63 (within the largest byte sum of a 32 byte hash, 32*255), where
		// height + round + byte sum crosses the int64 and the uint64 limits; previous-block hashes with low, random and high
		// byte sums.
		height := rapid.OneOf(
			rapid.Int64Range(1, 40),
			rapid.Int64Range(1, 1<<40),
			rapid.Int64Range(math.MaxInt64-c07MaxByteSum-64, math.MaxInt64),
			rapid.Int64Range(1<<40, math.MaxInt64),
		).Draw(rt, "height")
		round := rapid.OneOf(
			rapid.Uint64Range(0, 5),
			rapid.Uint64Range(0, 1<<20),
			rapid.Uint64Range(1<<63-c07MaxByteSum-64, 1<<63+c07MaxByteSum+64),
			rapid.Uint64Range(1<<63, math.MaxUint64),
			rapid.Uint64Range(math.MaxUint64-c07MaxByteSum-64, math.MaxUint64),
		).Draw(rt, "round")
		point := base.RawPoint(height, round)

		if err := point.IsValid(nil); err != nil {
			rt.Fatalf("generator made an invalid point %v: %v", point, err)
		}

		prev := valuehash.NewBytes(rapid.OneOf(
			rapid.SliceOfN(rapid.Byte(), 32, 32),
			rapid.SliceOfN(rapid.ByteRange(0xf0, 0xff), 32, 32),
			rapid.SliceOfN(rapid.ByteRange(0x00, 0x0f), 32, 32),
		).Draw(rt, "prev"))

		prevsum := uint64(0)
		for _, b := range prev.Bytes() {
			prevsum += uint64(b)
		}

		var pointclasses []string

		if height > math.MaxInt64-c07MaxByteSum-64 {
			pointclasses = append(pointclasses, "point:height-near-maxint64")
		}

		if round >= 1<<63 {
			pointclasses = append(pointclasses, "point:round>=2^63")
		}

		// height + round + byte sum, as a mathematical integer, is at or above 2^63 / 2^64
		if hi, lo := c07Add3(uint64(height), round, prevsum); hi > 0 {
			pointclasses = append(pointclasses, "point:sum>=2^64")
		} else if lo >= 1<<63 {
			pointclasses = append(pointclasses, "point:sum>=2^63")
		}

		if prevsum >= 32*0xf0 {
			pointclasses = append(pointclasses, "prev:high-byte-sum")
		}

		const nviews = 8

		// half of the cases have only honest peers (they cost ~40 ms; a case with a view that has to wait for its
		// first-choice proposer in vain costs three times that)
		faulty := rapid.Bool().Draw(rt, "faulty")

		views := make([]c07View, nviews)
		orders := map[string]struct{}{}

		for i := range views {
			idx := make([]int, n)
			for j := range idx {
				idx[j] = j
			}

			switch rapid.IntRange(0, 5).Draw(rt, "permkind") {
			case 0: // as generated
			case 1: // reversed
				for a, b := 0, n-1; a < b; a, b = a+1, b-1 {
					idx[a], idx[b] = idx[b], idx[a]
				}
			case 2: // rotated
				k := rapid.IntRange(0, n-1).Draw(rt, "rot")
				idx = append(idx[k:], idx[:k]...)
			default:
				idx = rapid.Permutation(idx).Draw(rt, "perm")
			}

			v := c07View{Perm: idx, Local: rapid.IntRange(-1, n-1).Draw(rt, "local"), Peers: []c07Peer{{}}}

			if faulty && i >= 2 {
				switch rapid.IntRange(0, 5).Draw(rt, "peermode") {
				case 0, 1, 2:
				case 3:
					v.Mode = c07ModeMixed
				default:
					v.Mode = c07ModeStarved
				}
			}

			if v.Mode != c07ModeHonest {
				maxpeers, minfirst := 4, 0
				if v.Mode == c07ModeStarved {
					maxpeers, minfirst = 3, 1
				}

				v.Peers = make([]c07Peer, rapid.IntRange(1, maxpeers).Draw(rt, "npeers"))

				for j := range v.Peers {
					v.Peers[j].First = rapid.IntRange(minfirst, c07NKinds-1).Draw(rt, "first")

					if !rapid.Bool().Draw(rt, "resthonest") {
						v.Peers[j].Rest = rapid.IntRange(1, c07NKinds-1).Draw(rt, "rest")
					}

					v.Peers[j].Other = rapid.IntRange(-1, n-1).Draw(rt, "other")
				}

				if v.Mode == c07ModeMixed {
					v.Pooled = rapid.IntRange(0, 3).Draw(rt, "pooled") == 0
				}
			}

			views[i] = v
			orders[fmt.Sprint(idx)] = struct{}{}
		}

		// ---- the selector function alone: an element of its input, and the same one when asked again
		func() {
			defer func() {
				if x := recover(); x != nil {
					if r.Failed() {
						panic(x)
					}

					r.Violation(rt, "proposer-select-panic", "BlockBasedProposerSelector.Select panicked for %d nodes point=%v prev=%v: %v", n, point, prev, x)
				}
			}()

			sel := isaac.NewBlockBasedProposerSelector()

			for _, v := range views[:2] {
				listed := make([]base.Node, n)
				for i, j := range v.Perm {
					listed[i] = nodes[j]
				}

				a, err := sel.Select(context.Background(), point, listed, prev)
				if err != nil {
					rt.Fatalf("BlockBasedProposerSelector.Select: %v", err)
				}

				b, _ := sel.Select(context.Background(), point, append([]base.Node(nil), listed...), prev)

				member := false

				for i := range nodes {
					if a != nil && nodes[i].Address().Equal(a.Address()) && nodes[i].Publickey().Equal(a.Publickey()) {
						member = true
					}
				}

				if !member {
					r.Violation(rt, "proposer-not-member", "BlockBasedProposerSelector.Select returned %v, not one of the %d nodes it was given", a, n)
				}

				if b == nil || !a.Address().Equal(b.Address()) {
					r.Violation(rt, "proposer-not-deterministic", "BlockBasedProposerSelector.Select answered %v then %v for the same input", a, b)
				}
			}
		}()

		// ---- which proposer the peers' answer kinds refer to, and which views get short waits. This only configures the
		// stubs; the verdict uses what the honest views 0 and 1 select (and fault views are not judged for agreement
		// when the two differ).
		var first base.LocalNode

		func() {
			defer func() { _ = recover() }() // judged above

			sorted := make([]base.Node, n)
			for i := range nodes {
				sorted[i] = nodes[i]
			}

			sort.Slice(sorted, func(i, j int) bool { return sorted[i].Address().String() < sorted[j].Address().String() })

			if a, err := isaac.NewBlockBasedProposerSelector().Select(context.Background(), point, sorted, prev); err == nil && a != nil {
				for i := range nodes {
					if nodes[i].Address().Equal(a.Address()) {
						first = nodes[i]
					}
				}
			}
		}()

		if first == nil {
			first = nodes[0]
		}

		// ---- all views, concurrently (everything is drawn by now)
		results := make([]c07Result, nviews)

		var wg sync.WaitGroup

		for i := range views {
			wg.Add(1)

			go func(i int) {
				defer wg.Done()

				short := views[i].Mode != c07ModeHonest && views[i].c07Starved(nodes, first.Address())
				results[i] = c07RunView(nodes, outsider, forger, views[i], point, prev, first, short)
			}(i)
		}

		wg.Wait()

		desc := func() string {
			var sb strings.Builder

			fmt.Fprintf(&sb, "suffrage=%v point=%v prev=%v", names, point, prev)

			for i := range views {
				who := "?"
				if results[i].selected != nil {
					who = results[i].selected.String()
				}

				fmt.Fprintf(&sb, "\n  view %d order=%v local=%d", i, views[i].Perm, views[i].Local)

				if views[i].Mode != c07ModeHonest {
					fmt.Fprintf(&sb, " pooled=%v peers(first-choice/later/borrowed identity)=", views[i].Pooled)

					for _, p := range views[i].Peers {
						fmt.Fprintf(&sb, "[%s/%s/%d]", c07KindNames[p.First], c07KindNames[p.Rest], p.Other)
					}
				}

				fmt.Fprintf(&sb, " -> %s", who)
			}

			return sb.String()
		}

		slow := false

		for i := range results {
			if results[i].elapsed > 10*time.Second {
				slow = true
			}
		}

		if slow {
			r.Case("slow", false, "discarded:slow")

			return
		}

		ref := results[0].selected
		consistent := ref != nil && ref.Equal(first.Address())
		nstarved, nfault := 0, 0

		var served [c07NKinds]int

		for i := range results {
			res := results[i]
			v := views[i]

			local := outsider
			if v.Local >= 0 {
				local = nodes[v.Local]
			}

			fault := v.Mode != c07ModeHonest
			starved := fault && v.c07Starved(nodes, first.Address())

			if fault {
				nfault++
			}

			if starved {
				nstarved++
			}

			for k := range served {
				served[k] += res.served[k]
			}

			switch {
			case res.panicked != nil:
				r.Violation(rt, "proposer-select-panic", "BaseProposalSelector.Select panicked in view %d: %v\n%s", i, res.panicked, desc())
			case res.harnessErr != nil:
				rt.Fatalf("view %d: harness: %+v\n%s", i, res.harnessErr, desc())
			case res.err != nil:
				rt.Fatalf("view %d: Select failed (not judged): %+v\n%s", i, res.err, desc())
			}

			// what the node came out with, and everything it pooled on the way, is a genuine proposal
			if sig, why := c07Forged(res.pr, nodes, local, point); sig != "" {
				r.Violation(rt, sig, "view %d: Select returned a proposal that %s\n%s", i, why, desc())
			}

			for _, pr := range res.pool {
				if sig, why := c07Forged(pr, nodes, local, point); sig != "" {
					r.Violation(rt, "forged-proposal-pooled", "view %d: Select pooled a proposal that %s\n%s", i, why, desc())
				}
			}

			if starved || (fault && !consistent) {
				continue // no genuine proposal of the first-choice proposer within reach: which candidate it ends with is not judged
			}

			if len(res.asked) > 1 || (len(res.asked) == 1 && !res.asked[0].Equal(res.selected)) {
				rt.Fatalf("view %d: the retry path ran although the first-choice proposer's proposal was within reach (asked %v, got %v)\n%s", i, res.asked, res.selected, desc())
			}

			member := false

			for j := range nodes {
				if nodes[j].Address().Equal(res.selected) {
					member = true
				}
			}

			if !member {
				r.Violation(rt, "proposer-not-member", "view %d selected %v which is not a suffrage member\n%s", i, res.selected, desc())
			}

			if !res.selected.Equal(ref) {
				sig := "proposer-differs-by-order"
				if fault {
					sig = "proposer-differs-by-peer-answers"
				}

				r.Violation(rt, sig, "views 0 and %d select different proposers (%v, %v) for the same point, previous block and suffrage\n%s",
					i, ref, res.selected, desc())
			}
		}

		nontrivial := n >= 3 && len(orders) >= 2

		var nclass string

		switch {
		case n <= 3:
			nclass = fmt.Sprintf("n:%d", n)
		case n <= 8:
			nclass = "n:4-8"
		case n <= 32:
			nclass = "n:9-32"
		default:
			nclass = "n:33-64"
		}

		selfsel := "selected-is-a-view-local:no"

		for i := range views {
			if views[i].Local >= 0 && nodes[views[i].Local].Address().Equal(results[i].selected) {
				selfsel = "selected-is-a-view-local:yes"
			}
		}

		classes := []string{nclass, fmt.Sprintf("orders:%d", len(orders)), selfsel}
		classes = append(classes, pointclasses...)

		if nfault > 0 {
			classes = append(classes, "fault-views:yes")
		}

		if nstarved > 0 {
			classes = append(classes, "starved-views:yes")
		}

		for k := 1; k < c07NKinds; k++ {
			if served[k] > 0 {
				classes = append(classes, "answered:"+c07KindNames[k])
			}
		}

		fp := fmt.Sprintf("%v|%v|%v|%v", names, point, prev, views)
		r.Case(fp, nontrivial, classes...)

		if nontrivial && r.WantSample() {
			perms := make([][]int, 0, 3)
			for i := 0; i < 3; i++ {
				perms = append(perms, views[i].Perm)
			}

			r.Sample(map[string]any{
				"suffrage": names, "height": height, "round": round, "previous_block": prev.String(),
				"first_3_view_orders": perms, "selected": results[0].selected.String(),
				"fault_views": nfault, "starved_views": nstarved,
			})
		}
	})
}
