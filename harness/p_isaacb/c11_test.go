package p_isaacb

import (
	"bytes"
	"context"
	"errors"
	"fmt"
	"runtime"
	"strings"
	"sync"
	"sync/atomic"
	"testing"
	"time"

	"github.com/spikeekips/mitum/base"
	"github.com/spikeekips/mitum/isaac"
	"github.com/spikeekips/mitum/util"
	"github.com/spikeekips/mitum/util/valuehash"
	"pgregory.net/rapid"
	"verif/internal/ev"
)

// ---- world (per process): signed proposals, operations and voteproofs

const (
	c11Heights  = 5 // heights 1..5
	c11Rounds   = 2
	c11Variants = 2 // two different proposals per point
)

type c11Proposal struct {
	idx      int
	pr       base.ProposalSignFact
	height   int64
	manifest util.Hash // what every block writer of this proposal computes (block production is deterministic)
}

type c11World struct {
	networkID base.NetworkID
	local     base.LocalNode
	proposals []*c11Proposal
	byHash    map[string]*c11Proposal
	ops       map[string]base.Operation // by operation hash
	unknown   util.Hash                 // a proposal fact hash nobody can deliver

	mu   sync.Mutex
	ivps map[int]base.INITVoteproof
	avps map[string]base.ACCEPTVoteproof
}

var (
	c11WorldOnce sync.Once
	c11W         *c11World
)

func c11Hash(s string) util.Hash { return valuehash.NewSHA256([]byte(s)) }

func c11GetWorld() *c11World {
	c11WorldOnce.Do(func() {
		priv, err := base.NewMPrivatekeyFromSeed("c11-local-node-seed-long-enough-for-a-key")
		if err != nil {
			panic(err)
		}

		w := &c11World{
			networkID: base.NetworkID("c11-network"),
			local:     isaac.NewLocalNode(priv, base.NewStringAddress("c11local")),
			byHash:    map[string]*c11Proposal{},
			ops:       map[string]base.Operation{},
			unknown:   c11Hash("unknown-proposal"),
			ivps:      map[int]base.INITVoteproof{},
			avps:      map[string]base.ACCEPTVoteproof{},
		}

		for h := 1; h <= c11Heights; h++ {
			for rd := 0; rd < c11Rounds; rd++ {
				for v := 0; v < c11Variants; v++ {
					idx := len(w.proposals)
					nops := (h + rd + 2*v) % 3

					ophs := make([][2]util.Hash, nops)

					for i := range ophs {
						fact := isaac.NewDummyOperationFact(base.Token(fmt.Sprintf("c11-%d-%d", idx, i)), c11Hash(fmt.Sprintf("v-%d-%d", idx, i)))

						op, err := isaac.NewDummyOperation(fact, priv, w.networkID)
						if err != nil {
							panic(err)
						}

						w.ops[op.Hash().String()] = op
						ophs[i] = [2]util.Hash{op.Hash(), fact.Hash()}
					}

					point := base.NewPoint(base.Height(int64(h)), base.Round(uint64(rd)))
					fact := isaac.NewProposalFact(point, w.local.Address(), c11Hash(fmt.Sprintf("prev-%d", h-1)), ophs)
					sf := isaac.NewProposalSignFact(fact)

					if err := sf.Sign(priv, w.networkID); err != nil {
						panic(err)
					}

					p := &c11Proposal{idx: idx, pr: sf, height: int64(h), manifest: c11Hash("manifest-of-" + fact.Hash().String())}
					w.proposals = append(w.proposals, p)
					w.byHash[fact.Hash().String()] = p
				}
			}
		}

		c11W = w
	})

	return c11W
}

func (w *c11World) ivp(p *c11Proposal) base.INITVoteproof {
	w.mu.Lock()
	defer w.mu.Unlock()

	if vp, ok := w.ivps[p.idx]; ok {
		return vp
	}

	point := p.pr.Point()
	fact := isaac.NewINITBallotFact(point, c11Hash(fmt.Sprintf("prev-%d", p.height-1)), p.pr.Fact().Hash(), nil)
	sf := isaac.NewINITBallotSignFact(fact)

	if err := sf.NodeSign(w.local.Privatekey(), w.networkID, w.local.Address()); err != nil {
		panic(err)
	}

	vp := isaac.NewINITVoteproof(point)
	vp.SetMajority(fact).SetSignFacts([]base.BallotSignFact{sf}).SetThreshold(base.Threshold(100)).Finish()
	w.ivps[p.idx] = vp

	return vp
}

// avp: a majority ACCEPT voteproof at `point` whose majority votes for (proposal fact hash, new block).
func (w *c11World) avp(point base.Point, proposal, newblock util.Hash) base.ACCEPTVoteproof {
	key := point.String() + "|" + proposal.String() + "|" + newblock.String()

	w.mu.Lock()
	defer w.mu.Unlock()

	if vp, ok := w.avps[key]; ok {
		return vp
	}

	fact := isaac.NewACCEPTBallotFact(point, proposal, newblock, nil)
	sf := isaac.NewACCEPTBallotSignFact(fact)

	if err := sf.NodeSign(w.local.Privatekey(), w.networkID, w.local.Address()); err != nil {
		panic(err)
	}

	vp := isaac.NewACCEPTVoteproof(point)
	vp.SetMajority(fact).SetSignFacts([]base.BallotSignFact{sf}).SetThreshold(base.Threshold(100)).Finish()
	w.avps[key] = vp

	return vp
}

// ---- the stub block writer: the observation point of the property

type c11SaveRecord struct {
	Writer    int
	Proposal  util.Hash // fact hash of the proposal the writer was created for
	Height    int64     // height of that proposal = height of the block that Save writes
	Manifest  util.Hash // manifest hash this writer returned from Manifest(); nil if it never returned one
	AVP       base.ACCEPTVoteproof
	Begin     int64
	End       int64
	Succeeded bool
}

type c11Env struct {
	w       *c11World
	seq     atomic.Int64
	steps   atomic.Int64 // bumped whenever a lane issues a call (used only to pace gates)
	mu      sync.Mutex
	records []*c11SaveRecord
	calls   []*c11CallRecord
	writers int
	// the queued phase: the next writer created for proposal holdFor pauses inside Manifest until gate is closed, so
	// that its Process call keeps the processors' lock for as long as the harness wants
	holdFor util.Hash
	gate    chan struct{}
	// drawn behaviour, consumed in creation order of writers (deterministic when single lane)
	behaviours []c11WriterBehaviour
}

// c11CallRecord: one ProposalProcessors.Save call as its caller sees it.
type c11CallRecord struct {
	Step   string
	Height int64 // height of the ACCEPT voteproof
	Begin  int64
	End    int64
	OK     bool // returned a nil error: the caller is told the block of that height is saved
}

type c11WriterBehaviour struct {
	ManifestErr   bool // Manifest fails
	SaveErr       bool // Save fails
	HonourCtx     bool // Manifest/Save return ctx.Err() when their context is already cancelled
	GateManifest  int  // pause inside Manifest (lets other lanes run into the processors' lock)
	GateSave      int
	CancelProcess bool // cancel the caller's Process context from inside Manifest
}

type c11Writer struct {
	env      *c11Env
	id       int
	proposal base.ProposalSignFact
	beh      c11WriterBehaviour
	hold     bool

	mu           sync.Mutex
	manifest     util.Hash
	avp          base.ACCEPTVoteproof
	cancelCaller func()
}

var errC11Writer = errors.New("c11: writer failed")

func (e *c11Env) pause(n int) {
	if n < 1 {
		return
	}

	// wait until another lane issued a call, bounded by a short grace; affects only the schedule, never the verdict
	start := e.steps.Load()
	deadline := time.Now().Add(time.Duration(n) * 200 * time.Microsecond)

	for e.steps.Load() == start && time.Now().Before(deadline) {
		runtime.Gosched()
	}

	for i := 0; i < n; i++ {
		runtime.Gosched()
	}
}

func (e *c11Env) newWriter(proposal base.ProposalSignFact, cancelCaller func()) *c11Writer {
	e.mu.Lock()
	defer e.mu.Unlock()

	id := e.writers
	e.writers++

	var beh c11WriterBehaviour
	if id < len(e.behaviours) {
		beh = e.behaviours[id]
	}

	hold := false
	if e.holdFor != nil && e.holdFor.Equal(proposal.Fact().Hash()) {
		hold = true
		e.holdFor = nil
	}

	return &c11Writer{env: e, id: id, proposal: proposal, beh: beh, hold: hold, cancelCaller: cancelCaller}
}

func (e *c11Env) armHold(proposal util.Hash) {
	e.mu.Lock()
	e.holdFor = proposal
	e.mu.Unlock()
}

// ---- goroutine introspection for the queued phase: no callback of the code under test runs between the entry of
// Process/Save/Cancel and the acquisition of the processors' lock, so the only way to know that a call is queued on that
// lock is to look at the state of its goroutine.

var c11StackBuf = make([]byte, 64<<10)

func c11GoID() string {
	var b [64]byte

	f := strings.Fields(string(b[:runtime.Stack(b[:], false)])) // "goroutine 123 [running]:"
	if len(f) < 2 {
		return ""
	}

	return f[1]
}

// c11ParkedOnProcessorsLock reports whether goroutine goid is parked in sync.(*RWMutex).Lock called from a
// ProposalProcessors method.
func c11ParkedOnProcessorsLock(goid string, buf *[]byte) bool {
	if goid == "" {
		return false
	}

	var raw []byte

	for {
		n := runtime.Stack(*buf, true)
		if n < len(*buf) {
			raw = (*buf)[:n]

			break
		}

		if len(*buf) >= 64<<20 {
			return false
		}

		*buf = make([]byte, 2*len(*buf))
	}

	head := "goroutine " + goid + " ["

	i := 0
	if !bytes.HasPrefix(raw, []byte(head)) {
		if i = bytes.Index(raw, []byte("\n\n"+head)); i < 0 {
			return false
		}

		i += 2
	}

	raw = raw[i:]
	if j := bytes.Index(raw, []byte("\n\n")); j >= 0 {
		raw = raw[:j]
	}

	block := string(raw)

	state := block[len(head):]
	if !strings.HasPrefix(state, "sync.Mutex.Lock") && !strings.HasPrefix(state, "sync.RWMutex.Lock") && !strings.HasPrefix(state, "semacquire") {
		return false
	}

	k := strings.Index(block, "sync.(*RWMutex).Lock(")
	if k < 0 {
		return false
	}

	// the frame that called RWMutex.Lock: function line, file line, then the caller
	rest := strings.SplitN(block[k:], "\n", 4)

	return len(rest) >= 3 && strings.Contains(rest[2], "isaac.(*ProposalProcessors).")
}

func (*c11Writer) SetOperationsSize(uint64) {}

func (*c11Writer) SetProcessResult(context.Context, uint64, util.Hash, util.Hash, bool, base.OperationProcessReasonError) error {
	return nil
}

func (*c11Writer) SetStates(context.Context, uint64, []base.StateMergeValue, base.Operation) error {
	return nil
}

func (wr *c11Writer) Manifest(ctx context.Context, _ base.Manifest) (base.Manifest, error) {
	if wr.beh.CancelProcess && wr.cancelCaller != nil {
		wr.cancelCaller()
	}

	wr.env.pause(wr.beh.GateManifest)

	if wr.hold {
		<-wr.env.gate
	}

	if wr.beh.ManifestErr {
		return nil, errC11Writer
	}

	if wr.beh.HonourCtx && ctx.Err() != nil {
		return nil, ctx.Err()
	}

	p := wr.env.w.byHash[wr.proposal.Fact().Hash().String()]
	m := base.NewDummyManifest(wr.proposal.Point().Height(), p.manifest)

	wr.mu.Lock()
	wr.manifest = p.manifest
	wr.mu.Unlock()

	return m, nil
}

func (*c11Writer) SetINITVoteproof(context.Context, base.INITVoteproof) error { return nil }

func (wr *c11Writer) SetACCEPTVoteproof(_ context.Context, avp base.ACCEPTVoteproof) error {
	wr.mu.Lock()
	wr.avp = avp
	wr.mu.Unlock()

	return nil
}

func (wr *c11Writer) Save(ctx context.Context) (base.BlockMap, error) {
	wr.mu.Lock()
	rec := &c11SaveRecord{
		Writer: wr.id, Proposal: wr.proposal.Fact().Hash(), Height: wr.proposal.Point().Height().Int64(),
		Manifest: wr.manifest, AVP: wr.avp, Begin: wr.env.seq.Add(1),
	}
	wr.mu.Unlock()

	wr.env.mu.Lock()
	wr.env.records = append(wr.env.records, rec)
	wr.env.mu.Unlock()

	wr.env.pause(wr.beh.GateSave)

	var err error

	switch {
	case wr.beh.SaveErr:
		err = errC11Writer
	case wr.beh.HonourCtx && ctx.Err() != nil:
		err = ctx.Err()
	}

	wr.env.mu.Lock()
	rec.End = wr.env.seq.Add(1)
	rec.Succeeded = err == nil
	wr.env.mu.Unlock()

	if err != nil {
		return nil, err
	}

	return base.DummyBlockMap{M: base.NewDummyManifest(base.Height(rec.Height), rec.Manifest)}, nil
}

func (*c11Writer) Cancel() error { return nil }

// ---- program

type c11Step struct {
	Op       string // process | save | cancel
	Lane     int
	Proposal int    // process: proposal to process (-1 = a fact hash nobody can deliver); save: proposal the ACCEPT majority voted for
	NewBlock string // save: match | other | of:<proposal idx>
	Ctx      string // process: bg | cancelled | (CancelProcess comes from the writer behaviour)
	Wait     bool   // process: wait for the result before the lane continues
	Yield    int
}

func (s c11Step) String() string {
	switch s.Op {
	case "process":
		return fmt.Sprintf("L%d:process(p%d,%s,wait=%v)", s.Lane, s.Proposal, s.Ctx, s.Wait)
	case "save":
		return fmt.Sprintf("L%d:save(p%d,%s)", s.Lane, s.Proposal, s.NewBlock)
	}

	return fmt.Sprintf("L%d:cancel", s.Lane)
}

// c11Queue is a concurrent phase whose schedule the harness owns: Process(Holder) is started and its writer pauses inside
// Manifest, so the call keeps the processors' lock; then every call of Calls is issued on its own goroutine, in this order,
// the next one only after the previous one is parked on the processors' lock (or has returned); then the holder is
// released and the queued calls run in the order they were queued (sync.Mutex wakes waiters first-in first-out).
type c11Queue struct {
	Holder int
	Calls  []c11Step
}

type c11Program struct {
	Lanes      int
	Steps      []c11Step
	Queue      *c11Queue // runs after Steps
	Behaviours []c11WriterBehaviour
}

func c11PropIdx(h, rd, v int) int { return ((h-1)*c11Rounds+rd)*c11Variants + v }

func c11GenProgram(t *rapid.T) c11Program {
	var p c11Program

	queued := rapid.IntRange(0, 9).Draw(t, "queued") < 4

	p.Lanes = rapid.SampledFrom([]int{1, 1, 2, 2, 3, 4}).Draw(t, "lanes")
	n := rapid.IntRange(2, 14).Draw(t, "nsteps")

	if queued { // a short history first, then the queued phase
		p.Lanes = 1 + p.Lanes/3
		n /= 3
	}

	cursor := rapid.IntRange(1, 3).Draw(t, "startHeight") // generator-side bias only: the height "consensus" is working on
	current := -1                                         // proposal most recently handed to Process

	clampH := func(h int) int {
		if h < 1 {
			return 1
		}

		if h > c11Heights {
			return c11Heights
		}

		return h
	}

	pickProposal := func(label string) int {
		h := cursor

		switch rapid.IntRange(0, 9).Draw(t, label+"H") {
		case 0:
			h = cursor - 1
		case 1:
			h = cursor + 1
		case 2:
			h = rapid.IntRange(1, c11Heights).Draw(t, label+"Hany")
		}

		return c11PropIdx(clampH(h), rapid.IntRange(0, c11Rounds-1).Draw(t, label+"R"), rapid.IntRange(0, c11Variants-1).Draw(t, label+"V"))
	}

	lane := func(label string, sticky int) int {
		if sticky >= 0 && rapid.IntRange(0, 3).Draw(t, label+"stick") != 0 {
			return sticky
		}

		return rapid.IntRange(0, p.Lanes-1).Draw(t, label+"lane")
	}

	process := func(label string, prop, ln int) c11Step {
		st := c11Step{Op: "process", Lane: ln, Proposal: prop, Yield: rapid.IntRange(0, 2).Draw(t, label+"y")}
		st.Ctx = rapid.SampledFrom([]string{"bg", "bg", "bg", "bg", "bg", "bg", "bg", "cancelled"}).Draw(t, label+"ctx")
		st.Wait = rapid.IntRange(0, 4).Draw(t, label+"wait") != 0

		if prop >= 0 {
			current = prop
		}

		return st
	}

	save := func(label string, prop, ln int, mismatchOdds int) c11Step {
		st := c11Step{Op: "save", Lane: ln, Proposal: prop, NewBlock: "match", Yield: rapid.IntRange(0, 2).Draw(t, label+"y")}

		switch k := rapid.IntRange(0, 19).Draw(t, label+"nb"); {
		case k < mismatchOdds:
			st.NewBlock = "other"
		case k < mismatchOdds+mismatchOdds/2+1:
			other := current
			if other < 0 || other == prop || rapid.Bool().Draw(t, label+"nbAny") {
				other = pickProposal(label + "n")
			}

			st.NewBlock = fmt.Sprintf("of:%d", other)
		}

		return st
	}

	noise := func(label string, sticky int) c11Step {
		ln := lane(label, sticky)

		switch k := rapid.IntRange(0, 9).Draw(t, label+"op"); {
		case k <= 2:
			prop := pickProposal(label)
			if rapid.IntRange(0, 9).Draw(t, label+"unknown") == 0 {
				prop = -1
			}

			return process(label, prop, ln)
		case k <= 6:
			prop := current
			if prop < 0 || rapid.IntRange(0, 3).Draw(t, label+"savefor") == 0 {
				prop = pickProposal(label + "o")
			}

			return save(label, prop, ln, 6)
		default:
			return c11Step{Op: "cancel", Lane: ln, Yield: rapid.IntRange(0, 2).Draw(t, label+"y")}
		}
	}

	for i := 0; len(p.Steps) < n; i++ {
		lb := fmt.Sprintf("e%d", i)

		if rapid.IntRange(0, 9).Draw(t, lb+"kind") >= 6 {
			p.Steps = append(p.Steps, noise(lb, -1))

			continue
		}

		// an episode: what consensus does for one height - process the proposal, then save it with the ACCEPT voteproof
		sticky := rapid.IntRange(0, p.Lanes-1).Draw(t, lb+"lane")
		prop := c11PropIdx(clampH(cursor), rapid.IntRange(0, c11Rounds-1).Draw(t, lb+"R"), rapid.IntRange(0, c11Variants-1).Draw(t, lb+"V"))

		p.Steps = append(p.Steps, process(lb+"p", prop, lane(lb+"p", sticky)))

		if rapid.IntRange(0, 4).Draw(t, lb+"mid") == 0 {
			p.Steps = append(p.Steps, noise(lb+"m", sticky))
		}

		p.Steps = append(p.Steps, save(lb+"s", prop, lane(lb+"s", sticky), 3))

		if rapid.IntRange(0, 3).Draw(t, lb+"again") == 0 {
			// the same height once more (same or another proposal of that height)
			prop2 := c11PropIdx(clampH(cursor), rapid.IntRange(0, c11Rounds-1).Draw(t, lb+"R2"), rapid.IntRange(0, c11Variants-1).Draw(t, lb+"V2"))

			if rapid.IntRange(0, 3).Draw(t, lb+"reproc") != 0 {
				p.Steps = append(p.Steps, process(lb+"p2", prop2, lane(lb+"p2", sticky)))
			} else {
				prop2 = prop
			}

			p.Steps = append(p.Steps, save(lb+"s2", prop2, lane(lb+"s2", sticky), 2))
		}

		if rapid.IntRange(0, 5).Draw(t, lb+"advance") != 0 && cursor < c11Heights {
			cursor++
		}
	}

	if queued {
		// the queued phase: what several handlers do for one height (the ACCEPT voteproof of the running proposal arrives,
		// the next round's proposal of the same height is handed over, its voteproof arrives, ...) while the processing
		// of the holder's proposal is still going on
		q := &c11Queue{Holder: c11PropIdx(clampH(cursor), rapid.IntRange(0, c11Rounds-1).Draw(t, "qR"), rapid.IntRange(0, c11Variants-1).Draw(t, "qV"))}
		current = q.Holder

		qn := rapid.IntRange(2, 5).Draw(t, "qn")

		plain := func(st c11Step) c11Step {
			st.Lane, st.Yield = 0, 0

			if st.Op == "process" {
				st.Wait = true
			}

			return st
		}

		for i := 0; len(q.Calls) < qn; i++ {
			lb := fmt.Sprintf("q%d", i)

			switch k := rapid.IntRange(0, 19).Draw(t, lb+"kind"); {
			case k < 9:
				q.Calls = append(q.Calls, plain(save(lb+"s", current, 0, 3)))
			case k < 17:
				prop := c11PropIdx(clampH(cursor), rapid.IntRange(0, c11Rounds-1).Draw(t, lb+"R"), rapid.IntRange(0, c11Variants-1).Draw(t, lb+"V"))
				q.Calls = append(q.Calls, plain(process(lb+"p", prop, 0)))

				if rapid.IntRange(0, 4).Draw(t, lb+"then") != 0 {
					q.Calls = append(q.Calls, plain(save(lb+"s", prop, 0, 3)))
				}
			default:
				q.Calls = append(q.Calls, plain(noise(lb+"n", 0)))
			}
		}

		p.Queue = q
	}

	nb := 0

	for _, s := range p.Steps {
		if s.Op == "process" {
			nb++
		}
	}

	if p.Queue != nil {
		nb++

		for _, s := range p.Queue.Calls {
			if s.Op == "process" {
				nb++
			}
		}
	}

	for i := 0; i < nb; i++ {
		lb := fmt.Sprintf("w%d", i)

		var b c11WriterBehaviour

		if rapid.IntRange(0, 3).Draw(t, lb+"plain") != 0 {
			p.Behaviours = append(p.Behaviours, b) // most writers just work
			continue
		}

		b.ManifestErr = rapid.IntRange(0, 7).Draw(t, lb+"merr") == 0
		b.SaveErr = rapid.IntRange(0, 5).Draw(t, lb+"serr") == 0
		b.HonourCtx = rapid.Bool().Draw(t, lb+"hctx")
		b.CancelProcess = rapid.IntRange(0, 4).Draw(t, lb+"cancelp") == 0

		if p.Lanes > 1 {
			b.GateManifest = rapid.IntRange(0, 3).Draw(t, lb+"gm")
			b.GateSave = rapid.IntRange(0, 3).Draw(t, lb+"gs")
		}

		p.Behaviours = append(p.Behaviours, b)
	}

	return p
}

func (p c11Program) fingerprint() string {
	var b strings.Builder
	fmt.Fprintf(&b, "lanes%d", p.Lanes)

	for _, s := range p.Steps {
		b.WriteString(" " + s.String())
	}

	if p.Queue != nil {
		fmt.Fprintf(&b, " | hold(p%d) queue[", p.Queue.Holder)

		for _, s := range p.Queue.Calls {
			b.WriteString(" " + s.String())
		}

		b.WriteString(" ] release")
	}

	for i, w := range p.Behaviours {
		if w != (c11WriterBehaviour{}) {
			fmt.Fprintf(&b, " w%d%+v", i, w)
		}
	}

	return b.String()
}

func c11Run(t ev.TB, r *ev.Rec, w *c11World, p c11Program) (classes []string, nontrivial bool) {
	env := &c11Env{w: w, behaviours: p.Behaviours, gate: make(chan struct{})}

	// the context of the Process call that is currently creating a writer (single slot is enough: Process holds the
	// processors' lock while the writer is created and used)
	var cancelSlot atomic.Value

	args := isaac.NewDefaultProposalProcessorArgs()
	args.MaxWorkerSize = 3
	args.GetStateFunc = func(string) (base.State, bool, error) { return nil, false, nil }
	args.GetOperationFunc = func(_ context.Context, oph, _ util.Hash) (base.Operation, error) {
		if op, ok := w.ops[oph.String()]; ok {
			return op, nil
		}

		return nil, isaac.ErrOperationNotFoundInProcessor.Errorf("unknown")
	}
	args.NewWriterFunc = func(pr base.ProposalSignFact, _ base.GetStateFunc) (isaac.BlockWriter, error) {
		var cancel func()
		if f, ok := cancelSlot.Load().(func()); ok {
			cancel = f
		}

		return env.newWriter(pr, cancel), nil
	}

	pps := isaac.NewProposalProcessors(
		func(pr base.ProposalSignFact, previous base.Manifest) (isaac.ProposalProcessor, error) {
			return isaac.NewDefaultProposalProcessor(pr, previous, args)
		},
		func(_ context.Context, _ base.Point, facthash util.Hash) (base.ProposalSignFact, error) {
			if q, ok := w.byHash[facthash.String()]; ok {
				return q.pr, nil
			}

			return nil, util.ErrNotFound.Errorf("proposal not found")
		},
	)
	pps.SetRetryLimit(1).SetRetryInterval(time.Microsecond)

	lanes := make([][]c11Step, p.Lanes)
	for _, s := range p.Steps {
		lanes[s.Lane] = append(lanes[s.Lane], s)
	}

	var panicked atomic.Value

	var latemu sync.Mutex
	var late []func()

	// returned (may be nil) is called as soon as the ProposalProcessors method itself has returned
	runStep := func(s c11Step, returned func()) {
		if returned == nil {
			returned = func() {}
		}

		for i := 0; i < s.Yield; i++ {
			runtime.Gosched()
		}

		env.steps.Add(1)

		switch s.Op {
		case "process":
			ctx, cancel := context.WithCancel(context.Background())

			if s.Wait {
				defer cancel()
			} else {
				// the handler's context outlives the call; released when the program is over
				latemu.Lock()
				late = append(late, cancel)
				latemu.Unlock()
			}

			if s.Ctx == "cancelled" {
				cancel()
			}

			facthash := w.unknown
			point := base.NewPoint(base.Height(1), base.Round(0))

			var ivp base.INITVoteproof

			if s.Proposal >= 0 {
				q := w.proposals[s.Proposal]
				facthash = q.pr.Fact().Hash()
				point = q.pr.Point()
				ivp = w.ivp(q)
			} else {
				ivp = w.ivp(w.proposals[0])
			}

			cancelSlot.Store(func() { cancel() })

			previous := base.NewDummyManifest(point.Height()-1, c11Hash(fmt.Sprintf("prev-%d", point.Height()-1)))

			f, err := pps.Process(ctx, point, facthash, previous, ivp)
			returned()

			if err == nil && f != nil && s.Wait {
				_, _ = f(context.Background())
			}
		case "save":
			q := w.proposals[s.Proposal]

			var nb util.Hash

			switch {
			case s.NewBlock == "match":
				nb = q.manifest
			case s.NewBlock == "other":
				nb = c11Hash("some-other-block-" + q.pr.Fact().Hash().String())
			default:
				var o int
				_, _ = fmt.Sscanf(s.NewBlock, "of:%d", &o)
				nb = w.proposals[o].manifest
			}

			avp := w.avp(q.pr.Point(), q.pr.Fact().Hash(), nb)

			call := &c11CallRecord{Step: s.String(), Height: avp.Point().Height().Int64()}

			env.mu.Lock()
			call.Begin = env.seq.Add(1)
			env.calls = append(env.calls, call)
			env.mu.Unlock()

			// exactly what voteproofHandler.saveBlock does
			_, err := pps.Save(context.Background(), avp.BallotMajority().Proposal(), avp)

			env.mu.Lock()
			call.End = env.seq.Add(1)
			call.OK = err == nil
			env.mu.Unlock()

			returned()
		default:
			_ = pps.Cancel()
			returned()
		}
	}

	var wg sync.WaitGroup

	for i := range lanes {
		wg.Add(1)

		go func(steps []c11Step) {
			defer wg.Done()
			defer func() {
				if x := recover(); x != nil {
					panicked.Store(fmt.Sprintf("%v", x))
				}
			}()

			for _, s := range steps {
				runStep(s, nil)
			}
		}(lanes[i])
	}

	wg.Wait()

	// ---- the queued phase
	held, confirmed := false, 0

	if q := p.Queue; q != nil {
		hp := w.proposals[q.Holder]

		// an earlier Process whose result nobody waited for may still be running (it keeps the processors' lock until it is
		// done, and creates its writer on the way): wait for it, so that the hold goes to the holder's writer and to no other
		_ = pps.Processor()

		env.armHold(hp.pr.Fact().Hash())

		hctx, hcancel := context.WithCancel(context.Background())
		cancelSlot.Store(func() { hcancel() })

		hpoint := hp.pr.Point()

		hf, herr := pps.Process(hctx, hpoint, hp.pr.Fact().Hash(),
			base.NewDummyManifest(hpoint.Height()-1, c11Hash(fmt.Sprintf("prev-%d", hpoint.Height()-1))), w.ivp(hp))

		// from here on the processors' lock is held by the holder until the gate opens (Process gives the lock back
		// only when the processing, which passes through the writer's Manifest, is over)
		held = herr == nil && hf != nil

		if !held {
			env.armHold(nil) // already the running proposal, or failed: nobody holds the lock; the calls just run
		}

		buf := c11StackBuf // rapid runs the cases of one process one after the other
		defer func() { c11StackBuf = buf }()

		var qwg sync.WaitGroup

		for _, s := range q.Calls {
			goid := make(chan string, 1)
			returned := make(chan struct{})

			qwg.Add(1)

			go func(s c11Step) {
				defer qwg.Done()
				defer func() {
					if x := recover(); x != nil {
						panicked.Store(fmt.Sprintf("%v", x))

						select {
						case <-returned:
						default:
							close(returned)
						}
					}
				}()

				goid <- c11GoID()

				runStep(s, func() { close(returned) })
			}(s)

			id := <-goid

			// the next call is issued only when this one is parked on the processors' lock or has returned. The grace
			// bounds the wait if the goroutine dump cannot be read; it affects only the schedule, never the verdict.
			deadline := time.Now().Add(2 * time.Second)

		waiting:
			for {
				select {
				case <-returned:
					confirmed++

					break waiting
				default:
				}

				switch {
				case c11ParkedOnProcessorsLock(id, &buf):
					confirmed++

					break waiting
				case time.Now().After(deadline):
					break waiting
				}

				runtime.Gosched()
			}
		}

		close(env.gate)

		if held {
			_, _ = hf(context.Background())
		}

		qwg.Wait()
		hcancel()
	}

	// a Process whose result nobody waited for may still be running: it holds the processors' lock until it is done
	_ = pps.Cancel()

	for _, f := range late {
		f()
	}

	if x := panicked.Load(); x != nil {
		t.Fatalf("harness: a lane panicked: %v; program %s", x, p.fingerprint())
	}

	// ---- oracle over the recorded writer Save calls
	env.mu.Lock()
	recs := append([]*c11SaveRecord(nil), env.records...)
	env.mu.Unlock()

	desc := func(rec *c11SaveRecord) string {
		m := "<none>"
		if rec.Manifest != nil {
			m = rec.Manifest.String()[:8]
		}

		a := "<no accept voteproof>"
		if rec.AVP != nil && rec.AVP.BallotMajority() != nil {
			a = fmt.Sprintf("accept majority{proposal %s new block %s} at %s",
				rec.AVP.BallotMajority().Proposal().String()[:8], rec.AVP.BallotMajority().NewBlock().String()[:8], rec.AVP.Point())
		}

		return fmt.Sprintf("writer#%d{proposal %s height %d manifest %s} saved with %s (ok=%v)", rec.Writer, rec.Proposal.String()[:8], rec.Height, m, a, rec.Succeeded)
	}

	for _, rec := range recs {
		switch {
		case rec.AVP == nil || rec.AVP.BallotMajority() == nil:
			r.Violation(t, "saved-without-majority", "block writer Save was called without a majority ACCEPT voteproof: %s; program %s", desc(rec), p.fingerprint())
		case rec.Manifest == nil:
			r.Violation(t, "saved-unprocessed", "block writer Save was called although the writer never produced a manifest: %s; program %s", desc(rec), p.fingerprint())
		case !rec.AVP.BallotMajority().NewBlock().Equal(rec.Manifest):
			r.Violation(t, "saved-mismatching-manifest", "block saved although the ACCEPT majority's new block differs from the computed manifest: %s; program %s", desc(rec), p.fingerprint())
		case !rec.AVP.BallotMajority().Proposal().Equal(rec.Proposal):
			r.Violation(t, "saved-wrong-proposal", "block saved for a proposal the ACCEPT majority did not vote for: %s; program %s", desc(rec), p.fingerprint())
		}
	}

	var ok []*c11SaveRecord

	for _, rec := range recs {
		if rec.Succeeded {
			ok = append(ok, rec)
		}
	}

	for i, a := range ok {
		for _, b := range ok[i+1:] {
			switch {
			case a.Height == b.Height:
				r.Violation(t, "two-blocks-one-height", "two blocks saved for height %d: %s AND %s; program %s", a.Height, desc(a), desc(b), p.fingerprint())
			case a.End < b.Begin && b.Height < a.Height:
				r.Violation(t, "saved-below-saved-height", "height %d saved after height %d: %s THEN %s; program %s", b.Height, a.Height, desc(a), desc(b), p.fingerprint())
			case b.End < a.Begin && a.Height < b.Height:
				r.Violation(t, "saved-below-saved-height", "height %d saved after height %d: %s THEN %s; program %s", a.Height, b.Height, desc(b), desc(a), p.fingerprint())
			}
		}
	}

	// what the callers of ProposalProcessors.Save were told: a nil error reports a saved block of the voteproof's height
	env.mu.Lock()
	calls := append([]*c11CallRecord(nil), env.calls...)
	env.mu.Unlock()

	var okcalls []*c11CallRecord

	for _, c := range calls {
		if c.OK {
			okcalls = append(okcalls, c)
		}
	}

	for i, a := range okcalls {
		for _, b := range okcalls[i+1:] {
			first, second := a, b
			if b.End < a.Begin {
				first, second = b, a
			}

			switch {
			case a.Height == b.Height:
				r.Violation(t, "two-saves-accepted-one-height", "two Save calls for height %d both returned without error: %s AND %s; program %s", a.Height, a.Step, b.Step, p.fingerprint())
			case first.End < second.Begin && second.Height < first.Height:
				r.Violation(t, "save-accepted-below-saved-height", "Save for height %d returned without error after Save for height %d had returned without error: %s THEN %s; program %s",
					second.Height, first.Height, first.Step, second.Step, p.fingerprint())
			}
		}
	}

	// ---- classification (from the program, not from the code under test)
	var mismatch, crossProposal, cancelStep, procCancelled bool

	saveLanes, cancelLanes := map[int]bool{}, map[int]bool{}
	matchSaves := map[int64]int{}

	for _, s := range p.Steps {
		switch s.Op {
		case "save":
			saveLanes[s.Lane] = true

			if s.NewBlock != "match" {
				mismatch = true
			}

			if strings.HasPrefix(s.NewBlock, "of:") {
				crossProposal = true
			}

			if s.NewBlock == "match" {
				matchSaves[w.proposals[s.Proposal].height]++
			}
		case "cancel":
			cancelStep = true
			cancelLanes[s.Lane] = true
		case "process":
			if s.Ctx == "cancelled" {
				procCancelled = true
			}
		}
	}

	repeated := false

	for _, n := range matchSaves {
		if n > 1 {
			repeated = true
		}
	}

	raced := false

	for l := range cancelLanes {
		for m := range saveLanes {
			if l != m {
				raced = true
			}
		}
	}

	for _, b := range p.Behaviours {
		if b.CancelProcess {
			procCancelled = true
		}
	}

	classes = append(classes, fmt.Sprintf("lanes:%d", p.Lanes), fmt.Sprintf("blocks-saved:%d", len(ok)))

	if mismatch {
		classes = append(classes, "save-with-mismatching-newblock")
	}

	if crossProposal {
		classes = append(classes, "save-with-other-proposals-manifest")
	}

	if repeated {
		classes = append(classes, "two-matching-saves-one-height")
	}

	if raced {
		classes = append(classes, "cancel-raced-with-save")
	}

	if cancelStep {
		classes = append(classes, "has-cancel")
	}

	if procCancelled {
		classes = append(classes, "process-context-cancelled")
	}

	if len(recs) > len(ok) {
		classes = append(classes, "writer-save-failed")
	}

	if len(recs) == 0 {
		classes = append(classes, "no-writer-save-at-all")
	}

	if q := p.Queue; q != nil {
		classes = append(classes, fmt.Sprintf("queued-phase:%d-calls", len(q.Calls)))

		if held {
			classes = append(classes, "queued-behind-running-process")
		}

		if confirmed == len(q.Calls) {
			classes = append(classes, "queue-order-confirmed")
		} else {
			classes = append(classes, "queue-order-unconfirmed")
		}

		hh := w.proposals[q.Holder].height
		qsaves, qprocs := 0, 0

		for _, s := range q.Calls {
			switch {
			case s.Op == "save" && s.NewBlock == "match" && w.proposals[s.Proposal].height == hh:
				qsaves++
			case s.Op == "process" && s.Proposal >= 0 && w.proposals[s.Proposal].height == hh:
				qprocs++
			}
		}

		if qsaves > 1 {
			classes = append(classes, "queued-two-matching-saves-one-height")
		}

		if qsaves > 1 && qprocs > 0 {
			classes = append(classes, "queued-save-process-save-one-height")
		}

		if held && len(q.Calls) > 1 {
			nontrivial = true
		}
	}

	nontrivial = nontrivial || mismatch || repeated || raced

	return classes, nontrivial
}

func TestC11(t *testing.T) {
	r := ev.Start(t, "C11")
	defer r.Finish()
	r.Rule("real ProposalProcessors + DefaultProposalProcessor over a recording stub BlockWriter; 20 signed proposals (heights 1..5 x rounds 0..1 x 2 variants, 0..2 operations); " +
		"programs of 2..14 steps {Process(proposal | undeliverable fact, context live/cancelled/cancelled inside the writer, wait or not), " +
		"Save(majority ACCEPT voteproof for a proposal with new block = its manifest | another hash | another proposal's manifest), Cancel} on 1..4 goroutines, " +
		"writers that fail/pause in Manifest/Save; 4 of 10 programs end with a queued phase whose schedule the harness owns: Process(holder) is kept running " +
		"(its writer waits inside Manifest on a channel, so the call keeps the processors' lock), 2..6 Save/Process/Cancel calls for the holder's height " +
		"(holder's and other proposals of that height, matching and mismatching voteproofs) are issued one per goroutine in the drawn order, each confirmed parked on the " +
		"processors' lock (goroutine dump) before the next is issued, then the holder is released and the calls run in queue order; " +
		"judged at every stub writer Save call and at the errors returned by ProposalProcessors.Save. " +
		"non-trivial: a Save whose new block mismatches, or two matching Saves for one height, or Cancel and Save on different goroutines, or >= 2 calls queued behind a running Process; " +
		"distinct by (lanes, steps, queue, writer behaviours)")
	r.Floor(100)
	r.Assume(
		"Save is called like voteproofHandler.saveBlock does: with a majority ACCEPT voteproof and its majority proposal fact hash; the voteproof's point is the voted proposal's point",
		"a block counts as saved when the block writer's Save returned without error; the manifest/fact conditions are checked on every writer Save call",
		"two saves are ordered only when one ended before the other began (stub sequence numbers); overlapping saves are only compared for equal height",
		"goroutine interleavings of the free-running lanes are sampled (gates inside the stub writer with a bounded grace), not enumerated",
		"ProposalProcessors.Save returning a nil error tells its caller (voteproofHandler.saveBlock) that the block of the voteproof's height is saved: two nil returns for one height, or a nil return for a height below one whose Save had already returned nil, are counted as two blocks for one height / a block below a saved height",
		"queued phase: sync.Mutex wakes parked waiters first-in first-out when nobody else competes for the lock, so calls confirmed parked one after the other run in that order after the release; whether a call is parked is read from runtime.Stack (state sync.Mutex.Lock/sync.RWMutex.Lock below a ProposalProcessors method); a 2 s grace bounds that wait and only affects the schedule (class queue-order-unconfirmed), never the verdict",
	)

	w := c11GetWorld()

	r.Checks(600, 24000)
	r.ShrinkTime(20 * time.Second)
	rapid.Check(t, func(rt *rapid.T) {
		p := c11GenProgram(rt)

		classes, nt := c11Run(rt, r, w, p)
		r.Case(p.fingerprint(), nt, classes...)

		if nt && r.WantSample() {
			steps := make([]string, len(p.Steps))
			for i := range p.Steps {
				steps[i] = p.Steps[i].String()
			}

			r.Sample(map[string]any{"lanes": p.Lanes, "steps": steps, "classes": classes})
		}
	})
}
