package p_isaacb

import (
	"bufio"
	"context"
	"encoding/json"
	"errors"
	"fmt"
	"os"
	"sort"
	"strings"
	"sync"
	"testing"
	"time"

	"github.com/spikeekips/mitum/base"
	"github.com/spikeekips/mitum/isaac"
	isaacblock "github.com/spikeekips/mitum/isaac/block"
	"github.com/spikeekips/mitum/util"
	"github.com/spikeekips/mitum/util/fixedtree"
	"github.com/spikeekips/mitum/util/valuehash"
	"pgregory.net/rapid"
	"verif/internal/ev"
)

// ---- world: valid suffrage-proof chains built once per process (signing dominates the cost)

const (
	c18ChainLen = 48 // main chain: suffrage heights 0..47 (cases use a prefix of 1..40)
	c18MaxN     = 40
)

type c18World struct {
	networkID base.NetworkID
	main      []base.SuffrageProof       // the remote's honest chain, suffrage height i at block height c18Block(i)
	foreign   []base.SuffrageProof       // another network history with the same heights, other nodes/hashes
	late      []base.SuffrageProof       // a foreign history whose suffrage height 0 lives at a non-genesis block
	fork      map[int]base.SuffrageProof // fork[k] links from main[k-1] but is not main[k] (k>=1)
	high      []base.SuffrageProof       // a foreign history that starts at genesis and whose suffrage changes rarely: suffrage height i>=1 at block c18HighBlock(i), above every block of main
	forkhigh  map[int]base.SuffrageProof // forkhigh[k] links from main[k-1] (suffrage height k) but lives at a block above every block of main (k>=1)
	orphan    map[int]base.SuffrageProof // orphan[k]: a valid proof of suffrage height k>=1 at block c18Block(k) whose state has no previous state hash
	cand      base.State                 // a candidates state
}

func c18Hash(s string) util.Hash { return valuehash.NewSHA256([]byte(s)) }

func c18Block(i int) base.Height { return base.Height(int64(i)*3 + int64(i%3)) } // strictly increasing, 0 for i=0

// c18HighBlock: block heights of the rarely-changing histories; for i>=1 above c18Block(c18ChainLen-1)
func c18HighBlock(i int) base.Height {
	if i < 1 {
		return base.GenesisHeight
	}

	return c18Block(c18ChainLen-1) + base.Height(int64(i)*200)
}

func c18Node(tag string, i int) base.LocalNode {
	priv, err := base.NewMPrivatekeyFromSeed(fmt.Sprintf("c18-%s-node-%03d-seed-long-enough-for-a-key", tag, i))
	if err != nil {
		panic(err)
	}

	return isaac.NewLocalNode(priv, base.NewStringAddress(fmt.Sprintf("%s%03d", tag, i)))
}

// c18Proof builds one IsValid suffrage proof: suffrage state (suffrage height sh, block height bh, previous state
// prev) inside a states tree, under a signed block map.
func c18Proof(
	tag string, networkID base.NetworkID, signer base.LocalNode, sh int, bh base.Height, prev base.State, nodes []base.LocalNode,
) base.SuffrageProof {
	sufnodes := make([]base.SuffrageNodeStateValue, len(nodes))
	for i := range nodes {
		sufnodes[i] = isaac.NewSuffrageNodeStateValue(nodes[i], bh)
	}

	var prevhash util.Hash
	if prev != nil {
		prevhash = prev.Hash()
	}

	st := base.NewBaseState(
		bh,
		isaac.SuffrageStateKey,
		isaac.NewSuffrageNodesStateValue(base.Height(int64(sh)), sufnodes),
		prevhash,
		[]util.Hash{c18Hash(fmt.Sprintf("%s-op-%d", tag, sh))},
	)

	// states tree of the block: 3 unrelated states + the suffrage state
	keys := []string{
		c18Hash(fmt.Sprintf("%s-st-a-%d", tag, sh)).String(),
		c18Hash(fmt.Sprintf("%s-st-b-%d", tag, sh)).String(),
		st.Hash().String(),
		c18Hash(fmt.Sprintf("%s-st-c-%d", tag, sh)).String(),
	}

	w, err := fixedtree.NewWriter(base.StateFixedtreeHint, uint64(len(keys)))
	if err != nil {
		panic(err)
	}

	for i := range keys {
		if err := w.Add(uint64(i), fixedtree.NewBaseNode(keys[i])); err != nil {
			panic(err)
		}
	}

	if err := w.Write(func(uint64, fixedtree.Node) error { return nil }); err != nil {
		panic(err)
	}

	tr, err := w.Tree()
	if err != nil {
		panic(err)
	}

	pf, err := tr.Proof(st.Hash().String())
	if err != nil {
		panic(err)
	}

	m := isaacblock.NewBlockMap()

	for _, it := range []base.BlockItemType{
		base.BlockItemProposal, base.BlockItemOperations, base.BlockItemOperationsTree,
		base.BlockItemStates, base.BlockItemStatesTree, base.BlockItemVoteproofs,
	} {
		if err := m.SetItem(isaacblock.NewBlockMapItem(it, fmt.Sprintf("chk-%s-%d-%s", tag, sh, it))); err != nil {
			panic(err)
		}
	}

	manifest := base.NewDummyManifest(bh, c18Hash(fmt.Sprintf("%s-manifest-%d", tag, sh)))
	manifest.SetPrevious(c18Hash(fmt.Sprintf("%s-manifest-%d", tag, sh-1)))
	manifest.SetStatesTree(tr.Root())

	if prevhash != nil {
		manifest.SetSuffrage(prevhash)
	}

	m.SetManifest(manifest)

	if err := m.Sign(signer.Address(), signer.Privatekey(), networkID); err != nil {
		panic(err)
	}

	return isaacblock.NewSuffrageProof(m, st, pf)
}

func c18Chain(tag string, networkID base.NetworkID, n int, blockOf func(int) base.Height) []base.SuffrageProof {
	signer := c18Node(tag, 0)
	all := make([]base.LocalNode, 6)

	for i := range all {
		all[i] = c18Node(tag, i)
	}

	out := make([]base.SuffrageProof, n)

	var prev base.State

	for i := 0; i < n; i++ {
		nodes := all[:1+i%len(all)] // membership changes at every suffrage height
		out[i] = c18Proof(tag, networkID, signer, i, blockOf(i), prev, nodes)
		prev = out[i].State()
	}

	return out
}

var (
	c18WorldOnce sync.Once
	c18W         *c18World
)

func c18GetWorld(t testing.TB) *c18World {
	c18WorldOnce.Do(func() {
		w := &c18World{networkID: base.NetworkID("c18-network"), fork: map[int]base.SuffrageProof{}, forkhigh: map[int]base.SuffrageProof{}, orphan: map[int]base.SuffrageProof{}}
		w.main = c18Chain("ma", w.networkID, c18ChainLen, c18Block)
		w.foreign = c18Chain("fo", w.networkID, c18ChainLen, c18Block)
		w.late = c18Chain("la", w.networkID, c18ChainLen, func(i int) base.Height { return c18Block(i) + 3 })
		w.high = c18Chain("hi", w.networkID, c18ChainLen, c18HighBlock)

		signer := c18Node("fk", 0)
		for k := 1; k < c18ChainLen; k++ {
			w.fork[k] = c18Proof("fk", w.networkID, signer, k, c18Block(k), w.main[k-1].State(),
				[]base.LocalNode{signer, c18Node("fk", 1+k%3)})
		}

		osigner := c18Node("or", 0)
		for k := 1; k < c18ChainLen; k++ {
			w.orphan[k] = c18Proof("or", w.networkID, osigner, k, c18Block(k), nil, []base.LocalNode{osigner, c18Node("or", 1+k%3)})
		}

		hsigner := c18Node("fh", 0)
		for k := 1; k < c18ChainLen; k++ {
			w.forkhigh[k] = c18Proof("fh", w.networkID, hsigner, k, c18HighBlock(k), w.main[k-1].State(),
				[]base.LocalNode{hsigner, c18Node("fh", 1+k%3)})
		}

		cv := isaac.NewSuffrageCandidatesStateValue([]base.SuffrageCandidateStateValue{
			isaac.NewSuffrageCandidateStateValue(c18Node("cd", 0), 5, 9),
		})
		w.cand = base.NewBaseState(3, isaac.SuffrageCandidateStateKey, cv, nil, []util.Hash{c18Hash("cand-op")})

		c18W = w
	})

	w := c18W

	// generator soundness: every proof a remote hands out passes IsValid (launch checks that before the builder sees it)
	check := func(name string, ps []base.SuffrageProof) {
		for i := range ps {
			if err := ps[i].IsValid(w.networkID); err != nil {
				t.Fatalf("harness: %s[%d] is not a valid proof: %+v", name, i, err)
			}
		}
	}

	check("main", w.main)
	check("foreign", w.foreign)
	check("late", w.late)
	check("high", w.high)

	for k := 1; k < c18ChainLen; k++ {
		if err := w.fork[k].IsValid(w.networkID); err != nil {
			t.Fatalf("harness: fork[%d] invalid: %+v", k, err)
		}

		if err := w.forkhigh[k].IsValid(w.networkID); err != nil {
			t.Fatalf("harness: forkhigh[%d] invalid: %+v", k, err)
		}

		if err := w.orphan[k].IsValid(w.networkID); err != nil {
			t.Fatalf("harness: orphan[%d] invalid: %+v", k, err)
		}

		// generator soundness: the "high" proofs sit above every block a local state can be at
		if w.high[k].State().Height() <= w.main[c18ChainLen-1].State().Height() ||
			w.forkhigh[k].State().Height() <= w.main[c18ChainLen-1].State().Height() {
			t.Fatalf("harness: high/forkhigh[%d] is not above the main chain", k)
		}
	}

	return w
}

// ---- case

type c18Ans struct {
	Kind string `json:"kind"` // main | foreign | late | fork | high | forkhigh | orphan | notfound | err | notupdated
	H    int    `json:"h"`    // suffrage height of the delivered proof
}

func (a c18Ans) String() string {
	switch a.Kind {
	case "notfound", "err", "notupdated":
		return a.Kind
	}

	return fmt.Sprintf("%s@%d", a.Kind, a.H)
}

type c18Case struct {
	N        int            `json:"n"`         // the honest remote chain has suffrage heights 0..N-1
	Local    int            `json:"local"`     // suffrage height of the local state (main chain); -1 = no local state
	Limit    int            `json:"limit"`     // batch limit
	Last     c18Ans         `json:"last"`      // answer to "last suffrage proof"
	ByHeight map[int]c18Ans `json:"by_height"` // answers that differ from the honest one, by requested height
	Cand     string         `json:"cand"`      // state | none | err
}

func (c c18Case) answer(h int) c18Ans {
	if a, ok := c.ByHeight[h]; ok {
		return a
	}

	if h < 0 || h >= c.N {
		return c18Ans{Kind: "notfound"}
	}

	return c18Ans{Kind: "main", H: h}
}

func (c c18Case) honest() bool {
	return len(c.ByHeight) == 0 && c.Last.Kind == "main" && c.Last.H == c.N-1
}

func (c c18Case) fingerprint() string {
	hs := make([]int, 0, len(c.ByHeight))
	for h := range c.ByHeight {
		hs = append(hs, h)
	}

	sort.Ints(hs)

	var b strings.Builder
	fmt.Fprintf(&b, "n%d l%d b%d last=%s c=%s", c.N, c.Local, c.Limit, c.Last, c.Cand)

	for _, h := range hs {
		fmt.Fprintf(&b, " %d:%s", h, c.ByHeight[h])
	}

	return b.String()
}

func (w *c18World) proofOf(a c18Ans) base.SuffrageProof {
	switch a.Kind {
	case "main":
		return w.main[a.H]
	case "foreign":
		return w.foreign[a.H]
	case "late":
		return w.late[a.H]
	case "fork":
		return w.fork[a.H]
	case "high":
		return w.high[a.H]
	case "forkhigh":
		return w.forkhigh[a.H]
	case "orphan":
		return w.orphan[a.H]
	}

	return nil
}

var errC18Remote = errors.New("c18: remote failed")

func c18GenAns(t *rapid.T, c *c18Case, requested int, label string) c18Ans {
	// heights of interest around the request, the local state and the end of the chain
	hs := []int{requested, requested - 1, requested + 1, c.Local, c.Local - 1, c.Local + 1, 0, c.N - 1, c.N, c.N + 1, requested - c.Limit, requested + c.Limit}
	hs = append(hs, rapid.IntRange(0, c18ChainLen-1).Draw(t, label+"H"))
	h := rapid.SampledFrom(hs).Draw(t, label+"Hsel")

	if h < 0 {
		h = 0
	}

	if h >= c18ChainLen {
		h = c18ChainLen - 1
	}

	switch k := rapid.IntRange(0, 14).Draw(t, label+"Kind"); {
	case k <= 3:
		return c18Ans{Kind: "main", H: h} // a proof of another (or the same) height of the honest chain
	case k == 4:
		return c18Ans{Kind: "foreign", H: requested} // right height, foreign chain
	case k == 5:
		return c18Ans{Kind: "foreign", H: h}
	case k == 6:
		return c18Ans{Kind: "late", H: h}
	case k == 7 || k == 8:
		if requested >= 1 && requested < c18ChainLen {
			return c18Ans{Kind: "fork", H: requested} // links from the honest predecessor, but is a different state
		}

		return c18Ans{Kind: "foreign", H: h}
	case k == 9:
		return c18Ans{Kind: "notfound"}
	case k == 10:
		return c18Ans{Kind: "err"}
	case k == 11:
		// a valid proof of suffrage height >= 1 whose state names no previous state at all
		switch {
		case requested >= 1 && requested < c18ChainLen:
			return c18Ans{Kind: "orphan", H: requested}
		case h >= 1:
			return c18Ans{Kind: "orphan", H: h}
		}

		return c18Ans{Kind: "late", H: 0}
	case k == 12:
		return c18Ans{Kind: "high", H: h} // foreign chain, block height above every local state
	case k == 13:
		if h >= 1 {
			return c18Ans{Kind: "forkhigh", H: h} // links from the honest predecessor of h, block height above every local state
		}

		return c18Ans{Kind: "high", H: 0}
	case k == 14:
		if requested >= 1 && requested < c18ChainLen {
			return c18Ans{Kind: "forkhigh", H: requested}
		}

		return c18Ans{Kind: "high", H: h}
	default:
		if h >= 1 {
			return c18Ans{Kind: "fork", H: h}
		}

		return c18Ans{Kind: "late", H: 0}
	}
}

// c18GenOutOfRangeLast: the remote's LAST proof is a valid proof of another history (foreign chain, or a fork of the
// local chain) that sits at a block above the local state while its suffrage height is below, at or just above the
// local suffrage height ("heights below the local state" + "foreign chains" of the statement, for the last-proof answer).
func c18GenOutOfRangeLast(t *rapid.T, c *c18Case) c18Ans {
	hs := []int{c.Local, c.Local, c.Local - 1, c.Local - 1, c.Local - 2, c.Local / 2, 0, 1, c.Local + 1, c.Local - c.Limit, c.Local - c.Limit - 1}
	hs = append(hs, rapid.IntRange(0, c.Local).Draw(t, "oorLastH"))
	h := rapid.SampledFrom(hs).Draw(t, "oorLastHsel")

	if h < 0 {
		h = 0
	}

	if h >= c18ChainLen {
		h = c18ChainLen - 1
	}

	kind := rapid.SampledFrom([]string{"high", "high", "forkhigh", "forkhigh", "late"}).Draw(t, "oorLastKind")
	if kind == "forkhigh" && h < 1 {
		kind = "high"
	}

	return c18Ans{Kind: kind, H: h}
}

func c18GenCase(t *rapid.T) c18Case {
	c := c18Case{ByHeight: map[int]c18Ans{}}

	c.N = rapid.IntRange(1, c18MaxN).Draw(t, "n")
	c.Limit = rapid.IntRange(1, 7).Draw(t, "limit")

	switch rapid.IntRange(0, 9).Draw(t, "localKind") {
	case 0, 1, 2:
		c.Local = -1
	case 3:
		c.Local = rapid.IntRange(c.N-1, c.N+2).Draw(t, "localAhead") // local is at or beyond the remote
	default:
		c.Local = rapid.IntRange(0, c.N-1).Draw(t, "local")
	}

	c.Last = c18Ans{Kind: "main", H: c.N - 1}
	c.Cand = rapid.SampledFrom([]string{"state", "state", "state", "none", "err"}).Draw(t, "cand")

	switch rapid.IntRange(0, 12).Draw(t, "mode") {
	case 0, 1: // honest remote
	case 11, 12: // out-of-range last proof against a local state at suffrage height 0..; by-height answers honest or off
		if c.Local < 0 {
			c.Local = rapid.IntRange(0, c.N+2).Draw(t, "oorLocal")
		}

		c.Last = c18GenOutOfRangeLast(t, &c)

		for i, k := 0, rapid.IntRange(0, 2).Draw(t, "oorNOff"); i < k; i++ {
			lo := c.Local + 1
			if lo > c.N-1 {
				lo = c.N - 1
			}

			h := rapid.IntRange(lo, c.N-1).Draw(t, fmt.Sprintf("oorOffAt%d", i))
			a := c18GenAns(t, &c, h, fmt.Sprintf("oorOff%d", i))

			if a.Kind == "main" && a.H == h {
				continue
			}

			c.ByHeight[h] = a
		}
	case 10: // from some height on the remote serves another, internally consistent history
		lo := c.Local + 1
		if lo > c.N-1 {
			lo = c.N - 1
		}

		if lo < 0 {
			lo = 0
		}

		k := rapid.IntRange(lo, c.N-1).Draw(t, "swapFrom")
		if rapid.Bool().Draw(t, "swapAtBatchStart") && c.Local+1 <= c.N-1 {
			// align with a batch boundary: the first proof of a batch is only checked against the previous batch
			k = c.Local + 1 + ((k-c.Local-1)/c.Limit)*c.Limit
		}

		kind := rapid.SampledFrom([]string{"foreign", "foreign", "late"}).Draw(t, "swapKind")
		for h := k; h <= c.N-1; h++ {
			c.ByHeight[h] = c18Ans{Kind: kind, H: h}
		}

		if rapid.IntRange(0, 3).Draw(t, "swapLast") != 0 {
			c.Last = c18Ans{Kind: kind, H: c.N - 1}
		}
	case 2: // only the last-proof answer is off
		switch rapid.IntRange(0, 3).Draw(t, "lastMode") {
		case 0:
			c.Last = c18Ans{Kind: "notupdated"}
		case 1:
			c.Last = c18Ans{Kind: "err"}
		default:
			c.Last = c18GenAns(t, &c, c.N-1, "last")
			if c.Last.Kind == "notfound" {
				c.Last = c18Ans{Kind: "notupdated"}
			}
		}
	default: // 1..4 off answers among the heights that can be requested
		k := rapid.IntRange(1, 4).Draw(t, "nOff")
		for i := 0; i < k; i++ {
			lo := c.Local + 1
			if lo > c.N-1 {
				lo = c.N - 1
			}

			h := rapid.IntRange(lo, c.N-1).Draw(t, fmt.Sprintf("offAt%d", i))
			a := c18GenAns(t, &c, h, fmt.Sprintf("off%d", i))

			if a.Kind == "main" && a.H == h {
				continue
			}

			c.ByHeight[h] = a
		}

		if rapid.IntRange(0, 5).Draw(t, "alsoLast") == 0 {
			c.Last = c18GenAns(t, &c, c.N-1, "last")
			if c.Last.Kind == "notfound" {
				c.Last = c18Ans{Kind: "notupdated"}
			}
		}
	}

	return c
}

// ---- oracle helpers (written from the statement; no call into the code under test)

func c18SufHeight(st base.State) int64 {
	if st == nil {
		return -1
	}

	v, err := base.LoadSuffrageNodesStateValue(st)
	if err != nil {
		return -2
	}

	return v.Height().Int64()
}

// c18Links: does proof p directly follow the suffrage state prev (nil = nothing before genesis)?
func c18Links(p base.SuffrageProof, prev base.State) (bool, string) {
	st := p.State()

	switch {
	case prev == nil:
		if c18SufHeight(st) != 0 {
			return false, fmt.Sprintf("first proof has suffrage height %d, want 0", c18SufHeight(st))
		}

		if st.Previous() != nil {
			return false, "genesis suffrage state has a previous state"
		}

		if st.Height() != base.GenesisHeight {
			return false, fmt.Sprintf("suffrage height 0 at block %d, want genesis", st.Height())
		}

		return true, ""
	case c18SufHeight(st) != c18SufHeight(prev)+1:
		return false, fmt.Sprintf("suffrage height %d after %d", c18SufHeight(st), c18SufHeight(prev))
	case st.Previous() == nil || !st.Previous().Equal(prev.Hash()):
		return false, fmt.Sprintf("suffrage height %d does not point to the previous state hash", c18SufHeight(st))
	case st.Height() <= prev.Height():
		return false, fmt.Sprintf("block height %d not above previous %d", st.Height(), prev.Height())
	}

	return true, ""
}

func c18Desc(ps []base.SuffrageProof) string {
	var b strings.Builder

	for i, p := range ps {
		if i > 0 {
			b.WriteString(",")
		}

		if p == nil {
			b.WriteString("nil")

			continue
		}

		fmt.Fprintf(&b, "%d", c18SufHeight(p.State()))
	}

	return "[" + b.String() + "]"
}

type c18Delivery struct {
	Requested int64
	Ans       c18Ans
}

// c18Run executes one case against the real builder and judges the outcome.
func c18Run(t ev.TB, r *ev.Rec, w *c18World, c c18Case) (classes []string, nontrivial bool) {
	var local base.State
	if c.Local >= 0 {
		local = w.main[c.Local].State()
	}

	var mu sync.Mutex
	var delivered []c18Delivery

	var lastProof base.SuffrageProof
	if p := w.proofOf(c.Last); p != nil {
		lastProof = p
	}

	reportedHeight := base.Height(777)

	b := isaac.NewSuffrageStateBuilder(
		w.networkID,
		func(context.Context) (base.Height, base.SuffrageProof, bool, error) {
			switch c.Last.Kind {
			case "err":
				return base.NilHeight, nil, false, errC18Remote
			case "notupdated":
				return reportedHeight, nil, false, nil
			}

			return reportedHeight, lastProof, true, nil
		},
		func(_ context.Context, h base.Height) (base.SuffrageProof, bool, error) {
			a := c.answer(int(h.Int64()))

			mu.Lock()
			delivered = append(delivered, c18Delivery{Requested: h.Int64(), Ans: a})
			mu.Unlock()

			switch a.Kind {
			case "err":
				return nil, false, errC18Remote
			case "notfound":
				return nil, false, nil
			}

			return w.proofOf(a), true, nil
		},
		func(context.Context) (base.State, bool, error) {
			switch c.Cand {
			case "err":
				return nil, false, errC18Remote
			case "none":
				return nil, false, nil
			}

			return w.cand, true, nil
		},
	)
	b.SetBatchLimit(int64(c.Limit))

	var proofs []base.SuffrageProof
	var err error
	var panicked bool

	func() {
		defer func() {
			if x := recover(); x != nil {
				if ev.IsRapidUnwind(x) {
					panic(x)
				}

				panicked = true

				// "No response from a remote, however malformed or out-of-range, can make it panic"
				r.Violation(t, "panic-in-caller", "Build panicked: %v; case %s", x, c.fingerprint())
			}
		}()

		_, proofs, _, err = b.Build(context.Background(), local)
	}()

	if panicked { // only reached when the panic is a recorded known finding
		return []string{"result:panic"}, true
	}

	// ---- classification
	span := c.N - 1 - c.Local
	classes = append(classes, "last:"+c.Last.Kind)

	if c.Local < 0 {
		classes = append(classes, "local:nil")
	} else {
		classes = append(classes, "local:state")
	}

	if span > c.Limit {
		classes = append(classes, "multi-batch")
	}

	if lastProof != nil && local != nil && lastProof.State().Height() > local.Height() {
		switch lh := c18SufHeight(lastProof.State()); {
		case lh < int64(c.Local):
			classes = append(classes, "last:block-above-local-suffrage-below-local")
		case lh == int64(c.Local):
			classes = append(classes, "last:block-above-local-suffrage-equal-local")
		}
	}

	kinds := map[string]bool{}

	for h, a := range c.ByHeight {
		k := a.Kind

		switch {
		case a.Kind == "main" && a.H <= c.Local:
			k = "main-below-local"
		case a.Kind == "main" && a.H >= c.N:
			k = "main-above-last"
		case a.Kind == "main" && (a.H == h-1 || a.H == h+1):
			k = "main-neighbour"
		case a.Kind == "main":
			k = "main-other-height"
		case a.Kind == "fork" && a.H == h:
			k = "fork-at-height"
		case a.Kind == "foreign" && a.H == h:
			k = "foreign-at-height"
		}

		kinds[k] = true
	}

	if len(c.ByHeight) > 4 {
		classes = append(classes, "swapped-suffix")
	}

	for k := range kinds {
		classes = append(classes, "off:"+k)
	}

	if c.honest() {
		classes = append(classes, "honest")
	}

	nontrivial = !c.honest() || span > c.Limit

	if err != nil {
		classes = append(classes, "result:error")

		// two-sided part: an honest remote that is ahead of the local state must be accepted
		if c.honest() && c.Cand != "err" {
			r.Violation(t, "honest-remote-rejected", "Build failed against an honest remote: %v; case %s", err, c.fingerprint())
		}

		return classes, nontrivial
	}

	if len(proofs) < 1 {
		classes = append(classes, "result:nothing-new")

		if c.honest() && c.N-1 > c.Local {
			r.Violation(t, "honest-remote-ignored", "Build returned no proofs although the honest remote is ahead (last %d, local %d); case %s",
				c.N-1, c.Local, c.fingerprint())
		}

		return classes, nontrivial
	}

	classes = append(classes, "result:proofs")

	if !c.honest() {
		classes = append(classes, "result:proofs-from-dishonest-remote")
	}

	// A. what the remote delivered for the requested heights, arranged by the proofs' own suffrage heights, must be a
	//    gap-free linked chain local -> last proof; otherwise success is an acceptance of unlinked proofs.
	lastH := c18SufHeight(lastProof.State())
	byOwn := map[int64][]base.SuffrageProof{}

	for _, d := range delivered {
		if p := w.proofOf(d.Ans); p != nil {
			h := c18SufHeight(p.State())
			byOwn[h] = append(byOwn[h], p)
		}
	}

	prev := local

	for h := int64(c.Local) + 1; h <= lastH; h++ {
		ps := byOwn[h]

		if len(ps) < 1 {
			r.Violation(t, "gap-accepted", "Build succeeded although no proof of suffrage height %d was delivered (local %d, last %d); returned %s; case %s",
				h, c.Local, lastH, c18Desc(proofs), c.fingerprint())

			return classes, nontrivial
		}

		// duplicates of one height: all must be the same state, otherwise the chain is ambiguous
		for _, p := range ps[1:] {
			if !p.State().Hash().Equal(ps[0].State().Hash()) {
				r.Violation(t, "conflicting-proofs-accepted", "Build succeeded with two different proofs of suffrage height %d; case %s", h, c.fingerprint())

				return classes, nontrivial
			}
		}

		if ok, why := c18Links(ps[0], prev); !ok {
			r.Violation(t, "unlinked-proof-accepted", "Build succeeded although the delivered proof of suffrage height %d does not link: %s; returned %s; case %s",
				h, why, c18Desc(proofs), c.fingerprint())

			return classes, nontrivial
		}

		prev = ps[0].State()
	}

	if lastH <= int64(c.Local) || prev == nil || !prev.Hash().Equal(lastProof.State().Hash()) {
		r.Violation(t, "last-proof-unlinked", "Build succeeded although the remote's last proof (suffrage height %d) is not the end of the delivered chain (local %d); returned %s; case %s",
			lastH, c.Local, c18Desc(proofs), c.fingerprint())

		return classes, nontrivial
	}

	// B. the returned slice itself: gap-free chain from the local state to the remote's last proof
	for i, p := range proofs {
		if p == nil {
			r.Violation(t, "nil-proof-returned", "Build returned a nil proof at index %d: %s; case %s", i, c18Desc(proofs), c.fingerprint())

			return classes, nontrivial
		}
	}

	if !proofs[len(proofs)-1].State().Hash().Equal(lastProof.State().Hash()) {
		r.Violation(t, "returned-chain-wrong-end", "the returned chain %s does not end in the remote's last proof (%d); case %s",
			c18Desc(proofs), lastH, c.fingerprint())

		return classes, nontrivial
	}

	// a proof repeated verbatim is not a gap; skip exact repetitions of the previous element
	var chain []base.SuffrageProof

	for _, p := range proofs {
		if len(chain) > 0 && chain[len(chain)-1].State().Hash().Equal(p.State().Hash()) {
			classes = append(classes, "returned:repeated-proof")

			continue
		}

		chain = append(chain, p)
	}

	for i := 1; i < len(chain); i++ {
		if ok, why := c18Links(chain[i], chain[i-1].State()); !ok {
			r.Violation(t, "returned-chain-unlinked", "returned chain %s is not linked at index %d: %s; case %s", c18Desc(proofs), i, why, c.fingerprint())

			return classes, nontrivial
		}
	}

	if ok, why := c18Links(chain[0], local); !ok {
		r.Violation(t, "returned-chain-not-from-local", "the returned chain %s does not start at the local state (suffrage height %d): %s; batch limit %d; case %s",
			c18Desc(proofs), c.Local, why, c.Limit, c.fingerprint())

		return classes, nontrivial
	}

	return classes, nontrivial
}

// c18ReplayCases reads every "C18CASE {json}" line of a journal (the driver keeps the last 50 lines). All of them
// are replayed in order, because a worker goroutine of an earlier failed Build may be the one that panics.
func c18ReplayCases(path string) (cs []c18Case, _ error) {
	f, err := os.Open(path)
	if err != nil {
		return nil, err
	}
	defer f.Close()

	sc := bufio.NewScanner(f)
	sc.Buffer(make([]byte, 1<<20), 1<<20)

	for sc.Scan() {
		line := sc.Text()
		if i := strings.Index(line, "C18CASE "); i >= 0 {
			var x c18Case
			if err := json.Unmarshal([]byte(line[i+len("C18CASE "):]), &x); err == nil {
				if x.ByHeight == nil {
					x.ByHeight = map[int]c18Ans{}
				}

				cs = append(cs, x)
			}
		}
	}

	return cs, nil
}

func TestC18(t *testing.T) {
	r := ev.Start(t, "C18")
	defer r.Finish()
	r.Rule("remote = honest chain of 1..40 valid suffrage proofs (signed block maps, states trees); local state nil or at any height (also at/after the remote's end); " +
		"batch limit 1..7; per requested height the remote answers honestly or with: another height of the same chain (below local, neighbour, above last, other), " +
		"a foreign chain (same/other height), a foreign chain whose height 0 is not at genesis, a fork that links from the honest predecessor, not-found, error; " +
		"a foreign chain and a fork of the local chain whose blocks lie above every local block (suffrage changes rarely); " +
		"last-proof answer honest / not-updated / error / inconsistent with the by-height answers / out of range: a valid proof at a block above the local state " +
		"whose suffrage height is below, at or just above the local suffrage height (grid over local 0..n-1 plus drawn). " +
		"non-trivial: any dishonest answer, or more heights to fetch than the batch limit; distinct by (n, local, limit, all answers)")
	r.Floor(100)
	r.Assume(
		"every proof a remote delivers passes SuffrageProof.IsValid (launch validates before the builder sees it); found=true always comes with a proof",
		"the local state is a suffrage state of the honest chain",
		"a panic in a job-worker goroutine kills the test binary; the driver reports that as the violation (panic_is_violation) with the case journal as replay",
		"a proof repeated verbatim in the returned slice is not counted as a gap",
	)

	w := c18GetWorld(t)

	if p := os.Getenv("VERIF_REPLAY"); p != "" {
		cs, err := c18ReplayCases(p)
		if err != nil || len(cs) < 1 {
			t.Fatalf("replay: no C18CASE line in %s (%v)", p, err)
		}

		for _, c := range cs {
			b, _ := json.Marshal(c)
			r.Journal("C18CASE %s", b)
			t.Logf("replaying %s", c.fingerprint())

			classes, nt := c18Run(t, r, w, c)
			r.Case(c.fingerprint(), nt, classes...)
		}

		time.Sleep(50 * time.Millisecond) // let straggling worker goroutines of a failed Build finish (or panic)

		return
	}

	// ---- A. the in-tree scenarios plus every (local, limit) for an honest remote: deterministic
	t.Run("honest-grid", func(t *testing.T) {
		i := 0

		for _, n := range []int{1, 2, 3, 7, 14, 40} {
			for limit := 1; limit <= 7; limit++ {
				for local := -1; local < n; local++ {
					i++
					if !r.Mine(i) {
						continue
					}

					c := c18Case{N: n, Local: local, Limit: limit, Last: c18Ans{Kind: "main", H: n - 1}, Cand: "state", ByHeight: map[int]c18Ans{}}
					b, _ := json.Marshal(c)
					r.Journal("C18CASE %s", b)

					classes, nt := c18Run(t, r, w, c)
					r.Case(c.fingerprint(), nt, classes...)
				}
			}
		}
	})

	if t.Failed() {
		return
	}

	// ---- A2. out-of-range last proof, deterministic: local state at every suffrage height 0..n-1, the remote's last
	// proof is a valid proof of a foreign chain / of a fork of the local chain at a block above the local state, with a
	// suffrage height below, at and just above the local one; by-height answers honest
	t.Run("out-of-range-last-grid", func(t *testing.T) {
		i := 0

		for _, n := range []int{2, 3, 7, 14} {
			for _, limit := range []int{1, 3, 7} {
				for local := 0; local < n; local++ {
					seen := map[int]bool{}

					for _, h := range []int{0, 1, local / 2, local - limit, local - 2, local - 1, local, local + 1} {
						if h < 0 || seen[h] {
							continue
						}

						seen[h] = true

						for _, kind := range []string{"high", "forkhigh"} {
							if kind == "forkhigh" && h < 1 {
								continue
							}

							i++
							if !r.Mine(i) {
								continue
							}

							c := c18Case{N: n, Local: local, Limit: limit, Last: c18Ans{Kind: kind, H: h}, Cand: "state", ByHeight: map[int]c18Ans{}}
							b, _ := json.Marshal(c)
							r.Journal("C18CASE %s", b)

							classes, nt := c18Run(t, r, w, c)
							r.Case(c.fingerprint(), nt, classes...)
						}
					}
				}
			}
		}
	})

	if t.Failed() {
		return
	}

	// ---- B. drawn remotes
	r.Checks(3000, 160000)
	rapid.Check(t, func(rt *rapid.T) {
		c := c18GenCase(rt)

		b, _ := json.Marshal(c)
		r.Journal("C18CASE %s", b)

		classes, nt := c18Run(rt, r, w, c)
		r.Case(c.fingerprint(), nt, classes...)

		if nt && r.WantSample() {
			r.Sample(map[string]any{"case": c, "classes": classes})
		}
	})
}
